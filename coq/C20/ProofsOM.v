(* C20 — OrderedMap refines the insertion-ordered association list, for all op sequences. *)
From Coq Require Import List String ZArith Bool Arith Lia.
From V.C20 Require Import Model Spec Abs.
Import ListNotations.
Local Open Scope list_scope.

Definition keys (l : alist) : list string := map fst l.
Definition vals (l : alist) : list Z := map snd l.

Fixpoint index_of (k : string) (l : list string) : option nat :=
  match l with
  | [] => None
  | x :: r => if String.eqb x k then Some 0 else option_map S (index_of k r)
  end.

(* ------------------------------------------------------------------ index_of *)
Lemma index_of_none : forall k l, index_of k l = None <-> ~ In k l.
Proof.
  induction l as [|x r IH]; simpl.
  - split; auto.
  - destruct (String.eqb_spec x k).
    + split; [discriminate | intros H; exfalso; apply H; auto].
    + destruct (index_of k r); simpl.
      * split; [discriminate|]. intros H. exfalso. apply H. right. apply Decidable.not_not.
        { unfold Decidable.decidable. destruct (in_dec string_dec k r); auto. }
        intro H1. apply IH in H1. discriminate.
      * split; auto. intros _ [H|H]; [congruence|]. apply (proj1 IH); auto.
Qed.

Lemma index_of_some : forall k l i, index_of k l = Some i -> nth_error l i = Some k.
Proof.
  induction l as [|x r IH]; simpl; intros i H; [discriminate|].
  destruct (String.eqb_spec x k).
  - inversion H; subst; reflexivity.
  - destruct (index_of k r) eqn:E; simpl in H; [|discriminate].
    inversion H; subst. simpl. apply IH; reflexivity.
Qed.

Lemma index_of_lt : forall k l i, index_of k l = Some i -> i < List.length l.
Proof.
  intros k l i H. apply index_of_some in H. apply nth_error_Some. congruence.
Qed.

Lemma index_of_nodup : forall k l i, NoDup l -> nth_error l i = Some k -> index_of k l = Some i.
Proof.
  induction l as [|x r IH]; intros i ND H.
  - destruct i; discriminate.
  - inversion ND; subst. destruct i; simpl in *.
    + inversion H; subst. rewrite String.eqb_refl. reflexivity.
    + destruct (String.eqb_spec x k).
      * subst. exfalso. apply H2. eapply nth_error_In; eauto.
      * rewrite (IH i H3 H). reflexivity.
Qed.

Lemma index_of_app : forall k l k',
  index_of k' (l ++ [k]) =
  match index_of k' l with
  | Some i => Some i
  | None => if String.eqb k k' then Some (List.length l) else None
  end.
Proof.
  induction l as [|x r IH]; intros k'; simpl.
  - destruct (String.eqb k k'); reflexivity.
  - destruct (String.eqb x k'); [reflexivity|].
    rewrite IH. destruct (index_of k' r); simpl; [reflexivity|].
    destruct (String.eqb k k'); reflexivity.
Qed.

(* ------------------------------------------------------------------ representation *)
Record Rep (l : alist) (m : om) : Prop := {
  rep_nodup : NoDup (keys l);
  rep_data : data m = vals l;
  rep_name : forall i, nget (nameMap m) i = nth_error (keys l) i;
  rep_index : forall k, sget (indexMap m) k = index_of k (keys l) }.

Lemma rep_new : Rep [] om_new.
Proof.
  constructor; simpl; auto.
  - constructor.
  - intros i; destruct i; reflexivity.
Qed.

Lemma keys_len : forall l, List.length (keys l) = List.length l.
Proof. intros; apply map_length. Qed.
Lemma vals_len : forall l, List.length (vals l) = List.length l.
Proof. intros; apply map_length. Qed.

(* ------------------------------------------------------------------ Set *)
Lemma a_mem_index : forall k l,
  a_mem k l = match index_of k (keys l) with Some _ => true | None => false end.
Proof.
  unfold a_mem. induction l as [|[k0 v0] r IH]; simpl; [reflexivity|].
  destruct (String.eqb k0 k); simpl; [reflexivity|].
  rewrite IH. destruct (index_of k (keys r)); reflexivity.
Qed.

Lemma map_upd_notin : forall k v (l : alist), ~ In k (keys l) ->
  map (fun kv : string * Z => if String.eqb (fst kv) k then (k, v) else kv) l = l.
Proof.
  induction l as [|[k0 v0] r IH]; simpl; intros H; [reflexivity|].
  destruct (String.eqb_spec k0 k).
  - exfalso; apply H; auto.
  - rewrite IH; auto.
Qed.

Lemma keys_map_upd : forall k v (l : alist),
  keys (map (fun kv : string * Z => if String.eqb (fst kv) k then (k, v) else kv) l) = keys l.
Proof.
  induction l as [|[k0 v0] r IH]; simpl; [reflexivity|].
  destruct (String.eqb_spec k0 k); simpl; rewrite IH; congruence.
Qed.

Lemma vals_map_upd : forall k v (l : alist) idx, NoDup (keys l) ->
  index_of k (keys l) = Some idx ->
  vals (map (fun kv : string * Z => if String.eqb (fst kv) k then (k, v) else kv) l)
  = set_nth idx v (vals l).
Proof.
  induction l as [|[k0 v0] r IH]; simpl; intros idx ND H; [discriminate|].
  inversion ND; subst.
  destruct (String.eqb_spec k0 k).
  - inversion H; subst. simpl. rewrite map_upd_notin; auto.
  - destruct (index_of k (keys r)) eqn:E; simpl in H; [|discriminate].
    inversion H; subst. simpl. f_equal. apply IH; auto.
Qed.

Lemma set_nth_len : forall i v l, List.length (set_nth i v l) = List.length l.
Proof. induction i; destruct l; simpl; auto. Qed.

Lemma rep_set : forall k v l m, Rep l m -> Rep (a_set k v l) (om_set k v m).
Proof.
  intros k v l m [ND D N I]. unfold om_set, a_set. rewrite I, a_mem_index.
  destruct (index_of k (keys l)) as [idx|] eqn:E.
  - assert (L : idx < List.length (data m)).
    { rewrite D, vals_len, <- keys_len. eapply index_of_lt; eauto. }
    destruct (nth_error (data m) idx) eqn:E2; [|apply nth_error_None in E2; lia].
    constructor; simpl.
    + rewrite keys_map_upd; auto.
    + rewrite D. symmetry. apply vals_map_upd; auto.
    + intros i. rewrite keys_map_upd. apply N.
    + intros k'. rewrite keys_map_upd. apply I.
  - apply index_of_none in E.
    constructor; simpl.
    + unfold keys. rewrite map_app. simpl. apply NoDup_rev in ND.
      rewrite <- (rev_involutive (map fst l ++ [k])). apply NoDup_rev.
      rewrite rev_app_distr. simpl. constructor; auto.
      rewrite <- in_rev. exact E.
    + rewrite D. unfold vals. rewrite map_app. reflexivity.
    + intros i. unfold keys. rewrite map_app. simpl.
      rewrite D, vals_len, <- keys_len.
      destruct (Nat.eqb_spec (List.length (keys l)) i).
      * subst. unfold keys. rewrite nth_error_app2 by lia. rewrite Nat.sub_diag. reflexivity.
      * rewrite N. destruct (Nat.lt_ge_cases i (List.length (keys l))).
        -- unfold keys in *. rewrite nth_error_app1 by lia. reflexivity.
        -- unfold keys in *. rewrite nth_error_app2 by lia.
           replace (nth_error (map fst l) i) with (@None string) by (symmetry; apply nth_error_None; lia).
           destruct (i - List.length (map fst l)) eqn:E3; [lia|]. simpl. destruct n0; reflexivity.
    + intros k'. unfold keys. rewrite map_app. simpl. rewrite (index_of_app k (map fst l) k').
      fold (keys l). rewrite <- I. rewrite D, vals_len, <- keys_len.
      destruct (String.eqb_spec k k').
      * subst. rewrite I. apply index_of_none in E. rewrite E. reflexivity.
      * destruct (sget (indexMap m) k'); reflexivity.
Qed.

(* ------------------------------------------------------------------ Get *)
Lemma a_get_index : forall k l,
  a_get k l = match index_of k (keys l) with Some i => nth_error (vals l) i | None => None end.
Proof.
  unfold a_get. induction l as [|[k0 v0] r IH]; simpl; [reflexivity|].
  destruct (String.eqb k0 k); simpl; [reflexivity|].
  rewrite IH. destruct (index_of k (keys r)); reflexivity.
Qed.

Lemma rep_get : forall k l m, Rep l m -> om_get k m = a_get k l.
Proof.
  intros k l m [ND D N I]. unfold om_get. rewrite a_get_index, I, D. reflexivity.
Qed.

(* ------------------------------------------------------------------ Delete *)
Record RepA (l : alist) (a : om) : Prop := {
  ra_data : data a = vals l;
  ra_name : forall i, nget (nameMap a) i = nth_error (keys l) i;
  ra_index : forall k, sget (indexMap a) k = index_of k (keys l) }.

Lemma a_delete_app : forall k l1 l2, a_delete k (l1 ++ l2) = a_delete k l1 ++ a_delete k l2.
Proof. intros; unfold a_delete; apply filter_app. Qed.

Lemma keys_delete_sub : forall k x l, In x (keys (a_delete k l)) -> In x (keys l).
Proof.
  intros k x l H. unfold keys, a_delete in *. apply in_map_iff in H.
  destruct H as [kv [H1 H2]]. apply filter_In in H2. apply in_map_iff. exists kv; tauto.
Qed.

Lemma repA_push : forall l a k z, RepA l a -> ~ In k (keys l) ->
  RepA (l ++ [(k, z)])
       {| data := data a ++ [z];
          indexMap := sput (indexMap a) k (List.length (data a));
          nameMap := nput (nameMap a) (List.length (data a)) k |}.
Proof.
  intros l a k z [D N I] NI. constructor; simpl.
  - rewrite D. unfold vals. rewrite map_app. reflexivity.
  - intros i. unfold keys. rewrite map_app. simpl. rewrite D, vals_len, <- keys_len.
    destruct (Nat.eqb_spec (List.length (keys l)) i).
    + subst. unfold keys. rewrite nth_error_app2 by lia. rewrite Nat.sub_diag. reflexivity.
    + rewrite N. destruct (Nat.lt_ge_cases i (List.length (keys l))).
      * unfold keys in *. rewrite nth_error_app1 by lia. reflexivity.
      * unfold keys in *. rewrite nth_error_app2 by lia.
        replace (nth_error (map fst l) i) with (@None string) by (symmetry; apply nth_error_None; lia).
        destruct (i - List.length (map fst l)) eqn:E3; [lia|]. simpl. destruct n0; reflexivity.
  - intros k'. unfold keys. rewrite map_app. simpl. rewrite (index_of_app k (map fst l) k').
    fold (keys l). rewrite <- I. rewrite D, vals_len, <- keys_len.
    destruct (String.eqb_spec k k').
    + subst. rewrite I. apply index_of_none in NI. rewrite NI. reflexivity.
    + destruct (sget (indexMap a) k'); reflexivity.
Qed.

Lemma del_loop_spec : forall key nm lsuf lpre a,
  (forall j, nget nm (List.length lpre + j) = nth_error (keys lsuf) j) ->
  NoDup (keys (lpre ++ lsuf)) ->
  RepA (a_delete key lpre) a ->
  RepA (a_delete key (lpre ++ lsuf)) (del_loop key nm (List.length lpre) (vals lsuf) a).
Proof.
  induction lsuf as [|[k z] r IH]; intros lpre a HN ND RA.
  - simpl. rewrite app_nil_r. exact RA.
  - simpl. pose proof (HN 0) as H0. rewrite Nat.add_0_r in H0. simpl in H0. rewrite H0.
    assert (HN' : forall j, nget nm (List.length (lpre ++ [(k, z)]) + j) = nth_error (keys r) j).
    { intros j. rewrite app_length. simpl. specialize (HN (S j)).
      replace (List.length lpre + 1 + j) with (List.length lpre + S j) by lia. exact HN. }
    assert (ND' : NoDup (keys ((lpre ++ [(k, z)]) ++ r))).
    { rewrite <- app_assoc. exact ND. }
    replace (S (List.length lpre)) with (List.length (lpre ++ [(k, z)])) by (rewrite app_length; simpl; lia).
    replace (lpre ++ (k, z) :: r) with ((lpre ++ [(k, z)]) ++ r) by (rewrite <- app_assoc; reflexivity).
    destruct (String.eqb_spec k key).
    + apply IH; auto. rewrite a_delete_app. simpl. subst. rewrite String.eqb_refl. simpl.
      rewrite app_nil_r. exact RA.
    + apply IH; auto. rewrite a_delete_app. simpl.
      destruct (String.eqb_spec k key); [contradiction|]. simpl.
      apply repA_push; auto.
      intros HI. apply keys_delete_sub in HI.
      unfold keys in ND. rewrite map_app in ND. simpl in ND.
      apply NoDup_remove_2 in ND. apply ND. apply in_or_app. left. exact HI.
Qed.

Lemma a_delete_notin : forall k l, ~ In k (keys l) -> a_delete k l = l.
Proof.
  induction l as [|[k0 v0] r IH]; simpl; intros H; [reflexivity|].
  destruct (String.eqb_spec k0 k); simpl.
  - exfalso; apply H; auto.
  - rewrite IH; auto.
Qed.

Lemma nodup_delete : forall k l, NoDup (keys l) -> NoDup (keys (a_delete k l)).
Proof.
  induction l as [|[k0 v0] r IH]; simpl; intros H; [constructor|].
  inversion H; subst. destruct (String.eqb k0 k); simpl; auto.
  constructor; auto. intros HI. apply keys_delete_sub in HI. contradiction.
Qed.

Lemma rep_delete : forall k l m, Rep l m -> Rep (a_delete k l) (om_delete k m).
Proof.
  intros k l m R. destruct R as [ND D N I]. unfold om_delete. rewrite I.
  destruct (index_of k (keys l)) eqn:E.
  - assert (RA : RepA (a_delete k ([] ++ l)) (del_loop k (nameMap m) (List.length (@nil (string * Z))) (vals l) om_new)).
    { apply del_loop_spec; simpl; auto.
      constructor; simpl; auto. intros i; destruct i; reflexivity. }
    simpl in RA. rewrite D. destruct RA as [D' N' I'].
    constructor; auto. apply nodup_delete; auto.
  - apply index_of_none in E. rewrite a_delete_notin; auto. constructor; auto.
Qed.

(* ------------------------------------------------------------------ Range, Len, GetByIndex *)
Lemma range_loop_spec : forall nm lsuf i lim,
  (forall j, nget nm (i + j) = nth_error (keys lsuf) j) ->
  range_loop nm i (vals lsuf) lim = a_range lim lsuf.
Proof.
  induction lsuf as [|[k z] r IH]; intros i lim HN.
  - simpl. destruct lim; reflexivity.
  - simpl. pose proof (HN 0) as H0. rewrite Nat.add_0_r in H0. simpl in H0. rewrite H0.
    assert (HN' : forall j, nget nm (S i + j) = nth_error (keys r) j).
    { intros j. specialize (HN (S j)). replace (S i + j) with (i + S j) by lia. exact HN. }
    destruct lim as [[|n]|].
    + reflexivity.
    + rewrite (IH (S i) (Some n) HN'). reflexivity.
    + rewrite (IH (S i) None HN'). reflexivity.
Qed.

Lemma rep_range : forall lim l m, Rep l m -> om_range lim m = a_range lim l.
Proof.
  intros lim l m [ND D N I]. unfold om_range. rewrite D. apply range_loop_spec. intros j. apply N.
Qed.

Lemma rep_len : forall l m, Rep l m -> om_len m = List.length l.
Proof. intros l m [ND D N I]. unfold om_len. rewrite D. apply vals_len. Qed.

Lemma nth_error_split : forall (l : alist) n,
  nth_error l n = match nth_error (vals l) n, nth_error (keys l) n with
                  | Some z, Some k => Some (k, z)
                  | _, _ => None
                  end.
Proof.
  induction l as [|[k z] r IH]; intros n; destruct n; simpl; auto.
Qed.

Lemma rep_idx : forall i l m, Rep l m -> om_get_by_index i m = a_index i l.
Proof.
  intros i l m [ND D N I]. unfold om_get_by_index, a_index.
  destruct (i <? 0)%Z; [reflexivity|].
  rewrite nth_error_split, D, N.
  destruct (nth_error (vals l) (Z.to_nat i)); [|reflexivity].
  destruct (nth_error (keys l) (Z.to_nat i)); reflexivity.
Qed.

(* ------------------------------------------------------------------ simulation *)
Lemma step_sim : forall o l m, Rep l m ->
  Rep (fst (a_step (to_sop o) l)) (fst (om_step o m)) /\
  to_sres (snd (om_step o m)) = snd (a_step (to_sop o) l).
Proof.
  intros o l m R. destruct o; simpl.
  - split; [apply rep_set; auto | reflexivity].
  - split; [auto | rewrite (rep_get k l m R); reflexivity].
  - split; [auto | rewrite (rep_get k l m R); reflexivity].
  - split; [apply rep_delete; auto | reflexivity].
  - split; [auto | rewrite (rep_range lim l m R); reflexivity].
  - split; [auto | rewrite (rep_len l m R); reflexivity].
  - split; [auto | rewrite (rep_idx i l m R); reflexivity].
Qed.

Lemma run_sim : forall ops l m, Rep l m ->
  Rep (fst (a_run (map to_sop ops) l)) (fst (om_run ops m)) /\
  map to_sres (snd (om_run ops m)) = snd (a_run (map to_sop ops) l).
Proof.
  induction ops as [|o r IH]; intros l m R; simpl.
  - split; auto.
  - destruct (step_sim o l m R) as [R1 E1].
    destruct (om_step o m) as [m1 x] eqn:Em. destruct (a_step (to_sop o) l) as [l1 y] eqn:El.
    simpl in *. destruct (IH l1 m1 R1) as [R2 E2].
    destruct (om_run r m1) as [m2 xs]. destruct (a_run (map to_sop r) l1) as [l2 ys].
    simpl in *. split; auto. congruence.
Qed.

(* the abstraction function is the model's own full enumeration *)
Lemma rep_abs : forall l m, Rep l m -> om_range None m = l.
Proof. intros l m R. rewrite (rep_range None l m R). reflexivity. Qed.

Lemma refines_alist_l : forall ops,
  map to_sres (snd (om_run ops om_new)) = snd (a_run (map to_sop ops) []) /\
  om_range None (fst (om_run ops om_new)) = fst (a_run (map to_sop ops) []).
Proof.
  intros ops. destruct (run_sim ops [] om_new rep_new) as [R E]. split; auto.
  apply rep_abs; auto.
Qed.

(* ------------------------------------------------------------------ the invariant of the three structures *)
Definition Inv (m : om) : Prop :=
  (forall k i, sget (indexMap m) k = Some i <-> nget (nameMap m) i = Some k) /\
  (forall i, (exists k, nget (nameMap m) i = Some k) <-> i < List.length (data m)).

Lemma rep_inv : forall l m, Rep l m -> Inv m.
Proof.
  intros l m [ND D N I]. split.
  - intros k i. rewrite I, N. split.
    + apply index_of_some.
    + apply index_of_nodup; auto.
  - intros i. rewrite D, vals_len, <- keys_len. split.
    + intros [k H]. rewrite N in H. apply nth_error_Some. congruence.
    + intros H. apply nth_error_Some in H. rewrite N.
      destruct (nth_error (keys l) i); [eauto | congruence].
Qed.

Lemma inv_preserved_l : forall ops, Inv (fst (om_run ops om_new)).
Proof.
  intros ops. destruct (run_sim ops [] om_new rep_new) as [R _]. eapply rep_inv; eauto.
Qed.

(* ------------------------------------------------------------------ insertion order *)
Lemma keys_a_set : forall k v l,
  keys (a_set k v l) = if existsb (String.eqb k) (keys l) then keys l else keys l ++ [k].
Proof.
  intros k v l. unfold a_set.
  assert (E : a_mem k l = existsb (String.eqb k) (keys l)).
  { unfold a_mem, keys. induction l as [|[k0 v0] r IH]; simpl; [reflexivity|].
    rewrite IH. rewrite (String.eqb_sym k0 k). reflexivity. }
  rewrite E. destruct (existsb (String.eqb k) (keys l)).
  - apply keys_map_upd.
  - unfold keys. rewrite map_app. reflexivity.
Qed.

Lemma keys_a_delete : forall k l,
  keys (a_delete k l) = filter (fun x => negb (String.eqb x k)) (keys l).
Proof.
  induction l as [|[k0 v0] r IH]; simpl; [reflexivity|].
  destruct (String.eqb k0 k); simpl; rewrite IH; reflexivity.
Qed.

Lemma keys_insertion_order : forall ops l,
  keys (fst (a_run ops l)) = insertion_order ops (keys l).
Proof.
  induction ops as [|o r IH]; intros l; simpl; [reflexivity|].
  destruct o; simpl;
    try (destruct (a_run r l) as [l2 ys] eqn:E; simpl;
         specialize (IH l); rewrite E in IH; exact IH).
  - destruct (a_run r (a_set k v l)) as [l2 ys] eqn:E; simpl.
    specialize (IH (a_set k v l)). rewrite E in IH. simpl in IH. rewrite IH, keys_a_set. reflexivity.
  - destruct (a_run r (a_delete k l)) as [l2 ys] eqn:E; simpl.
    specialize (IH (a_delete k l)). rewrite E in IH. simpl in IH. rewrite IH, keys_a_delete. reflexivity.
Qed.

Lemma range_is_insertion_order_l : forall ops,
  map fst (om_range None (fst (om_run ops om_new))) = insertion_order (map to_sop ops) [].
Proof.
  intros ops. destruct (refines_alist_l ops) as [_ E]. rewrite E.
  apply (keys_insertion_order (map to_sop ops) []).
Qed.

(* GetByIndex i and Range agree: the i-th enumerated pair *)
Lemma get_by_index_agrees_l : forall ops i,
  om_get_by_index i (fst (om_run ops om_new)) =
  if (i <? 0)%Z then None else nth_error (om_range None (fst (om_run ops om_new))) (Z.to_nat i).
Proof.
  intros ops i. destruct (run_sim ops [] om_new rep_new) as [R _].
  rewrite (rep_idx i _ _ R), (rep_abs _ _ R). reflexivity.
Qed.

(* a store filled by Sets only enumerates the first occurrences of the keys *)
Lemma first_occ_insertion : forall (kvs : list (string * Z)) ks,
  insertion_order (map (fun kv => SSet (fst kv) (snd kv)) kvs) ks
  = ks ++ first_occurrences ks (map fst kvs).
Proof.
  induction kvs as [|[k v] r IH]; intros ks; simpl.
  - rewrite app_nil_r. reflexivity.
  - rewrite IH. destruct (existsb (String.eqb k) ks) eqn:E.
    + reflexivity.
    + rewrite <- app_assoc. simpl.
      assert (H : forall l, first_occurrences (ks ++ [k]) l = first_occurrences (k :: ks) l).
      { clear. induction l as [|x l IHl] in ks |- *; simpl; [reflexivity|].
        rewrite existsb_app. simpl. rewrite orb_false_r.
        rewrite (orb_comm (existsb (String.eqb x) ks) (String.eqb x k)).
        destruct (String.eqb x k || existsb (String.eqb x) ks) eqn:E; [apply IHl|].
        f_equal. specialize (IHl (x :: ks)). simpl in IHl.
        (* first_occurrences only tests membership of `seen`, so the order of seen is irrelevant *)
        clear IHl.
        assert (G : forall s1 s2 l, (forall y, existsb (String.eqb y) s1 = existsb (String.eqb y) s2) ->
                                    first_occurrences s1 l = first_occurrences s2 l).
        { clear. intros s1 s2 l. revert s1 s2. induction l as [|y l IH]; intros s1 s2 H; simpl; [reflexivity|].
          rewrite (H y). destruct (existsb (String.eqb y) s2); [apply IH; auto|].
          f_equal. apply IH. intros y0. simpl. rewrite H. reflexivity. }
        apply G. intros y. simpl. rewrite existsb_app. simpl. rewrite orb_false_r.
        destruct (String.eqb y x), (existsb (String.eqb y) ks), (String.eqb y k); reflexivity. }
      rewrite H. reflexivity.
Qed.
