(* C20 — executable models of the code as written (no proofs here).

   Part 1  data/ordered_map.go        OrderedMap: data slice + indexMap + nameMap
   Part 2  sites that range over a Go map and can reach output; the order in which Go happens
           to iterate the map is an explicit argument `order` (a permutation of the key set,
           chosen by an adversary), never a constant:
             runtime/vm.go            findClassCaseInsensitive
             node/class.go            ClassStatement.GetValue (property initialisation of `new C`)
             node/class_generic.go    ClassGeneric.GetValue   (same loop)
             node/class.go            ClassStatement.GetMethods
             runtime/reflect_class.go ReflectClass.GetMethods / GetPropertyList
   Part 3  package-level state shared by every VM of a process and the reset protocol of
           runtime/vm.go LoadAndRun (ResetUserOutput at start, FlushAllBuffersFn at end)

   Go maps are association lists read through a lookup function (first binding wins, an
   assignment conses a new binding), so `m[k] = v` and `v, ok := m[k]` are exact; ranging over
   a map is ranging over `order`. *)
From Coq Require Import List String Ascii ZArith Bool Arith.
Import ListNotations.
Open Scope string_scope.

(* ------------------------------------------------------------------ Go maps *)
Definition smap (A : Type) := list (string * A).
Definition nmap (A : Type) := list (nat * A).

Fixpoint sget {A} (m : smap A) (k : string) : option A :=
  match m with
  | [] => None
  | (k', v) :: r => if String.eqb k' k then Some v else sget r k
  end.
Definition sput {A} (m : smap A) (k : string) (v : A) : smap A := (k, v) :: m.

Fixpoint nget {A} (m : nmap A) (k : nat) : option A :=
  match m with
  | [] => None
  | (k', v) :: r => if Nat.eqb k' k then Some v else nget r k
  end.
Definition nput {A} (m : nmap A) (k : nat) (v : A) : nmap A := (k, v) :: m.

(* ================================================================== Part 1: OrderedMap *)

(* type OrderedMap struct { data []*ZVal; indexMap map[string]int; nameMap map[int]string }
   values are opaque to the map: Z stands for a data.Value *)
Record om := { data : list Z; indexMap : smap nat; nameMap : nmap string }.

Definition om_new : om := {| data := []; indexMap := []; nameMap := [] |}.

Fixpoint set_nth (i : nat) (v : Z) (l : list Z) : list Z :=
  match l, i with
  | [], _ => []
  | _ :: r, O => v :: r
  | x :: r, S j => x :: set_nth j v r
  end.

(* func (om *OrderedMap) Set(key, value) *)
Definition om_set (k : string) (v : Z) (m : om) : om :=
  match sget (indexMap m) k with
  | Some idx =>
      (* if idx >= 0 && idx < len(om.data) { om.data[idx].Value = value } *)
      match nth_error (data m) idx with
      | Some _ => {| data := set_nth idx v (data m); indexMap := indexMap m; nameMap := nameMap m |}
      | None => m
      end
  | None =>
      let index := List.length (data m) in
      {| data := (data m ++ [v])%list;
         indexMap := sput (indexMap m) k index;
         nameMap := nput (nameMap m) index k |}
  end.

(* func (om *OrderedMap) Get / GetZVal (the value behind the returned *ZVal) *)
Definition om_get (k : string) (m : om) : option Z :=
  match sget (indexMap m) k with
  | Some idx => nth_error (data m) idx
  | None => None
  end.

(* func (om *OrderedMap) Delete(key): rebuilds the three structures *)
Fixpoint del_loop (key : string) (nm : nmap string) (i : nat) (ds : list Z) (a : om) : om :=
  match ds with
  | [] => a
  | z :: r =>
      match nget nm i with
      | Some k =>
          if String.eqb k key then del_loop key nm (S i) r a
          else del_loop key nm (S i) r
                 {| data := (data a ++ [z])%list;
                    indexMap := sput (indexMap a) k (List.length (data a));
                    nameMap := nput (nameMap a) (List.length (data a)) k |}
      | None => del_loop key nm (S i) r a
      end
  end.

Definition om_delete (key : string) (m : om) : om :=
  match sget (indexMap m) key with
  | None => m
  | Some _ => del_loop key (nameMap m) 0 (data m) om_new
  end.

(* func (om *OrderedMap) Range(fn): the callback is abstracted by how many items it accepts
   before returning false: None = never stops; Some n = returns false on its (n+1)-th call *)
Fixpoint range_loop (nm : nmap string) (i : nat) (ds : list Z) (lim : option nat) : list (string * Z) :=
  match ds with
  | [] => []
  | z :: r =>
      match nget nm i with
      | Some k =>
          match lim with
          | Some O => [(k, z)]
          | Some (S n) => (k, z) :: range_loop nm (S i) r (Some n)
          | None => (k, z) :: range_loop nm (S i) r None
          end
      | None => range_loop nm (S i) r lim
      end
  end.
Definition om_range (lim : option nat) (m : om) : list (string * Z) :=
  range_loop (nameMap m) 0 (data m) lim.

Definition om_len (m : om) : nat := List.length (data m).

(* func (om *OrderedMap) GetByIndex(index int) *)
Definition om_get_by_index (i : Z) (m : om) : option (string * Z) :=
  if (i <? 0)%Z then None
  else match nth_error (data m) (Z.to_nat i) with
       | None => None
       | Some z => match nget (nameMap m) (Z.to_nat i) with
                   | Some k => Some (k, z)
                   | None => None
                   end
       end.

Inductive op :=
| OSet (k : string) (v : Z) | OGet (k : string) | OGetZ (k : string) | ODelete (k : string)
| ORange (lim : option nat) | OLen | OIdx (i : Z).

Inductive res :=
| RUnit | RVal (o : option Z) | RList (l : list (string * Z)) | RLen (n : nat)
| RIdx (o : option (string * Z)).

Definition om_step (o : op) (m : om) : om * res :=
  match o with
  | OSet k v => (om_set k v m, RUnit)
  | OGet k | OGetZ k => (m, RVal (om_get k m))
  | ODelete k => (om_delete k m, RUnit)
  | ORange lim => (m, RList (om_range lim m))
  | OLen => (m, RLen (om_len m))
  | OIdx i => (m, RIdx (om_get_by_index i m))
  end.

Fixpoint om_run (ops : list op) (m : om) : om * list res :=
  match ops with
  | [] => (m, [])
  | o :: r => let (m1, x) := om_step o m in
              let (m2, xs) := om_run r m1 in (m2, x :: xs)
  end.

(* ================================================================== Part 2: map-ranging sites *)

(* byte-wise string order (Go's `<` on strings) *)
Fixpoint sltb (a b : string) : bool :=
  match a, b with
  | EmptyString, String _ _ => true
  | String x a', String y b' =>
      (nat_of_ascii x <? nat_of_ascii y)%nat || ((nat_of_ascii x =? nat_of_ascii y)%nat && sltb a' b')
  | _, _ => false
  end.
Definition sleb (a b : string) : bool := negb (sltb b a).

(* strings.EqualFold restricted to ASCII names: equality after folding A-Z to a-z *)
Definition lower_ascii (c : ascii) : ascii :=
  let n := nat_of_ascii c in
  if ((65 <=? n) && (n <=? 90))%nat then ascii_of_nat (n + 32) else c.
Fixpoint lower (s : string) : string :=
  match s with EmptyString => EmptyString | String c r => String (lower_ascii c) (lower r) end.
Definition equal_fold (a b : string) : bool := String.eqb (lower a) (lower b).

(* runtime/vm.go findClassCaseInsensitive (after the determinism fix):
     if v, ok := vm.classMap[name]; ok { return v }
     for k, v := range vm.classMap { if EqualFold(k,name) && (found == nil || k < best) { best, found = k, v } }
   `order` = the order in which Go ranges over classMap; the class is identified by its key *)
Definition find_ci_step (name : string) (best : option string) (k : string) : option string :=
  if equal_fold k name then
    match best with
    | None => Some k
    | Some b => if sltb k b then Some k else best
    end
  else best.
Definition find_ci (order : list string) (name : string) : option string :=
  if existsb (String.eqb name) order then Some name
  else fold_left (find_ci_step name) order None.

(* the loop as it was before the fix (first EqualFold match in iteration order wins); kept so
   that Examples.v can show the order dependence the fix removed *)
Definition find_ci_first (order : list string) (name : string) : option string :=
  if existsb (String.eqb name) order then Some name
  else find (fun k => equal_fold k name) order.

(* node/class.go ClassStatement.GetValue / node/class_generic.go ClassGeneric.GetValue:
   property initialisation of `new C`.  A class level = its PropertiesIndex (declaration order)
   and its Properties map: name -> default value (None = declared without default).
     for _, name := range c.PropertiesIndex { p, ok := c.Properties[name]; if !ok {continue}
        def := p.GetDefaultValue(); if def == nil {continue}; object.SetProperty(name, v) }
   then, for each ancestor in chain order, every property of its GetPropertyList() that is not a
   key of the *child's own* Properties map and has a default is SetProperty'd. *)
Record clevel := { c_index : list string; c_props : smap (option Z) }.

Definition init_own (c : clevel) (m : om) : om :=
  fold_left (fun m name =>
               match sget (c_props c) name with
               | Some (Some v) => om_set name v m
               | _ => m
               end) (c_index c) m.

(* GetPropertyList: properties[i] = c.Properties[c.PropertiesIndex[i]] *)
Definition init_inherited (child anc : clevel) (m : om) : om :=
  fold_left (fun m name =>
               match sget (c_props child) name with
               | Some _ => m
               | None => match sget (c_props anc) name with
                         | Some (Some v) => om_set name v m
                         | _ => m
                         end
               end) (c_index anc) m.

Definition instantiate (child : clevel) (ancestors : list clevel) : om :=
  fold_left (fun m anc => init_inherited child anc m) ancestors (init_own child om_new).

(* the loop before the fix: `for _, property := range c.Properties` (Go map order) *)
Definition init_own_maporder (order : list string) (c : clevel) (m : om) : om :=
  fold_left (fun m name =>
               match sget (c_props c) name with
               | Some (Some v) => om_set name v m
               | _ => m
               end) order m.

(* node/class.go GetMethods, runtime/reflect_class.go GetMethods / GetPropertyList (after the
   fix): collect the map keys in Go map order, sort.Strings, then look each one up.
   sort.Strings is modelled as insertion sort on the byte-wise order. *)
Fixpoint sinsert (x : string) (l : list string) : list string :=
  match l with
  | [] => [x]
  | y :: r => if sleb x y then x :: l else y :: sinsert x r
  end.
Fixpoint ssort (l : list string) : list string :=
  match l with [] => [] | x :: r => sinsert x (ssort r) end.

Definition member_names (order : list string) : list string := ssort order.
(* ClassStatement.GetMethods appends the constructor when no listed method is named __construct *)
Definition get_methods (order : list string) (has_construct_field : bool) : list string :=
  let ms := member_names order in
  if has_construct_field && negb (existsb (String.eqb "__construct") ms)
  then (ms ++ ["__construct"])%list else ms.
(* before the fix the lists were returned in map order *)
Definition member_names_maporder (order : list string) : list string := order.

(* ---- the collect-sort-then-use idiom, generically.
   node/class_abstract_validate.go abstractStaticMethodNames, node/init_class.go InitClass.GetValue,
   node/html.go generateNormalHtml, node/js_server.go formatObjectValue / formatClassOrObjectValue,
   node/globals_{get,post,files,server}_variable.go, std/net/http request_*:
       keys := make([]string, 0, len(m)); for k := range m { if keep(k) { keys = append(keys, k) } }
       sort.Strings(keys); for _, k := range keys { <body k> }
   `order` = the order in which Go ranges over the map; `keep` = the filter applied while collecting
   (constant true at most sites; "is an *AbstractMethod" for the abstract listing); `body` folds
   whatever the site does per key (print an attribute, evaluate an initialiser, append a name) into
   an accumulator of any type. *)
Definition sorted_range {A} (keep : string -> bool) (body : A -> string -> A) (init : A) (order : list string) : A :=
  fold_left body (ssort (filter keep order)) init.

(* the same loop run straight over the map (what these sites did before their fixes): kept for
   Examples.v, which shows a body for which two iteration orders give different results *)
Definition unsorted_range {A} (keep : string -> bool) (body : A -> string -> A) (init : A) (order : list string) : A :=
  fold_left body (filter keep order) init.

(* node/js_server.go formatClassOrObjectValue after its fix: the caller's order (the object's insertion
   order) first, restricted to keys of the map and without repeats, then the remaining keys sorted *)
Fixpoint dedup_in (keys : list string) (seen : list string) (l : list string) : list string :=
  match l with
  | [] => []
  | k :: r => if existsb (String.eqb k) keys && negb (existsb (String.eqb k) seen)
              then k :: dedup_in keys (k :: seen) r else dedup_in keys seen r
  end.
Definition preferred_then_sorted (preferred : list string) (order : list string) : list string :=
  let first := dedup_in order [] preferred in
  first ++ ssort (filter (fun k => negb (existsb (String.eqb k) first)) order).

(* node/html.go generateHtml / HtmlTemplateNode.GetValue: pick THE attribute of a given kind
       for _, value := range h.Attributes { if value is an AttrForValue { forValue = value; continue } ... }
   the last match in iteration order wins; `is_kind` tells which attribute names carry a value of the kind *)
Definition pick_last (is_kind : string -> bool) (order : list string) : option string :=
  fold_left (fun acc k => if is_kind k then Some k else acc) order None.

(* ================================================================== Part 3: process-level state *)

(* Every piece of mutable state a script can reach lives either in the VM it runs on (class /
   function / constant registries, globals, per-VM handlers) or in a package-level Go variable
   shared by all VMs of the process.  A script is abstracted to the state cells it writes and
   reads; a cell is named by a string, the table `scope_of` (regenerated by experiment, see
   checks/C20.py) says where the cell lives and whether a protocol step resets it. *)
Inductive scope :=
| PerVM            (* lives in runtime.VM: a fresh VM starts with the initial value *)
| ProcReset        (* package-level, but reset by LoadAndRun/php.Load before a script runs
                      (data.userOutputEmitted via ResetUserOutput; ob stack via FlushAllBuffersFn) *)
| ProcSticky.      (* package-level, never reset: survives into the next VM *)

Record world := { vmcells : smap Z; proccells : smap Z }.
Definition world0 : world := {| vmcells := []; proccells := [] |}.

Inductive act := AWrite (cell : string) (v : Z) | ARead (cell : string).
Definition script := list act.

Section State.
  Variable scope_of : string -> scope.

  Definition cell_read (w : world) (c : string) : Z :=
    match scope_of c with
    | PerVM => match sget (vmcells w) c with Some v => v | None => 0%Z end
    | _ => match sget (proccells w) c with Some v => v | None => 0%Z end
    end.
  Definition cell_write (w : world) (c : string) (v : Z) : world :=
    match scope_of c with
    | PerVM => {| vmcells := sput (vmcells w) c v; proccells := proccells w |}
    | _ => {| vmcells := vmcells w; proccells := sput (proccells w) c v |}
    end.

  Fixpoint exec (s : script) (w : world) : world * list Z :=
    match s with
    | [] => (w, [])
    | AWrite c v :: r => exec r (cell_write w c v)
    | ARead c :: r => let (w', out) := exec r w in (w', cell_read w c :: out)
    end.

  (* NewVM + LoadAndRun prologue: registries empty; the cells the protocol resets are cleared *)
  Definition fresh_vm (w : world) : world :=
    {| vmcells := [];
       proccells := filter (fun kv => match scope_of (fst kv) with ProcReset => false | _ => true end)
                           (proccells w) |}.

  (* run script s on a freshly created VM in a process whose history left world w *)
  Definition run_on_fresh_vm (s : script) (w : world) : world * list Z := exec s (fresh_vm w).

  (* (A ; B) : B's output when A ran before it on another VM of the same process *)
  Definition out_after (a b : script) : list Z :=
    snd (run_on_fresh_vm b (fst (run_on_fresh_vm a world0))).
  Definition out_alone (b : script) : list Z := snd (run_on_fresh_vm b world0).

  Definition writes (s : script) : list string :=
    flat_map (fun a => match a with AWrite c _ => [c] | ARead _ => [] end) s.
  Definition reads (s : script) : list string :=
    flat_map (fun a => match a with ARead c => [c] | AWrite _ _ => [] end) s.
  Definition sticky (c : string) : bool :=
    match scope_of c with ProcSticky => true | _ => false end.
  (* B can see A: a sticky cell written by A and read by B *)
  Definition may_leak (a b : script) : bool :=
    existsb (fun c => sticky c && existsb (String.eqb c) (reads b)) (writes a).
End State.
