(* C17 — non-vacuity: concrete values meeting the theorems' hypotheses, and worked conversions. *)
From Coq Require Import ZArith List Bool String Floats.
From V.C17 Require Import Model Spec Proofs.
Open Scope Z_scope.

Definition lib0 : golib :=
  {| parse_float := fun _ => None; fmt_g14 := fun _ => ""%string; fmt_g := fun _ => ""%string;
     f32 := fun f => f; other_str := ""%string |}.

Example ex_int64 : to_go lib0 KInt64 (SInt 5) = Ok (GNum KInt64 5) /\ dyn_kind (GNum KInt64 5) = KInt64.
Proof. split; reflexivity. Qed.
Example ex_int8_max : to_go lib0 KInt8 (SInt 127) = Ok (GNum KInt8 127) /\ to_go lib0 KInt8 (SInt 128) = Throw.
Proof. split; reflexivity. Qed.
Example ex_uint8_neg : to_go lib0 KUint8 (SInt (-1)) = Throw /\ to_go lib0 KUint64 (SInt maxint) = Ok (GNum KUint64 maxint).
Proof. split; reflexivity. Qed.
Example ex_string_to_int : to_go lib0 KInt (SStr "12") = Throw.
Proof. reflexivity. Qed.
Example ex_hyp : wf (SInt minint) = true /\ matching (SInt minint) KInt64 = true /\ unconvertible lib0 (SInt minint) KInt64 = false
              /\ unconvertible lib0 (SInt 300) KInt8 = true /\ matching (SFloat 1.5) KFloat32 = true.
Proof. repeat split. Qed.
Example ex_uint64_result : from_go (GNum KUint64 18446744073709551615) = Throw /\ returnable (GNum KUint64 maxint) = true.
Proof. split; reflexivity. Qed.
Example ex_call : call lib0 [KInt64; KString; KBool] [SInt 5; SStr "x"; SBool true] (Some (GNum KInt32 9)) =
  ([GNum KInt64 5; GStr KString "x"; GBool KBool true], Ok (SInt 9)).
Proof. vm_compute. reflexivity. Qed.
Example ex_all_ok : all_ok lib0 [KInt64; KString; KBool] [SInt 5; SStr "x"; SBool true] = true.
Proof. reflexivity. Qed.
Example ex_call_bad : call lib0 [KInt; KInt8] [SInt 1; SInt 300] None = ([], Throw).
Proof. reflexivity. Qed.
Example ex_unsupported : call lib0 [KOther] [SOther] None = ([], Throw).
Proof. reflexivity. Qed.
Example ex_generic : generic lib0 KInt8 (SInt 300) = Throw /\ generic lib0 KInt16 (SInt 300) = Ok (GNum KInt16 300)
                  /\ generic lib0 KUint8 (SFloat 255.9) = Ok (GNum KUint8 255).
Proof. repeat split; vm_compute; reflexivity. Qed.

(* defined types: `type Name string`, `type Small int8` *)
Example ex_named : to_go lib0 (KNamed KString) (SStr "n") = Ok (GStr (KNamed KString) "n")
                /\ dyn_kind (GStr (KNamed KString) "n") = KNamed KString
                /\ to_go lib0 (KNamed KInt8) (SInt 300) = Throw
                /\ call lib0 [KNamed KBool; KNamed KFloat64] [SBool true; SFloat 1.5] None =
                   ([GBool (KNamed KBool) true; GFlt (KNamed KFloat64) 1.5], NoResult).
Proof. repeat split; vm_compute; reflexivity. Qed.
Example ex_representable : representable lib0 (SInt 127) KInt8 = true /\ representable lib0 (SInt 128) KInt8 = false
                        /\ representable lib0 (SFloat 1.5) KFloat32 = true.
Proof. repeat split; vm_compute; reflexivity. Qed.
