From V.C17 Require Import Model Spec.
