(* C17 — lemmas behind Properties.v. *)
From Coq Require Import ZArith List Bool String Lia.
From V.C17 Require Import Model Spec.
Open Scope Z_scope.

Lemma kind_eqb_refl : forall k, kind_eqb k k = true.
Proof. induction k; try reflexivity. exact IHk. Qed.

(* ---- a converted argument always has the parameter's kind *)
Lemma to_go_typed_l : forall lib k v g, to_go lib k v = Ok g -> dyn_kind g = k.
Proof.
  intros lib k v g H. unfold to_go in H. destruct (base_kind k);
    repeat match type of H with
    | context [match as_int ?x with _ => _ end] => destruct (as_int x)
    | context [match as_float ?l ?x with _ => _ end] => destruct (as_float l x)
    | context [if ?c then _ else _] => destruct c
    end; try discriminate; injection H as <-; reflexivity.
Qed.

(* ---- matching values: exact arrival, or a catchable error when unconvertible *)
Lemma fits_int64 : forall z, (minint <=? z) && (z <=? maxint) = true -> fits KInt z = true /\ fits KInt64 z = true.
Proof. intros z H; split; exact H. Qed.

Ltac split_cmp :=
  repeat match goal with
  | |- context [?a <=? ?b] => destruct (Z.leb_spec a b)
  | |- context [?a <? ?b] => destruct (Z.ltb_spec a b)
  end.

Lemma to_go_matching_l : forall lib k v, wf v = true -> matching v k = true ->
  to_go lib k v = if unconvertible lib v k then Throw else Ok (arrive lib k v).
Proof.
  intros lib k v Hw Hm.
  unfold to_go, matching, unconvertible, arrive, fits, int_bounds in *.
  destruct v; destruct (base_kind k) eqn:E; try discriminate; cbn in *; try reflexivity.
  all: try (apply andb_true_iff in Hw; destruct Hw as [Hlo Hhi]; apply Z.leb_le in Hlo, Hhi;
            unfold minint, maxint in *; split_cmp; cbn; try reflexivity; exfalso; lia).
Qed.

(* ---- results *)
Lemma from_go_returnable_l : forall g, returnable g = true -> from_go g = Ok (project g).
Proof.
  intros g H; destruct g; try reflexivity; try discriminate.
  cbn in *. apply andb_true_iff in H. destruct H as [_ H]. apply Z.leb_le in H.
  destruct (signed_kind t); [reflexivity|].
  replace (z >? maxint) with false by (symmetry; rewrite Z.gtb_ltb; apply Z.ltb_ge; exact H). reflexivity.
Qed.
Lemma from_go_not_crash : forall g, not_crash (from_go g) = true.
Proof. intro g; destruct g; cbn; try reflexivity. destruct (signed_kind t); [reflexivity|]. destruct (z >? maxint); reflexivity. Qed.

Lemma arrive_returnable : forall lib k v, wf v = true -> matching v k = true -> unconvertible lib v k = false ->
  returnable (arrive lib k v) = true.
Proof.
  intros lib k v Hw Hm Hu. unfold matching, unconvertible, arrive in *.
  destruct v; destruct (base_kind k) eqn:E; try discriminate; try reflexivity;
    cbn in *; apply negb_false_iff in Hu; rewrite Hu; cbn;
    apply andb_true_iff in Hw; destruct Hw as [_ Hw]; exact Hw.
Qed.

Lemma roundtrip_l : forall lib k v, wf v = true -> matching v k = true -> unconvertible lib v k = false ->
  from_go (arrive lib k v) =
  Ok (match v, base_kind k with SFloat f, KFloat32 => SFloat (f32 lib f) | _, _ => v end).
Proof.
  intros lib k v Hw Hm Hu.
  rewrite (from_go_returnable_l _ (arrive_returnable lib k v Hw Hm Hu)).
  unfold matching, arrive in *. destruct v; destruct (base_kind k); try discriminate; reflexivity.
Qed.

(* ---- Call *)
Lemma convert_args_typed : forall lib params args gs,
  convert_args lib params args = Ok gs -> well_typed params gs = true.
Proof.
  intros lib params; induction params as [|k ps IH]; intros args gs H.
  - cbn in H. injection H as <-. reflexivity.
  - destruct args as [|a rest]; cbn in H.
    + destruct (to_go lib k SNull) as [g| | | |] eqn:E; try discriminate.
      destruct (convert_args lib ps []) as [gs'| | | |] eqn:E2; try discriminate.
      injection H as <-. cbn. rewrite (to_go_typed_l lib k SNull g E), kind_eqb_refl. exact (IH [] gs' E2).
    + destruct (to_go lib k a) as [g| | | |] eqn:E; try discriminate.
      destruct (convert_args lib ps rest) as [gs'| | | |] eqn:E2; try discriminate.
      injection H as <-. cbn. rewrite (to_go_typed_l lib k a g E), kind_eqb_refl. exact (IH rest gs' E2).
Qed.
Lemma convert_args_cases : forall lib params args,
  (exists gs, convert_args lib params args = Ok gs) \/ convert_args lib params args = Throw.
Proof.
  intros lib params; induction params as [|k ps IH]; intros args.
  - left; eexists; reflexivity.
  - destruct args as [|a rest]; cbn.
    + destruct (to_go lib k SNull) eqn:E; try (right; reflexivity).
      destruct (IH []) as [[gs H]|H]; rewrite H; [left; eexists; reflexivity|right; reflexivity].
    + destruct (to_go lib k a) eqn:E; try (right; reflexivity).
      destruct (IH rest) as [[gs H]|H]; rewrite H; [left; eexists; reflexivity|right; reflexivity].
Qed.

Lemma call_never_crashes_l : forall lib params args ret,
  not_crash (snd (call lib params args ret)) = true.
Proof.
  intros lib params args ret. unfold call.
  destruct (convert_args_cases lib params args) as [[gs H]|H]; rewrite H.
  - rewrite (convert_args_typed lib params args gs H). cbn.
    destruct ret; [apply from_go_not_crash|reflexivity].
  - reflexivity.
Qed.

Fixpoint all_ok (lib : golib) (params : list gkind) (args : list sval) : bool :=
  match params, args with
  | [], [] => true
  | k :: ps, a :: r => wf a && matching a k && negb (unconvertible lib a k) && all_ok lib ps r
  | _, _ => false
  end.
Fixpoint arrivals (lib : golib) (params : list gkind) (args : list sval) : list gval :=
  match params, args with k :: ps, a :: r => arrive lib k a :: arrivals lib ps r | _, _ => [] end.

Lemma convert_args_exact : forall lib params args, all_ok lib params args = true ->
  convert_args lib params args = Ok (arrivals lib params args).
Proof.
  intros lib params; induction params as [|k ps IH]; intros args H.
  - destruct args; [reflexivity|discriminate].
  - destruct args as [|a r]; [discriminate|]. cbn in H.
    apply andb_true_iff in H. destruct H as [H Hr].
    apply andb_true_iff in H. destruct H as [H Hu].
    apply andb_true_iff in H. destruct H as [Hw Hm].
    apply negb_true_iff in Hu. cbn.
    rewrite (to_go_matching_l lib k a Hw Hm), Hu, (IH r Hr). reflexivity.
Qed.
Lemma call_exact_l : forall lib params args ret, all_ok lib params args = true ->
  call lib params args ret =
  (arrivals lib params args, match ret with None => NoResult | Some g => from_go g end).
Proof.
  intros lib params args ret H. unfold call.
  pose proof (convert_args_exact lib params args H) as E. rewrite E.
  rewrite (convert_args_typed lib params args _ E). reflexivity.
Qed.
(* the first unconvertible argument makes the whole call a catchable error; the Go function is
   not invoked *)
Lemma call_unconvertible_l : forall lib params args ret k a ps r pre_p pre_a,
  params = (pre_p ++ k :: ps)%list -> args = (pre_a ++ a :: r)%list ->
  all_ok lib pre_p pre_a = true -> wf a = true -> matching a k = true -> unconvertible lib a k = true ->
  call lib params args ret = ([], Throw).
Proof.
  intros lib params args ret k a ps r pre_p pre_a -> -> Hpre Hw Hm Hu. unfold call.
  assert (E : convert_args lib (pre_p ++ k :: ps) (pre_a ++ a :: r) = Throw).
  { revert pre_a Hpre. induction pre_p as [|k0 p0 IH]; intros pre_a Hpre.
    - destruct pre_a; [|discriminate]. cbn. rewrite (to_go_matching_l lib k a Hw Hm), Hu. reflexivity.
    - destruct pre_a as [|a0 r0]; [discriminate|]. cbn in Hpre.
      apply andb_true_iff in Hpre. destruct Hpre as [H Hr].
      apply andb_true_iff in H. destruct H as [H Hu0].
      apply andb_true_iff in H. destruct H as [Hw0 Hm0]. apply negb_true_iff in Hu0.
      cbn. rewrite (to_go_matching_l lib k0 a0 Hw0 Hm0), Hu0, (IH r0 Hr). reflexivity. }
  rewrite E. reflexivity.
Qed.

(* ---- utils.ConvertFromIndex *)
Lemma generic_typed_l : forall lib k v g, generic lib k v = Ok g -> dyn_kind g = k.
Proof.
  intros lib k v g H. destruct v; try discriminate.
  - destruct b, k; cbn in H; try discriminate; injection H as <-; reflexivity.
  - destruct k; cbn in H;
      repeat match type of H with context [if ?c then _ else _] => destruct c end;
      try discriminate; injection H as <-; reflexivity.
  - destruct k; cbn in H;
      repeat match type of H with
      | context [match Prim2SF ?x with _ => _ end] => destruct (Prim2SF x)
      | context [if ?c then _ else _] => destruct c
      end; try discriminate; injection H as <-; reflexivity.
  - destruct k; cbn in H; try discriminate; injection H as <-; reflexivity.
Qed.
Lemma generic_matching_l : forall lib k v, predeclared k = true -> matching v k = true ->
  generic lib k v = if unconvertible lib v k then Throw else Ok (arrive lib k v).
Proof.
  intros lib k v Hp Hm. destruct v; destruct k; try discriminate; cbn; try reflexivity;
    try (match goal with |- (if ?c then _ else _) = _ => destruct c; reflexivity end).
Qed.

(* ---- "exactly the value" in terms of representability *)
Lemma representable_exact_l : forall lib k v, matching v k = true -> representable lib v k = true ->
  match v, base_kind k with
  | SFloat f, KFloat32 => arrive lib k v = GFlt k (f32 lib f) /\ same_float (f32 lib f) f = true
  | _, _ => arrive lib k v = inject k v
  end.
Proof.
  intros lib k v Hm Hr. unfold matching, representable, arrive, inject in *.
  destruct v; destruct (base_kind k) eqn:E; try discriminate; try reflexivity.
  split; [reflexivity|exact Hr].
Qed.
(* an integer that is representable is convertible; a float32-representable float is convertible
   unless it is a finite value whose float32 image is infinite (excluded by representability for
   every float whose same_float image is itself: stated for integers, where it is decidable here) *)
Lemma representable_int_convertible_l : forall lib k z, representable lib (SInt z) k = true ->
  unconvertible lib (SInt z) k = false.
Proof. intros lib k z H. unfold representable, unconvertible in *. destruct (base_kind k); rewrite H; reflexivity. Qed.

(* ------------------------------------------------------------------ the reflected constructor *)
Lemma set_field_null_l : forall lib k, ctor_kind_ok k = true -> set_field lib k SNull = Ok (zero_of k).
Proof. intros lib k H; destruct k; try discriminate; reflexivity. Qed.
Lemma construct_typed_l : forall lib fields args gs,
  forallb ctor_kind_ok fields = true -> construct lib fields args = Ok gs -> map dyn_kind gs = fields.
Proof.
  intros lib fields; induction fields as [|k fs IH]; intros args gs F H.
  - destruct args; cbn in H; inversion H; reflexivity.
  - cbn in F. apply andb_true_iff in F. destruct F as [Fk Ffs]. destruct args as [|a r]; cbn [construct] in H.
    + unfold set_field in H. rewrite Fk in H.
      destruct (to_go lib k SNull) as [g| | | | ] eqn:T; try discriminate.
      destruct (construct lib fs []) as [gs'| | | | ] eqn:E; try discriminate. inversion H; subst.
      cbn. rewrite (to_go_typed_l _ _ _ _ T). f_equal. exact (IH [] gs' Ffs E).
    + unfold set_field in H. rewrite Fk in H.
      destruct (to_go lib k a) as [g| | | | ] eqn:T; try discriminate.
      destruct (construct lib fs r) as [gs'| | | | ] eqn:E; try discriminate. inversion H; subst.
      cbn. rewrite (to_go_typed_l _ _ _ _ T). f_equal. exact (IH r gs' Ffs E).
Qed.
(* every argument of the field's own sort arrives in the field exactly (these five kinds hold every
   value of their sort, so nothing is unconvertible) *)
Lemma set_field_matching_l : forall lib k v, ctor_kind_ok k = true -> wf v = true -> matching v k = true ->
  set_field lib k v = Ok (inject k v).
Proof.
  intros lib k v Hk Hw Hm. unfold set_field. rewrite Hk.
  destruct k; try discriminate Hk; destruct v; try discriminate Hm; cbn; try reflexivity.
Qed.
Lemma construct_never_crashes_l : forall lib fields args, not_crash (construct lib fields args) = true.
Proof.
  intros lib fields; induction fields as [|k fs IH]; intros args; [destruct args; reflexivity|].
  destruct args as [|a r]; cbn [construct].
  - destruct (set_field lib k SNull); try reflexivity. specialize (IH []). destruct (construct lib fs []); try reflexivity; discriminate.
  - destruct (set_field lib k a); try reflexivity. specialize (IH r). destruct (construct lib fs r); try reflexivity; discriminate.
Qed.
