(* C17 — lemmas. *)
From V.C17 Require Import Model Spec.
