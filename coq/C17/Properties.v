(* C17 — the property, clause by clause.  Only statements; every proof is `exact lemma`.
   `lib` = the Go library functions the model takes as parameters; every theorem holds for all. *)
From Coq Require Import ZArith List Bool String.
From V.C17 Require Import Model Spec Proofs.
Open Scope Z_scope.

(* a converted argument always has the parameter's TYPE — a predeclared kind or a defined type
   (`type Name string`, KNamed) — which is what reflect.Call requires; before the fixes this failed
   for every int64 parameter and for every defined string/bool/float64 type *)
Theorem to_go_typed : forall lib k v g, to_go lib k v = Ok g -> dyn_kind g = k.
Proof. exact to_go_typed_l. Qed.
Print Assumptions to_go_typed.

(* "receives, for every parameter of kind string, bool, int, int64, float64 (and the sized
   integer/float kinds when the value is representable), exactly the value the script passed"
   and "a value that cannot be converted is reported as a catchable script error":
   for every script value of the matching sort and every one of the 14 kinds, the converter
   yields exactly that value as a Go value of the parameter's kind (a float64 at a float32
   parameter: the nearest float32), or Throw when the value does not exist in the kind *)
Theorem to_go_matching : forall lib k v, wf v = true -> matching v k = true ->
  to_go lib k v = if unconvertible lib v k then Throw else Ok (arrive lib k v).
Proof. exact to_go_matching_l. Qed.
Print Assumptions to_go_matching.

(* "when the value is representable ... exactly the value": what arrives IS the script value
   (`inject`) whenever it is representable in the kind; at a float32 parameter a representable
   float64 arrives as its own float32 image, which is the same float.  (A float64 that is not
   representable but in range arrives ROUNDED to the nearest float32: a declared decision of this
   spec — `to_go_matching` with `unconvertible = false` — not a consequence of the property text.) *)
Theorem representable_exact : forall lib k v, matching v k = true -> representable lib v k = true ->
  match v, base_kind k with
  | SFloat f, KFloat32 => arrive lib k v = GFlt k (f32 lib f) /\ same_float (f32 lib f) f = true
  | _, _ => arrive lib k v = inject k v
  end.
Proof. exact representable_exact_l. Qed.
Theorem representable_int_convertible : forall lib k z, representable lib (SInt z) k = true ->
  unconvertible lib (SInt z) k = false.
Proof. exact representable_int_convertible_l. Qed.
Print Assumptions representable_exact.

(* "the script receives exactly the value Go returned": every returnable Go result (any string,
   bool, float32/float64, any integer kind up to 2^63-1) comes back as that value *)
Theorem from_go_exact : forall g, returnable g = true -> from_go g = Ok (project g).
Proof. exact from_go_returnable_l. Qed.
(* there and back: a value passed to Go and returned unchanged is the value passed *)
Theorem roundtrip : forall lib k v, wf v = true -> matching v k = true -> unconvertible lib v k = false ->
  from_go (arrive lib k v) =
  Ok (match v, base_kind k with SFloat f, KFloat32 => SFloat (f32 lib f) | _, _ => v end).
Proof. exact roundtrip_l. Qed.
Print Assumptions from_go_exact.
Print Assumptions roundtrip.

(* the reflected CONSTRUCTOR  new T(a0, a1, ..)  of a registered struct (third conversion route:
   setFieldValue): the i-th argument is stored into the i-th public field.  Every stored value has
   the field's type; an argument of the field's own sort (string / int, int64 / float64 / bool
   fields hold every value of their sort) arrives exactly; never a crash, for any fields and
   arguments.  Fields of other kinds cannot be set through the constructor (catchable error). *)
Theorem construct_typed : forall lib fields args gs,
  forallb ctor_kind_ok fields = true -> construct lib fields args = Ok gs -> map dyn_kind gs = fields.
Proof. exact construct_typed_l. Qed.
Theorem set_field_matching : forall lib k v, ctor_kind_ok k = true -> wf v = true -> matching v k = true ->
  set_field lib k v = Ok (inject k v).
Proof. exact set_field_matching_l. Qed.
Theorem set_field_null : forall lib k, ctor_kind_ok k = true -> set_field lib k SNull = Ok (zero_of k).
Proof. exact set_field_null_l. Qed.
Theorem construct_never_crashes : forall lib fields args, not_crash (construct lib fields args) = true.
Proof. exact construct_never_crashes_l. Qed.
Print Assumptions construct_typed.
Print Assumptions set_field_matching.
Print Assumptions construct_never_crashes.

(* "no registered signature makes the call crash the interpreter": for EVERY signature (any arity,
   any kinds incl. unsupported ones), any arguments (any number, any script values) and any
   result, the call is a value, no result, or a catchable error — never a reflect.Call panic *)
Theorem call_never_crashes : forall lib params args ret,
  not_crash (snd (call lib params args ret)) = true.
Proof. exact call_never_crashes_l. Qed.
Print Assumptions call_never_crashes.

(* a whole call with matching convertible arguments: the Go function receives exactly the
   arguments, in order, and the script gets the converted result *)
Theorem call_exact : forall lib params args ret, all_ok lib params args = true ->
  call lib params args ret =
  (arrivals lib params args, match ret with None => NoResult | Some g => from_go g end).
Proof. exact call_exact_l. Qed.
(* an unconvertible argument (after convertible ones): catchable error, function not invoked *)
Theorem call_unconvertible : forall lib params args ret k a ps r pre_p pre_a,
  params = (pre_p ++ k :: ps)%list -> args = (pre_a ++ a :: r)%list ->
  all_ok lib pre_p pre_a = true -> wf a = true -> matching a k = true -> unconvertible lib a k = true ->
  call lib params args ret = ([], Throw).
Proof. exact call_unconvertible_l. Qed.
Print Assumptions call_exact.
Print Assumptions call_unconvertible.

(* "both the reflective registration path and the generic argument converter used by the standard
   library wrappers": utils.ConvertFromIndex[T] on scalars *)
Theorem generic_typed : forall lib k v g, generic lib k v = Ok g -> dyn_kind g = k.
Proof. exact generic_typed_l. Qed.
Theorem generic_matching : forall lib k v, predeclared k = true -> matching v k = true ->
  generic lib k v = if unconvertible lib v k then Throw else Ok (arrive lib k v).
Proof. exact generic_matching_l. Qed.
Print Assumptions generic_typed.
Print Assumptions generic_matching.
