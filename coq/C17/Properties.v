From V.C17 Require Import Model Spec Proofs.
Theorem placeholder_true : True. Proof. exact I. Qed.
