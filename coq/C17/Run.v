(* C17 — correspondence: evaluate model (tie) and spec (property oracle) on the calls the
   implementation ran. *)
From V.C17 Require Import Model Spec.
Open Scope Z_scope.

Definition sval_eqb (a b : sval) : bool :=
  match a, b with
  | SNull, SNull => true | SBool x, SBool y => Bool.eqb x y | SInt x, SInt y => x =? y
  | SFloat x, SFloat y => same_float x y | SStr x, SStr y => String.eqb x y | SOther, SOther => true
  | _, _ => false
  end.
Definition gval_eqb (a b : gval) : bool :=
  match a, b with
  | GStr t x, GStr t' y => kind_eqb t t' && String.eqb x y | GBool t x, GBool t' y => kind_eqb t t' && Bool.eqb x y
  | GNum k x, GNum k' y => kind_eqb k k' && (x =? y)
  | GFlt k x, GFlt k' y => kind_eqb k k' && same_float x y
  | GOth, GOth => true
  | _, _ => false
  end.
Fixpoint gvals_eqb (a b : list gval) : bool :=
  match a, b with
  | [], [] => true | x :: a', y :: b' => gval_eqb x y && gvals_eqb a' b' | _, _ => false
  end.

(* a string given by its bytes (for strings that are not valid UTF-8) *)
Fixpoint bytes_str (l : list nat) : string :=
  match l with [] => EmptyString | b :: r => String (Ascii.ascii_of_nat b) (bytes_str r) end.

(* the 64 KiB string "xx...x" of the string round-trip case, built by doubling *)
Fixpoint dbl (n : nat) (s : string) : string := match n with O => s | S m => dbl m (s ++ s)%string end.
Definition big_x : string := dbl 16 "x"%string.

Record oracle := {
  o_pf : list (string * option float);
  o_ff : list (float * string);          (* 'g',14 rendering *)
  o_fg : list (float * string);          (* %g rendering *)
  o_f32 : list (float * float)
}.
Fixpoint look_pf (s : string) (l : list (string * option float)) : option float :=
  match l with [] => None | (k, v) :: r => if String.eqb k s then v else look_pf s r end.
Fixpoint look_fs (f : float) (l : list (float * string)) : string :=
  match l with [] => "?"%string | (k, v) :: r => if same_float k f then v else look_fs f r end.
Fixpoint look_f32 (f : float) (l : list (float * float)) : float :=
  match l with [] => nan | (k, v) :: r => if same_float k f then v else look_f32 f r end.
Definition lib_of (o : oracle) : golib :=
  {| parse_float := fun s => look_pf s (o_pf o);
     fmt_g14 := fun f => look_fs f (o_ff o);
     fmt_g := fun f => look_fs f (o_fg o);
     f32 := fun f => look_f32 f (o_f32 o);
     other_str := "[1]"%string |}.

(* what the engine observed *)
Inductive robs := RVal (v : sval) | RText | RNil | RThrow | RPanic.
Definition res_agree (m : outcome sval) (o : robs) : bool :=
  match m, o with
  | Ok v, RVal w => sval_eqb v w
  | OkText, RVal (SStr _) => true
  | NoResult, RNil => true
  | Throw, RThrow => true
  | Crash, RPanic => true
  | _, _ => false
  end.
Inductive gobs := GGo (g : gval) | GThrow | GPanic.

Inductive case :=
| CCall (params : list gkind) (args : list sval) (ret : option gval) (orc : oracle)
        (got : list gval) (res : robs)
| CGen (k : gkind) (v : sval) (orc : oracle) (o : gobs)
(* new T(args): fields = the kinds of T's public fields in order; got = the fields of the new
   instance as a method of T saw them afterwards; res = RNil (constructed) / RThrow / RPanic *)
| CCtor (fields : list gkind) (args : list sval) (orc : oracle) (got : list gval) (res : robs).

(* failing clauses:
   1 model/implementation disagree (tie)
   2 a matching, representable argument did not arrive as exactly that value with the
     parameter's kind, or a returnable result did not come back as exactly that value
   3 a matching but unrepresentable argument was not reported as a catchable error
   4 the call crashed (Go panic) *)
Fixpoint all_match (lib : golib) (params : list gkind) (args : list sval) : bool :=
  match params, args with
  | [], [] => true
  | k :: ps, a :: r => matching a k && representable lib a k && all_match lib ps r
  | _, _ => false
  end.
Fixpoint injects (params : list gkind) (args : list sval) : list gval :=
  match params, args with k :: ps, a :: r => inject k a :: injects ps r | _, _ => [] end.
Fixpoint some_unrepresentable (lib : golib) (params : list gkind) (args : list sval) : bool :=
  match params, args with
  | k :: ps, a :: r => (matching a k && unconvertible lib a k) || some_unrepresentable lib ps r
  | _, _ => false
  end.

Fixpoint ctor_args_match (fields : list gkind) (args : list sval) : bool :=
  match fields, args with
  | _, [] => true
  | k :: fs, a :: r => wf a && matching a k && ctor_args_match fs r
  | [], _ :: _ => true
  end.
Definition ctor_all_match (fields : list gkind) (args : list sval) : bool :=
  forallb ctor_kind_ok fields && ctor_args_match fields args.
Fixpoint ctor_expected (fields : list gkind) (args : list sval) : list gval :=
  match fields, args with
  | [], _ => []
  | k :: fs, a :: r => inject k a :: ctor_expected fs r
  | k :: fs, [] => zero_of k :: ctor_expected fs []
  end.

Definition check_case (c : case) : list nat :=
  match c with
  | CCall params args ret orc got res =>
      let lib := lib_of orc in
      let (mg, mr) := call lib params args ret in
      (if gvals_eqb mg got && res_agree mr res then [] else [1%nat]) ++
      (if all_match lib params args then
         (if gvals_eqb (injects params args) got &&
             match ret with
             | None => match res with RNil => true | _ => false end
             | Some g => if returnable g then match res with RVal w => sval_eqb (project g) w | _ => false end
                         else match res with RPanic => false | _ => true end
             end
          then [] else [2%nat])
       else []) ++
      (if some_unrepresentable lib params args
       then match res with RThrow => [] | _ => [3%nat] end else []) ++
      (match res with RPanic => [4%nat] | _ => [] end)
  | CCtor fields args orc got res =>
      let lib := lib_of orc in
      (match construct lib fields args, res with
       | Ok gs, RNil => if gvals_eqb gs got then [] else [1%nat]
       | Throw, RThrow => []
       | _, _ => [1%nat]
       end) ++
      (* every argument of its field's own sort, all fields settable: each field holds exactly the
         argument, the remaining fields their zero value *)
      (if ctor_all_match fields args
       then match res with RNil => if gvals_eqb (ctor_expected fields args) got then [] else [2%nat] | _ => [2%nat] end
       else []) ++
      (match res with RPanic => [4%nat] | _ => [] end)
  | CGen k v orc o =>
      let lib := lib_of orc in
      (match generic lib k v, o with
       | Ok g, GGo g' => if gval_eqb g g' then [] else [1%nat]
       | OkText, GGo _ => []
       | OkText, GThrow => []
       | Throw, GThrow => []
       | _, _ => [1%nat]
       end) ++
      (if matching v k then
         if representable lib v k
         then match o with GGo g' => if gval_eqb (inject k v) g' then [] else [2%nat] | _ => [2%nat] end
         else if unconvertible lib v k then match o with GThrow => [] | _ => [3%nat] end else []
       else []) ++
      (match o with GPanic => [4%nat] | _ => [] end)
  end.
