(* C17 — executable model of the Go boundary as the code is written after the C17 fix commits:
   runtime/reflect_register.go + runtime/reflect_class.go (convertToGoValue /
   convertToScriptValue, identical in ReflectFunction and ReflectMethod, with the sized kinds in
   runtime/reflect_convert.go), ReflectFunction.Call / ReflectMethod.Call (argument conversion
   in order, reflect.Call's requirement that the argument's dynamic type is the parameter type,
   conversion of the first result), and the scalar part of utils.ConvertFromIndex[T]
   (convertFromIntValue / FloatValue / BoolValue / StringValue).
   Go values carry their dynamic kind.  Go library functions that are not modelled are
   parameters (`lib`): strconv.ParseFloat, the two float printers, and float64 -> float32 -> float64.
   No proofs here. *)
From Coq Require Export ZArith List Bool String Floats.
From V.C03 Require Model.
Export ListNotations.
Open Scope Z_scope.

Definition f2i := V.C03.Model.f2i.          (* int(float64), amd64 rule *)
Definition Z2f := V.C03.Model.Z2f.          (* float64(int) *)
Definition itoa := V.C03.Model.itoa.
Definition maxint : Z := 9223372036854775807.
Definition minint : Z := -9223372036854775808.

(* ------------------------------------------------------------------ the two worlds *)
Inductive sval := SNull | SBool (b : bool) | SInt (z : Z) | SFloat (f : float) | SStr (s : string)
                | SOther.                     (* an array: implements only AsString and AsBool *)
Inductive gkind := KString | KBool | KInt | KInt8 | KInt16 | KInt32 | KInt64
                 | KUint | KUint8 | KUint16 | KUint32 | KUint64 | KFloat32 | KFloat64
                 | KOther                     (* any unsupported Go type, e.g. a slice *)
                 | KNamed (k : gkind).        (* a DEFINED type (`type Name string`) whose underlying type is k *)
(* a Go value carries its dynamic TYPE t (a predeclared kind or a defined type over one):
   reflect.Call requires the argument's type to be the parameter's type, not only its kind *)
Inductive gval :=
| GStr (t : gkind) (s : string) | GBool (t : gkind) (b : bool)
| GNum (t : gkind) (z : Z)                    (* an integer of dynamic type t *)
| GFlt (t : gkind) (f : float)                (* a float32 (held as the float64 it widens to) or float64 *)
| GOth.
Definition dyn_kind (g : gval) : gkind :=
  match g with GStr t _ => t | GBool t _ => t | GNum t _ => t | GFlt t _ => t | GOth => KOther end.
(* reflect.Type.Kind(): the underlying predeclared kind *)
Fixpoint base_kind (k : gkind) : gkind := match k with KNamed k' => base_kind k' | _ => k end.

Record golib := {
  parse_float : string -> option float;       (* strconv.ParseFloat(s, 64) *)
  fmt_g14 : float -> string;                  (* FloatValue.AsString: FormatFloat(f,'g',14,64) *)
  fmt_g : float -> string;                    (* fmt.Sprintf("%g", f) *)
  f32 : float -> float;                       (* float64(float32(f)) *)
  other_str : string                          (* AsString of the array operand *)
}.

Inductive outcome (A : Type) := Ok (a : A) | OkText (* some text, content not modelled *) | Throw | Crash | NoResult.
Arguments Ok {A} a. Arguments OkText {A}. Arguments Throw {A}. Arguments Crash {A}. Arguments NoResult {A}.

Fixpoint kind_eqb (a b : gkind) : bool :=
  match a, b with
  | KNamed x, KNamed y => kind_eqb x y
  | KString, KString | KBool, KBool | KInt, KInt | KInt8, KInt8 | KInt16, KInt16 | KInt32, KInt32
  | KInt64, KInt64 | KUint, KUint | KUint8, KUint8 | KUint16, KUint16 | KUint32, KUint32
  | KUint64, KUint64 | KFloat32, KFloat32 | KFloat64, KFloat64 | KOther, KOther => true
  | _, _ => false
  end.
(* the value range of an integer kind (int and uint are 64-bit) *)
Definition int_bounds (k : gkind) : option (Z * Z) :=
  match base_kind k with
  | KInt | KInt64 => Some (minint, maxint)
  | KInt8 => Some (-128, 127) | KInt16 => Some (-32768, 32767) | KInt32 => Some (-2147483648, 2147483647)
  | KUint | KUint64 => Some (0, 18446744073709551615)
  | KUint8 => Some (0, 255) | KUint16 => Some (0, 65535) | KUint32 => Some (0, 4294967295)
  | _ => None
  end.
Definition fits (k : gkind) (z : Z) : bool :=
  match int_bounds k with Some (lo, hi) => (lo <=? z) && (z <=? hi) | None => false end.
Definition is_inf (f : float) : bool := PrimFloat.eqb f infinity || PrimFloat.eqb f neg_infinity.

(* ------------------------------------------------------------------ As* of the script values *)
Inductive conv (A : Type) := NoIface | ConvErr | Conv (a : A).
Arguments NoIface {A}. Arguments ConvErr {A}. Arguments Conv {A} a.
Definition as_int (v : sval) : conv Z :=
  match v with SNull => Conv 0 | SInt z => Conv z | SFloat f => Conv (f2i f) | _ => NoIface end.
Definition as_float (lib : golib) (v : sval) : conv float :=
  match v with
  | SNull => Conv 0%float | SInt z => Conv (Z2f z) | SFloat f => Conv f
  | SStr s => match parse_float lib s with Some f => Conv f | None => ConvErr end
  | _ => NoIface
  end.
Definition as_bool (v : sval) : bool :=
  match v with
  | SNull => false | SBool b => b | SInt z => negb (z =? 0) | SFloat f => negb (PrimFloat.eqb f 0%float)
  | SStr s => negb (String.eqb s "") | SOther => true
  end.
Definition as_string (lib : golib) (v : sval) : string :=
  match v with
  | SNull => "" | SBool b => if b then "true" else "false" | SInt z => itoa z
  | SFloat f => fmt_g14 lib f | SStr s => s | SOther => other_str lib
  end.

(* ------------------------------------------------------------------ convertToGoValue *)
(* the switch is on goType.Kind(); every branch ends with .Convert(goType), so the result has the
   parameter's TYPE k (also when k is a defined type) *)
Definition to_go (lib : golib) (k : gkind) (v : sval) : outcome gval :=
  match base_kind k with
  | KString => Ok (GStr k (as_string lib v))
  | KInt | KInt64 =>
      match as_int v with Conv z => Ok (GNum k z) | _ => Throw end
  | KInt8 | KInt16 | KInt32 =>
      match as_int v with Conv z => if fits k z then Ok (GNum k z) else Throw | _ => Throw end
  | KUint | KUint8 | KUint16 | KUint32 | KUint64 =>
      match as_int v with
      | Conv z => if (z <? 0) || negb (fits k z) then Throw else Ok (GNum k z)
      | _ => Throw
      end
  | KFloat64 => match as_float lib v with Conv f => Ok (GFlt k f) | _ => Throw end
  | KFloat32 =>
      match as_float lib v with
      | Conv f => if negb (is_inf f) && is_inf (f32 lib f) then Throw else Ok (GFlt k (f32 lib f))
      | _ => Throw
      end
  | KBool => Ok (GBool k (as_bool v))
  | KOther | KNamed _ => Throw
  end.

(* ------------------------------------------------------------------ the reflected constructor *)
(* runtime/reflect_class.go ReflectConstructor.Call + setFieldValue: `new T(a0, a1, ..)` stores the
   i-th argument into the i-th public field of a fresh struct.  setFieldValue switches on the
   field's Kind: String (AsString), Int / Int64 (AsInt), Float64 (AsFloat), Bool (AsBool); a field
   of any other kind cannot be set (error) — and since a missing argument is stored as null, a
   struct with such a public field cannot be constructed at all.  A missing argument therefore
   gives the zero value ("" / 0 / 0.0 / false = the conversions of null); arguments beyond the
   fields are ignored; the first failure is a catchable error. *)
Definition ctor_kind_ok (k : gkind) : bool :=
  match k with KString | KInt | KInt64 | KFloat64 | KBool => true | _ => false end.
Definition set_field (lib : golib) (k : gkind) (v : sval) : outcome gval :=
  if ctor_kind_ok k then to_go lib k v else Throw.
Definition zero_of (k : gkind) : gval :=
  match base_kind k with
  | KString => GStr k "" | KBool => GBool k false
  | KFloat32 | KFloat64 => GFlt k 0%float
  | KOther | KNamed _ => GOth
  | _ => GNum k 0
  end.
Fixpoint construct (lib : golib) (fields : list gkind) (args : list sval) : outcome (list gval) :=
  match fields, args with
  | [], _ => Ok []
  | k :: fs, a :: r =>
      match set_field lib k a with
      | Ok g => match construct lib fs r with Ok gs => Ok (g :: gs) | o => o end
      | _ => Throw
      end
  | k :: fs, [] =>                        (* missing argument: the slot holds null, which is stored too *)
      match set_field lib k SNull with
      | Ok g => match construct lib fs [] with Ok gs => Ok (g :: gs) | o => o end
      | _ => Throw
      end
  end.

(* ------------------------------------------------------------------ convertToScriptValue *)
Definition signed_kind (k : gkind) : bool :=
  match base_kind k with KInt | KInt8 | KInt16 | KInt32 | KInt64 => true | _ => false end.
Definition from_go (g : gval) : outcome sval :=
  match g with
  | GStr _ s => Ok (SStr s)
  | GBool _ b => Ok (SBool b)
  | GNum k z => if signed_kind k then Ok (SInt z) else if z >? maxint then Throw else Ok (SInt z)
  | GFlt _ f => Ok (SFloat f)
  | GOth => OkText                        (* fmt.Sprintf("%v", ...) of an unsupported result *)
  end.

(* ------------------------------------------------------------------ Call *)
(* arguments are converted in order; the first failure is reported and the function is not
   called.  reflect.Call panics unless every argument has the parameter's type. *)
Fixpoint convert_args (lib : golib) (params : list gkind) (args : list sval) : outcome (list gval) :=
  match params, args with
  | [], _ => Ok []
  | k :: ps, a :: rest =>
      match to_go lib k a with
      | Ok g => match convert_args lib ps rest with Ok gs => Ok (g :: gs) | o => o end
      | _ => Throw
      end
  | k :: ps, [] =>                        (* missing argument: the slot holds null *)
      match to_go lib k SNull with
      | Ok g => match convert_args lib ps [] with Ok gs => Ok (g :: gs) | o => o end
      | _ => Throw
      end
  end.
Fixpoint well_typed (params : list gkind) (gs : list gval) : bool :=
  match params, gs with
  | [], [] => true
  | k :: ps, g :: r => kind_eqb (dyn_kind g) k && well_typed ps r
  | _, _ => false
  end.
(* (what the Go function received, what the script got back); ret = the value the Go function
   returns (None = no result) *)
Definition call (lib : golib) (params : list gkind) (args : list sval) (ret : option gval)
  : list gval * outcome sval :=
  match convert_args lib params args with
  | Ok gs =>
      if well_typed params gs then
        (gs, match ret with None => NoResult | Some g => from_go g end)
      else ([], Crash)
  | _ => ([], Throw)
  end.

(* ------------------------------------------------------------------ utils.ConvertFromIndex[T] (scalars) *)
Definition int_kind (k : gkind) : bool := match int_bounds k with Some _ => true | None => false end.
Definition generic (lib : golib) (k : gkind) (v : sval) : outcome gval :=
  match v with
  | SInt z =>
      match k with
      | KNamed _ => OkText                    (* defined types go through convertTypeAlias: not modelled *)
      | KString => Ok (GStr KString (itoa z))
      | KBool => Ok (GBool KBool (negb (z =? 0)))
      | KFloat32 => Ok (GFlt KFloat32 (f32 lib (Z2f z)))
      | KFloat64 => Ok (GFlt KFloat64 (Z2f z))
      | KOther => Throw
      | _ => if fits k z then Ok (GNum k z) else Throw
      end
  | SFloat f =>
      match k with
      | KNamed _ => OkText
      | KString => Ok (GStr KString (fmt_g lib f))
      | KBool => Ok (GBool KBool (negb (PrimFloat.eqb f 0%float)))
      | KFloat64 => Ok (GFlt KFloat64 f)
      | KFloat32 => if negb (is_inf f) && is_inf (f32 lib f) then Throw else Ok (GFlt KFloat32 (f32 lib f))
      | KOther => Throw
      | _ =>
          (* math.Trunc, then the range test; NaN and out-of-range values are errors *)
          match Prim2SF f with
          | S754_nan | S754_infinity _ => Throw
          | _ => let t := V.C03.Model.f2i f in
                 (* f2i saturates to minint outside int64: detect by comparing back *)
                 if PrimFloat.ltb f (-0x1p+63)%float || PrimFloat.leb 0x1p+64%float f then Throw
                 else if PrimFloat.leb 0x1p+63%float f then
                   (* only uint64/uint can hold it *)
                   match k with
                   | KUint | KUint64 => Ok (GNum k (f2i (f - 0x1p+63)%float + 9223372036854775808))
                   | _ => Throw
                   end
                 else if fits k t then Ok (GNum k t) else Throw
          end
      end
  | SBool b =>
      match k with
      | KNamed _ => OkText
      | KString => Ok (GStr KString (if b then "true" else "false"))
      | KBool => Ok (GBool KBool b)
      | KFloat32 | KFloat64 => Ok (GFlt k (if b then 1 else 0)%float)
      | KOther => Throw
      | _ => Ok (GNum k (if b then 1 else 0))
      end
  | SStr s =>
      match k with
      | KNamed _ => OkText
      | KString => Ok (GStr KString s)
      | KBool => OkText                       (* parseBool: not modelled *)
      | _ => Throw                            (* "two-step conversion" error *)
      end
  | SNull | SOther => Throw
  end.
