(* C17 — the property, independent of the converters' switch structure: what it means for a
   script value to arrive "unchanged" at a Go parameter of a given kind, and back. *)
From V.C17 Require Import Model.
Open Scope Z_scope.

(* script kind and Go kind that denote the same sort of value *)
Definition matching (v : sval) (k : gkind) : bool :=
  match v, base_kind k with
  | SStr _, KString => true
  | SBool _, KBool => true
  | SInt _, (KInt | KInt8 | KInt16 | KInt32 | KInt64 | KUint | KUint8 | KUint16 | KUint32 | KUint64) => true
  | SFloat _, (KFloat32 | KFloat64) => true
  | _, _ => false
  end.
(* all NaNs alike, +0 and -0 distinguished *)
Definition same_float (a b : float) : bool :=
  match PrimFloat.classify a, PrimFloat.classify b with
  | NaN, NaN => true
  | PZero, PZero => true
  | NZero, NZero => true
  | NaN, _ | _, NaN | PZero, _ | _, PZero | NZero, _ | _, NZero => false
  | _, _ => PrimFloat.eqb a b
  end.
(* the value exists in the Go kind *)
Definition representable (lib : golib) (v : sval) (k : gkind) : bool :=
  match v, base_kind k with
  | SInt z, _ => fits k z
  | SFloat f, KFloat32 => same_float (f32 lib f) f
  | _, _ => true
  end.
(* the value cannot be converted to the kind at all: an integer outside the kind's range, a finite
   float64 beyond the float32 range.  (A float64 that merely needs rounding to float32 is
   convertible: it arrives as the nearest float32.) *)
Definition unconvertible (lib : golib) (v : sval) (k : gkind) : bool :=
  match v, base_kind k with
  | SInt z, _ => negb (fits k z)
  | SFloat f, KFloat32 => negb (is_inf f) && is_inf (f32 lib f)
  | _, _ => false
  end.
(* the Go value of kind k that IS the script value *)
Definition inject (k : gkind) (v : sval) : gval :=
  match v with
  | SStr s => GStr k s | SBool b => GBool k b | SInt z => GNum k z | SFloat f => GFlt k f
  | _ => GOth
  end.
(* a Go result that exists as a script value: every string, bool, float; integers up to 2^63-1 *)
Definition returnable (g : gval) : bool :=
  match g with GNum k z => fits k z && (z <=? maxint) | GOth => false | _ => true end.
Definition project (g : gval) : sval :=
  match g with GStr _ s => SStr s | GBool _ b => SBool b | GNum _ z => SInt z | GFlt _ f => SFloat f | GOth => SOther end.

Definition not_crash {A} (o : outcome A) : bool := match o with Crash => false | _ => true end.

(* what arrives at a parameter of kind k for a matching, convertible script value: the value
   itself, carried by a Go value of kind k (a float64 at a float32 parameter arrives as the
   nearest float32) *)
Definition arrive (lib : golib) (k : gkind) (v : sval) : gval :=
  match v, base_kind k with
  | SFloat f, KFloat32 => GFlt k (f32 lib f)
  | _, _ => inject k v
  end.
(* script ints are 64-bit *)
Definition wf (v : sval) : bool := match v with SInt z => (minint <=? z) && (z <=? maxint) | _ => true end.
(* a predeclared type (int8, string, ...), not a defined type over one *)
Definition predeclared (k : gkind) : bool := match k with KNamed _ => false | _ => true end.
(* Go values compared as values: same dynamic type, same payload (floats by same_float) *)
Definition gval_same (a b : gval) : bool :=
  match a, b with
  | GStr t x, GStr t' y => kind_eqb t t' && String.eqb x y
  | GBool t x, GBool t' y => kind_eqb t t' && Bool.eqb x y
  | GNum t x, GNum t' y => kind_eqb t t' && (x =? y)
  | GFlt t x, GFlt t' y => kind_eqb t t' && same_float x y
  | GOth, GOth => true
  | _, _ => false
  end.
