(* C16 — executable model of the generic path of the ahead-of-time emitter (no proofs here).

   Transcribed from /repo/cmd/compile/reflect_emit.go:
     Generator.Emit             dispatch: special handler > data scalar emitter > emitStructLiteral,
                                otherwise EmitError
     emitStructLiteral          &pkg.T{ Node: node.NewNode(from), F: ..., ... } by reflection:
                                any unexported field other than the embedded Node -> error;
                                the embedded Node and every field tagged pp:"-" are skipped;
                                `Node: node.NewNode(from)` is written whenever there is an embedded
                                Node (after /repo 28177fd; before, only when it carried pp:"-")
     emitReflectValue           nil / node pointer / Variable / Types / scalar kinds / slice / map /
                                struct by value / unsupported kind -> error /
                                pointer to a non-GetValue struct -> failed type assertion (panic)
     emitSlice, emitMap (string keys only), emitStructValue (skips an embedded Node, writes
                                `Node: node.NewNode(from)` whenever there is one, does NOT consult pp)

   A Go value is abstracted to `val` by the harness dumper (harness/cmd/c16 dumper.val), which
   follows emitReflectValue's classification step by step.  The node-field table `table` is
   regenerated from /repo by reflection on every run.

   The 31 special handlers and 5 scalar emitters are NOT transcribed: a node they handle is emitted
   as `GHandler ty <emitted fields>` — "some Go expression determined by the node type and the
   emitted forms of its fields" — and `rebuild` reads that back.  That handlers are faithful in this
   sense is an ASSUMPTION of the model (validated by the structural comparison of checks/C16.py,
   not proved); theorems that do not depend on it are stated for handler-free trees. *)
From Coq Require Import List String Bool Arith.
Import ListNotations.
Open Scope string_scope.

(* ------------------------------------------------------------------ Go values, as the emitter sees them *)
Inductive val :=
| VNil                                         (* nil interface / nil pointer / invalid *)
| VScalar (s : string)                         (* string, ints, uints, bool, floats, []byte: printed text *)
| VVar (s : string)                            (* a data.Variable that is not a node: name#index *)
| VTypes (s : string)                          (* a data.Types: its text *)
| VBad (panics : bool) (why : string)          (* unsupported kind (error) / pointer to a non-node struct (panic) *)
| VNode (ty : string) (fs : list (string * val))    (* pointer to a struct implementing data.GetValue *)
| VStruct (ty : string) (fs : list (string * val))  (* struct by value *)
| VList (l : list val)
| VMap (l : list (string * val)).

(* the embedded *Node of a node struct is the field "*Node" holding this marker (positions are
   runtime-only; what the model keeps is whether the pointer is there) *)
Definition node_marker : val := VScalar "node".

(* ------------------------------------------------------------------ regenerated field table *)
Record fdesc := { f_name : string; f_exported : bool; f_pp : bool (* tag pp:"-" *);
                  f_node : bool (* anonymous embedded field named Node *) }.
Inductive hkind := HSpecial | HScalar | HReflect.
Record tdesc := { t_fields : list fdesc; t_handler : hkind }.
Definition table := list (string * tdesc).

Fixpoint tlookup (tbl : table) (ty : string) : option tdesc :=
  match tbl with [] => None | (n, d) :: r => if String.eqb n ty then Some d else tlookup r ty end.
Fixpoint flookup (fs : list fdesc) (n : string) : option fdesc :=
  match fs with [] => None | f :: r => if String.eqb (f_name f) n then Some f else flookup r n end.

(* ------------------------------------------------------------------ emitted Go expressions *)
Inductive gs :=
| GNil | GLit (s : string) | GVar (s : string) | GTypes (s : string)
| GPtrLit (ty : string) (withnode : bool) (fs : list (string * gs))     (* &pkg.T{Node: node.NewNode(from), ...} *)
| GStructLit (ty : string) (withnode : bool) (fs : list (string * gs))  (* pkg.T{...} *)
| GSlice (l : list gs)
| GMapLit (l : list (string * gs))
| GHandler (ty : string) (withnode : bool) (fs : list (string * gs)).  (* output of a special handler / scalar emitter (abstract) *)

Inductive res (A : Type) := Ok (a : A) | EmitErr | Panic.
Arguments Ok {A} a.
Arguments EmitErr {A}.
Arguments Panic {A}.

(* emit the fields of a struct: `keep` says which fields are written; a field the table does not
   know, or (for generic literals) an unexported kept field, is an error *)
Definition emit_fs (rec : val -> res gs) (fds : list fdesc) (keep : fdesc -> bool) (need_exported : bool) : list (string * val) -> res (list (string * gs)) :=
  fix go (fs : list (string * val)) : res (list (string * gs)) :=
  match fs with
  | [] => Ok []
  | (n, x) :: r =>
      match flookup fds n with
      | None => EmitErr
      | Some fd =>
          if keep fd then
            if need_exported && negb (f_exported fd) then EmitErr
            else match rec x with
                 | Ok g => match go r with
                           | Ok gr => Ok ((n, g) :: gr)
                           | EmitErr => EmitErr
                           | Panic => Panic
                           end
                 | EmitErr => EmitErr
                 | Panic => Panic
                 end
          else go r
      end
  end.

Definition emit_list (rec : val -> res gs) : list val -> res (list gs) :=
  fix go (l : list val) : res (list gs) :=
  match l with
  | [] => Ok []
  | x :: r => match rec x with
              | Ok g => match go r with
                        | Ok gr => Ok (g :: gr) | EmitErr => EmitErr | Panic => Panic
                        end
              | EmitErr => EmitErr
              | Panic => Panic
              end
  end.

Definition emit_map (rec : val -> res gs) : list (string * val) -> res (list (string * gs)) :=
  fix go (l : list (string * val)) : res (list (string * gs)) :=
  match l with
  | [] => Ok []
  | (k, x) :: r => match rec x with
                   | Ok g => match go r with
                             | Ok gr => Ok ((k, g) :: gr) | EmitErr => EmitErr | Panic => Panic
                             end
                   | EmitErr => EmitErr
                   | Panic => Panic
                   end
  end.

Definition has_unexported (td : tdesc) : bool :=
  existsb (fun f => negb (f_exported f) && negb (f_node f)) (t_fields td).
(* `Node: node.NewNode(from)` is written for any embedded Node, by emitStructLiteral and by
   emitStructValue alike *)
Definition needs_node (td : tdesc) : bool := existsb f_node (t_fields td).
(* emitStructLiteral before /repo 28177fd: only for a TAGGED embedded Node (kept for Examples.v) *)
Definition needs_node_prefix (td : tdesc) : bool := existsb (fun f => f_node f && f_pp f) (t_fields td).

Definition keep_lit (f : fdesc) : bool := negb (f_node f) && negb (f_pp f).
Definition keep_val (f : fdesc) : bool := negb (f_node f).

Fixpoint emit (tbl : table) (v : val) {struct v} : res gs :=
  match v with
  | VNil => Ok GNil
  | VScalar s => Ok (GLit s)
  | VVar s => Ok (GVar s)
  | VTypes s => Ok (GTypes s)
  | VBad p _ => if p then Panic else EmitErr
  | VNode ty fs =>
      match tlookup tbl ty with
      | None => EmitErr
      | Some td =>
          match t_handler td with
          | HReflect =>
              if has_unexported td then EmitErr
              else match emit_fs (emit tbl) (t_fields td) keep_lit true fs with
                   | Ok gfs => Ok (GPtrLit ty (needs_node td) gfs)
                   | EmitErr => EmitErr
                   | Panic => Panic
                   end
          | _ =>
              (* special handler / scalar emitter: abstract; it emits the node's children through Emit *)
              match emit_fs (emit tbl) (t_fields td) keep_val false fs with
              | Ok gfs => Ok (GHandler ty (needs_node td) gfs)
              | EmitErr => EmitErr
              | Panic => Panic
              end
          end
      end
  | VStruct ty fs =>
      match tlookup tbl ty with
      | None => EmitErr
      | Some td =>
          match emit_fs (emit tbl) (t_fields td) keep_val true fs with
          | Ok gfs => Ok (GStructLit ty (needs_node td) gfs)
          | EmitErr => EmitErr
          | Panic => Panic
          end
      end
  | VList l => match emit_list (emit tbl) l with Ok gl => Ok (GSlice gl) | EmitErr => EmitErr | Panic => Panic end
  | VMap l => match emit_map (emit tbl) l with Ok gl => Ok (GMapLit gl) | EmitErr => EmitErr | Panic => Panic end
  end.

(* ------------------------------------------------------------------ what the Go compiler makes of the emitted expression *)
Definition rebuild_fs (rec : gs -> val) : list (string * gs) -> list (string * val) :=
  fix go (fs : list (string * gs)) : list (string * val) :=
  match fs with [] => [] | (n, g) :: r => (n, rec g) :: go r end.

Definition node_field (withnode : bool) : list (string * val) :=
  [("*Node", if withnode then node_marker else VNil)].

Fixpoint rebuild (g : gs) : val :=
  match g with
  | GNil => VNil
  | GLit s => VScalar s
  | GVar s => VVar s
  | GTypes s => VTypes s
  | GPtrLit ty wn fs => VNode ty (node_field wn ++ rebuild_fs rebuild fs)
  | GStructLit ty wn fs => VStruct ty (node_field wn ++ rebuild_fs rebuild fs)
  | GSlice l => VList (map rebuild l)
  | GMapLit l => VMap (rebuild_fs rebuild l)
  | GHandler ty wn fs => VNode ty (node_field wn ++ rebuild_fs rebuild fs)
  end.
