(* C16 — the property for the generic emitter, clause by clause.  Only statements here. *)
From Coq Require Import List String Bool Arith.
From V.C16 Require Import Model Spec Proofs.
Import ListNotations.

(* "A construct the generator cannot translate is reported as a compile error, never silently
   dropped or altered": for every field table and every value tree, Emit succeeds exactly on the
   trees the syntactic predicate `covered` accepts ... *)
Theorem emit_ok_iff_covered : forall tbl v, (exists g, emit tbl v = Ok g) <-> covered tbl v = true.
Proof. exact emit_ok_iff_covered_l. Qed.
Print Assumptions emit_ok_iff_covered.

(* ... and on every other tree it ends in an EmitError (or, for a pointer to a non-node struct, in a
   crash of the compile command): there is no third outcome in which a program is produced *)
Theorem uncovered_is_error : forall tbl v, covered tbl v = false ->
  emit tbl v = EmitErr \/ emit tbl v = Panic.
Proof. exact uncovered_is_error_l. Qed.
Print Assumptions uncovered_is_error.

(* "compiled = interpreted" for the emitter: what the Go compiler builds from the emitted
   expression is the original tree with runtime-only information erased — embedded *Node replaced
   by a fresh one, pp:"-" fields of reflectively emitted nodes dropped, everything else kept.
   Hypotheses: the regenerated table is well formed (a decidable obligation, re-proved on the
   regenerated table on every run) and every node of the tree has its embedded Node, as every
   parsed tree does.  For nodes that go through a special handler or scalar emitter the statement
   rests on the model's abstraction of handlers as faithful (GHandler); see the next theorem. *)
Theorem rebuild_emit : forall tbl, table_wf tbl = true -> forall v,
  nodes_present tbl v = true -> forall g, emit tbl v = Ok g -> rebuild g = erase tbl v.
Proof. exact rebuild_emit_l. Qed.
Print Assumptions rebuild_emit.

(* for handler-free trees the emitted expression contains no abstract handler output: there the
   round trip is a statement about transcribed code only *)
Theorem handler_free_no_handler : forall tbl v,
  handler_free tbl v = true -> forall g, emit tbl v = Ok g -> no_handler g = true.
Proof. exact handler_free_no_handler_l. Qed.
Print Assumptions handler_free_no_handler.
