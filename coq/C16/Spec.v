(* C16 — the property for the emitter, stated on values.

   `erase tbl v` is what a node tree must look like after a round trip through generated Go code
   if nothing but runtime-only information is lost: per node, the embedded *Node (positions) is
   replaced by a fresh one, fields tagged pp:"-" of reflectively emitted nodes are gone, every
   other field is there with its (recursively erased) value.
     "compiled = interpreted" for the emitter:   rebuild (emit t) = erase t
     "never silently dropped":                   emit succeeds exactly on the trees `covered` accepts;
                                                 everything else is an EmitError (or a crash of the
                                                 compile command), never a wrong program.
   `covered` is a syntactic predicate on the tree and the regenerated table; it does not mention
   emit. *)
From Coq Require Import List String Bool Arith.
From V.C16 Require Import Model.
Import ListNotations.
Open Scope string_scope.

Fixpoint node_slot (fs : list (string * val)) : val :=
  match fs with
  | [] => VNil
  | (n, x) :: r => if String.eqb n "*Node" then x else node_slot r
  end.

Definition erase_fs (rec : val -> val) (fds : list fdesc) (keep : fdesc -> bool) : list (string * val) -> list (string * val) :=
  fix go (fs : list (string * val)) : list (string * val) :=
  match fs with
  | [] => []
  | (n, x) :: r =>
      match flookup fds n with
      | Some fd => if keep fd then (n, rec x) :: go r else go r
      | None => go r
      end
  end.

Definition erase_map (rec : val -> val) : list (string * val) -> list (string * val) :=
  fix go (l : list (string * val)) : list (string * val) :=
  match l with [] => [] | (k, x) :: r => (k, rec x) :: go r end.

Fixpoint erase (tbl : table) (v : val) : val :=
  match v with
  | VNode ty fs =>
      match tlookup tbl ty with
      | None => v
      | Some td =>
          let keep := match t_handler td with HReflect => keep_lit | _ => keep_val end in
          VNode ty (("*Node", node_slot fs) :: erase_fs (erase tbl) (t_fields td) keep fs)
      end
  | VStruct ty fs =>
      match tlookup tbl ty with
      | None => v
      | Some td => VStruct ty (("*Node", if needs_node td then node_marker else VNil)
                               :: erase_fs (erase tbl) (t_fields td) keep_val fs)
      end
  | VList l => VList (map (erase tbl) l)
  | VMap l => VMap (erase_map (erase tbl) l)
  | _ => v
  end.

(* ---- coverage: which trees the emitter can translate ---- *)
Definition covered_fs (rec : val -> bool) (fds : list fdesc) (keep : fdesc -> bool) (need_exported : bool) : list (string * val) -> bool :=
  fix go (fs : list (string * val)) : bool :=
  match fs with
  | [] => true
  | (n, x) :: r =>
      match flookup fds n with
      | None => false
      | Some fd =>
          (if keep fd then (negb need_exported || f_exported fd) && rec x else true)
          && go r
      end
  end.

Fixpoint covered (tbl : table) (v : val) : bool :=
  match v with
  | VNil | VScalar _ | VVar _ | VTypes _ => true
  | VBad _ _ => false
  | VNode ty fs =>
      match tlookup tbl ty with
      | None => false
      | Some td =>
          match t_handler td with
          | HReflect => negb (has_unexported td) && covered_fs (covered tbl) (t_fields td) keep_lit true fs
          | _ => covered_fs (covered tbl) (t_fields td) keep_val false fs
          end
      end
  | VStruct ty fs =>
      match tlookup tbl ty with
      | None => false
      | Some td => covered_fs (covered tbl) (t_fields td) keep_val true fs
      end
  | VList l => forallb (covered tbl) l
  | VMap l => forallb (fun kv => covered tbl (snd kv)) l
  end.

(* ---- well-formedness of parsed trees: a node of a type that embeds *Node has it (the parser
   always sets it), a node of a type without one has none ---- *)
Definition is_marker (v : val) : bool := match v with VScalar s => String.eqb s "node" | _ => false end.
Definition is_nil (v : val) : bool := match v with VNil => true | _ => false end.

Definition nodes_present_fs (rec : val -> bool) : list (string * val) -> bool :=
  fix go (fs : list (string * val)) : bool :=
  match fs with [] => true | (n, x) :: r => (String.eqb n "*Node" || rec x) && go r end.


Fixpoint nodes_present (tbl : table) (v : val) : bool :=
  match v with
  | VNode ty fs =>
      match tlookup tbl ty with
      | None => false
      | Some td =>
          (if needs_node td then is_marker (node_slot fs) else is_nil (node_slot fs))
          && nodes_present_fs (nodes_present tbl) fs
      end
  | VStruct ty fs => nodes_present_fs (nodes_present tbl) fs
  | VList l => forallb (nodes_present tbl) l
  | VMap l => forallb (fun kv => nodes_present tbl (snd kv)) l
  | _ => true
  end.

(* a tree none of whose nodes goes through a special handler or scalar emitter *)
Definition handler_free_fs (rec : val -> bool) : list (string * val) -> bool :=
  fix go (fs : list (string * val)) : bool :=
  match fs with [] => true | (_, x) :: r => rec x && go r end.

Fixpoint handler_free (tbl : table) (v : val) : bool :=
  match v with
  | VNode ty fs =>
      match tlookup tbl ty with
      | Some td => (match t_handler td with HReflect => true | _ => false end) && handler_free_fs (handler_free tbl) fs
      | None => false
      end
  | VStruct _ fs => handler_free_fs (handler_free tbl) fs
  | VList l => forallb (handler_free tbl) l
  | VMap l => forallb (fun kv => handler_free tbl (snd kv)) l
  | _ => true
  end.

(* ---- obligation on the regenerated table: a field the reflective path erases (pp:"-") must be
   listed as runtime-only; `runtime_only` is part of the model (type name, field name) ---- *)
Definition runtime_only : list (string * string) := [("node.Annotation", "class")].

Definition erased_ok (tbl : table) : bool :=
  forallb (fun e =>
             match t_handler (snd e) with
             | HReflect =>
                 forallb (fun f => if f_pp f && negb (f_node f)
                                   then existsb (fun r => String.eqb (fst r) (fst e) && String.eqb (snd r) (f_name f)) runtime_only
                                   else true) (t_fields (snd e))
             | _ => true
             end) tbl.
