(* C16 — correspondence: evaluate the emitter model on what the real emitter / compiler produced.
   Imports no proofs. *)
From Coq Require Import List String Bool Arith.
From V.C16 Require Import Model Spec.
Import ListNotations.
Local Open Scope list_scope.

Fixpoint val_eqb (a b : val) {struct a} : bool :=
  let fs_eqb :=
    fix go (x y : list (string * val)) {struct x} : bool :=
      match x, y with
      | [], [] => true
      | (n1, v1) :: r1, (n2, v2) :: r2 => String.eqb n1 n2 && val_eqb v1 v2 && go r1 r2
      | _, _ => false
      end in
  match a, b with
  | VNil, VNil => true
  | VScalar x, VScalar y => String.eqb x y
  | VVar x, VVar y => String.eqb x y
  | VTypes x, VTypes y => String.eqb x y
  | VBad p x, VBad q y => Bool.eqb p q && String.eqb x y
  | VNode t1 f1, VNode t2 f2 => String.eqb t1 t2 && fs_eqb f1 f2
  | VStruct t1 f1, VStruct t2 f2 => String.eqb t1 t2 && fs_eqb f1 f2
  | VList l1, VList l2 =>
      (fix go (x y : list val) {struct x} : bool :=
         match x, y with
         | [], [] => true
         | v1 :: r1, v2 :: r2 => val_eqb v1 v2 && go r1 r2
         | _, _ => false
         end) l1 l2
  | VMap f1, VMap f2 => fs_eqb f1 f2
  | _, _ => false
  end.

Definition succeeds {A} (r : res A) : bool := match r with Ok _ => true | _ => false end.

(* Emit on the zero value of a node type: 1 = the model and the real emitter disagree on success *)
Definition check_zero (tbl : table) (c : val * bool) : list nat :=
  let (v, real_ok) := c in
  if Bool.eqb (succeeds (emit tbl v)) real_ok then [] else [1%nat].

(* a handler-free node of a parsed program, and whether the real Generator.Emit translated it:
   1 = the model's coverage predicate and the real emitter disagree;
   3 = (sanity of the theorem instance) rebuild (emit v) differs from erase v *)
Definition check_sub (tbl : table) (c : val * bool) : list nat :=
  let (v, real_ok) := c in
  if handler_free tbl v then
    (if Bool.eqb (covered tbl v) real_ok then [] else [1%nat]) ++
    (match emit tbl v with
     | Ok g => if negb (nodes_present tbl v) || val_eqb (rebuild g) (erase tbl v) then [] else [3%nat]
     | _ => []
     end)
  else [].

(* one program: the statements compile's parser produced, and the statements the generated Go
   constructor built (both dumped by the harness):
   2 = they differ after erasing runtime-only fields; 4 = a parsed node lacks its embedded Node *)
Definition check_prog (tbl : table) (c : val * val) : list nat :=
  let (parsed, built) := c in
  (if val_eqb (erase tbl parsed) (erase tbl built) then [] else [2%nat]) ++
  (if nodes_present tbl parsed then [] else [4%nat]).
