(* C16 — emit succeeds exactly on covered trees; rebuild (emit t) = erase t. *)
From Coq Require Import List String Bool Arith.
From V.C16 Require Import Model Spec.
Import ListNotations.
Local Open Scope list_scope.

(* ------------------------------------------------------------------ induction on values *)
Section ValInd.
  Variable P : val -> Prop.
  Hypothesis HNil : P VNil.
  Hypothesis HScalar : forall s, P (VScalar s).
  Hypothesis HVar : forall s, P (VVar s).
  Hypothesis HTypes : forall s, P (VTypes s).
  Hypothesis HBad : forall p w, P (VBad p w).
  Hypothesis HNode : forall ty fs, Forall (fun kv => P (snd kv)) fs -> P (VNode ty fs).
  Hypothesis HStruct : forall ty fs, Forall (fun kv => P (snd kv)) fs -> P (VStruct ty fs).
  Hypothesis HList : forall l, Forall P l -> P (VList l).
  Hypothesis HMap : forall l, Forall (fun kv => P (snd kv)) l -> P (VMap l).

  Fixpoint val_ind' (v : val) : P v :=
    match v with
    | VNil => HNil
    | VScalar s => HScalar s
    | VVar s => HVar s
    | VTypes s => HTypes s
    | VBad p w => HBad p w
    | VNode ty fs =>
        HNode ty fs ((fix go (fs : list (string * val)) : Forall (fun kv => P (snd kv)) fs :=
                        match fs with
                        | [] => Forall_nil _
                        | kv :: r => Forall_cons kv (val_ind' (snd kv)) (go r)
                        end) fs)
    | VStruct ty fs =>
        HStruct ty fs ((fix go (fs : list (string * val)) : Forall (fun kv => P (snd kv)) fs :=
                          match fs with
                          | [] => Forall_nil _
                          | kv :: r => Forall_cons kv (val_ind' (snd kv)) (go r)
                          end) fs)
    | VList l =>
        HList l ((fix go (l : list val) : Forall P l :=
                    match l with [] => Forall_nil _ | x :: r => Forall_cons x (val_ind' x) (go r) end) l)
    | VMap l =>
        HMap l ((fix go (fs : list (string * val)) : Forall (fun kv => P (snd kv)) fs :=
                   match fs with
                   | [] => Forall_nil _
                   | kv :: r => Forall_cons kv (val_ind' (snd kv)) (go r)
                   end) l)
    end.
End ValInd.

(* ------------------------------------------------------------------ emit succeeds iff covered *)
Definition succeeds {A} (r : res A) : bool := match r with Ok _ => true | _ => false end.

Lemma emit_fs_succeeds : forall tbl fds keep ne fs,
  Forall (fun kv => succeeds (emit tbl (snd kv)) = covered tbl (snd kv)) fs ->
  succeeds (emit_fs (emit tbl) fds keep ne fs) = covered_fs (covered tbl) fds keep ne fs.
Proof.
  intros tbl fds keep ne fs H. induction H as [|[n x] r Hx Hr IH]; simpl; [reflexivity|].
  destruct (flookup fds n) as [fd|]; [|reflexivity].
  destruct (keep fd); simpl.
  - destruct (ne && negb (f_exported fd)) eqn:E.
    + simpl. apply andb_true_iff in E. destruct E as [E1 E2]. rewrite E1. simpl.
      apply negb_true_iff in E2. rewrite E2. reflexivity.
    + simpl in Hx. rewrite <- Hx, <- IH.
      assert (G : negb ne || f_exported fd = true).
      { destruct ne, (f_exported fd); simpl in *; auto; discriminate. }
      rewrite G. simpl.
      destruct (emit tbl x); simpl; auto.
      destruct (emit_fs (emit tbl) fds keep ne r); reflexivity.
  - exact IH.
Qed.

Lemma emit_list_succeeds : forall tbl l,
  Forall (fun x => succeeds (emit tbl x) = covered tbl x) l ->
  succeeds (emit_list (emit tbl) l) = forallb (covered tbl) l.
Proof.
  intros tbl l H. induction H as [|x r Hx Hr IH]; simpl; [reflexivity|].
  rewrite <- Hx, <- IH. destruct (emit tbl x); simpl; auto.
  destruct (emit_list (emit tbl) r); reflexivity.
Qed.

Lemma emit_map_succeeds : forall tbl l,
  Forall (fun kv => succeeds (emit tbl (snd kv)) = covered tbl (snd kv)) l ->
  succeeds (emit_map (emit tbl) l) = forallb (fun kv => covered tbl (snd kv)) l.
Proof.
  intros tbl l H. induction H as [|[k x] r Hx Hr IH]; simpl; [reflexivity|].
  simpl in Hx. rewrite <- Hx, <- IH. destruct (emit tbl x); simpl; auto.
  destruct (emit_map (emit tbl) r); reflexivity.
Qed.

Lemma emit_succeeds_covered : forall tbl v, succeeds (emit tbl v) = covered tbl v.
Proof.
  intros tbl. induction v using val_ind'; simpl; try reflexivity.
  - destruct p; reflexivity.
  - destruct (tlookup tbl ty) as [td|]; [|reflexivity].
    destruct (t_handler td).
    + rewrite <- (emit_fs_succeeds tbl _ keep_val false fs H).
      destruct (emit_fs (emit tbl) (t_fields td) keep_val false fs); reflexivity.
    + rewrite <- (emit_fs_succeeds tbl _ keep_val false fs H).
      destruct (emit_fs (emit tbl) (t_fields td) keep_val false fs); reflexivity.
    + destruct (has_unexported td); simpl; [reflexivity|].
      rewrite <- (emit_fs_succeeds tbl _ keep_lit true fs H).
      destruct (emit_fs (emit tbl) (t_fields td) keep_lit true fs); reflexivity.
  - destruct (tlookup tbl ty) as [td|]; [|reflexivity].
    rewrite <- (emit_fs_succeeds tbl _ keep_val true fs H).
    destruct (emit_fs (emit tbl) (t_fields td) keep_val true fs); reflexivity.
  - rewrite <- (emit_list_succeeds tbl l H). destruct (emit_list (emit tbl) l); reflexivity.
  - rewrite <- (emit_map_succeeds tbl l H). destruct (emit_map (emit tbl) l); reflexivity.
Qed.

Lemma emit_ok_iff_covered_l : forall tbl v, (exists g, emit tbl v = Ok g) <-> covered tbl v = true.
Proof.
  intros tbl v. rewrite <- emit_succeeds_covered. split.
  - intros [g E]. rewrite E. reflexivity.
  - destruct (emit tbl v); simpl; intros H; [eauto | discriminate | discriminate].
Qed.

Lemma uncovered_is_error_l : forall tbl v, covered tbl v = false ->
  emit tbl v = EmitErr \/ emit tbl v = Panic.
Proof.
  intros tbl v H. rewrite <- emit_succeeds_covered in H.
  destruct (emit tbl v); simpl in H; [discriminate | auto | auto].
Qed.

(* ------------------------------------------------------------------ rebuild (emit v) = erase v *)
Definition round_trip (tbl : table) (v : val) : Prop :=
  nodes_present tbl v = true -> forall g, emit tbl v = Ok g -> rebuild g = erase tbl v.

Lemma fs_round_trip : forall tbl fds keep ne fs gfs,
  Forall (fun kv => round_trip tbl (snd kv)) fs ->
  nodes_present_fs (nodes_present tbl) fs = true ->
  (forall fd, keep fd = true -> f_node fd = false) ->
  (forall n fd, flookup fds n = Some fd -> f_node fd = false -> String.eqb n "*Node" = false) ->
  emit_fs (emit tbl) fds keep ne fs = Ok gfs ->
  rebuild_fs rebuild gfs = erase_fs (erase tbl) fds keep fs.
Proof.
  intros tbl fds keep ne fs gfs H. revert gfs.
  induction H as [|[n x] r Hx Hr IH]; intros gfs NP K NN E; simpl in *.
  - inversion E; subst. reflexivity.
  - destruct (flookup fds n) as [fd|] eqn:F; [|discriminate].
    apply andb_true_iff in NP. destruct NP as [NPx NPr].
    destruct (keep fd) eqn:Kf.
    + destruct (ne && negb (f_exported fd)); [discriminate|].
      destruct (emit tbl x) as [g| |] eqn:Ex; try discriminate.
      destruct (emit_fs (emit tbl) fds keep ne r) as [gr| |] eqn:Er; try discriminate.
      inversion E; subst. simpl. f_equal.
      * f_equal. apply Hx; auto.
        rewrite (NN n fd F (K fd Kf)) in NPx. simpl in NPx. exact NPx.
      * apply IH; auto.
    + apply IH; auto.
Qed.

Lemma list_round_trip : forall tbl l gl,
  Forall (round_trip tbl) l -> forallb (nodes_present tbl) l = true ->
  emit_list (emit tbl) l = Ok gl -> map rebuild gl = map (erase tbl) l.
Proof.
  intros tbl l gl H. revert gl. induction H as [|x r Hx Hr IH]; intros gl NP E; simpl in *.
  - inversion E; reflexivity.
  - apply andb_true_iff in NP. destruct NP as [NPx NPr].
    destruct (emit tbl x) as [g| |] eqn:Ex; try discriminate.
    destruct (emit_list (emit tbl) r) as [gr| |] eqn:Er; try discriminate.
    inversion E; subst. simpl. f_equal; [apply Hx; auto | apply IH; auto].
Qed.

Lemma map_round_trip : forall tbl l gl,
  Forall (fun kv => round_trip tbl (snd kv)) l ->
  forallb (fun kv => nodes_present tbl (snd kv)) l = true ->
  emit_map (emit tbl) l = Ok gl -> rebuild_fs rebuild gl = erase_map (erase tbl) l.
Proof.
  intros tbl l gl H. revert gl. induction H as [|[k x] r Hx Hr IH]; intros gl NP E; simpl in *.
  - inversion E; reflexivity.
  - apply andb_true_iff in NP. destruct NP as [NPx NPr].
    destruct (emit tbl x) as [g| |] eqn:Ex; try discriminate.
    destruct (emit_map (emit tbl) r) as [gr| |] eqn:Er; try discriminate.
    inversion E; subst. simpl. f_equal; [f_equal; apply Hx; auto | apply IH; auto].
Qed.

(* a table is well formed when the field called "*Node" of a type is its embedded Node and nothing
   else is (a decidable obligation on the regenerated table) *)
Definition table_wf (tbl : table) : bool :=
  forallb (fun e => forallb (fun f => Bool.eqb (String.eqb (f_name f) "*Node") (f_node f)) (t_fields (snd e))) tbl.

Lemma flookup_name : forall fds n fd, flookup fds n = Some fd -> f_name fd = n.
Proof.
  induction fds as [|f r IH]; simpl; intros n fd H; [discriminate|].
  destruct (String.eqb_spec (f_name f) n); [inversion H; subst; reflexivity | apply IH; auto].
Qed.
Lemma flookup_in : forall fds n fd, flookup fds n = Some fd -> In fd fds.
Proof.
  induction fds as [|f r IH]; simpl; intros n fd H; [discriminate|].
  destruct (String.eqb (f_name f) n); [inversion H; auto | right; eapply IH; eauto].
Qed.
Lemma tlookup_in : forall tbl ty td, tlookup tbl ty = Some td -> In (ty, td) tbl.
Proof.
  induction tbl as [|[n d] r IH]; simpl; intros ty td H; [discriminate|].
  destruct (String.eqb_spec n ty); [inversion H; subst; auto | right; apply IH; auto].
Qed.

Lemma wf_not_node : forall tbl ty td n fd, table_wf tbl = true -> tlookup tbl ty = Some td ->
  flookup (t_fields td) n = Some fd -> f_node fd = false -> String.eqb n "*Node" = false.
Proof.
  intros tbl ty td n fd W T F N. unfold table_wf in W. rewrite forallb_forall in W.
  specialize (W _ (tlookup_in _ _ _ T)). simpl in W. rewrite forallb_forall in W.
  specialize (W _ (flookup_in _ _ _ F)). rewrite (flookup_name _ _ _ F), N in W.
  destruct (String.eqb n "*Node"); [discriminate | reflexivity].
Qed.

Lemma keep_lit_not_node : forall fd, keep_lit fd = true -> f_node fd = false.
Proof. unfold keep_lit. intros fd H. apply andb_true_iff in H. destruct H as [H _]. apply negb_true_iff in H. exact H. Qed.
Lemma keep_val_not_node : forall fd, keep_val fd = true -> f_node fd = false.
Proof. unfold keep_val. intros fd H. apply negb_true_iff in H. exact H. Qed.

Lemma node_field_slot : forall td fs,
  (if needs_node td then is_marker (node_slot fs) else is_nil (node_slot fs)) = true ->
  (if needs_node td then node_marker else VNil) = node_slot fs.
Proof.
  intros td fs H. destruct (needs_node td).
  - destruct (node_slot fs); simpl in H; try discriminate.
    apply String.eqb_eq in H. subst. reflexivity.
  - destruct (node_slot fs); simpl in H; try discriminate. reflexivity.
Qed.

Lemma rebuild_emit_l : forall tbl, table_wf tbl = true -> forall v, round_trip tbl v.
Proof.
  intros tbl W. induction v using val_ind'; unfold round_trip; simpl; intros NP g E;
    try (inversion E; subst; reflexivity).
  - destruct p; discriminate.
  - destruct (tlookup tbl ty) as [td|] eqn:T; [|discriminate].
    apply andb_true_iff in NP. destruct NP as [NS NP].
    destruct (t_handler td) eqn:Hd.
    + destruct (emit_fs (emit tbl) (t_fields td) keep_val false fs) as [gfs| |] eqn:Ef; try discriminate.
      inversion E; subst. simpl. rewrite (node_field_slot td fs NS). f_equal. f_equal.
      eapply fs_round_trip; eauto using keep_val_not_node. intros n fd F N. eapply wf_not_node; eauto.
    + destruct (emit_fs (emit tbl) (t_fields td) keep_val false fs) as [gfs| |] eqn:Ef; try discriminate.
      inversion E; subst. simpl. rewrite (node_field_slot td fs NS). f_equal. f_equal.
      eapply fs_round_trip; eauto using keep_val_not_node. intros n fd F N. eapply wf_not_node; eauto.
    + destruct (has_unexported td); [discriminate|].
      destruct (emit_fs (emit tbl) (t_fields td) keep_lit true fs) as [gfs| |] eqn:Ef; try discriminate.
      inversion E; subst. simpl. rewrite (node_field_slot td fs NS). f_equal. f_equal.
      eapply fs_round_trip; eauto using keep_lit_not_node. intros n fd F N. eapply wf_not_node; eauto.
  - destruct (tlookup tbl ty) as [td|] eqn:T; [|discriminate].
    destruct (emit_fs (emit tbl) (t_fields td) keep_val true fs) as [gfs| |] eqn:Ef; try discriminate.
    inversion E; subst. simpl. f_equal. f_equal.
    eapply fs_round_trip; eauto using keep_val_not_node. intros n fd F N. eapply wf_not_node; eauto.
  - destruct (emit_list (emit tbl) l) as [gl| |] eqn:El; try discriminate.
    inversion E; subst. simpl. f_equal. eapply list_round_trip; eauto.
  - destruct (emit_map (emit tbl) l) as [gl| |] eqn:El; try discriminate.
    inversion E; subst. simpl. f_equal. eapply map_round_trip; eauto.
Qed.

(* ------------------------------------------------------------------ handler-free trees: no abstraction used *)
Fixpoint no_handler (g : gs) : bool :=
  match g with
  | GHandler _ _ _ => false
  | GPtrLit _ _ fs | GStructLit _ _ fs | GMapLit fs =>
      (fix go (fs : list (string * gs)) : bool :=
         match fs with [] => true | (_, x) :: r => no_handler x && go r end) fs
  | GSlice l => forallb no_handler l
  | _ => true
  end.
Definition no_handler_fs : list (string * gs) -> bool :=
  fix go (fs : list (string * gs)) : bool :=
    match fs with [] => true | (_, x) :: r => no_handler x && go r end.

Definition hf_ok (tbl : table) (v : val) : Prop :=
  handler_free tbl v = true -> forall g, emit tbl v = Ok g -> no_handler g = true.

Lemma fs_hf : forall tbl fds keep ne fs gfs,
  Forall (fun kv => hf_ok tbl (snd kv)) fs ->
  handler_free_fs (handler_free tbl) fs = true ->
  emit_fs (emit tbl) fds keep ne fs = Ok gfs -> no_handler_fs gfs = true.
Proof.
  intros tbl fds keep ne fs gfs H. revert gfs.
  induction H as [|[n x] r Hx Hr IH]; intros gfs HF E; simpl in *.
  - inversion E; reflexivity.
  - apply andb_true_iff in HF. destruct HF as [HFx HFr].
    destruct (flookup fds n) as [fd|]; [|discriminate].
    destruct (keep fd).
    + destruct (ne && negb (f_exported fd)); [discriminate|].
      destruct (emit tbl x) as [g| |] eqn:Ex; try discriminate.
      destruct (emit_fs (emit tbl) fds keep ne r) as [gr| |] eqn:Er; try discriminate.
      inversion E; subst. simpl. rewrite (Hx HFx g Ex). simpl. apply IH; auto.
    + apply IH; auto.
Qed.

Lemma handler_free_no_handler_l : forall tbl v, hf_ok tbl v.
Proof.
  intros tbl. induction v using val_ind'; unfold hf_ok; simpl; intros HF g E;
    try (inversion E; subst; reflexivity).
  - destruct p; discriminate.
  - destruct (tlookup tbl ty) as [td|]; [|discriminate].
    apply andb_true_iff in HF. destruct HF as [Hh HF].
    destruct (t_handler td); try discriminate.
    destruct (has_unexported td); [discriminate|].
    destruct (emit_fs (emit tbl) (t_fields td) keep_lit true fs) as [gfs| |] eqn:Ef; try discriminate.
    inversion E; subst. simpl. apply (fs_hf tbl _ keep_lit true fs gfs H HF Ef).
  - destruct (tlookup tbl ty) as [td|]; [|discriminate].
    destruct (emit_fs (emit tbl) (t_fields td) keep_val true fs) as [gfs| |] eqn:Ef; try discriminate.
    inversion E; subst. simpl. apply (fs_hf tbl _ keep_val true fs gfs H HF Ef).
  - destruct (emit_list (emit tbl) l) as [gl| |] eqn:El; try discriminate.
    inversion E; subst. simpl. clear E. revert gl El. induction H as [|x r Hx Hr IH]; intros gl El; simpl in *.
    + inversion El; reflexivity.
    + apply andb_true_iff in HF. destruct HF as [HFx HFr].
      destruct (emit tbl x) as [g| |] eqn:Ex; try discriminate.
      destruct (emit_list (emit tbl) r) as [gr| |] eqn:Er; try discriminate.
      inversion El; subst. simpl. rewrite (Hx HFx g Ex). simpl. apply IH; auto.
  - destruct (emit_map (emit tbl) l) as [gl| |] eqn:El; try discriminate.
    inversion E; subst. simpl. clear E. revert gl El. induction H as [|[k x] r Hx Hr IH]; intros gl El; simpl in *.
    + inversion El; reflexivity.
    + apply andb_true_iff in HF. destruct HF as [HFx HFr].
      destruct (emit tbl x) as [g| |] eqn:Ex; try discriminate.
      destruct (emit_map (emit tbl) r) as [gr| |] eqn:Er; try discriminate.
      inversion El; subst. simpl. rewrite (Hx HFx g Ex). simpl. apply IH; auto.
Qed.
