(* C16 — non-vacuity and the behaviour before the fixes. *)
From Coq Require Import List String Bool Arith.
From V.C16 Require Import Model Spec Proofs Run.
Import ListNotations.
Open Scope string_scope.

Definition F (n : string) (e p nd : bool) : fdesc := {| f_name := n; f_exported := e; f_pp := p; f_node := nd |}.
Definition ex_tbl : table :=
  [("node.BinaryAdd", {| t_fields := [F "*Node" true true true; F "Left" true false false; F "Right" true false false]; t_handler := HReflect |});
   ("node.IntLiteral", {| t_fields := [F "*Node" true true true; F "V" true false false]; t_handler := HReflect |});
   ("data.IntValue", {| t_fields := [F "Value" true false false]; t_handler := HScalar |});
   ("node.SwitchStatement", {| t_fields := [F "*Node" true false true; F "Condition" true false false]; t_handler := HReflect |});
   ("node.Cached", {| t_fields := [F "*Node" true true true; F "X" true false false; F "cache" false true false]; t_handler := HReflect |});
   ("node.Hidden", {| t_fields := [F "*Node" true true true; F "op" false false false]; t_handler := HReflect |})].

Definition lit (n : string) : val :=
  VNode "node.IntLiteral" [("*Node", node_marker); ("V", VNode "data.IntValue" [("Value", VScalar n)])].
Definition ex_add : val := VNode "node.BinaryAdd" [("*Node", node_marker); ("Left", lit "1"); ("Right", lit "2")].

Example ex_wf : table_wf ex_tbl = true. Proof. vm_compute. reflexivity. Qed.
Example ex_covered : covered ex_tbl ex_add = true /\ nodes_present ex_tbl ex_add = true.
Proof. vm_compute. split; reflexivity. Qed.
Example ex_round_trip : match emit ex_tbl ex_add with Ok g => rebuild g = erase ex_tbl ex_add | _ => False end.
Proof. vm_compute. reflexivity. Qed.
(* a reflective node with an unexported field is an EmitError, a pointer to a non-node struct a crash *)
Example ex_uncovered : emit ex_tbl (VNode "node.Hidden" [("*Node", node_marker); ("op", VScalar "3")]) = EmitErr.
Proof. vm_compute. reflexivity. Qed.
Example ex_panic : emit ex_tbl (VNode "node.BinaryAdd" [("*Node", node_marker); ("Left", VBad true "ptr:x"); ("Right", VNil)]) = Panic.
Proof. vm_compute. reflexivity. Qed.
(* a handler-free tree *)
Definition ex_sw : val := VNode "node.SwitchStatement" [("*Node", node_marker); ("Condition", VNil)].
Example ex_handler_free : handler_free ex_tbl ex_sw = true /\ handler_free ex_tbl ex_add = false.
Proof. vm_compute. split; reflexivity. Qed.
(* a pp:"-" field is erased; the obligation erased_ok rejects a table in which such a field is not
   listed as runtime-only *)
Example ex_erased_ok : erased_ok ex_tbl = false.
Proof. vm_compute. reflexivity. Qed.

(* before /repo 28177fd an embedded Node without the pp tag was skipped AND not re-created: the
   literal for SwitchStatement had a nil Node — silently altered, not an error *)
Definition emit_switch_prefix : gs := GPtrLit "node.SwitchStatement"
  (match tlookup ex_tbl "node.SwitchStatement" with Some td => needs_node_prefix td | None => false end) [("Condition", GNil)].
Example pre_fix_node_dropped : rebuild emit_switch_prefix <> erase ex_tbl ex_sw.
Proof. vm_compute. discriminate. Qed.
Example post_fix_node_kept : match emit ex_tbl ex_sw with Ok g => rebuild g = erase ex_tbl ex_sw | _ => False end.
Proof. vm_compute. reflexivity. Qed.

(* the checkers *)
Example ex_check_prog_ok : check_prog ex_tbl (ex_add, ex_add) = [].
Proof. vm_compute. reflexivity. Qed.
Example ex_check_prog_bad : check_prog ex_tbl (ex_sw, VNode "node.SwitchStatement" [("*Node", VNil); ("Condition", VNil)]) = [2%nat].
Proof. vm_compute. reflexivity. Qed.
