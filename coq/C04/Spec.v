(* C04 — the property, stated without reference to the parser's control flow.

   The operator table of the property text (tightest first):
       ** (right-assoc, above unary minus) ; ! ~ - casts ; * / % ; + - ; << >> ; < <= > >= <=> ;
       == != === !== ; & ; ^ ; | ; && ; || ; ?? ; ?: ; assignment (right-assoc, lowest);
       '.' looser than arithmetic and tighter than ??   (the code's place for it: between || and ??)
   is `table` below.  An expression source is a tree in which the parentheses the author wrote are
   explicit `EPar` nodes; `pr` prints it to tokens without adding any parenthesis of its own.
   `wfp ctx t` says that every operand that the table requires to be parenthesised IS parenthesised
   (and nothing else: any further `EPar` is redundant).  The property is then:
       the parse of the printed source is the tree with all `EPar` erased — for every wf tree —
   so that two sources differing only in redundant parentheses have the same parse, hence the same
   value. *)
From Coq Require Import List NArith Bool Arith.
Import ListNotations.
From V.C04 Require Import Model.

(* ---- the table, loosest row first; row index = binding strength ---- *)
Inductive opclass :=
  | CAssign | CTernary | CBin (o : binop) | CPrefix (* ! ~ - (cast) *) | COperand.
Definition table : list (list opclass) :=
  [ [CAssign];
    [CTernary];
    [CBin OCoal];
    [CBin ODot];
    [CBin OLor];
    [CBin OLand];
    [CBin OBor];
    [CBin OBxor];
    [CBin OBand];
    [CBin OEq; CBin ONe; CBin OEqS; CBin ONeS];
    [CBin OLt; CBin OLe; CBin OGt; CBin OGe; CBin OCmp];
    [CBin OShl; CBin OShr];
    [CBin OAdd; CBin OSub];
    [];                                  (* (range operand `..`, not an operator of the property) *)
    [CBin OMul; CBin ODiv; CBin ORem];
    [CPrefix];
    [CBin OPow];
    [COperand] ].

Definition opclass_eqb (a b : opclass) : bool :=
  match a, b with
  | CAssign, CAssign | CTernary, CTernary | CPrefix, CPrefix | COperand, COperand => true
  | CBin x, CBin y => (level x =? level y) && match x, y with
      | OCoal, OCoal | ODot, ODot | OLor, OLor | OLand, OLand | OBor, OBor | OBxor, OBxor | OBand, OBand
      | OEq, OEq | ONe, ONe | OEqS, OEqS | ONeS, ONeS | OLt, OLt | OLe, OLe | OGt, OGt | OGe, OGe | OCmp, OCmp
      | OShl, OShl | OShr, OShr | OAdd, OAdd | OSub, OSub | OMul, OMul | ODiv, ODiv | ORem, ORem | OPow, OPow => true
      | _, _ => false end
  | _, _ => false
  end.

Fixpoint row_of (c : opclass) (rows : list (list opclass)) (i : nat) : nat :=
  match rows with
  | [] => i
  | r :: rest => if existsb (opclass_eqb c) r then i else row_of c rest (S i)
  end.
Definition strength (c : opclass) : nat := row_of c table 0.

(* binding strength of the top operator of an expression *)
Definition prec (e : expr) : nat :=
  match e with
  | EAtom _ | EPar _ => strength COperand
  | EBin o _ _ => strength (CBin o)
  | EAsg _ _ _ => strength CAssign
  | EUn _ _ | ECast _ _ => strength CPrefix
  | ETern _ _ _ | EElvis _ _ => strength CTernary
  end.

(* ---- printing (no parentheses are invented here) ---- *)
Definition untok (u : unop) : tok := match u with UNeg => TBin OSub | UNot => TNot | UBnot => TBnot end.

(* a binary minus written without a space before a digit: the lexer folds it into the number *)
Definition glue (tight : bool) (o : binop) (right : list tok) : list tok :=
  match o, tight, right with
  | OSub, true, TAtom (ANum false k) :: r => TAtom (ANum true k) :: r
  | _, _, _ => TBin o :: right
  end.

Fixpoint pr (tight : bool) (e : expr) : list tok :=
  match e with
  | EAtom a => [TAtom a]
  | EBin o l r => pr tight l ++ glue tight o (pr tight r)
  | EAsg a l r => pr tight l ++ TAsg a :: pr tight r
  | EUn u x => untok u :: pr tight x
  | ECast n x => TLp :: TIdent n :: TRp :: pr tight x
  | ETern c t f => pr tight c ++ TQ :: pr tight t ++ TColon :: pr tight f
  | EElvis c f => pr tight c ++ TElvis :: pr tight f
  | EPar x => TLp :: pr tight x ++ [TRp]
  end.

Fixpoint strip (e : expr) : expr :=
  match e with
  | EAtom a => EAtom a
  | EBin o l r => EBin o (strip l) (strip r)
  | EAsg a l r => EAsg a (strip l) (strip r)
  | EUn u x => EUn u (strip x)
  | ECast n x => ECast n (strip x)
  | ETern c t f => ETern (strip c) (strip t) (strip f)
  | EElvis c f => EElvis (strip c) (strip f)
  | EPar x => strip x
  end.

(* ---- which parentheses the table requires ----
   `wfp ctx e`: e may stand, as written, in an operand position that demands strength >= ctx.
   Left-associative rows: left operand at the row's own strength, right operand one above;
   `**` right-associative: left operand must be an operand (atom or parenthesis), right at its own row;
   prefix operators and casts: operand at the prefix row; ternary: condition above ?:, both branches at ?:;
   assignment: a variable on the left, anything on the right; inside parentheses: anything. *)
Definition is_var (e : expr) : bool := match e with EAtom (AVar _) => true | _ => false end.

(* strength demanded of the (left, right) operand of a binary operator *)
Definition opctx (o : binop) : nat * nat :=
  match o with
  | OPow => (strength COperand, strength (CBin OPow))      (* right-associative *)
  | _ => (strength (CBin o), S (strength (CBin o)))        (* left-associative *)
  end.

Fixpoint wfp (ctx : nat) (e : expr) : bool :=
  (ctx <=? prec e) &&
  match e with
  | EAtom _ => true
  | EBin o l r => wfp (fst (opctx o)) l && wfp (snd (opctx o)) r
  | EAsg _ l r => is_var l && wfp 0 r
  | EUn _ x => wfp (strength CPrefix) x
  | ECast n x => known_cast n && wfp (strength CPrefix) x
  | ETern c t f => wfp (S (strength CTernary)) c && wfp (strength CTernary) t && wfp (strength CTernary) f
  | EElvis c f => wfp (S (strength CTernary)) c && wfp (strength CTernary) f
  | EPar x => wfp 0 x
  end.

(* ---- the two printings of the property's quantifier, for parenthesis-free trees ---- *)
Fixpoint plain (e : expr) : bool :=   (* a tree as the parser builds them, with the typing conditions *)
  match e with
  | EAtom _ => true
  | EBin _ l r => plain l && plain r
  | EAsg _ l r => is_var l && plain r
  | EUn _ x => plain x
  | ECast n x => known_cast n && plain x
  | ETern c t f => plain c && plain t && plain f
  | EElvis c f => plain c && plain f
  | EPar _ => false
  end.

Definition par_if (b : bool) (e : expr) : expr := if b then EPar e else e.

(* minimal: parenthesise an operand exactly when its strength is below what the position demands *)
Fixpoint pmin (ctx : nat) (e : expr) : expr :=
  let body :=
    match e with
    | EAtom a => EAtom a
    | EBin o l r => EBin o (pmin (fst (opctx o)) l) (pmin (snd (opctx o)) r)
    | EAsg a l r => EAsg a l (pmin 0 r)
    | EUn u x => EUn u (pmin (strength CPrefix) x)
    | ECast n x => ECast n (pmin (strength CPrefix) x)
    | ETern c t f => ETern (pmin (S (strength CTernary)) c) (pmin (strength CTernary) t) (pmin (strength CTernary) f)
    | EElvis c f => EElvis (pmin (S (strength CTernary)) c) (pmin (strength CTernary) f)
    | EPar x => EPar (pmin 0 x)
    end in
  par_if (prec e <? ctx) body.

(* full: every compound operand is parenthesised (the left side of an assignment stays a bare variable) *)
Definition is_atom (e : expr) : bool := match e with EAtom _ => true | _ => false end.
Fixpoint pfull_body (e : expr) : expr :=
  let sub x := par_if (negb (is_atom x)) (pfull_body x) in
  match e with
  | EAtom a => EAtom a
  | EBin o l r => EBin o (sub l) (sub r)
  | EAsg a l r => EAsg a l (sub r)
  | EUn u x => EUn u (sub x)
  | ECast n x => ECast n (sub x)
  | ETern c t f => ETern (sub c) (sub t) (sub f)
  | EElvis c f => EElvis (sub c) (sub f)
  | EPar x => EPar (pfull_body x)
  end.
Definition pfull (e : expr) : expr := pfull_body e.

Definition print_min (tight : bool) (e : expr) : list tok := pr tight (pmin 0 e).
Definition print_full (tight : bool) (e : expr) : list tok := pr tight (pfull e).
