(* C04 — correspondence: evaluate the model parser and the Spec on the cases the real lexer+parser ran. *)
From Coq Require Import List NArith ZArith Bool Arith.
Import ListNotations.
From V.C04 Require Import Model Spec.

(* the tree the Go engine dumps (harness/cmd/c04 `dump`): compound assignments arrive expanded
   (node.NewBinaryExpression), `a ?: b` as a ternary with the condition repeated, parentheses gone *)
Inductive gt :=
  | GVar (v : nat) | GInt (z : Z) | GStr (s : nat) | GTrue | GFalse | GNull
  | GBin (o : binop) (l r : gt) | GAssign (l r : gt) | GUn (u : unop) (x : gt) | GCast (n : nat) (x : gt)
  | GTern (c t f : gt) | GOther.

Scheme Equality for binop.
Scheme Equality for asgop.
Scheme Equality for unop.

Definition atom_eqb (a b : atom) : bool :=
  match a, b with
  | AVar x, AVar y | AStr x, AStr y => Nat.eqb x y
  | ANum n1 k1, ANum n2 k2 => Bool.eqb n1 n2 && N.eqb k1 k2
  | ATrue, ATrue | AFalse, AFalse | ANull, ANull => true
  | _, _ => false
  end.
Definition tok_eqb (a b : tok) : bool :=
  match a, b with
  | TAtom x, TAtom y => atom_eqb x y
  | TBin x, TBin y => binop_beq x y
  | TAsg x, TAsg y => asgop_beq x y
  | TIdent x, TIdent y => Nat.eqb x y
  | TNot, TNot | TBnot, TBnot | TQ, TQ | TColon, TColon | TElvis, TElvis | TLp, TLp | TRp, TRp
  | TSemi, TSemi | TOther, TOther => true
  | _, _ => false
  end.
Fixpoint toks_eqb (a b : list tok) : bool :=
  match a, b with
  | [], [] => true
  | x :: a', y :: b' => tok_eqb x y && toks_eqb a' b'
  | _, _ => false
  end.
Fixpoint gt_eqb (a b : gt) : bool :=
  match a, b with
  | GVar x, GVar y | GStr x, GStr y => Nat.eqb x y
  | GInt x, GInt y => Z.eqb x y
  | GTrue, GTrue | GFalse, GFalse | GNull, GNull | GOther, GOther => true
  | GBin o l r, GBin o' l' r' => binop_beq o o' && gt_eqb l l' && gt_eqb r r'
  | GAssign l r, GAssign l' r' => gt_eqb l l' && gt_eqb r r'
  | GUn u x, GUn u' x' => unop_beq u u' && gt_eqb x x'
  | GCast n x, GCast n' x' => Nat.eqb n n' && gt_eqb x x'
  | GTern c t f, GTern c' t' f' => gt_eqb c c' && gt_eqb t t' && gt_eqb f f'
  | _, _ => false
  end.

Definition asg_binop (a : asgop) : option binop :=
  match a with
  | AEq => None | AAdd => Some OAdd | ASub => Some OSub | AMul => Some OMul | ADiv => Some ODiv
  | ARem => Some ORem | ADot => Some ODot | ACoal => Some OCoal | ABor => Some OBor | ABand => Some OBand
  | ABxor => Some OBxor | AShl => Some OShl | AShr => Some OShr | APow => Some OPow
  end.

(* node.NewBinaryExpression / NewTernaryExpression as seen through the engine's dump *)
Fixpoint desugar (e : expr) : gt :=
  match e with
  | EAtom (AVar v) => GVar v
  | EAtom (ANum neg k) => GInt (if neg then Z.opp (Z.of_N k) else Z.of_N k)
  | EAtom (AStr s) => GStr s
  | EAtom ATrue => GTrue | EAtom AFalse => GFalse | EAtom ANull => GNull
  | EBin o l r => GBin o (desugar l) (desugar r)
  | EAsg a l r =>
      match asg_binop a with
      | None => GAssign (desugar l) (desugar r)
      | Some o => GAssign (desugar l) (GBin o (desugar l) (desugar r))
      end
  | EUn u x => GUn u (desugar x)
  | ECast n x => GCast n (desugar x)
  | ETern c t f => GTern (desugar c) (desugar t) (desugar f)
  | EElvis c f => GTern (desugar c) (desugar c) (desugar f)
  | EPar x => desugar x
  end.

Inductive robs := ROk (g : gt) | RErr | RBad.
Definition robs_is (r : robs) (g : gt) : bool := match r with ROk g' => gt_eqb g g' | _ => false end.

(* tabclaim: the source is NOT well-parenthesised in the Spec's sense (e.g. an unparenthesised prefix operator as the
   operand of `**`), but the generator states which tree the table dictates for it: clause 4 is applied to that tree *)
Record case := { wfclaim : bool; tabclaim : bool; tight : bool; src : expr; rtoks : list tok; real : robs }.

(* failing clause numbers:
   1 the generator claimed a well-parenthesised source that is not (driver error)
   2 the real lexer's tokens differ from the Spec's printing of the source tree (printer / lexer tie)
   3 model parser and real parser disagree (tie)
   4 real parser's tree is not the tree the operator table dictates (the property, on the implementation)
   9 (not a failure) the model answers Unsup for this input *)
Definition check_case (c : case) : list nat :=
  (if wfclaim c && negb (wfp 0 (src c)) then [1] else []) ++
  (if toks_eqb (rtoks c) (pr (tight c) (src c) ++ [TSemi]) then [] else [2]) ++
  (match parse_top (rtoks c) with
   | TopOk m => if robs_is (real c) (desugar m) then [] else [3]
   | TopErr => match real c with RErr => [] | _ => [3] end
   | TopUnsup => [9]
   | TopFuel => [3]
   end) ++
  (if wfclaim c || tabclaim c then (if robs_is (real c) (desugar (strip (src c))) then [] else [4]) else []).
