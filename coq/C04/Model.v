(* C04 — executable model of /repo/parser/expression_parser.go (+ the parts of lparen_parser.go and
   variable_parser.go an operator expression reaches), over the token list the real lexer produces.

   One function per precedence level in the code = one `Lvl n` mode here, in the code's order:
     0 parseAssignment   1 parseTernary      2 parseNullCoalesce  3 parseConcatenation
     4 parseLogicalOr    5 parseLogicalAnd   6 parseBitwiseOr     7 parseBitwiseXor
     8 parseBitwiseAnd   9 parseEquality    10 parseComparison   11 parseShift
    12 parseTerm        13 parseRangeOperand 14 parseFactor      15 parseUnary
    16 parsePower       17 parsePrimary (VariableParser / LparenParser / literals)
   plus the loops inside them as their own modes (`Loop n acc`, `ULoop`, `ALoop`, `PLoop`), so that
   there is a single fuel.  Tokens outside the modelled alphabet and constructs the model does not
   follow (calls, indexing, `?->`, references, nullable types, a missing operand)
   answer `Unsup`.  No proofs in this file. *)
From Coq Require Import List NArith Bool Arith.
Import ListNotations.

Inductive binop :=
  | OCoal | ODot | OLor | OLand | OBor | OBxor | OBand
  | OEq | ONe | OEqS | ONeS | OLt | OLe | OGt | OGe | OCmp
  | OShl | OShr | OAdd | OSub | OMul | ODiv | ORem | OPow.
Inductive asgop :=
  | AEq | AAdd | ASub | AMul | ADiv | ARem | ADot | ACoal | ABor | ABand | ABxor | AShl | AShr | APow.
Inductive unop := UNeg | UNot | UBnot.
(* VARIABLE / INT / STRING / TRUE / FALSE / NULL tokens.  `ANum true k` is the signed literal "-k"
   the lexer produces for '-' directly followed by a digit. *)
Inductive atom := AVar (v : nat) | ANum (neg : bool) (k : N) | AStr (s : nat) | ATrue | AFalse | ANull.

Inductive tok :=
  | TAtom (a : atom)
  | TBin (o : binop)          (* the operator tokens; TBin OSub is also the prefix minus, TBin OBand the prefix & *)
  | TAsg (a : asgop)
  | TNot | TBnot
  | TQ | TColon | TElvis
  | TLp | TRp
  | TIdent (n : nat)          (* IDENTIFIER / BOOL / ARRAY token; n indexes the name, n < 4 = int string bool float *)
  | TSemi
  | TOther.                   (* anything else *)

Inductive expr :=
  | EAtom (a : atom)
  | EBin (o : binop) (l r : expr)
  | EAsg (a : asgop) (l r : expr)
  | EUn (u : unop) (e : expr)
  | ECast (ty : nat) (e : expr)
  | ETern (c t f : expr)
  | EElvis (c f : expr)
  | EPar (e : expr).          (* only in printed sources (Spec); the parser never builds it *)

(* the level whose loop consumes a binary operator token (token/type -> parse function in the code) *)
Definition level (o : binop) : nat :=
  match o with
  | OCoal => 2 | ODot => 3 | OLor => 4 | OLand => 5 | OBor => 6 | OBxor => 7 | OBand => 8
  | OEq | ONe | OEqS | ONeS => 9
  | OLt | OLe | OGt | OGe | OCmp => 10
  | OShl | OShr => 11
  | OAdd | OSub => 12
  | OMul | ODiv | ORem => 14
  | OPow => 16
  end.

Inductive res := Ok (e : expr) (rest : list tok) | Err | Unsup | Fuel.

Definition bind (r : res) (k : expr -> list tok -> res) : res :=
  match r with Ok e rest => k e rest | x => x end.

Inductive mode :=
  | Lvl (n : nat)
  | Loop (n : nat) (acc : expr)     (* the `for` loop of a left-associative level *)
  | ULoop (acc : expr)              (* parseUnary's trailing assignment loop *)
  | ALoop (acc : expr)              (* parseAssignment's loop *)
  | PLoop (acc : expr).             (* parseParenthesizedExpression after its parseTernary *)

Inductive lkind := KAssign | KTern | KLoop | KRange | KUnary | KPow | KPrim.
Definition kind (n : nat) : lkind :=
  match n with
  | 0 => KAssign | 1 => KTern | 13 => KRange | 15 => KUnary | 16 => KPow
  | _ => if n <? 15 then KLoop else KPrim
  end.

Definition known_cast (n : nat) : bool := n <? 4.

(* parsePrimary's VARIABLE case and the end of a parenthesis: VariableParser.parseSuffix.  After the
   fix 4f7fefc '.' is no longer a suffix; '(' would be a call; '[' '->' '::' '?->' are TOther. *)
Definition suffix (e : expr) (r : list tok) : res :=
  match r with
  | TLp :: _ => Unsup
  | TOther :: _ => Unsup
  | _ => Ok e r
  end.

(* parseTernary's test `isIdentOrTypeToken(peek(1)) && checkPositionIs(2, VARIABLE)` (nullable type) *)
Definition nullable_pattern (r : list tok) : bool :=
  match r with
  | (TIdent _ | TAtom ANull | TAtom AFalse) :: TAtom (AVar _) :: _ => true      (* literals excluded by fix 91a42b7 *)
  | _ => false
  end.

Definition step (rec : mode -> list tok -> res) (m : mode) (ts : list tok) : res :=
  match m with
  | Lvl n =>
    match kind n with
    | KAssign =>                                   (* parseAssignment *)
        bind (rec (Lvl 1) ts) (fun e r => rec (ALoop e) r)
    | KTern =>                                     (* parseTernary *)
        bind (rec (Lvl 2) ts) (fun e r =>
          match r with
          | TElvis :: r1 => bind (rec (Lvl 1) r1) (fun fv r2 => Ok (EElvis e fv) r2)
          | TQ :: r1 =>
              match r1 with
              | TOther :: _ => Unsup               (* ?-> *)
              | _ =>
                if nullable_pattern r1 then Unsup
                else bind (rec (Lvl 1) r1) (fun tv r2 =>
                       match r2 with
                       | TColon :: r3 => bind (rec (Lvl 1) r3) (fun fv r4 => Ok (ETern e tv fv) r4)
                       | _ => Err                  (* "三目运算符 ?: 缺少冒号" *)
                       end)
              end
          | _ => Ok e r
          end)
    | KLoop =>                                     (* the eleven generic levels + parseTerm *)
        bind (rec (Lvl (S n)) ts) (fun e r => rec (Loop n e) r)
    | KRange =>                                    (* parseRangeOperand; '..' is TOther *)
        rec (Lvl 14) ts
    | KUnary =>                                    (* parseUnary *)
        match ts with
        | TBin OSub :: r => bind (rec (Lvl 15) r) (fun e r' => Ok (EUn UNeg e) r')
        | TNot :: r => bind (rec (Lvl 15) r) (fun e r' => Ok (EUn UNot e) r')
        | TBnot :: r => bind (rec (Lvl 15) r) (fun e r' => Ok (EUn UBnot e) r')
        | TBin OBand :: _ => Unsup                 (* &$x reference *)
        | _ => bind (rec (Lvl 16) ts) (fun e r => rec (ULoop e) r)
        end
    | KPow =>                                      (* parsePower, right recursive *)
        bind (rec (Lvl 17) ts) (fun e r =>
          match r with
          | TBin OPow :: r1 =>
              (* the right operand may carry a unary prefix: parseUnary, else parsePower (fix 0323797) *)
              let operand := match r1 with (TBin OSub | TNot | TBnot) :: _ => 15 | _ => 16 end in
              bind (rec (Lvl operand) r1) (fun e2 r2 => Ok (EBin OPow e e2) r2)
          | _ => Ok e r
          end)
    | KPrim =>                                     (* parsePrimary *)
        match ts with
        | TAtom (AVar v) :: r => suffix (EAtom (AVar v)) r
        | TAtom a :: r => Ok (EAtom a) r
        | TLp :: r =>
            match r with
            | TIdent n :: TRp :: r1 =>             (* isTypeCast; parseTypeCast (operand: parseUnary, fix ec1e9ac) *)
                bind (rec (Lvl 15) r1) (fun e r2 => if known_cast n then Ok (ECast n e) r2 else Err)
            | _ => bind (rec (Lvl 1) r) (fun e r1 => rec (PLoop e) r1)
            end
        | _ => Unsup                               (* nil operand / other primaries: not modelled *)
        end
    end
  | Loop n acc =>
    match ts with
    | TBin o :: r =>
        if level o =? n then bind (rec (Lvl (S n)) r) (fun e r' => rec (Loop n (EBin o acc e)) r')
        else Ok acc ts
    | TAtom (ANum true k) :: r =>
        (* parseTerm: isSignedNumberToken -> splitSignedNumber (fix 5de8d28), then the normal path *)
        if n =? 12 then rec (Loop 12 acc) (TBin OSub :: TAtom (ANum false k) :: r) else Ok acc ts
    | _ => Ok acc ts
    end
  | ULoop acc =>
    match ts with
    | TAsg a :: r => bind (rec (Lvl 0) r) (fun e r' => rec (ULoop (EAsg a acc e)) r')
    | _ => Ok acc ts
    end
  | ALoop acc =>
    match ts with
    | TAsg a :: r => bind (rec (Lvl 0) r) (fun e r' => rec (ALoop (EAsg a acc e)) r')
    | _ => Ok acc ts
    end
  | PLoop acc =>
    match ts with
    | TBin OAdd :: r => bind (rec (Lvl 13) r) (fun e r' => rec (PLoop (EBin OAdd acc e)) r')
    | TBin OSub :: r => bind (rec (Lvl 13) r) (fun e r' => rec (PLoop (EBin OSub acc e)) r')
    | TRp :: r => suffix acc r
    | _ => Err       (* no ')': "缺少右括号" (the previous-token tolerance was removed by fix 36c211b) *)
    end
  end.

Fixpoint parse (fuel : nat) (m : mode) (ts : list tok) : res :=
  match fuel with
  | O => Fuel
  | S f => step (parse f) m ts
  end.

Definition has_other (ts : list tok) : bool :=
  existsb (fun t => match t with TOther => true | _ => false end) ts.

(* always enough (Totality.parse_top_total): every token weighs at most 81 in the termination measure and the
   descent through the 18 levels costs less than 40 *)
Definition fuel_for (ts : list tok) : nat := 81 * List.length ts + 40.

(* one statement `expr ;` as parseProgram / ExpressionParser.Parse see it *)
Inductive top := TopOk (e : expr) | TopErr | TopUnsup | TopFuel.
Definition parse_top (ts : list tok) : top :=
  if has_other ts then TopUnsup else
  match ts with
  | [] | TSemi :: _ => TopUnsup          (* empty statement: Parse() returns nil *)
  | _ =>
    match parse (fuel_for ts) (Lvl 0) ts with
    | Ok e [] | Ok e [TSemi] => TopOk e
    | Ok _ _ => TopUnsup                 (* more than one statement *)
    | Err => TopErr
    | Unsup => TopUnsup
    | Fuel => TopFuel
    end
  end.
