(* C04/C01 — the expression parser model terminates: an explicit fuel that always suffices.
   Measure: weight of the remaining tokens (a signed number token weighs a little more than the two tokens it
   is split into) plus a rank of the mode (descending through the levels without consuming a token lowers
   the rank).  Every recursive call of `step` is on a strictly smaller measure. *)
From Coq Require Import List NArith Bool Arith Lia.
Import ListNotations.
From V.C04 Require Import Model Spec Proofs.

Definition K := 40.
Definition weight (t : tok) : nat := match t with TAtom (ANum true _) => 2 * K + 1 | _ => K end.
Fixpoint W (ts : list tok) : nat := match ts with [] => 0 | t :: r => weight t + W r end.
Definition rank (m : mode) : nat := match m with Lvl n => 20 + (17 - n) | _ => 0 end.
Definition mu (m : mode) (ts : list tok) : nat := W ts + rank m.

Lemma kind_loop_lt n : kind n = KLoop -> 2 <= n < 15.
Proof. do 18 (destruct n as [|n]; [cbv; intros H; try discriminate H; lia|]). cbv. intros H. discriminate H. Qed.
Lemma kind_cases_all n : n = 0 \/ n = 1 \/ n = 13 \/ n = 15 \/ n = 16 \/ kind n = KLoop \/ (17 <= n /\ kind n = KPrim).
Proof. do 17 (destruct n as [|n]; [auto 10|]). right. right. right. right. right. right. split; [lia|reflexivity]. Qed.

Lemma weight_pos t : K <= weight t. Proof. destruct t as [[| [|] | | | |]| | | | | | | | | | | |]; cbn; unfold K; lia. Qed.

Definition wle (rec : mode -> list tok -> res) := forall m ts e r, rec m ts = Ok e r -> W r <= W ts.

Ltac wstep H :=
  repeat (match goal with
  | |- bind (?rec ?m ?ts) _ = Ok _ _ -> _ =>
      let E := fresh "E" in let e := fresh "e" in let r := fresh "r" in
      destruct (rec m ts) as [e r| | |] eqn:E; cbn [bind]; [apply H in E; cbn [W weight] in E|discriminate..]
  | |- Ok _ ?r = Ok _ ?r' -> _ => let X := fresh in intros X; inversion X; subst; cbn [W weight] in *; unfold K in *; lia
  | |- suffix _ _ = Ok _ _ -> _ => unfold suffix
  | |- ?rec ?m ?ts = Ok _ _ -> _ => let X := fresh in intros X; apply H in X; cbn [W weight] in *; unfold K in *; lia
  | |- (match ?x with _ => _ end) = _ -> _ => destruct x
  | |- (if ?b then _ else _) = _ -> _ => destruct b
  | |- _ = Ok _ _ -> _ => discriminate
  end).

Lemma step_weight rec : wle rec -> wle (step rec).
Proof.
  intros H m ts e r. unfold step.
  destruct m as [n|n acc|acc|acc|acc]; [destruct (kind n)|..]; wstep H.
Qed.

Lemma parse_weight : forall f, wle (parse f).
Proof. induction f as [|f IH]; [intros m ts e r H; discriminate|]. cbn [parse]. apply step_weight. exact IH. Qed.

Definition nofuel_below (rec : mode -> list tok -> res) (bound : nat) :=
  forall m ts, mu m ts < bound -> rec m ts <> Fuel.

Ltac fstep HF HW :=
  repeat (match goal with
  | |- bind (?rec ?m ?ts) _ <> Fuel =>
      let E := fresh "E" in let e := fresh "e" in let r := fresh "r" in
      destruct (rec m ts) as [e r| | |] eqn:E; cbn [bind];
      [apply HW in E; cbn [W weight] in E
      |discriminate|discriminate
      |exfalso; revert E; apply HF; unfold mu; cbn [W weight rank] in *; unfold K in *; lia]
  | |- Ok _ _ <> Fuel => discriminate
  | |- Err <> Fuel => discriminate
  | |- Unsup <> Fuel => discriminate
  | |- suffix _ _ <> Fuel => unfold suffix
  | |- ?rec ?m ?ts <> Fuel => apply HF; unfold mu; cbn [W weight rank] in *; unfold K in *; lia
  | |- (match ?x with _ => _ end) <> Fuel => destruct x
  | |- (if ?b then _ else _) <> Fuel => destruct b
  end).

Lemma step_total rec m ts : wle rec -> nofuel_below rec (mu m ts) -> step rec m ts <> Fuel.
Proof.
  intros HW HF. unfold step.
  destruct m as [n|n acc|acc|acc|acc].
  - destruct (kind_cases_all n) as [->|[->|[->|[->|[->|[Kn|[Ln Kn]]]]]]].
    + change (kind 0) with KAssign. cbv iota. fstep HF HW.
    + change (kind 1) with KTern. cbv iota. fstep HF HW.
    + change (kind 13) with KRange. cbv iota. fstep HF HW.
    + change (kind 15) with KUnary. cbv iota. fstep HF HW.
    + change (kind 16) with KPow. cbv iota. fstep HF HW.
    + rewrite Kn. pose proof (kind_loop_lt n Kn). fstep HF HW.
    + rewrite Kn. fstep HF HW.
  - fstep HF HW.
  - fstep HF HW.
  - fstep HF HW.
  - fstep HF HW.
Qed.

Theorem parse_total : forall f m ts, mu m ts < f -> parse f m ts <> Fuel.
Proof.
  induction f as [|f IH]; intros m ts L; [lia|]. cbn [parse].
  apply step_total; [apply parse_weight|]. intros m' ts' L'. apply IH. lia.
Qed.

Lemma W_le ts : W ts <= 81 * List.length ts.
Proof.
  induction ts as [|t r IH]; [cbn; lia|]. cbn [W length].
  assert (weight t <= 81) by (destruct t as [[| [|] | | | |]| | | | | | | | | | | |]; cbn; unfold K; lia). lia.
Qed.

Theorem parse_top_total : forall ts, parse (fuel_for ts) (Lvl 0) ts <> Fuel.
Proof. intros ts. apply parse_total. unfold mu, fuel_for. cbn [rank]. pose proof (W_le ts). lia. Qed.

(* every answer other than Fuel is stable under more fuel *)
Definition ext2 (rec rec' : mode -> list tok -> res) := forall m ts x, rec m ts = x -> x <> Fuel -> rec' m ts = x.

Ltac mono2 H :=
  repeat (match goal with
  | |- bind (?rec ?m ?ts) _ = ?x -> _ =>
      let E := fresh "E" in
      destruct (rec m ts) as [? ?| | |] eqn:E; cbn [bind];
      [rewrite (H _ _ _ E ltac:(discriminate)); cbn [bind]
      |rewrite (H _ _ _ E ltac:(discriminate)); cbn [bind]; exact (fun a _ => a)
      |rewrite (H _ _ _ E ltac:(discriminate)); cbn [bind]; exact (fun a _ => a)
      |let A := fresh in let B := fresh in intros A B; exfalso; apply B; symmetry; exact A]
  | |- Ok _ _ = _ -> _ => exact (fun a _ => a)
  | |- Err = _ -> _ => exact (fun a _ => a)
  | |- Unsup = _ -> _ => exact (fun a _ => a)
  | |- suffix _ _ = _ -> _ => exact (fun a _ => a)
  | |- ?rec ?m ?ts = _ -> _ => apply H
  | |- (match ?x with _ => _ end) = _ -> _ => destruct x
  | |- (if ?b then _ else _) = _ -> _ => destruct b
  end).

Lemma step_mono2 rec rec' : ext2 rec rec' -> ext2 (step rec) (step rec').
Proof.
  intros H m ts x. unfold step.
  destruct m as [n|n acc|acc|acc|acc]; [destruct (kind n)|..]; mono2 H.
Qed.

Lemma parse_mono2 f : forall f', f <= f' -> ext2 (parse f) (parse f').
Proof.
  induction f as [|f IH]; intros f' L m ts x H NF; [cbn in H; congruence|].
  destruct f' as [|f']; [lia|]. cbn [parse] in *. eapply step_mono2; [|exact H|exact NF]. apply IH. lia.
Qed.

Lemma pr_no_other tight t : has_other (pr tight t) = false.
Proof.
  unfold has_other.
  induction t; cbn [pr]; rewrite ?existsb_app; cbn [existsb]; rewrite ?existsb_app; cbn [existsb];
    rewrite ?IHt, ?IHt1, ?IHt2, ?IHt3; try reflexivity.
  - destruct (glue_cases tight o (pr tight t2)) as [E|(_ & k & ts' & E1 & E)]; rewrite E; cbn [existsb].
    + rewrite IHt2. reflexivity.
    + rewrite E1 in IHt2. cbn [existsb] in IHt2. exact IHt2.
  - destruct u; reflexivity.
Qed.

(* the round trip at the top level, with the model's own fixed fuel: no existential left *)
Theorem roundtrip_top : forall tight t, wfp 0 t = true -> parse_top (pr tight t ++ [TSemi]) = TopOk (strip t).
Proof.
  intros tight t Wf. unfold parse_top.
  assert (HO: has_other (pr tight t ++ [TSemi]) = false).
  { unfold has_other. rewrite existsb_app. fold (has_other (pr tight t)). rewrite pr_no_other. reflexivity. }
  rewrite HO.
  destruct (wfp_prec _ _ Wf) as [_ W'].
  destruct (roundtrip_all tight (size t) t (le_n _) W') as [F _].
  destruct (F 0 [TSemi] ltac:(lia)) as [f0 H]; [rewrite Nat.min_0_l; reflexivity|]. cbn [fst snd] in H.
  set (ts := pr tight t ++ [TSemi]) in *.
  assert (E: parse (fuel_for ts) (Lvl 0) ts = Ok (strip t) [TSemi]).
  { pose proof (parse_top_total ts) as NF.
    pose proof (parse_mono2 (fuel_for ts) (max f0 (fuel_for ts)) ltac:(lia) _ _ _ eq_refl NF) as A.
    pose proof (parse_mono f0 (max f0 (fuel_for ts)) ltac:(lia) _ _ _ _ H) as B. congruence. }
  rewrite E. pose proof (pr_hd tight t [TSemi]) as Hd. fold ts in Hd.
  destruct ts as [|t0 r0]; [contradiction|]. destruct t0; cbn [hd_expr] in Hd; try contradiction; reflexivity.
Qed.
