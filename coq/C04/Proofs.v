(* C04 — lemmas: fuel monotonicity, the `steps` calculus, lifting between levels, and the
   round-trip induction  parse (pr t) = strip t  for every tree parenthesised as the table requires. *)
From Coq Require Import List NArith Bool Arith Lia.
Import ListNotations.
From V.C04 Require Import Model Spec.

(* ---------- the Spec's table agrees with the parser's level function ---------- *)
Lemma strength_bin o : strength (CBin o) = level o.
Proof. destruct o; reflexivity. Qed.
Lemma strength_assign : strength CAssign = 0. Proof. reflexivity. Qed.
Lemma strength_ternary : strength CTernary = 1. Proof. reflexivity. Qed.
Lemma strength_prefix : strength CPrefix = 15. Proof. reflexivity. Qed.
Lemma strength_operand : strength COperand = 17. Proof. reflexivity. Qed.

(* ---------- fuel monotonicity ---------- *)
Definition ext (rec rec' : mode -> list tok -> res) :=
  forall m ts e r, rec m ts = Ok e r -> rec' m ts = Ok e r.

Ltac mono H :=
  repeat (match goal with
  | |- bind (?rec ?m ?ts) _ = Ok _ _ -> _ =>
      let E := fresh "E" in
      destruct (rec m ts) as [? ?| | |] eqn:E; cbn [bind];
      [rewrite (H _ _ _ _ E); cbn [bind]| discriminate..]
  | |- Ok _ _ = Ok _ _ -> _ => exact (fun x => x)
  | |- ?rec ?m ?ts = Ok _ _ -> _ => apply H
  | |- suffix _ _ = Ok _ _ -> _ => exact (fun x => x)
  | |- (match ?x with _ => _ end) = _ -> _ => destruct x
  | |- (if ?b then _ else _) = _ -> _ => destruct b
  | |- _ = Ok _ _ -> _ => discriminate
  end).

Lemma step_mono rec rec' : ext rec rec' -> ext (step rec) (step rec').
Proof.
  intros H m ts e r. unfold step.
  destruct m as [n|n acc|acc|acc|acc]; [destruct (kind n)|..]; mono H.
Qed.

Lemma parse_mono f : forall f', f <= f' -> ext (parse f) (parse f').
Proof.
  induction f as [|f IH]; intros f' L m ts e r H; [discriminate|].
  destruct f' as [|f']; [lia|]. cbn [parse] in *. eapply step_mono; [|exact H]. apply IH. lia.
Qed.

(* ---------- returning and continuing ---------- *)
Definition ret (m : mode) (ts : list tok) (x : expr * list tok) := exists f, parse f m ts = Ok (fst x) (snd x).
(* state (m1,ts1) continues as (m2,ts2): whatever the second returns, the first returns *)
Definition steps (m1 : mode) (ts1 : list tok) (m2 : mode) (ts2 : list tok) :=
  forall x, ret m2 ts2 x -> ret m1 ts1 x.

Lemma steps_trans m1 t1 m2 t2 m3 t3 : steps m1 t1 m2 t2 -> steps m2 t2 m3 t3 -> steps m1 t1 m3 t3.
Proof. unfold steps; auto. Qed.

Lemma ret_two f1 f2 m1 t1 e1 r1 m2 t2 e2 r2 :
  parse f1 m1 t1 = Ok e1 r1 -> parse f2 m2 t2 = Ok e2 r2 ->
  parse (max f1 f2) m1 t1 = Ok e1 r1 /\ parse (max f1 f2) m2 t2 = Ok e2 r2.
Proof. intros A B. split; (eapply parse_mono; [|eassumption]); lia. Qed.

Lemma ret_intro f m ts e r : step (parse f) m ts = Ok e r -> ret m ts (e, r).
Proof. intros H. exists (S f). exact H. Qed.

(* tokens that may follow an operand parsed at level lvl without being consumed on the way up *)
Definition bad (lvl : nat) (t : tok) : bool :=
  match t with
  | TBin o => lvl <=? level o
  | TAsg _ => lvl <=? 15
  | TQ | TElvis => lvl <=? 1
  | TAtom (ANum true _) => lvl <=? 12
  | TRp | TColon | TSemi => false
  | _ => true
  end.
Definition ok (lvl : nat) (rest : list tok) : Prop :=
  match rest with [] => True | t :: _ => bad lvl t = false end.

Lemma bad_mono l l' t : l <= l' -> bad l t = true \/ bad l' t = false.
Proof.
  intros L. destruct t as [[| [|] | | | |]|o|a| | | | | | | | | |]; cbn [bad]; auto;
  match goal with |- (?a <=? ?b) = true \/ (?c <=? ?b) = false =>
    destruct (a <=? b) eqn:E1; auto; right; apply Nat.leb_gt; apply Nat.leb_gt in E1; lia end.
Qed.
Lemma ok_mono l l' rest : l <= l' -> ok l rest -> ok l' rest.
Proof. intros L. destruct rest as [|t r]; cbn [ok]; auto. destruct (bad_mono l l' t L) as [H|H]; congruence. Qed.

(* ---------- the generic left-associative level ---------- *)
Lemma enter n ts e r : kind n = KLoop -> ret (Lvl (S n)) ts (e, r) -> steps (Lvl n) ts (Loop n e) r.
Proof.
  intros K [f1 H1] [e2 r2] [f2 H2]. cbn [fst snd] in *.
  destruct (ret_two _ _ _ _ _ _ _ _ _ _ H1 H2) as [A B].
  apply ret_intro with (f := max f1 f2). unfold step. rewrite K, A. exact B.
Qed.

Lemma loop_step n acc o r e r' : level o = n -> ret (Lvl (S n)) r (e, r') ->
  steps (Loop n acc) (TBin o :: r) (Loop n (EBin o acc e)) r'.
Proof.
  intros L [f1 H1] [e2 r2] [f2 H2]. cbn [fst snd] in *.
  destruct (ret_two _ _ _ _ _ _ _ _ _ _ H1 H2) as [A B].
  apply ret_intro with (f := max f1 f2). unfold step. rewrite L, Nat.eqb_refl, A. exact B.
Qed.

Lemma loop_split acc k r :
  steps (Loop 12 acc) (TAtom (ANum true k) :: r) (Loop 12 acc) (TBin OSub :: TAtom (ANum false k) :: r).
Proof. intros [e2 r2] [f2 H2]. apply ret_intro with (f := f2). exact H2. Qed.

Lemma loop_exit n acc rest : ok n rest -> ret (Loop n acc) rest (acc, rest).
Proof.
  intros O. apply ret_intro with (f := 0). unfold step.
  destruct rest as [|t r]; [reflexivity|]. cbn [ok bad] in O.
  destruct t as [[| [|] | | | |]|o|a| | | | | | | | | |]; try reflexivity; cbn [bad] in O.
  - apply Nat.leb_gt in O. replace (n =? 12) with false by (symmetry; apply Nat.eqb_neq; lia). reflexivity.
  - apply Nat.leb_gt in O. replace (level o =? n) with false by (symmetry; apply Nat.eqb_neq; lia). reflexivity.
Qed.

(* ---------- lifting a result from level S l to level l ---------- *)
Definition no_prefix (ts : list tok) : Prop :=
  match ts with (TAtom _ | TLp) :: _ => True | _ => False end.

Lemma kind_cases l : l < 17 -> l = 0 \/ l = 1 \/ l = 13 \/ l = 15 \/ l = 16 \/ kind l = KLoop.
Proof. intros L. do 17 (destruct l as [|l]; [auto 10|]). lia. Qed.

Ltac tokcases t := destruct t as [[| [|] | | | |]|?o|?a| | | | | | | | | |].

Lemma lift l ts e r : l < 17 -> ret (Lvl (S l)) ts (e, r) -> ok l r -> (l = 15 -> no_prefix ts) ->
  ret (Lvl l) ts (e, r).
Proof.
  intros L R O P.
  destruct (kind_cases l L) as [->|[->|[->|[->|[->|K]]]]].
  - (* parseAssignment *)
    destruct R as [f H]. cbn [fst snd] in H.
    apply ret_intro with (f := S f). unfold step. cbn [kind].
    rewrite (parse_mono f (S f) ltac:(lia) _ _ _ _ H). cbn [bind parse step].
    destruct r as [|t r']; [reflexivity|]. cbn [ok] in O.
    tokcases t; try reflexivity; discriminate.
  - (* parseTernary *)
    destruct R as [f H]. cbn [fst snd] in H.
    apply ret_intro with (f := f). unfold step. cbn [kind]. rewrite H. cbn [bind].
    destruct r as [|t r']; [reflexivity|]. cbn [ok] in O.
    tokcases t; try reflexivity; discriminate.
  - (* parseRangeOperand *)
    destruct R as [f H]. apply ret_intro with (f := f). exact H.
  - (* parseUnary *)
    destruct R as [f H]. cbn [fst snd] in H. specialize (P eq_refl).
    apply ret_intro with (f := S f). unfold step. cbn [kind].
    destruct ts as [|t ts']; [contradiction|].
    assert (E: parse (S f) (Lvl 16) (t :: ts') = Ok e r) by (eapply parse_mono; [|exact H]; lia).
    assert (U: parse (S f) (ULoop e) r = Ok e r).
    { cbn [parse step]. destruct r as [|t2 r']; [reflexivity|]. cbn [ok] in O.
      tokcases t2; try reflexivity; discriminate. }
    tokcases t; cbn [no_prefix] in P; try contradiction; rewrite E; cbn [bind]; exact U.
  - (* parsePower *)
    destruct R as [f H]. cbn [fst snd] in H.
    apply ret_intro with (f := f). unfold step. cbn [kind]. rewrite H. cbn [bind].
    destruct r as [|t r']; [reflexivity|]. cbn [ok] in O.
    tokcases t; try reflexivity. destruct o; try reflexivity; discriminate.
  - (* generic loop level *)
    apply (enter l ts e r K R). apply loop_exit. exact O.
Qed.

Lemma lift_many d : forall lo ts e r, lo + d <= 17 -> ret (Lvl (lo + d)) ts (e, r) -> ok lo r ->
  (lo <= 15 < lo + d -> no_prefix ts) -> ret (Lvl lo) ts (e, r).
Proof.
  induction d as [|d IH]; intros lo ts e r L H O M.
  - rewrite Nat.add_0_r in H. exact H.
  - apply lift; [lia| |exact O|intros ->; apply M; lia].
    apply IH; [lia|replace (S lo + d) with (lo + S d) by lia; exact H|eapply ok_mono; [|exact O]; lia|].
    intros ?. apply M. lia.
Qed.
Lemma lift_to lo hi ts e r : lo <= hi -> hi <= 17 -> ret (Lvl hi) ts (e, r) -> ok lo r ->
  (lo <= 15 < hi -> no_prefix ts) -> ret (Lvl lo) ts (e, r).
Proof. intros L1 L2 H O M. apply (lift_many (hi - lo)); replace (lo + (hi - lo)) with hi by lia; auto. Qed.

(* ---------- facts about printed sources ---------- *)
Definition plv (t : expr) : nat := match t with EAsg _ _ _ => 15 | _ => prec t end.

Lemma prec_le17 t : prec t <= 17.
Proof. destruct t; cbn [prec]; rewrite ?strength_bin; try (cbv; lia). destruct o; cbv; lia. Qed.
Lemma plv_le17 t : plv t <= 17.
Proof. destruct t; cbn [plv]; try apply prec_le17. lia. Qed.
Lemma prec_le_plv t : prec t <= plv t.
Proof. destruct t; cbn [plv]; auto. cbv. lia. Qed.
Lemma plv_ge1 t : 1 <= plv t.
Proof. destruct t; cbn [plv prec]; rewrite ?strength_bin; try (cbv; lia). destruct o; cbv; lia. Qed.

Definition hd_expr (ts : list tok) : Prop :=
  match ts with (TAtom _ | TLp | TBin OSub | TNot | TBnot) :: _ => True | _ => False end.

Lemma pr_hd tight t : forall rest, hd_expr (pr tight t ++ rest).
Proof.
  induction t; intros rest; cbn [pr]; rewrite <- ?app_assoc; cbn [app hd_expr]; auto.
  destruct u; cbn; auto.
Qed.

Lemma glue_cases tight o right :
  glue tight o right = TBin o :: right \/
  (o = OSub /\ exists k ts', right = TAtom (ANum false k) :: ts' /\ glue tight o right = TAtom (ANum true k) :: ts').
Proof.
  unfold glue. destruct o; auto. destruct tight; auto.
  destruct right as [|t ts']; auto. destruct t as [[| [|] k | | | |]| | | | | | | | | | | |]; auto.
  right. split; [reflexivity|]. exists k, ts'. auto.
Qed.

Lemma wfp_prec ctx e : wfp ctx e = true -> ctx <= prec e /\ wfp (prec e) e = true.
Proof.
  intros H. assert (C: ctx <= prec e).
  { destruct e; cbn [wfp] in H; apply andb_true_iff in H; destruct H as [H _]; apply Nat.leb_le in H; exact H. }
  split; [exact C|].
  destruct e; cbn [wfp] in *; apply andb_true_iff in H; destruct H as [_ H]; apply andb_true_iff; (split; [apply Nat.leb_refl|exact H]).
Qed.

Lemma pr_no_prefix tight t rest : 16 <= prec t -> wfp (prec t) t = true -> no_prefix (pr tight t ++ rest).
Proof.
  intros P W. destruct t; cbn [prec] in P; rewrite ?strength_bin in P;
    try (exfalso; cbv in P; lia); cbn [pr app no_prefix]; auto.
  destruct o; cbn [level] in P; try (exfalso; lia).
  cbn [wfp prec opctx fst snd] in W. apply andb_true_iff in W. destruct W as [_ W]. apply andb_true_iff in W. destruct W as [W _].
  apply wfp_prec in W. destruct W as [W _]. rewrite strength_operand in W.
  rewrite <- app_assoc.
  destruct t1; cbn [prec] in W; rewrite ?strength_bin in W; try (exfalso; cbv in W; lia); cbn [pr app no_prefix]; auto.
  destruct o; cbn [level] in W; exfalso; lia.
Qed.

(* an atom at the head of a printed source is never directly followed by a variable *)
Definition nvar2 (ts : list tok) : Prop := match ts with TAtom _ :: TAtom (AVar _) :: _ => False | _ => True end.
Definition hd_nvar (ts : list tok) : Prop := match ts with TAtom (AVar _) :: _ => False | _ => True end.
Lemma pr_nvar2 tight t : forall rest, hd_nvar rest -> nvar2 (pr tight t ++ rest).
Proof.
  induction t; intros rest H; cbn [pr]; rewrite <- ?app_assoc; cbn [app].
  - destruct rest as [|[[]| | | | | | | | | | | |] r]; cbn in *; auto.
  - apply IHt1. destruct (glue_cases tight o (pr tight t2)) as [E|(_ & k & ts' & _ & E)]; rewrite E; cbn; auto.
  - apply IHt1. cbn; auto.
  - destruct u; cbn; auto.
  - cbn; auto.
  - apply IHt1. cbn; auto.
  - apply IHt1. cbn; auto.
  - cbn; auto.
Qed.

Lemma nullable_false ts : hd_expr ts -> nvar2 ts -> nullable_pattern ts = false.
Proof.
  destruct ts as [|t ts']; [reflexivity|]. intros H N.
  tokcases t; cbn [hd_expr] in H; try contradiction; try reflexivity;
  destruct ts' as [|t2 ts'']; try reflexivity; tokcases t2; cbn [nvar2] in N; try contradiction; reflexivity.
Qed.

(* ---------- the round trip ---------- *)
Fixpoint size (t : expr) : nat :=
  match t with
  | EAtom _ => 1
  | EBin _ l r | EAsg _ l r | EElvis l r => S (size l + size r)
  | EUn _ x | ECast _ x | EPar x => S (size x)
  | ETern c t f => S (size c + size t + size f)
  end.

(* printed at level lvl (anything up to the level at which t is recognised) followed by a token the
   enclosing levels do not consume, t parses back to itself without its parentheses *)
Definition Full (tight : bool) (t : expr) := forall lvl rest, lvl <= plv t -> ok (min lvl (prec t)) rest ->
  ret (Lvl lvl) (pr tight t ++ rest) (strip t, rest).
(* as the first operand of a left-associative level n, t is re-accumulated by that level's loop *)
Definition G (tight : bool) (t : expr) := forall n rest, kind n = KLoop -> n <= prec t -> ok (S n) rest ->
  steps (Lvl n) (pr tight t ++ rest) (Loop n (strip t)) rest.

Lemma mono_to F f m ts e r : parse f m ts = Ok e r -> f <= F -> parse F m ts = Ok e r.
Proof. intros H L. eapply parse_mono; eauto. Qed.

Lemma suffix_ok e rest : ok 17 rest -> suffix e rest = Ok e rest.
Proof. destruct rest as [|t r]; [reflexivity|]. cbn [ok]. tokcases t; cbn; intros; try reflexivity; discriminate. Qed.

Lemma core_atom a rest : ok 17 rest -> ret (Lvl 17) (TAtom a :: rest) (EAtom a, rest).
Proof.
  intros O. apply ret_intro with (f := 0). unfold step. change (kind 17) with KPrim.
  destruct a; try reflexivity. apply suffix_ok. exact O.
Qed.

Lemma core_par tight x rest : Full tight x -> ok 17 rest ->
  ret (Lvl 17) (TLp :: pr tight x ++ TRp :: rest) (strip x, rest).
Proof.
  intros F O. destruct (F 1 (TRp :: rest) (plv_ge1 x)) as [f H]; [destruct (min 1 (prec x)); reflexivity|].
  cbn [fst snd] in H. apply ret_intro with (f := S f). unfold step at 1. change (kind 17) with KPrim.
  pose proof (pr_hd tight x (TRp :: rest)) as Hd.
  remember (pr tight x ++ TRp :: rest) as src. destruct src as [|t ts']; [contradiction|].
  assert (E: bind (parse (S f) (Lvl 1) (t :: ts')) (fun e r1 => parse (S f) (PLoop e) r1) = Ok (strip x) rest).
  { rewrite (mono_to (S f) f _ _ _ _ H ltac:(lia)). cbn [bind parse step]. apply suffix_ok. exact O. }
  tokcases t; cbn [hd_expr] in Hd; try contradiction; try exact E.
Qed.

Lemma enter_unary ts e r : no_prefix ts -> ret (Lvl 16) ts (e, r) -> steps (Lvl 15) ts (ULoop e) r.
Proof.
  intros P [f1 H1] [e2 r2] [f2 H2]. cbn [fst snd] in *.
  destruct (ret_two _ _ _ _ _ _ _ _ _ _ H1 H2) as [A B].
  apply ret_intro with (f := max f1 f2). unfold step. change (kind 15) with KUnary.
  destruct ts as [|t ts']; [contradiction|].
  tokcases t; cbn [no_prefix] in P; try contradiction; rewrite A; exact B.
Qed.
Lemma uloop_step acc a r e r' : ret (Lvl 0) r (e, r') -> steps (ULoop acc) (TAsg a :: r) (ULoop (EAsg a acc e)) r'.
Proof.
  intros [f1 H1] [e2 r2] [f2 H2]. cbn [fst snd] in *.
  destruct (ret_two _ _ _ _ _ _ _ _ _ _ H1 H2) as [A B].
  apply ret_intro with (f := max f1 f2). unfold step. rewrite A. exact B.
Qed.
Lemma uloop_exit acc rest : ok 15 rest -> ret (ULoop acc) rest (acc, rest).
Proof.
  intros O. apply ret_intro with (f := 0). unfold step. destruct rest as [|t r]; [reflexivity|].
  cbn [ok] in O. tokcases t; try reflexivity; discriminate.
Qed.

Lemma ok_any lvl t r : bad lvl t = false -> ok lvl (t :: r).
Proof. intros H. exact H. Qed.

Lemma core_asg tight a v r rest : Full tight r -> ok 0 rest ->
  ret (Lvl 15) (TAtom (AVar v) :: TAsg a :: pr tight r ++ rest) (EAsg a (EAtom (AVar v)) (strip r), rest).
Proof.
  intros F O.
  assert (R16: ret (Lvl 16) (TAtom (AVar v) :: TAsg a :: pr tight r ++ rest) (EAtom (AVar v), TAsg a :: pr tight r ++ rest)).
  { apply lift; [lia| |reflexivity|discriminate]. apply core_atom. reflexivity. }
  assert (NP: no_prefix (TAtom (AVar v) :: TAsg a :: pr tight r ++ rest)) by exact I.
  apply (enter_unary _ _ _ NP R16).
  apply (uloop_step _ a _ (strip r) rest).
  - apply F; [lia|]. rewrite Nat.min_0_l. exact O.
  - apply uloop_exit. eapply ok_mono; [|exact O]. lia.
Qed.

Lemma core_un tight u x rest : Full tight x -> 15 <= prec x -> ok 15 rest ->
  ret (Lvl 15) (untok u :: pr tight x ++ rest) (EUn u (strip x), rest).
Proof.
  intros F P O. destruct (F 15 rest) as [f H]; [pose proof (prec_le_plv x); lia|rewrite Nat.min_l by lia; exact O|].
  cbn [fst snd] in H. apply ret_intro with (f := f). unfold step. change (kind 15) with KUnary.
  destruct u; cbn [untok]; rewrite H; reflexivity.
Qed.

Lemma core_cast tight n x rest : known_cast n = true -> Full tight x -> 15 <= prec x -> ok 15 rest ->
  ret (Lvl 15) (TLp :: TIdent n :: TRp :: pr tight x ++ rest) (ECast n (strip x), rest).
Proof.
  intros Kn F P O. destruct (F 15 rest) as [f H]; [pose proof (prec_le_plv x); lia|rewrite Nat.min_l by lia; exact O|].
  cbn [fst snd] in H.
  apply (lift_to 15 17); [lia|lia| |exact O|intros _; exact I].
  apply ret_intro with (f := f). unfold step. change (kind 17) with KPrim. rewrite H. cbn [bind]. rewrite Kn. reflexivity.
Qed.

Lemma core_pow tight l r rest : Full tight l -> Full tight r -> prec l = 17 -> 16 <= prec r -> ok 16 rest ->
  no_prefix (pr tight r ++ rest) ->
  ret (Lvl 16) ((pr tight l ++ TBin OPow :: pr tight r) ++ rest) (EBin OPow (strip l) (strip r), rest).
Proof.
  intros Fl Fr Pl Pr O NP. rewrite <- app_assoc. cbn [app].
  destruct (Fl 17 (TBin OPow :: pr tight r ++ rest)) as [f1 H1];
    [pose proof (prec_le_plv l); lia|rewrite Pl; reflexivity|].
  destruct (Fr 16 rest) as [f2 H2]; [pose proof (prec_le_plv r); lia|rewrite Nat.min_l by lia; exact O|].
  cbn [fst snd] in *. destruct (ret_two _ _ _ _ _ _ _ _ _ _ H1 H2) as [A B].
  apply ret_intro with (f := max f1 f2). unfold step. change (kind 16) with KPow.
  rewrite A. cbn [bind].
  destruct (pr tight r ++ rest) as [|t0 ts0]; [contradiction|].
  tokcases t0; cbn [no_prefix] in NP; try contradiction; rewrite B; reflexivity.
Qed.

Lemma core_tern tight c t f rest : Full tight c -> Full tight t -> Full tight f ->
  2 <= prec c -> 1 <= prec t -> 1 <= prec f -> ok 1 rest ->
  ret (Lvl 1) ((pr tight c ++ TQ :: pr tight t ++ TColon :: pr tight f) ++ rest)
      (ETern (strip c) (strip t) (strip f), rest).
Proof.
  intros Fc Ft Ff Pc Pt Pf O.
  rewrite <- app_assoc. cbn [app]. rewrite <- app_assoc. cbn [app].
  destruct (Fc 2 (TQ :: pr tight t ++ TColon :: pr tight f ++ rest)) as [f1 H1];
    [pose proof (prec_le_plv c); lia|rewrite Nat.min_l by lia; reflexivity|].
  destruct (Ft 1 (TColon :: pr tight f ++ rest)) as [f2 H2];
    [pose proof (prec_le_plv t); lia|rewrite Nat.min_l by lia; reflexivity|].
  destruct (Ff 1 rest) as [f3 H3]; [pose proof (prec_le_plv f); lia|rewrite Nat.min_l by lia; exact O|].
  cbn [fst snd] in *.
  set (F := max f1 (max f2 f3)).
  apply ret_intro with (f := F). unfold step. change (kind 1) with KTern.
  rewrite (mono_to F _ _ _ _ _ H1 ltac:(lia)). cbn [bind].
  pose proof (pr_hd tight t (TColon :: pr tight f ++ rest)) as Hd.
  pose proof (nullable_false _ Hd (pr_nvar2 tight t (TColon :: pr tight f ++ rest) I)) as Hn.
  pose proof (mono_to F _ _ _ _ _ H2 ltac:(lia)) as H2'.
  remember (pr tight t ++ TColon :: pr tight f ++ rest) as src. destruct src as [|t0 ts0]; [contradiction|].
  assert (E: (if nullable_pattern (t0 :: ts0) then Unsup else
     bind (parse F (Lvl 1) (t0 :: ts0)) (fun tv r2 => match r2 with
        | TColon :: r3 => bind (parse F (Lvl 1) r3) (fun fv r4 => Ok (ETern (strip c) tv fv) r4)
        | _ => Err end)) = Ok (ETern (strip c) (strip t) (strip f)) rest).
  { rewrite Hn, H2'. cbn [bind]. rewrite (mono_to F _ _ _ _ _ H3 ltac:(lia)). reflexivity. }
  tokcases t0; cbn [hd_expr] in Hd; try contradiction; exact E.
Qed.

Lemma core_elvis tight c f rest : Full tight c -> Full tight f -> 2 <= prec c -> 1 <= prec f -> ok 1 rest ->
  ret (Lvl 1) ((pr tight c ++ TElvis :: pr tight f) ++ rest) (EElvis (strip c) (strip f), rest).
Proof.
  intros Fc Ff Pc Pf O. rewrite <- app_assoc. cbn [app].
  destruct (Fc 2 (TElvis :: pr tight f ++ rest)) as [f1 H1];
    [pose proof (prec_le_plv c); lia|rewrite Nat.min_l by lia; reflexivity|].
  destruct (Ff 1 rest) as [f3 H3]; [pose proof (prec_le_plv f); lia|rewrite Nat.min_l by lia; exact O|].
  cbn [fst snd] in *. destruct (ret_two _ _ _ _ _ _ _ _ _ _ H1 H3) as [A B].
  apply ret_intro with (f := max f1 f3). unfold step. change (kind 1) with KTern.
  rewrite A. cbn [bind]. rewrite B. reflexivity.
Qed.

Lemma bin_steps tight n o l r rest : kind n = KLoop -> level o = n -> n <= prec l -> S n <= prec r ->
  G tight l -> Full tight r -> ok (S n) rest ->
  steps (Lvl n) ((pr tight l ++ glue tight o (pr tight r)) ++ rest) (Loop n (EBin o (strip l) (strip r))) rest.
Proof.
  intros K L Pl Pr Gl Fr O. rewrite <- app_assoc.
  assert (R: ret (Lvl (S n)) (pr tight r ++ rest) (strip r, rest)).
  { apply Fr; [pose proof (prec_le_plv r); lia|rewrite Nat.min_l by lia; exact O]. }
  destruct (glue_cases tight o (pr tight r)) as [E|(-> & k & ts' & Er & E)]; rewrite E; cbn [app].
  - eapply steps_trans; [apply (Gl n _ K Pl)|apply loop_step; assumption].
    cbn [ok bad]. apply Nat.leb_gt. lia.
  - cbn [level] in L. subst n.
    eapply steps_trans; [apply (Gl 12 _ K Pl); reflexivity|].
    eapply steps_trans; [apply loop_split|].
    apply loop_step; [reflexivity|]. rewrite Er in R. exact R.
Qed.

(* inversion of wfp *)
Lemma wfp_bin_inv ctx o l r : wfp ctx (EBin o l r) = true ->
  (o = OPow /\ wfp 17 l = true /\ wfp 16 r = true) \/
  (kind (level o) = KLoop /\ wfp (level o) l = true /\ wfp (S (level o)) r = true).
Proof.
  intros H. cbn [wfp] in H. apply andb_true_iff in H. destruct H as [_ H].
  destruct o; apply andb_true_iff in H; destruct H as [H1 H2];
    try (right; split; [reflexivity|split; assumption]).
  left. auto.
Qed.

Lemma full_of_core tight t : wfp (prec t) t = true ->
  (forall rest, ok (prec t) rest -> ret (Lvl (plv t)) (pr tight t ++ rest) (strip t, rest)) -> Full tight t.
Proof.
  intros W C lvl rest L O.
  apply (lift_to lvl (plv t)); [exact L|apply plv_le17| | |].
  - apply C. eapply ok_mono; [|exact O]. lia.
  - eapply ok_mono; [|exact O]. lia.
  - intros [_ H]. apply pr_no_prefix; [|exact W].
    destruct t; cbn [plv] in H; try exact H. lia.
Qed.

Lemma kind_prec_loop t : kind (prec t) = KLoop -> exists o l r, t = EBin o l r /\ o <> OPow.
Proof.
  destruct t; cbn [prec]; try (cbv; discriminate).
  rewrite strength_bin. intros K. exists o, t1, t2. split; [reflexivity|]. intros ->. discriminate.
Qed.

Theorem roundtrip_all tight : forall n t, size t <= n -> wfp (prec t) t = true -> Full tight t /\ G tight t.
Proof.
  induction n as [|n IH]; intros t Hs W; [destruct t; cbn in Hs; lia|].
  assert (IH': forall ctx s, size s <= n -> wfp ctx s = true -> Full tight s /\ G tight s /\ ctx <= prec s).
  { intros ctx s Ss Ws. destruct (wfp_prec _ _ Ws) as [C Ws']. destruct (IH s Ss Ws'). auto. }
  assert (HF: Full tight t).
  { apply full_of_core; [exact W|]. intros rest O.
    destruct t as [a|o l r|a l r|u x|ty x|c t f|c f|x]; cbn [size] in Hs.
    - (* atom *) cbn [plv prec pr strip app] in *. rewrite strength_operand in *. apply core_atom. exact O.
    - (* binary *)
      destruct (wfp_bin_inv _ _ _ _ W) as [(-> & Wl & Wr)|(K & Wl & Wr)].
      + destruct (IH' _ l ltac:(lia) Wl) as (Fl & _ & Pl). destruct (IH' _ r ltac:(lia) Wr) as (Fr & _ & Pr).
        cbn [plv prec pr strip glue] in *. rewrite strength_bin in *. cbn [level] in *.
        apply core_pow; auto; [pose proof (prec_le17 l); lia|].
        apply pr_no_prefix; [lia|]. apply wfp_prec in Wr. tauto.
      + destruct (IH' _ l ltac:(lia) Wl) as (_ & Gl & Pl). destruct (IH' _ r ltac:(lia) Wr) as (Fr & _ & Pr).
        cbn [plv prec pr strip] in *. rewrite strength_bin in *.
        apply (bin_steps tight (level o) o l r rest K eq_refl Pl Pr Gl Fr).
        * eapply ok_mono; [|exact O]. lia.
        * apply loop_exit. exact O.
    - (* assignment *)
      cbn [wfp] in W. apply andb_true_iff in W. destruct W as [_ W]. apply andb_true_iff in W. destruct W as [Wl Wr].
      destruct l as [[v| | | | |]| | | | | | |]; try discriminate.
      destruct (IH' _ r ltac:(lia) Wr) as (Fr & _ & _).
      cbn [plv prec pr strip app] in *. rewrite strength_assign in O. apply core_asg; assumption.
    - (* prefix operator *)
      cbn [wfp] in W. apply andb_true_iff in W. destruct W as [_ W]. rewrite strength_prefix in W.
      destruct (IH' _ x ltac:(lia) W) as (Fx & _ & Px).
      cbn [plv prec pr strip app] in *. rewrite strength_prefix in O. apply core_un; assumption.
    - (* cast *)
      cbn [wfp] in W. apply andb_true_iff in W. destruct W as [_ W]. apply andb_true_iff in W. destruct W as [Kn W].
      rewrite strength_prefix in W. destruct (IH' _ x ltac:(lia) W) as (Fx & _ & Px).
      cbn [plv prec pr strip app] in *. rewrite strength_prefix in O. apply core_cast; assumption.
    - (* ternary *)
      cbn [wfp] in W. apply andb_true_iff in W. destruct W as [_ W]. apply andb_true_iff in W. destruct W as [W Wf].
      apply andb_true_iff in W. destruct W as [Wc Wt]. rewrite strength_ternary in *.
      destruct (IH' _ c ltac:(lia) Wc) as (Fc & _ & Pc). destruct (IH' _ t ltac:(lia) Wt) as (Ft & _ & Pt).
      destruct (IH' _ f ltac:(lia) Wf) as (Ff & _ & Pf).
      cbn [plv prec pr strip] in *. rewrite strength_ternary in *. apply core_tern; assumption.
    - (* elvis *)
      cbn [wfp] in W. apply andb_true_iff in W. destruct W as [_ W]. apply andb_true_iff in W. destruct W as [Wc Wf].
      rewrite strength_ternary in *.
      destruct (IH' _ c ltac:(lia) Wc) as (Fc & _ & Pc). destruct (IH' _ f ltac:(lia) Wf) as (Ff & _ & Pf).
      cbn [plv prec pr strip] in *. rewrite strength_ternary in *. apply core_elvis; assumption.
    - (* parenthesis *)
      cbn [wfp] in W. apply andb_true_iff in W. destruct W as [_ W].
      destruct (IH' _ x ltac:(lia) W) as (Fx & _ & _).
      cbn [plv prec pr strip app] in *. rewrite strength_operand in *. rewrite <- app_assoc. cbn [app].
      apply core_par; assumption. }
  split; [exact HF|].
  intros lv rest K Ln O.
  destruct (Nat.eq_dec lv (prec t)) as [E|E].
  - subst lv. destruct (kind_prec_loop t K) as (o & l & r & -> & _). cbn [size] in Hs.
    destruct (wfp_bin_inv _ _ _ _ W) as [(-> & _)|(_ & Wl & Wr)]; [cbn in K; discriminate|].
    destruct (IH' _ l ltac:(lia) Wl) as (_ & Gl & Pl). destruct (IH' _ r ltac:(lia) Wr) as (Fr & _ & Pr).
    cbn [prec pr strip] in *. rewrite strength_bin in *.
    apply (bin_steps tight (level o) o l r rest K eq_refl Pl Pr Gl Fr O).
  - apply enter; [exact K|]. apply HF; [pose proof (prec_le_plv t); lia|].
    rewrite Nat.min_l by lia. exact O.
Qed.

(* ---------- the statements used in Properties.v ---------- *)
Lemma roundtrip_l : forall tight t, wfp 0 t = true ->
  exists f0, forall f, f0 <= f -> parse f (Lvl 0) (pr tight t) = Ok (strip t) [].
Proof.
  intros tight t W. destruct (wfp_prec _ _ W) as [_ W'].
  destruct (roundtrip_all tight (size t) t (le_n _) W') as [F _].
  destruct (F 0 [] ltac:(lia)) as [f0 H]; [rewrite Nat.min_0_l; exact I|].
  rewrite app_nil_r in H. exists f0. intros f L. eapply parse_mono; eauto.
Qed.

Lemma parse_det f1 f2 m ts e1 r1 e2 r2 :
  parse f1 m ts = Ok e1 r1 -> parse f2 m ts = Ok e2 r2 -> e1 = e2 /\ r1 = r2.
Proof.
  intros A B. pose proof (mono_to (max f1 f2) _ _ _ _ _ A ltac:(lia)) as A'.
  pose proof (mono_to (max f1 f2) _ _ _ _ _ B ltac:(lia)) as B'. rewrite A' in B'. inversion B'. auto.
Qed.

Lemma redundant_parens_l : forall tight1 tight2 t1 t2, wfp 0 t1 = true -> wfp 0 t2 = true -> strip t1 = strip t2 ->
  exists f0, forall f, f0 <= f ->
    parse f (Lvl 0) (pr tight1 t1) = Ok (strip t1) [] /\ parse f (Lvl 0) (pr tight2 t2) = Ok (strip t1) [].
Proof.
  intros tight1 tight2 t1 t2 W1 W2 E.
  destruct (roundtrip_l tight1 t1 W1) as [a Ha]. destruct (roundtrip_l tight2 t2 W2) as [b Hb].
  exists (max a b). intros f L. split; [apply Ha; lia|rewrite E; apply Hb; lia].
Qed.

(* ---------- the two printings of a parenthesis-free tree ---------- *)
Lemma wfp_weaken ctx ctx' e : ctx' <= ctx -> wfp ctx e = true -> wfp ctx' e = true.
Proof.
  intros L H. destruct (wfp_prec _ _ H) as [C W].
  destruct e; cbn [wfp] in *; apply andb_true_iff in W; destruct W as [_ W]; apply andb_true_iff;
    (split; [apply Nat.leb_le; lia|exact W]).
Qed.

Lemma prec_par_if b e : prec (par_if b e) = if b then 17 else prec e.
Proof. destruct b; reflexivity. Qed.

Lemma wfp_par_if ctx b e : ctx <= 17 -> wfp (prec e) e = true -> (b = false -> ctx <= prec e) ->
  wfp ctx (par_if b e) = true.
Proof.
  intros L W C. destruct b; cbn [par_if].
  - cbn [wfp prec]. rewrite strength_operand. apply andb_true_iff. split; [apply Nat.leb_le; exact L|].
    eapply wfp_weaken; [|exact W]. lia.
  - eapply wfp_weaken; [|exact W]. auto.
Qed.

Lemma opctx_le17 o : fst (opctx o) <= 17 /\ snd (opctx o) <= 17.
Proof. destruct o; cbv; lia. Qed.

Ltac split_and H := repeat (apply andb_true_iff in H; let H2 := fresh H in destruct H as [H H2]).

Lemma pmin_spec : forall e ctx, plain e = true -> ctx <= 17 ->
  wfp ctx (pmin ctx e) = true /\ strip (pmin ctx e) = e.
Proof.
  assert (FIN: forall ctx e body, ctx <= 17 -> prec body = prec e -> wfp (prec body) body = true -> strip body = e ->
     wfp ctx (par_if (prec e <? ctx) body) = true /\ strip (par_if (prec e <? ctx) body) = e).
  { intros ctx e body L Pb W S. split.
    - apply wfp_par_if; [exact L|exact W|]. intros H. apply Nat.ltb_ge in H. lia.
    - destruct (_ <? _); exact S. }
  induction e as [a|o l IHl r IHr|a l IHl r IHr|u x IHx|ty x IHx|c IHc t IHt f IHf|c IHc f IHf|x IHx];
    intros ctx P L; cbn [plain] in P; try discriminate; cbn [pmin]; apply FIN; try exact L; try reflexivity.
  - split_and P. destruct (opctx_le17 o) as [L1 L2].
    destruct (IHl _ P L1) as [Wl _]. destruct (IHr _ P0 L2) as [Wr _].
    cbn [wfp]. rewrite Nat.leb_refl, Wl, Wr. reflexivity.
  - split_and P. destruct (opctx_le17 o) as [L1 L2].
    destruct (IHl _ P L1) as [_ El]. destruct (IHr _ P0 L2) as [_ Er]. cbn [strip]. rewrite El, Er. reflexivity.
  - split_and P. destruct (IHr 0 P0 ltac:(lia)) as [Wr _]. cbn [wfp]. rewrite Nat.leb_refl, P, Wr. reflexivity.
  - split_and P. destruct (IHr 0 P0 ltac:(lia)) as [_ Er]. cbn [strip]. rewrite Er.
    destruct l as [[]| | | | | | |]; try discriminate. reflexivity.
  - destruct (IHx (strength CPrefix) P ltac:(cbv; lia)) as [Wx _]. cbn [wfp]. rewrite Nat.leb_refl, Wx. reflexivity.
  - destruct (IHx (strength CPrefix) P ltac:(cbv; lia)) as [_ Ex]. cbn [strip]. rewrite Ex. reflexivity.
  - split_and P. destruct (IHx (strength CPrefix) P0 ltac:(cbv; lia)) as [Wx _]. cbn [wfp]. rewrite Nat.leb_refl, P, Wx. reflexivity.
  - split_and P. destruct (IHx (strength CPrefix) P0 ltac:(cbv; lia)) as [_ Ex]. cbn [strip]. rewrite Ex. reflexivity.
  - split_and P. destruct (IHc (S (strength CTernary)) P ltac:(cbv; lia)) as [Wc _].
    destruct (IHt (strength CTernary) P1 ltac:(cbv; lia)) as [Wt _].
    destruct (IHf (strength CTernary) P0 ltac:(cbv; lia)) as [Wf _].
    cbn [wfp]. rewrite Nat.leb_refl, Wc, Wt, Wf. reflexivity.
  - split_and P. destruct (IHc (S (strength CTernary)) P ltac:(cbv; lia)) as [_ Ec].
    destruct (IHt (strength CTernary) P1 ltac:(cbv; lia)) as [_ Et].
    destruct (IHf (strength CTernary) P0 ltac:(cbv; lia)) as [_ Ef].
    cbn [strip]. rewrite Ec, Et, Ef. reflexivity.
  - split_and P. destruct (IHc (S (strength CTernary)) P ltac:(cbv; lia)) as [Wc _].
    destruct (IHf (strength CTernary) P0 ltac:(cbv; lia)) as [Wf _].
    cbn [wfp]. rewrite Nat.leb_refl, Wc, Wf. reflexivity.
  - split_and P. destruct (IHc (S (strength CTernary)) P ltac:(cbv; lia)) as [_ Ec].
    destruct (IHf (strength CTernary) P0 ltac:(cbv; lia)) as [_ Ef].
    cbn [strip]. rewrite Ec, Ef. reflexivity.
Qed.

Lemma pfull_sub ctx x : ctx <= 17 -> wfp (prec (pfull_body x)) (pfull_body x) = true ->
  wfp ctx (par_if (negb (is_atom x)) (pfull_body x)) = true.
Proof.
  intros L W. apply wfp_par_if; [exact L|exact W|].
  intros H. destruct x; try discriminate. cbn [pfull_body prec]. rewrite strength_operand. exact L.
Qed.

Lemma pfull_spec : forall e, plain e = true ->
  wfp (prec (pfull_body e)) (pfull_body e) = true /\ strip (pfull_body e) = e.
Proof.
  assert (SS: forall x, strip (pfull_body x) = x -> strip (par_if (negb (is_atom x)) (pfull_body x)) = x).
  { intros x H. destruct (negb _); exact H. }
  induction e as [a|o l IHl r IHr|a l IHl r IHr|u x IHx|ty x IHx|c IHc t IHt f IHf|c IHc f IHf|x IHx];
    intros P; cbn [plain] in P; try discriminate; cbn [pfull_body].
  - split; reflexivity.
  - split_and P. destruct (IHl P) as [Wl El]. destruct (IHr P0) as [Wr Er]. destruct (opctx_le17 o) as [L1 L2]. split.
    + cbn [wfp]. rewrite Nat.leb_refl, (pfull_sub _ l L1 Wl), (pfull_sub _ r L2 Wr). reflexivity.
    + cbn [strip]. rewrite (SS _ El), (SS _ Er). reflexivity.
  - split_and P. destruct (IHr P0) as [Wr Er]. split.
    + cbn [wfp]. rewrite Nat.leb_refl, P, (pfull_sub 0 r ltac:(lia) Wr). reflexivity.
    + cbn [strip]. rewrite (SS _ Er). destruct l as [[]| | | | | | |]; try discriminate. reflexivity.
  - destruct (IHx P) as [Wx Ex]. split.
    + cbn [wfp]. rewrite Nat.leb_refl, (pfull_sub (strength CPrefix) x ltac:(cbv; lia) Wx). reflexivity.
    + cbn [strip]. rewrite (SS _ Ex). reflexivity.
  - split_and P. destruct (IHx P0) as [Wx Ex]. split.
    + cbn [wfp]. rewrite Nat.leb_refl, P, (pfull_sub (strength CPrefix) x ltac:(cbv; lia) Wx). reflexivity.
    + cbn [strip]. rewrite (SS _ Ex). reflexivity.
  - split_and P. destruct (IHc P) as [Wc Ec]. destruct (IHt P1) as [Wt Et]. destruct (IHf P0) as [Wf Ef]. split.
    + cbn [wfp]. rewrite Nat.leb_refl, (pfull_sub (S (strength CTernary)) c ltac:(cbv; lia) Wc), (pfull_sub (strength CTernary) t ltac:(cbv; lia) Wt),
        (pfull_sub (strength CTernary) f ltac:(cbv; lia) Wf). reflexivity.
    + cbn [strip]. rewrite (SS _ Ec), (SS _ Et), (SS _ Ef). reflexivity.
  - split_and P. destruct (IHc P) as [Wc Ec]. destruct (IHf P0) as [Wf Ef]. split.
    + cbn [wfp]. rewrite Nat.leb_refl, (pfull_sub (S (strength CTernary)) c ltac:(cbv; lia) Wc), (pfull_sub (strength CTernary) f ltac:(cbv; lia) Wf). reflexivity.
    + cbn [strip]. rewrite (SS _ Ec), (SS _ Ef). reflexivity.
Qed.

Lemma paren_irrelevant_l : forall tight tight' t, plain t = true ->
  exists f0, forall f, f0 <= f ->
    parse f (Lvl 0) (print_min tight t) = Ok t [] /\ parse f (Lvl 0) (print_full tight' t) = Ok t [].
Proof.
  intros tight tight' t P. unfold print_min, print_full, pfull.
  destruct (pmin_spec t 0 P ltac:(lia)) as [W1 E1]. destruct (pfull_spec t P) as [W2 E2].
  apply (wfp_weaken _ 0) in W2; [|lia].
  destruct (redundant_parens_l tight tight' _ _ W1 W2 ltac:(congruence)) as [f0 H].
  exists f0. intros f L. destruct (H f L) as [A B]. rewrite E1 in A, B. auto.
Qed.

