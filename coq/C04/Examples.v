(* C04 — non-vacuity: concrete trees meeting the hypotheses of the theorems, the model evaluated on
   them, and witnesses that the hypotheses are needed. *)
From Coq Require Import List NArith Bool Arith.
Import ListNotations.
From V.C04 Require Import Model Spec Proofs Properties.
Open Scope N_scope.

Definition v (n : nat) := EAtom (AVar n).
Definition i (k : N) := EAtom (ANum false k).

(* $a = $b ?: (int) - $c ** 2 * 3 - 4 << 1 < 5 == 6 & 7 ^ 8 | 9 && true || null . "s" ?? $d ? $a += 1 : ! ~ $b *)
Definition big : expr :=
  EAsg AEq (v 0)
    (ETern
      (EBin OCoal
        (EBin ODot
          (EBin OLor
            (EBin OLand
              (EBin OBor
                (EBin OBxor
                  (EBin OBand
                    (EBin OEq
                      (EBin OLt
                        (EBin OShl
                          (EBin OSub
                            (EBin OMul (ECast 0 (EUn UNeg (EBin OPow (v 2) (i 2)))) (i 3))
                            (i 4))
                          (i 1))
                        (i 5))
                      (i 6))
                    (i 7))
                  (i 8))
                (i 9))
              (EAtom ATrue))
            (EAtom ANull))
          (EAtom (AStr 0)))
        (v 3))
      (EAsg AAdd (v 0) (i 1))
      (EUn UNot (EUn UBnot (v 1)))).

Example big_plain : plain big = true. Proof. reflexivity. Qed.
(* the assignment in the middle branch must be parenthesised by the table; nothing else *)
Example big_min_tokens : List.length (print_min true big) = 42%nat /\ List.length (print_full true big) = 78%nat.
Proof. vm_compute. split; reflexivity. Qed.
Example big_min_wf : wfp 0 (pmin 0 big) = true. Proof. vm_compute. reflexivity. Qed.
Example big_roundtrip_min : parse_top (print_min true big ++ [TSemi]) = TopOk big. Proof. vm_compute. reflexivity. Qed.
Example big_roundtrip_full : parse_top (print_full false big ++ [TSemi]) = TopOk big. Proof. vm_compute. reflexivity. Qed.

(* redundant parentheses at arbitrary places: ((1)) * ((2 ** 3)) + (4) *)
Definition red : expr :=
  EBin OAdd (EBin OMul (EPar (EPar (i 1))) (EPar (EPar (EBin OPow (i 2) (i 3))))) (EPar (i 4)).
Example red_wf : wfp 0 red = true. Proof. reflexivity. Qed.
Example red_parse : parse_top (pr false red ++ [TSemi]) = TopOk (EBin OAdd (EBin OMul (i 1) (EBin OPow (i 2) (i 3))) (i 4)).
Proof. vm_compute. reflexivity. Qed.

(* the hypothesis wfp is needed: (1 + 2) * 3 written without its parentheses is a different tree *)
Definition unpar : expr := EBin OMul (EBin OAdd (i 1) (i 2)) (i 3).
Example unpar_not_wf : wfp 0 unpar = false. Proof. reflexivity. Qed.
Example unpar_parses_differently :
  parse_top (pr false unpar ++ [TSemi]) = TopOk (EBin OAdd (i 1) (EBin OMul (i 2) (i 3))).
Proof. vm_compute. reflexivity. Qed.

(* binary minus written tight: 7 -2 * 3 is lexed as 7, -2, *, 3 and (after fix 5de8d28) parses as 7 - (2 * 3) *)
Example tight_minus : pr true (EBin OSub (i 7) (EBin OMul (i 2) (i 3))) =
  [TAtom (ANum false 7); TAtom (ANum true 2); TBin OMul; TAtom (ANum false 3)].
Proof. reflexivity. Qed.
Example tight_minus_parse :
  parse_top [TAtom (ANum false 7); TAtom (ANum true 2); TBin OMul; TAtom (ANum false 3); TSemi]
  = TopOk (EBin OSub (i 7) (EBin OMul (i 2) (i 3))).
Proof. vm_compute. reflexivity. Qed.

(* (int) $a + 1 is ((int) $a) + 1 (after fix ec1e9ac) *)
Example cast_binds_tight :
  parse_top [TLp; TIdent 0; TRp; TAtom (AVar 0); TBin OAdd; TAtom (ANum false 1); TSemi]
  = TopOk (EBin OAdd (ECast 0 (v 0)) (i 1)).
Proof. vm_compute. reflexivity. Qed.

(* KNOWN FINDING signed-literal-pow: the lexer folds the sign into the literal, so the source text
   -2 POW 2 reaches the parser as the tokens [-2; POW; 2] and is parsed as (-2) POW 2; the table (POW binds
   tighter than unary minus) reads the text as -(2 POW 2).  With a space after the minus the parse follows
   the table. *)
Example signed_literal_pow_refuted :
  parse_top [TAtom (ANum true 2); TBin OPow; TAtom (ANum false 2); TSemi] = TopOk (EBin OPow (EAtom (ANum true 2)) (i 2)) /\
  parse_top [TBin OSub; TAtom (ANum false 2); TBin OPow; TAtom (ANum false 2); TSemi] = TopOk (EUn UNeg (EBin OPow (i 2) (i 2))).
Proof. vm_compute. split; reflexivity. Qed.

(* error outcomes of the modelled fragment *)
Example missing_colon : parse_top [TAtom (AVar 0); TQ; TAtom (ANum false 1); TSemi] = TopErr.
Proof. vm_compute. reflexivity. Qed.
Example unknown_cast : parse_top [TLp; TIdent 4; TRp; TAtom (AVar 0); TSemi] = TopErr.
Proof. vm_compute. reflexivity. Qed.
Example call_unsupported : parse_top [TAtom (AVar 0); TLp; TRp; TSemi] = TopUnsup.
Proof. vm_compute. reflexivity. Qed.
