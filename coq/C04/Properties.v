(* C04 — the property, clause by clause.  Only statements; every proof is `exact lemma`. *)
From Coq Require Import List.
Import ListNotations.
From V.C04 Require Import Model Spec Proofs Totality.

(* The parser's levels ARE the property's table: the level at which parse consumes each binary
   operator token is the row of that operator in Spec.table; assignment is the loosest row, ?: next,
   prefix operators and casts directly below `**`, operands (atoms, parentheses) tightest. *)
Theorem table_is_level : forall o, strength (CBin o) = level o.
Proof. exact strength_bin. Qed.
Print Assumptions table_is_level.

(* "Adding or removing redundant parentheses never changes a result": a source in which every
   parenthesis the table requires is present (wfp 0), with ANY further parentheses, binary minus
   written tight (1-2) or spaced, parses to the tree obtained by erasing its parentheses — for every
   tree, of any depth.  (Unbounded: induction on the size of the tree.) *)
Theorem roundtrip : forall tight t, wfp 0 t = true ->
  exists f0, forall f, f0 <= f -> parse f (Lvl 0) (pr tight t) = Ok (strip t) [].
Proof. exact roundtrip_l. Qed.
Print Assumptions roundtrip.

(* two sources that differ only in redundant parentheses (and in the spacing of binary minus) have the
   same parse, hence — the interpreter being a function of the tree — the same value *)
Theorem redundant_parens : forall tight1 tight2 t1 t2,
  wfp 0 t1 = true -> wfp 0 t2 = true -> strip t1 = strip t2 ->
  exists f0, forall f, f0 <= f ->
    parse f (Lvl 0) (pr tight1 t1) = Ok (strip t1) [] /\ parse f (Lvl 0) (pr tight2 t2) = Ok (strip t1) [].
Proof. exact redundant_parens_l. Qed.
Print Assumptions redundant_parens.

(* the property's two printings: minimal parentheses per the table and fully parenthesised; both are
   well formed and both parse to the tree itself *)
Theorem print_min_wf : forall t, plain t = true -> wfp 0 (pmin 0 t) = true /\ strip (pmin 0 t) = t.
Proof. intros t P. apply pmin_spec; [exact P|]. repeat constructor. Qed.
Theorem print_full_wf : forall t, plain t = true -> wfp (prec (pfull t)) (pfull t) = true /\ strip (pfull t) = t.
Proof. exact pfull_spec. Qed.
Theorem paren_irrelevant : forall tight tight' t, plain t = true ->
  exists f0, forall f, f0 <= f ->
    parse f (Lvl 0) (print_min tight t) = Ok t [] /\ parse f (Lvl 0) (print_full tight' t) = Ok t [].
Proof. exact paren_irrelevant_l. Qed.
Print Assumptions paren_irrelevant.

(* termination: the model's fixed fuel (81 per token + 40) is always enough, for EVERY token list *)
Theorem parser_total : forall ts, parse (fuel_for ts) (Lvl 0) ts <> Fuel.
Proof. exact parse_top_total. Qed.
Print Assumptions parser_total.

(* hence the round trip holds for the top-level parse exactly as checks/C04.py evaluates it: one statement
   `source ;` with the fixed fuel, no existential *)
Theorem roundtrip_statement : forall tight t, wfp 0 t = true -> parse_top (pr tight t ++ [TSemi]) = TopOk (strip t).
Proof. exact roundtrip_top. Qed.
Print Assumptions roundtrip_statement.

(* more fuel never changes an answer, so "the parse of a token list" is well defined *)
Theorem parse_fuel_monotone : forall f f' m ts e r, f <= f' -> parse f m ts = Ok e r -> parse f' m ts = Ok e r.
Proof. intros f f' m ts e r L H. exact (parse_mono f f' L m ts e r H). Qed.
Theorem parse_deterministic : forall f1 f2 m ts e1 r1 e2 r2,
  parse f1 m ts = Ok e1 r1 -> parse f2 m ts = Ok e2 r2 -> e1 = e2 /\ r1 = r2.
Proof. exact parse_det. Qed.
Print Assumptions parse_deterministic.
