(* C07 — correspondence: evaluate the model and the rule on the probes the implementation answered. *)
From V.C07 Require Import Model Spec AModel ASpec.

(* which declaration the probed name resolves to on that path (model's lookups; C08's subject) *)
Definition resolve (t : table) (s : site) (p : path) (c m : string) : option (string * member) :=
  let flat o := match o with Some (Some r) => Some r | _ => None end in
  match p with
  | PArrowRead | PArrowWrite | PDynRead | PDynWrite | PThisRead | PThisWrite | PIndexRead | PIndexWrite
  | PUnset | PRefArg | PForeach | PNestedAppend | PThisIndexRead | PThisIndexWrite => flat (find_prop t c m)
  | PCall | PDynCall | PThisCall | PCallable => flat (find_meth t c m)
  | PStaticCall | PStaticKwCall => flat (find_static_meth t c m)
  | PStaticRead | PStaticWrite | PSelfProp => flat (find_static_prop t c m)
  | PParentCall => match s with
                   | InMethod l _ => match parent_of t l with Some q => flat (find_any_meth t q m) | None => None end
                   | Outside => None
                   end
  end.

(* one visibility probe: site, path, class (of the object / named), member, what the implementation
   did: allowed?, and for stores whether the value read back afterwards had changed *)
Record vprobe := { v_site : site; v_ssite : site; v_smod : option modifier; v_path : path; v_cls : string; v_mem : string;
                   v_allowed : bool; v_changed : option bool }.
(* v_site: the context the access decision function sees (for a free function called from a method: that method's
   class context, which the function's context chains to); v_ssite: where the code is WRITTEN, which is what the rule is
   about (such a function is outside every class).  They are the same for every other probe. *)
(* 1 = model vs implementation (tie);
   2 = the property is violated: the implementation allowed an access the rule forbids ("any other read,
       write or call raises a catchable error"), or refused a public member;
   6 = informational, NOT a violation: the implementation refused an access to a non-public member that
       the rule would permit ("usable only from" does not force the access to succeed);
   3 = a denied store changed the object; 4 = an allowed store did not take effect; 9 = unresolved member *)
Definition check_v (t : table) (q : vprobe) : list nat :=
  match resolve t (v_site q) (v_path q) (v_cls q) (v_mem q) with
  | None => [9%nat]
  | Some (d, x) =>
      let md := match decide t (v_site q) (v_path q) (v_cls q) (v_mem q) with Allow => true | _ => false end in
      let sm := match v_smod q with Some m => m | None => mb_mod x end in
      let sp := visible t (v_ssite q) d sm in
      (if Bool.eqb md (v_allowed q) then [] else [1%nat]) ++
      (if v_allowed q && negb sp then [2%nat]
       else if negb (v_allowed q) && sp then (match sm with Public => [2%nat] | _ => [6%nat] end)
       else []) ++
      match v_changed q with
      | None => []
      | Some ch => (if negb (v_allowed q) && ch then [3%nat] else []) ++
                   (if v_allowed q && negb ch then [4%nat] else [])
      end
  end.
Definition vcase := (table * list vprobe)%type.
(* result: for the first differing probe k: its clause numbers followed by 1000+k; 99 = ill-formed table *)
Fixpoint vgo (t : table) (k : nat) (l : list vprobe) : list nat :=
  match l with
  | [] => []
  | q :: r => match check_v t q with [] => vgo t (S k) r | cl => (cl ++ [(1000 + k)%nat])%list end
  end.
Definition check_vcase (c : vcase) : list nat := let '(t, l) := c in if wf t then vgo t 0 l else [99%nat].
(* every differing probe of a case (used to enumerate the keys of all deviations, not only the first) *)
Fixpoint vall (t : table) (k : nat) (l : list vprobe) : list (nat * list nat) :=
  match l with
  | [] => []
  | q :: r => match check_v t q with [] => vall t (S k) r | cl => (k, cl) :: vall t (S k) r end
  end.

(* ---- declared types.  Fixture hierarchy of the scripts:
   class A {} class B extends A {} class C {} interface I {} class D implements I {} *)
Definition fixture_sub (c n : string) : bool :=
  String.eqb c n || (String.eqb c "B" && String.eqb n "A") || (String.eqb c "D" && String.eqb n "I").
Inductive boundary := BProp | BParam | BReturn | BReturnMethod | BPropStatic.
Definition fixture_tostring (c : string) : bool := String.eqb c "S".   (* class S { function __toString() } *)
Record tprobe := { t_b : boundary; t_ty : ty; t_val : value; t_accepted : bool }.
(* 1 = model vs implementation; 2 = denotation vs implementation *)
Definition check_t (q : tprobe) : list nat :=
  let md := match t_b q with
            | BProp => prop_store_accepts fixture_sub (Some (t_ty q)) (t_val q)
            | BParam => param_accepts fixture_sub (Some (t_ty q)) (t_val q)
            | BReturn => return_accepts fixture_sub (Some (t_ty q)) (t_val q)
            | BReturnMethod => method_return_accepts fixture_sub fixture_tostring (Some (t_ty q)) (t_val q)
            | BPropStatic => static_prop_store_accepts (Some (t_ty q)) (t_val q)
            end in
  let sp := type_is fixture_sub (t_ty q) (t_val q) in    (* = denote, by type_is_denote *)
  (if Bool.eqb md (t_accepted q) then [] else [1%nat]) ++ (if Bool.eqb sp (t_accepted q) then [] else [2%nat]).

(* ---- instantiation: table, class name, did `new Name()` succeed?
   1 = model vs implementation; 2 = computed spec vs implementation *)
Definition acase := (atable * list (string * bool))%type.
Definition check_a1 (t : atable) (q : string * bool) : list nat :=
  let md := match instantiate t (fst q) with Instantiated => true | _ => false end in
  (if Bool.eqb md (snd q) then [] else [1%nat]) ++ (if Bool.eqb (instantiable_b t (fst q)) (snd q) then [] else [2%nat]).
Fixpoint ago (t : atable) (k : nat) (l : list (string * bool)) : list nat :=
  match l with
  | [] => []
  | q :: r => match check_a1 t q with [] => ago t (S k) r | cl => (cl ++ [(1000 + k)%nat])%list end
  end.
Definition check_acase (c : acase) : list nat := let '(t, l) := c in ago t 0 l.
