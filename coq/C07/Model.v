(* C07 — executable model of the access decisions and of the declared-type checks, as the code is
   written (after the fix commits b8f7d99, 40d92fd, 265b65b, 7ca220f, dcfa9d9):

   visibility
     node/call_object_method.go   isCallerInClassHierarchy; CallObjectMethod.GetValue (the ClassValue and ThisValue cases)
     node/call_object_property.go CallObjectProperty.GetValue / SetValue (the ClassValue and ThisValue cases)
     node/call_object_dynamic_property.go  GetValue / SetValue
     node/call_object_dynamic_method.go    GetValue
     node/call_static_method.go   CallStaticMethod.GetValue (named class, lookup up the chain, modifier check)
     node/call_static_property.go CallStaticProperty.GetValue / SetProperty (values only: no modifier is stored)
     node/call_parent_method.go   CallParentMethod.GetValue (private => denied)
     node/index.go                IndexExpression on *ClassValue / *ThisValue (non-public => denied)
     data/value_class.go          GetPropertyStmt, GetMethod (which declaration a name resolves to)
   declared types
     data/types.go, type_int.go, type_string.go, type_array.go, type_class.go  (Types.Is)
     node/call_object_property.go SetValue, call_object_dynamic_property.go SetValue, index.go SetValue (property store)
     node/function.go Parameter.SetValue (parameter boundary: function, static method, constructor, ->method)
     node/function.go FunctionStatement.Call / node/class.go ClassMethod.Call (return boundary)

   A class is referred to by its name; vm.GetClass is a table lookup.  Chain walks use explicit
   fuel (None = out of fuel).  No proofs here. *)
From Coq Require Export List ZArith Bool String.
Export ListNotations.
Open Scope string_scope.

(* ================= declared types =================
   the type language of the property: int, string, array, a class/interface name, nullable, union.
   (bool and float are deliberately weak in the code — data.Bool.Is accepts every value with AsBool —
   and are outside the property; values of those kinds are still offered to the other types.) *)
Inductive ty :=
| TInt | TString | TArray
| TClass (n : string)
| TNullable (t : ty)          (* data.NullableType *)
| TUnion (a b : ty).          (* data.UnionType{a, b}; A|B|C nests to the right *)

Inductive value := VNull | VInt (z : Z) | VStr (s : string) | VArr | VBool (b : bool) | VFloat | VObj (cls : string).

Section Types.
Variable sub : string -> string -> bool.   (* isClassValueInstanceOf: the subject of C08 *)

Fixpoint type_is (t : ty) (v : value) : bool :=
  match t with
  | TInt => match v with VInt _ => true | _ => false end
  | TString => match v with VStr _ => true | _ => false end
  | TArray => match v with VArr => true | _ => false end
  | TClass n => match v with VObj c => sub c n | VArr => String.eqb n "iterable" | _ => false end
  | TNullable t' => match v with VNull => true | _ => type_is t' v end
  | TUnion a b => type_is a v || type_is b v
  end.

(* `property.GetType() != nil && !property.GetType().Is(value)` => error: all four store paths *)
Definition prop_store_accepts (t : option ty) (v : value) : bool :=
  match t with None => true | Some t' => type_is t' v end.
(* Parameter.SetValue: nil type: anything; null: anything; else Types.Is *)
Definition param_accepts (t : option ty) (v : value) : bool :=
  match t with
  | None => true
  | Some t' => match v with VNull => true | _ => type_is t' v end
  end.
(* FunctionStatement.Call / ClassMethod.Call, case ReturnControl: Ret == nil: anything; else Ret.Is *)
Definition return_accepts (t : option ty) (v : value) : bool :=
  match t with None => true | Some t' => type_is t' v end.
(* ClassMethod.Call only: a method declared `: string` (Ret.String() == "string") also lets an object through
   whose class has __toString (the value is converted); FunctionStatement.Call and closures do not *)
Definition method_return_accepts (has_tostring : string -> bool) (t : option ty) (v : value) : bool :=
  return_accepts t v ||
  match t, v with Some TString, VObj c => has_tostring c | _, _ => false end.
(* CallStaticProperty.SetProperty: StaticProperty.Store(name, value) — the declared type of a static property
   is not kept anywhere *)
Definition static_prop_store_accepts (t : option ty) (v : value) : bool := true.
End Types.

(* ================= visibility ================= *)
Inductive modifier := Public | Protected | Private.
Record member := { mb_name : string; mb_mod : modifier; mb_static : bool }.
Record cls := { c_extends : option string; c_props : list member; c_meths : list member }.
Definition table := list (string * cls).

Fixpoint lookup {A} (k : string) (l : list (string * A)) : option A :=
  match l with
  | [] => None
  | (k', a) :: r => if String.eqb k k' then Some a else lookup k r
  end.
Definition get_class (t : table) n := lookup n t.
Definition chain_fuel (t : table) : nat := S (List.length t).

(* where the accessing code runs: not in a class context, or in a method context whose
   ClassMethodContext.Class is r (the runtime class of $this; for a static method the class it was
   found in) — l is the class the code is written in (the implementation never looks at l except
   for parent::, which the parser resolves lexically) *)
Inductive site := Outside | InMethod (l r : string).

(* the loop `extend := X.GetExtend(); for extend != nil { if extend names target {true}; cls := load(extend); extend = cls.GetExtend() }` *)
Fixpoint ext_reaches (fuel : nat) (t : table) (e : option string) (target : string) : option bool :=
  match e with
  | None => Some false
  | Some n =>
      if String.eqb n target then Some true
      else match fuel with
           | O => None
           | S f => match get_class t n with
                    | None => Some false
                    | Some c => ext_reaches f t (c_extends c) target
                    end
           end
  end.
Definition parent_of (t : table) (n : string) : option string :=
  match get_class t n with Some c => c_extends c | None => None end.

(* isCallerInClassHierarchy(ctx, targetClass) *)
Definition in_hierarchy (t : table) (s : site) (target : string) : option bool :=
  match s with
  | Outside => Some false
  | InMethod _ r =>
      if String.eqb r target then Some true
      else match ext_reaches (chain_fuel t) t (parent_of t r) target with
           | Some false => ext_reaches (chain_fuel t) t (parent_of t target) r
           | o => o
           end
  end.

(* which declaration a member name resolves to, from class n upwards *)
Definition find_member (l : list member) (static : option bool) (m : string) : option member :=
  find (fun x => String.eqb (mb_name x) m &&
                 match static with None => true | Some b => Bool.eqb (mb_static x) b end) l.
Fixpoint chain_find (fuel : nat) (t : table) (sel : cls -> option member) (n : string) : option (option (string * member)) :=
  match fuel with
  | O => None
  | S f => match get_class t n with
           | None => Some None
           | Some c => match sel c with
                       | Some x => Some (Some (n, x))
                       | None => match c_extends c with
                                 | None => Some None
                                 | Some p => chain_find f t sel p
                                 end
                       end
           end
  end.
(* ClassValue.GetPropertyStmt: instance properties (ClassStatement.Properties) *)
Definition find_prop (t : table) (n m : string) := chain_find (chain_fuel t) t (fun c => find_member (c_props c) (Some false) m) n.
(* ClassValue.GetMethod: instance methods up the chain, then static methods up the chain *)
Definition find_meth (t : table) (n m : string) :=
  match chain_find (chain_fuel t) t (fun c => find_member (c_meths c) (Some false) m) n with
  | Some None => chain_find (chain_fuel t) t (fun c => find_member (c_meths c) (Some true) m) n
  | o => o
  end.
Definition find_static_meth (t : table) (n m : string) := chain_find (chain_fuel t) t (fun c => find_member (c_meths c) (Some true) m) n.
Definition find_static_prop (t : table) (n m : string) := chain_find (chain_fuel t) t (fun c => find_member (c_props c) (Some true) m) n.
Definition find_any_meth (t : table) (n m : string) := chain_find (chain_fuel t) t (fun c => find_member (c_meths c) None m) n.

Inductive path :=
| PArrowRead | PArrowWrite      (* $o->p, $o->p = v        ($o is not $this) *)
| PDynRead | PDynWrite          (* $o->{$n}, $o->{$n} = v *)
| PThisRead | PThisWrite        (* $this->p, $this->p = v *)
| PCall | PDynCall | PThisCall  (* $o->m(), $o->{$n}(), $this->m() *)
| PStaticCall                   (* C::m() *)
| PStaticRead | PStaticWrite    (* C::$p, C::$p = v *)
| PParentCall                   (* parent::m() *)
| PIndexRead | PIndexWrite      (* $o["p"], $o["p"] = v *)
| PUnset                        (* unset($o->p)                      node/unset.go, after fix 2ff9962 *)
| PRefArg                       (* f($o->p) with function f(&$x)     CallObjectProperty.GetZVal, after fix 546a733 *)
| PForeach                      (* foreach ($o as $k => $v): is p listed?   node/foreach.go, after fix e9e9fce *)
| PNestedAppend                 (* $o->p[] = v: does it take effect? (the denied read is swallowed: never an error) *)
| PCallable                     (* call_user_func([$o, "m"]) / $f = [$o, "m"]; $f()   objectMethodCallable.Call: no check *)
| PThisIndexRead | PThisIndexWrite   (* $this["p"], $this["p"] = v *)
| PSelfProp                     (* self::$p / static::$p   node/call_self_property.go: no check *)
| PStaticKwCall.                (* static::m()             node/call_static_keyword_method.go: no check *)

Inductive decision := Allow | Deny | NoMember | Fuel.

Definition guarded (t : table) (s : site) (target : string) (m : modifier) : decision :=
  match m with
  | Public => Allow
  | _ => match in_hierarchy t s target with
         | Some true => Allow | Some false => Deny | None => Fuel
         end
  end.

(* c: the object's runtime class (for ->, [] paths), the named class (for C::), ignored for parent:: *)
Definition decide (t : table) (s : site) (p : path) (c m : string) : decision :=
  match p with
  | PArrowRead | PArrowWrite | PDynRead | PDynWrite | PUnset | PRefArg | PForeach | PNestedAppend =>
      match find_prop t c m with
      | None => Fuel | Some None => NoMember
      | Some (Some (_, x)) => guarded t s c (mb_mod x)           (* target = the OBJECT's class *)
      end
  | PThisRead | PThisWrite =>
      match find_prop t c m with
      | None => Fuel | Some None => NoMember | Some (Some _) => Allow
      end
  | PCall | PDynCall =>
      match find_meth t c m with
      | None => Fuel | Some None => NoMember
      | Some (Some (_, x)) => guarded t s c (mb_mod x)
      end
  | PThisCall | PCallable =>
      match find_meth t c m with
      | None => Fuel | Some None => NoMember | Some (Some _) => Allow
      end
  | PSelfProp =>
      match find_static_prop t c m with
      | None => Fuel | Some None => NoMember | Some (Some _) => Allow
      end
  | PStaticKwCall =>
      match find_static_meth t c m with
      | None => Fuel | Some None => NoMember | Some (Some _) => Allow
      end
  | PStaticCall =>
      match find_static_meth t c m with
      | None => Fuel | Some None => NoMember
      | Some (Some (d, x)) => guarded t s d (mb_mod x)           (* target = the class the method was FOUND in *)
      end
  | PStaticRead =>
      match find_static_prop t c m with
      | None => Fuel | Some None => NoMember | Some (Some _) => Allow    (* only values are stored *)
      end
  | PStaticWrite => Allow                       (* StaticProperty.Store(name, value) on the named class *)
  | PParentCall =>
      match s with
      | Outside => Deny                                           (* "parent:: 只能在类方法中使用" *)
      | InMethod l _ =>
          match parent_of t l with
          | None => NoMember
          | Some p => match find_any_meth t p m with
                      | None => Fuel | Some None => NoMember
                      | Some (Some (_, x)) => match mb_mod x with Private => Deny | _ => Allow end
                      end
          end
      end
  | PIndexRead | PIndexWrite | PThisIndexRead | PThisIndexWrite =>      (* $this[...] too, after fix of the ThisValue cases *)
      match find_prop t c m with
      | None => Fuel | Some None => NoMember
      | Some (Some (_, x)) => match mb_mod x with Public => Allow | _ => Deny end
      end
  end.
