(* C07, instantiation clause — executable model of
     node/new.go                     createInstanceFromClassStmt (IsAbstractClassStmt => error)
     node/class.go                   ClassStatement.GetValue (validation of a non-abstract class)
     node/class_abstract_validate.go ValidateConcreteClassAbstractMethods, abstractMethodsDeclaredOnClass,
                                     collectUnimplementedAbstractMethods, unimplementedFromParentClass,
                                     unimplementedInterfaceMethods, classImplementsConcreteMethod
   `new Name` with Name not a registered class (an interface, or nothing) fails in GetOrLoadClass.
   Recursion on explicit fuel (None = out of fuel).  No proofs here. *)
From Coq Require Export List Bool String.
Export ListNotations.
Open Scope string_scope.

Record ameth := { am_name : string; am_abstract : bool }.
Record acls := { a_extends : option string; a_impls : list string; a_abstract : bool; a_meths : list ameth }.
Record aifc := { ai_extends : list string; ai_meths : list string }.
Record atable := { acl : list (string * acls); aif : list (string * aifc) }.

Fixpoint alookup {A} (k : string) (l : list (string * A)) : option A :=
  match l with
  | [] => None
  | (k', a) :: r => if String.eqb k k' then Some a else alookup k r
  end.
Definition a_class (t : atable) n := alookup n (acl t).
Definition a_iface (t : atable) n := alookup n (aif t).
Definition afuel (t : atable) : nat := S (List.length (acl t) + List.length (aif t)).

(* classDeclaresConcreteMethod *)
Definition declares_concrete (c : acls) (m : string) : bool :=
  existsb (fun x => String.eqb (am_name x) m && negb (am_abstract x)) (a_meths c).
(* classImplementsConcreteMethod: from the class itself upwards; an unloadable parent ends the search *)
Fixpoint implements_concrete (fuel : nat) (t : atable) (n : string) (m : string) : option bool :=
  match fuel with
  | O => None
  | S f => match a_class t n with
           | None => Some false
           | Some c => if declares_concrete c m then Some true
                       else match a_extends c with
                            | None => Some false
                            | Some p => implements_concrete f t p m
                            end
           end
  end.

Definition obind {A B} (o : option A) (k : A -> option B) : option B :=
  match o with Some a => k a | None => None end.
(* the names of `ms` that class n does not implement concretely *)
Fixpoint missing_of (t : atable) (n : string) (ms : list string) : option (list string) :=
  match ms with
  | [] => Some []
  | m :: r => obind (implements_concrete (afuel t) t n m) (fun b =>
              obind (missing_of t n r) (fun l => Some (if b then l else m :: l)))
  end.

Inductive ares (A : Type) := AOk (a : A) | AThrow | AFuel.
Arguments AOk {A} a. Arguments AThrow {A}. Arguments AFuel {A}.
Definition of_opt {A} (o : option A) : ares A := match o with Some a => AOk a | None => AFuel end.

(* first error wins, otherwise the lists are appended (only emptiness of the result is observable) *)
Fixpoint collect (acc : list string) (rs : list (ares (list string))) : ares (list string) :=
  match rs with
  | [] => AOk acc
  | AOk l :: r => collect (acc ++ l)%list r
  | AThrow :: _ => AThrow
  | AFuel :: _ => AFuel
  end.

(* unimplementedInterfaceMethods(vm, class, ifaceName): the interface's own methods, then every
   extended interface recursively; an unknown interface is an error *)
Fixpoint unimpl_iface (fuel : nat) (t : atable) (n : string) (iface : string) : ares (list string) :=
  match fuel with
  | O => AFuel
  | S f =>
      match a_iface t iface with
      | None => AThrow
      | Some i =>
          match of_opt (missing_of t n (ai_meths i)) with
          | AOk own => collect own (map (unimpl_iface f t n) (ai_extends i))
          | e => e
          end
      end
  end.
Definition unimpl_ifaces (t : atable) (n : string) (l : list string) : ares (list string) :=
  collect [] (map (unimpl_iface (afuel t) t n) l).
(* unimplementedFromParentClass(vm, class, parent): the parent's abstract methods, the parent's
   interfaces, then the grandparent *)
Fixpoint unimpl_parent (fuel : nat) (t : atable) (n : string) (parent : string) : ares (list string) :=
  match fuel with
  | O => AFuel
  | S f =>
      match a_class t parent with
      | None => AThrow
      | Some pc =>
          match of_opt (missing_of t n (map am_name (filter am_abstract (a_meths pc)))) with
          | AOk l1 =>
              match unimpl_ifaces t n (a_impls pc) with
              | AOk l2 =>
                  match a_extends pc with
                  | None => AOk (l1 ++ l2)%list
                  | Some g => match unimpl_parent f t n g with AOk l3 => AOk (l1 ++ l2 ++ l3)%list | e => e end
                  end
              | e => e
              end
          | e => e
          end
      end
  end.

Inductive inst := Instantiated | Refused | IFuel.
(* ValidateConcreteClassAbstractMethods(vm, class) *)
Definition validate (t : atable) (n : string) (c : acls) : inst :=
  if existsb am_abstract (a_meths c) then Refused    (* declares abstract method(s) *)
  else match unimpl_ifaces t n (a_impls c) with
       | AOk l1 =>
           match (match a_extends c with None => AOk [] | Some p => unimpl_parent (afuel t) t n p end) with
           | AOk l2 => match (l1 ++ l2)%list with [] => Instantiated | _ => Refused end
           | AThrow => Refused
           | AFuel => IFuel
           end
       | AThrow => Refused
       | AFuel => IFuel
       end.
(* ClassStatement.GetValue: a non-abstract class is validated; then the parent's GetValue runs on
   the same object (so every non-abstract ancestor is validated as well) *)
Fixpoint get_value (fuel : nat) (t : atable) (n : string) : inst :=
  match fuel with
  | O => IFuel
  | S f =>
      match a_class t n with
      | None => Refused
      | Some c =>
          match (if a_abstract c then Instantiated else validate t n c) with
          | Instantiated => match a_extends c with None => Instantiated | Some p => get_value f t p end
          | r => r
          end
      end
  end.
(* `new n()`: createInstanceFromClassStmt *)
Definition instantiate (t : atable) (n : string) : inst :=
  match a_class t n with
  | None => Refused                                           (* an interface, or no such class *)
  | Some c => if a_abstract c then Refused                    (* Cannot instantiate abstract class *)
              else get_value (afuel t) t n
  end.
