(* C07 — non-vacuity and the refutations (each replayed on the interpreter by checks/C07.py). *)
From V.C07 Require Import Model Spec Proofs PropLemmas Run AModel ASpec AProofs.

Definition mb (n : string) (m : modifier) (st : bool) : member := {| mb_name := n; mb_mod := m; mb_static := st |}.
Definition ex_t : table :=
  [("A", {| c_extends := None;
            c_props := [mb "pu" Public false; mb "pr" Protected false; mb "pv" Private false; mb "spv" Private true];
            c_meths := [mb "mpu" Public false; mb "mpr" Protected false; mb "mpv" Private false; mb "smpv" Private true] |});
   ("B", {| c_extends := Some "A";
            c_props := [mb "bpr" Protected false; mb "bpv" Private false]; c_meths := [] |});
   ("B2", {| c_extends := Some "A"; c_props := []; c_meths := [] |});
   ("U", {| c_extends := None; c_props := []; c_meths := [] |})].

Example ex_wf : wf ex_t = true.
Proof. vm_compute. reflexivity. Qed.
Example ex_resolves : find_prop ex_t "B" "pv" = Some (Some ("A", mb "pv" Private false)) /\
                      find_meth ex_t "B2" "mpr" = Some (Some ("A", mb "mpr" Protected false)).
Proof. vm_compute. split; reflexivity. Qed.
(* the rule holds where the theorems say: outside, same class, parent:: *)
Example ex_positive :
  decide ex_t Outside PDynRead "A" "pv" = Deny /\ decide ex_t Outside PStaticCall "B" "smpv" = Deny /\
  decide ex_t (InMethod "A" "A") PArrowWrite "A" "pv" = Allow /\
  decide ex_t (InMethod "B" "B") PParentCall "B" "mpv" = Deny /\
  decide ex_t (InMethod "B" "B") PParentCall "B" "mpr" = Allow /\
  decide ex_t (InMethod "B" "B") PArrowRead "A" "pr" = Allow.
Proof. vm_compute. repeat split; reflexivity. Qed.

(* ---- refutations of  decide = by_rule  (known findings; keys in KNOWN_FINDINGS) *)
Example private_from_subclass_refuted :          (* B's code reads A's private member of an A object *)
  decide ex_t (InMethod "B" "B") PArrowRead "A" "pv" = Allow /\ by_rule ex_t (InMethod "B" "B") "A" Private = Deny.
Proof. vm_compute. split; reflexivity. Qed.
Example private_from_parent_refuted :            (* A's code reads B's private member of a B object *)
  decide ex_t (InMethod "A" "A") PArrowRead "B" "bpv" = Allow /\ by_rule ex_t (InMethod "A" "A") "B" Private = Deny.
Proof. vm_compute. split; reflexivity. Qed.
Example protected_from_parent_refuted :          (* A's code reads B's protected member (PHP itself permits this) *)
  decide ex_t (InMethod "A" "A") PArrowRead "B" "bpr" = Allow /\ by_rule ex_t (InMethod "A" "A") "B" Protected = Deny.
Proof. vm_compute. split; reflexivity. Qed.
Example protected_sibling_overdenied_refuted :   (* B2's code reads A's protected member of a B object *)
  decide ex_t (InMethod "B2" "B2") PArrowRead "B" "pr" = Deny /\ by_rule ex_t (InMethod "B2" "B2") "A" Protected = Allow.
Proof. vm_compute. split; reflexivity. Qed.
Example private_inherited_code_overdenied_refuted : (* A's code, running on a B, reads A's private member of a B2 object *)
  decide ex_t (InMethod "A" "B") PArrowRead "B2" "pv" = Deny /\ by_rule ex_t (InMethod "A" "B") "A" Private = Allow.
Proof. vm_compute. split; reflexivity. Qed.
Example this_private_of_parent_refuted :         (* B's code reads $this->pv, private to A *)
  decide ex_t (InMethod "B" "B") PThisRead "B" "pv" = Allow /\ by_rule ex_t (InMethod "B" "B") "A" Private = Deny.
Proof. vm_compute. split; reflexivity. Qed.
Example static_prop_refuted :                    (* A::$spv from outside: static properties carry no modifier *)
  decide ex_t Outside PStaticRead "A" "spv" = Allow /\ by_rule ex_t Outside "A" Private = Deny.
Proof. vm_compute. split; reflexivity. Qed.
Example index_overdenied_refuted :               (* A's own code reads $o["pv"] *)
  decide ex_t (InMethod "A" "A") PIndexRead "A" "pv" = Deny /\ by_rule ex_t (InMethod "A" "A") "A" Private = Allow.
Proof. vm_compute. split; reflexivity. Qed.
Example static_call_private_from_subclass_refuted :
  decide ex_t (InMethod "B" "B") PStaticCall "A" "smpv" = Allow /\ by_rule ex_t (InMethod "B" "B") "A" Private = Deny.
Proof. vm_compute. split; reflexivity. Qed.
Example call_private_from_subclass_refuted :
  decide ex_t (InMethod "B" "B") PCall "A" "mpv" = Allow /\ by_rule ex_t (InMethod "B" "B") "A" Private = Deny.
Proof. vm_compute. split; reflexivity. Qed.

(* types: the denotation is inhabited / refuses as expected on the fixture hierarchy *)
Example ex_types :
  type_is fixture_sub (TUnion TInt (TNullable (TClass "A"))) (VObj "B") = true /\
  type_is fixture_sub (TUnion TInt (TNullable (TClass "A"))) (VObj "C") = false /\
  type_is fixture_sub (TClass "I") (VObj "D") = true /\ type_is fixture_sub TInt VNull = false /\
  param_accepts fixture_sub (Some TInt) VNull = true.
Proof. vm_compute. repeat split; reflexivity. Qed.

(* ---- instantiation *)
Definition am (n : string) (ab : bool) : ameth := {| am_name := n; am_abstract := ab |}.
Definition ex_a : atable :=
  {| acl := [("AB", {| a_extends := None; a_impls := []; a_abstract := true; a_meths := [am "h" true; am "k" false] |});
             ("C1", {| a_extends := Some "AB"; a_impls := []; a_abstract := false; a_meths := [am "h" false] |});
             ("C2", {| a_extends := Some "AB"; a_impls := []; a_abstract := false; a_meths := [] |});
             ("C3", {| a_extends := None; a_impls := ["J"]; a_abstract := false; a_meths := [am "f" false] |});
             ("C4", {| a_extends := None; a_impls := ["J"]; a_abstract := false; a_meths := [am "f" false; am "g" false] |});
             ("C5", {| a_extends := Some "C4"; a_impls := []; a_abstract := false; a_meths := [] |})];
     aif := [("I", {| ai_extends := []; ai_meths := ["f"] |}); ("J", {| ai_extends := ["I"]; ai_meths := ["g"] |})] |}.
Example ex_instantiate :
  instantiate ex_a "AB" = Refused /\ instantiate ex_a "I" = Refused /\ instantiate ex_a "C1" = Instantiated /\
  instantiate ex_a "C2" = Refused /\ instantiate ex_a "C3" = Refused /\ instantiate ex_a "C4" = Instantiated /\
  instantiate ex_a "C5" = Instantiated /\
  map (instantiable_b ex_a) ["AB"; "I"; "C1"; "C2"; "C3"; "C4"; "C5"] = [false; false; true; false; false; true; true].
Proof. vm_compute. repeat split; reflexivity. Qed.
(* concrete_complete's hypothesis and `required` are inhabited: C5 must provide g (interface J of its parent) *)
Example ex_required : required ex_a "C5" "g".
Proof.
  eapply (req_interface ex_a "C5" "g" "C4" _ "J" "J").
  - eapply aa_step; [reflexivity|reflexivity|constructor].
  - reflexivity.
  - now left.
  - constructor.
  - reflexivity.
  - now left.
Qed.
