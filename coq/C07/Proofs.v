(* C07 — lemmas. *)
From Coq Require Import Lia.
From V.C07 Require Import Model Spec.

Local Arguments chain_fuel : simpl never.

(* ================= declared types ================= *)
Section T.
Variable sub : string -> string -> bool.

Lemma type_is_denote t : forall v, type_is sub t v = true <-> denote sub t v.
Proof.
  induction t as [| | |n|t IH|a IHa b IHb]; intros v; simpl.
  - destruct v; split; intros H; try discriminate; try constructor; inversion H.
  - destruct v; split; intros H; try discriminate; try constructor; inversion H.
  - destruct v; split; intros H; try discriminate; try constructor; inversion H.
  - destruct v; split; intros H; try discriminate; try (inversion H; fail).
    + apply String.eqb_eq in H. subst. constructor.
    + inversion H. reflexivity.
    + now constructor.
    + inversion H. assumption.
  - destruct v; split; intros H; try (constructor; fail); try reflexivity;
      try (apply d_nullable; apply IH; exact H);
      try (inversion H; subst; apply IH; assumption).
  - rewrite orb_true_iff, IHa, IHb. split.
    + intros [H|H]; [now apply d_union_l|now apply d_union_r].
    + intros H. inversion H; subst; auto.
Qed.

Lemma prop_store_exact_l t v : prop_store_accepts sub (Some t) v = true <-> denote sub t v.
Proof. apply type_is_denote. Qed.
Lemma return_exact_l t v : return_accepts sub (Some t) v = true <-> denote sub t v.
Proof. apply type_is_denote. Qed.
Lemma param_exact_partial_l t v : v <> VNull -> (param_accepts sub (Some t) v = true <-> denote sub t v).
Proof. intros H. unfold param_accepts. destruct v; try congruence; apply type_is_denote. Qed.
Lemma param_null_refuted_l : exists t, param_accepts sub (Some t) VNull = true /\ ~ denote sub t VNull.
Proof. exists TInt. split; [reflexivity|]. intros H. inversion H. Qed.
End T.

(* ================= visibility ================= *)
Lemma lookup_In {A} k (a : A) l : lookup k l = Some a -> In (k, a) l.
Proof.
  induction l as [|[k' a'] r IH]; simpl; [discriminate|].
  destruct (String.eqb k k') eqn:E; intros H.
  - apply String.eqb_eq in E. inversion H. subst. now left.
  - right. auto.
Qed.

Section WF.
Variable t : table.
Hypothesis Hcl : closed t = true.
Hypothesis Hac : acyclic t = true.

Lemma closed_parent n c p : get_class t n = Some c -> c_extends c = Some p -> exists pc, get_class t p = Some pc.
Proof.
  intros Hn Hp. unfold closed in Hcl. rewrite forallb_forall in Hcl.
  specialize (Hcl _ (lookup_In _ _ _ Hn)). simpl in Hcl. rewrite Hp in Hcl.
  unfold is_class in Hcl. destruct (get_class t p); [eauto|discriminate].
Qed.
Lemma acyclic_class n c : get_class t n = Some c -> chain_ends (chain_fuel t) t n = true.
Proof.
  intros Hn. unfold acyclic in Hac. rewrite forallb_forall in Hac. exact (Hac _ (lookup_In _ _ _ Hn)).
Qed.

Lemma chain_S f n : chain (S f) t n =
  match get_class t n with None => [] | Some c => n :: match c_extends c with None => [] | Some p => chain f t p end end.
Proof. reflexivity. Qed.
Lemma chain_ends_S f n : chain_ends (S f) t n =
  match get_class t n with None => true | Some c => match c_extends c with None => true | Some p => chain_ends f t p end end.
Proof. reflexivity. Qed.
Lemma chain_ends_mono f : forall n, chain_ends f t n = true -> chain_ends (S f) t n = true.
Proof.
  induction f as [|f IH]; intros n H; [discriminate|].
  rewrite chain_ends_S in *. destruct (get_class t n) as [c|]; [|reflexivity].
  destruct (c_extends c) as [p|]; [|reflexivity]. now apply IH.
Qed.
Lemma chain_irrel f : forall n, chain_ends f t n = true -> chain (S f) t n = chain f t n.
Proof.
  induction f as [|f IH]; intros n H; [discriminate|].
  rewrite chain_ends_S in H. rewrite (chain_S (S f)), (chain_S f).
  destruct (get_class t n) as [c|]; [|reflexivity].
  destruct (c_extends c) as [p|]; [|reflexivity]. now rewrite (IH p H).
Qed.

(* a class is not among its own proper ancestors *)
Lemma chain_shorter f : forall n a, chain_ends f t n = true -> In a (chain f t n) ->
  chain_ends f t a = true /\ List.length (chain f t a) <= List.length (chain f t n).
Proof.
  induction f as [|f IH]; intros n a He Ha; [discriminate|].
  rewrite chain_S in Ha. pose proof He as He0. rewrite chain_ends_S in He.
  destruct (get_class t n) as [c|] eqn:Hn; [|destruct Ha].
  destruct Ha as [Ha|Ha]; [subst; split; [assumption|lia]|].
  destruct (c_extends c) as [p|] eqn:Hp; [|destruct Ha].
  destruct (IH p a He Ha) as [H1 H2]. split; [now apply chain_ends_mono|].
  rewrite (chain_irrel f a H1), (chain_S f n), Hn, Hp. simpl. lia.
Qed.
Lemma not_own_ancestor n c p : get_class t n = Some c -> c_extends c = Some p ->
  ~ In n (chain (chain_fuel t) t p).
Proof.
  intros Hn Hp Hin. pose proof (acyclic_class n c Hn) as He.
  destruct (closed_parent n c p Hn Hp) as [pc Hpc]. pose proof (acyclic_class p pc Hpc) as Hep.
  destruct (chain_shorter _ p n Hep Hin) as [_ Hlen].
  unfold chain_fuel in *. rewrite (chain_S _ n), Hn, Hp in Hlen.
  rewrite chain_ends_S, Hn, Hp in He. rewrite <- (chain_irrel _ p He) in Hlen.
  cbn [List.length] in Hlen. lia.
Qed.

(* ---- isCallerInClassHierarchy = comparability in the hierarchy order *)
Lemma ext_reaches_b tgt f : forall p pc, get_class t p = Some pc -> chain_ends f t p = true ->
  ext_reaches f t (Some p) tgt = Some (existsb (String.eqb tgt) (chain f t p)).
Proof.
  induction f as [|f IH]; intros p pc Hp He; [discriminate|].
  rewrite chain_S, Hp. rewrite chain_ends_S, Hp in He. cbn [ext_reaches existsb].
  rewrite (String.eqb_sym tgt p). destruct (String.eqb p tgt); [reflexivity|]. simpl. rewrite Hp.
  destruct (c_extends pc) as [q|] eqn:Hq; [|destruct f; reflexivity].
  destruct (closed_parent p pc q Hp Hq) as [qc Hqc]. exact (IH q qc Hqc He).
Qed.

Definition comparable (x y : string) : bool := le_class t x y || le_class t y x.

Lemma le_class_unfold x cx y : get_class t x = Some cx ->
  le_class t x y = String.eqb y x ||
    match c_extends cx with None => false | Some p => existsb (String.eqb y) (chain (chain_fuel t) t p) end.
Proof.
  intros Hx. unfold le_class. pose proof (acyclic_class x cx Hx) as He.
  unfold chain_fuel in *. rewrite chain_S, Hx. rewrite chain_ends_S, Hx in He. cbn [existsb].
  destruct (c_extends cx) as [p|]; [|reflexivity]. now rewrite (chain_irrel _ p He).
Qed.

Lemma ext_parent_b x cx y : get_class t x = Some cx ->
  ext_reaches (chain_fuel t) t (parent_of t x) y =
  Some (match c_extends cx with None => false | Some p => existsb (String.eqb y) (chain (chain_fuel t) t p) end).
Proof.
  intros Hx. unfold parent_of. rewrite Hx. destruct (c_extends cx) as [p|] eqn:Hp; [|reflexivity].
  destruct (closed_parent x cx p Hx Hp) as [pc Hpc].
  exact (ext_reaches_b y _ p pc Hpc (acyclic_class p pc Hpc)).
Qed.

Lemma in_hierarchy_b l r c cr cc : get_class t r = Some cr -> get_class t c = Some cc ->
  in_hierarchy t (InMethod l r) c = Some (comparable r c).
Proof.
  intros Hr Hc. unfold in_hierarchy, comparable.
  rewrite (le_class_unfold r cr c Hr), (le_class_unfold c cc r Hc), (String.eqb_sym c r).
  destruct (String.eqb r c); [reflexivity|]. cbn [orb].
  rewrite (ext_parent_b r cr c Hr).
  destruct (match c_extends cr with None => false | Some p => existsb (String.eqb c) (chain (chain_fuel t) t p) end); [reflexivity|].
  cbn [orb]. exact (ext_parent_b c cc r Hc).
Qed.

Lemma guarded_b l r c cr cc m : get_class t r = Some cr -> get_class t c = Some cc ->
  guarded t (InMethod l r) c m =
  match m with Public => Allow | _ => if comparable r c then Allow else Deny end.
Proof.
  intros Hr Hc. unfold guarded. rewrite (in_hierarchy_b l r c cr cc Hr Hc).
  destruct m; try reflexivity; destruct (comparable r c); reflexivity.
Qed.

(* ---- where a member is found *)
Lemma chain_find_in sel f : forall n d x, chain_find f t sel n = Some (Some (d, x)) ->
  In d (chain f t n) /\ exists dc, get_class t d = Some dc /\ sel dc = Some x.
Proof.
  induction f as [|f IH]; intros n d x H; [discriminate|].
  simpl in H. rewrite chain_S. destruct (get_class t n) as [c|] eqn:Hn; [|discriminate].
  destruct (sel c) as [y|] eqn:Hs.
  - inversion H. subst. split; [now left|eauto].
  - destruct (c_extends c) as [p|]; [|discriminate].
    destruct (IH p d x H) as [H1 H2]. split; [now right|assumption].
Qed.
End WF.

(* ---- outside: no hypothesis on the table *)
Lemma guarded_outside t c m : guarded t Outside c m = by_rule t Outside c m.
Proof. destruct m; reflexivity. Qed.
Lemma by_rule_outside t d d' m : by_rule t Outside d m = by_rule t Outside d' m.
Proof. destruct m; reflexivity. Qed.
