(* C07 — the property.

   "A private member is usable only from code of its own class and a protected member only from
    its class and descendants; any other read, write or call raises a catchable error and has no
    effect.  A typed property, parameter or return value of type int, string, array, a
    class/interface name, a nullable or a union of these accepts exactly the values of that type
    and rejects all others ..."

   The rule is stated over the class the accessing code is WRITTEN in (l) and the class that
   DECLARES the member (d).  Which declaration a name resolves to is C08's subject and is taken
   as given here. *)
From V.C07 Require Import Model.

(* ---- the ancestor chain of a class, itself first *)
Fixpoint chain (fuel : nat) (t : table) (n : string) : list string :=
  match fuel with
  | O => []
  | S f => match get_class t n with
           | None => []
           | Some c => n :: match c_extends c with None => [] | Some p => chain f t p end
           end
  end.
(* x is y or a descendant of y *)
Definition le_class (t : table) (x y : string) : bool := existsb (String.eqb y) (chain (chain_fuel t) t x).

(* the visibility rule *)
Definition visible (t : table) (s : site) (d : string) (m : modifier) : bool :=
  match m with
  | Public => true
  | Private => match s with Outside => false | InMethod l _ => String.eqb l d end
  | Protected => match s with Outside => false | InMethod l _ => le_class t l d end
  end.
Definition by_rule (t : table) (s : site) (d : string) (m : modifier) : decision :=
  if visible t s d m then Allow else Deny.

(* ---- the values of a declared type *)
Section Denote.
Variable sub : string -> string -> bool.
Inductive denote : ty -> value -> Prop :=
| d_int z : denote TInt (VInt z)
| d_string s : denote TString (VStr s)
| d_array : denote TArray VArr
| d_class n c : sub c n = true -> denote (TClass n) (VObj c)
| d_iterable : denote (TClass "iterable") VArr            (* the built-in pseudo-type *)
| d_null t : denote (TNullable t) VNull
| d_nullable t v : denote t v -> denote (TNullable t) v
| d_union_l a b v : denote a v -> denote (TUnion a b) v
| d_union_r a b v : denote b v -> denote (TUnion a b) v.
End Denote.

(* ---- well-formed tables (as in C08): parents are declared, chains end *)
Fixpoint chain_ends (fuel : nat) (t : table) (n : string) : bool :=
  match fuel with
  | O => false
  | S f => match get_class t n with
           | None => true
           | Some c => match c_extends c with None => true | Some p => chain_ends f t p end
           end
  end.
Definition is_class (t : table) (n : string) : bool := match get_class t n with Some _ => true | None => false end.
Definition closed (t : table) : bool :=
  forallb (fun e => match c_extends (snd e) with None => true | Some p => is_class t p end) t.
Definition acyclic (t : table) : bool := forallb (fun e => chain_ends (chain_fuel t) t (fst e)) t.
Definition wf (t : table) : bool := closed t && acyclic t.
