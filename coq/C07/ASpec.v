(* C07, instantiation clause — the property:
   "abstract classes and interfaces cannot be instantiated and a concrete class must implement every
    inherited abstract method."
   Stated over the declared hierarchy: which methods are REQUIRED of a class (abstract methods of its
   proper ancestors; methods of every interface reachable, through interface-extends edges, from an
   interface that the class or an ancestor implements) and what it means to PROVIDE one (the class or
   an ancestor declares it with a body). *)
From V.C07 Require Import AModel.

Inductive a_ancestor (t : atable) : string -> string -> Prop :=
| aa_refl n : a_ancestor t n n
| aa_step n c p a : a_class t n = Some c -> a_extends c = Some p -> a_ancestor t p a -> a_ancestor t n a.
Inductive a_ireach (t : atable) : string -> string -> Prop :=
| ai_refl n : a_ireach t n n
| ai_step n i p m : a_iface t n = Some i -> In p (ai_extends i) -> a_ireach t p m -> a_ireach t n m.

Inductive required (t : atable) (n m : string) : Prop :=
| req_abstract c p a ca x :
    a_class t n = Some c -> a_extends c = Some p -> a_ancestor t p a ->
    a_class t a = Some ca -> In x (a_meths ca) -> am_abstract x = true -> am_name x = m -> required t n m
| req_interface a ca i j ji :
    a_ancestor t n a -> a_class t a = Some ca -> In i (a_impls ca) ->
    a_ireach t i j -> a_iface t j = Some ji -> In m (ai_meths ji) -> required t n m.

Definition provided (t : atable) (n m : string) : Prop :=
  exists a ca, a_ancestor t n a /\ a_class t a = Some ca /\ declares_concrete ca m = true.

(* ---- the same reading, computed (used as the oracle of the correspondence check on the
   implementation's answers; the theorems of Properties.v are about the relations above) *)
Fixpoint a_chain (fuel : nat) (t : atable) (n : string) : list string :=
  match fuel with
  | O => []
  | S f => match a_class t n with
           | None => []
           | Some c => n :: match a_extends c with None => [] | Some p => a_chain f t p end
           end
  end.
Fixpoint iface_closure (fuel : nat) (t : atable) (i : string) : list string :=
  match fuel with
  | O => []
  | S f => i :: match a_iface t i with
                | None => []
                | Some x => flat_map (iface_closure f t) (ai_extends x)
                end
  end.
Definition class_of (t : atable) (a : string) : acls :=
  match a_class t a with Some c => c | None => {| a_extends := None; a_impls := []; a_abstract := false; a_meths := [] |} end.
Definition required_b (t : atable) (n : string) : list string :=
  let ch := a_chain (afuel t) t n in
  flat_map (fun a => map am_name (filter am_abstract (a_meths (class_of t a)))) (tl ch) ++
  flat_map (fun a => flat_map (fun i => flat_map (fun j => match a_iface t j with Some x => ai_meths x | None => [] end)
                                                 (iface_closure (afuel t) t i))
                              (a_impls (class_of t a))) ch.
Definition provided_b (t : atable) (n m : string) : bool :=
  existsb (fun a => declares_concrete (class_of t a) m) (a_chain (afuel t) t n).
Definition declared_everywhere (t : atable) (n : string) : bool :=
  forallb (fun a => forallb (fun i => forallb (fun j => match a_iface t j with Some _ => true | None => false end)
                                              (iface_closure (afuel t) t i)) (a_impls (class_of t a)))
          (a_chain (afuel t) t n).
Definition instantiable_b (t : atable) (n : string) : bool :=
  match a_class t n with
  | None => false
  | Some c => negb (a_abstract c) && negb (existsb am_abstract (a_meths c)) &&
              declared_everywhere t n && forallb (provided_b t n) (required_b t n)
  end.
