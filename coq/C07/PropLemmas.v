(* C07 — the statements of Properties.v, proved from Proofs.v. *)
From Coq Require Import Lia.
From V.C07 Require Import Model Spec Proofs.

Local Arguments chain_fuel : simpl never.

Definition arrow_path (p : path) : bool :=
  match p with
  | PArrowRead | PArrowWrite | PDynRead | PDynWrite | PUnset | PRefArg | PForeach | PNestedAppend => true
  | _ => false
  end.
Definition call_path (p : path) : bool := match p with PCall | PDynCall => true | _ => false end.
Definition index_path (p : path) : bool :=
  match p with PIndexRead | PIndexWrite | PThisIndexRead | PThisIndexWrite => true | _ => false end.
Definition this_prop_path (p : path) : bool := match p with PThisRead | PThisWrite => true | _ => false end.

Lemma wf_parts t : wf t = true -> closed t = true /\ acyclic t = true.
Proof. unfold wf. intros H. now apply andb_true_iff in H. Qed.

(* ---- from outside a class exactly the public members are reachable, on every path that has a check *)
Lemma outside_props t p c m d x : (arrow_path p || index_path p) = true ->
  find_prop t c m = Some (Some (d, x)) -> decide t Outside p c m = by_rule t Outside d (mb_mod x).
Proof.
  intros Hp Hf. destruct p; try discriminate; simpl; rewrite Hf;
    try (rewrite guarded_outside; apply by_rule_outside); destruct (mb_mod x); reflexivity.
Qed.
Lemma outside_calls t p c m d x : call_path p = true ->
  find_meth t c m = Some (Some (d, x)) -> decide t Outside p c m = by_rule t Outside d (mb_mod x).
Proof.
  intros Hp Hf. destruct p; try discriminate; simpl; rewrite Hf; rewrite guarded_outside; apply by_rule_outside.
Qed.
Lemma outside_static_call t c m d x :
  find_static_meth t c m = Some (Some (d, x)) -> decide t Outside PStaticCall c m = by_rule t Outside d (mb_mod x).
Proof. intros Hf. simpl. rewrite Hf. apply guarded_outside. Qed.

(* ---- public members are reachable from everywhere *)
Lemma public_props t s p c m d x : (arrow_path p || index_path p || this_prop_path p) = true ->
  find_prop t c m = Some (Some (d, x)) -> mb_mod x = Public -> decide t s p c m = Allow.
Proof. intros Hp Hf Hm. destruct p; try discriminate; simpl; rewrite Hf; try rewrite Hm; reflexivity. Qed.
Lemma public_calls t s p c m d x : (call_path p || match p with PThisCall => true | _ => false end) = true ->
  find_meth t c m = Some (Some (d, x)) -> mb_mod x = Public -> decide t s p c m = Allow.
Proof. intros Hp Hf Hm. destruct p; try discriminate; simpl; rewrite Hf; try rewrite Hm; reflexivity. Qed.

(* ---- what the -> paths implement: comparability of the two RUNTIME classes *)
Lemma arrow_rule t l r c p m d x cr cc : wf t = true -> get_class t r = Some cr -> get_class t c = Some cc ->
  arrow_path p = true -> find_prop t c m = Some (Some (d, x)) ->
  decide t (InMethod l r) p c m =
  match mb_mod x with Public => Allow | _ => if comparable t r c then Allow else Deny end.
Proof.
  intros W Hr Hc Hp Hf. destruct (wf_parts t W) as [H1 H2].
  destruct p; try discriminate; simpl; rewrite Hf; exact (guarded_b t H1 H2 l r c cr cc _ Hr Hc).
Qed.
Lemma call_rule t l r c p m d x cr cc : wf t = true -> get_class t r = Some cr -> get_class t c = Some cc ->
  call_path p = true -> find_meth t c m = Some (Some (d, x)) ->
  decide t (InMethod l r) p c m =
  match mb_mod x with Public => Allow | _ => if comparable t r c then Allow else Deny end.
Proof.
  intros W Hr Hc Hp Hf. destruct (wf_parts t W) as [H1 H2].
  destruct p; try discriminate; simpl; rewrite Hf; exact (guarded_b t H1 H2 l r c cr cc _ Hr Hc).
Qed.

(* ---- exactly where the -> paths deviate from the rule *)
Lemma arrow_over_permission t l r c p m d x cr cc : wf t = true -> get_class t r = Some cr -> get_class t c = Some cc ->
  arrow_path p = true -> find_prop t c m = Some (Some (d, x)) ->
  decide t (InMethod l r) p c m = Allow -> visible t (InMethod l r) d (mb_mod x) = false ->
  comparable t r c = true /\
  ((mb_mod x = Private /\ l <> d) \/ (mb_mod x = Protected /\ le_class t l d = false)).
Proof.
  intros W Hr Hc Hp Hf Hd Hv. rewrite (arrow_rule t l r c p m d x cr cc W Hr Hc Hp Hf) in Hd.
  destruct (mb_mod x); simpl in Hv; [discriminate| |].
  - destruct (comparable t r c); [|discriminate]. split; [reflexivity|]. right. auto.
  - destruct (comparable t r c); [|discriminate]. split; [reflexivity|]. left. split; [reflexivity|].
    now apply String.eqb_neq.
Qed.
Lemma arrow_over_denial t l r c p m d x cr cc : wf t = true -> get_class t r = Some cr -> get_class t c = Some cc ->
  arrow_path p = true -> find_prop t c m = Some (Some (d, x)) ->
  decide t (InMethod l r) p c m = Deny -> visible t (InMethod l r) d (mb_mod x) = true ->
  comparable t r c = false.
Proof.
  intros W Hr Hc Hp Hf Hd Hv. rewrite (arrow_rule t l r c p m d x cr cc W Hr Hc Hp Hf) in Hd.
  destruct (mb_mod x); [discriminate| |]; destruct (comparable t r c); congruence.
Qed.

(* ---- code of the declaring class, running on an instance of that class, accessing an instance of
   that class: every -> path and -> call agrees with the rule (allowed) *)
Lemma le_class_refl t c cc : wf t = true -> get_class t c = Some cc -> le_class t c c = true.
Proof.
  intros W Hc. destruct (wf_parts t W) as [H1 H2]. rewrite (le_class_unfold t H2 c cc c Hc).
  now rewrite String.eqb_refl.
Qed.
Lemma same_class_props t c cc p m x : wf t = true -> get_class t c = Some cc -> arrow_path p = true ->
  find_prop t c m = Some (Some (c, x)) ->
  decide t (InMethod c c) p c m = Allow /\ by_rule t (InMethod c c) c (mb_mod x) = Allow.
Proof.
  intros W Hc Hp Hf. rewrite (arrow_rule t c c c p m c x cc cc W Hc Hc Hp Hf).
  unfold comparable, by_rule, visible. rewrite (le_class_refl t c cc W Hc), String.eqb_refl. simpl.
  destruct (mb_mod x); split; reflexivity.
Qed.
Lemma same_class_calls t c cc p m x : wf t = true -> get_class t c = Some cc -> call_path p = true ->
  find_meth t c m = Some (Some (c, x)) ->
  decide t (InMethod c c) p c m = Allow /\ by_rule t (InMethod c c) c (mb_mod x) = Allow.
Proof.
  intros W Hc Hp Hf. rewrite (call_rule t c c c p m c x cc cc W Hc Hc Hp Hf).
  unfold comparable, by_rule, visible. rewrite (le_class_refl t c cc W Hc), String.eqb_refl. simpl.
  destruct (mb_mod x); split; reflexivity.
Qed.

(* ---- parent:: enforces the rule at every site *)
Lemma parent_path t l r lc q c m d x : wf t = true -> get_class t l = Some lc -> c_extends lc = Some q ->
  find_any_meth t q m = Some (Some (d, x)) ->
  decide t (InMethod l r) PParentCall c m = by_rule t (InMethod l r) d (mb_mod x).
Proof.
  intros W Hl Hq Hf. destruct (wf_parts t W) as [H1 H2].
  simpl. unfold parent_of. rewrite Hl, Hq, Hf.
  destruct (chain_find_in t _ _ q d x Hf) as [Hin _].
  unfold by_rule, visible. destruct (mb_mod x); [reflexivity| |].
  - rewrite (le_class_unfold t H2 l lc d Hl), Hq.
    assert (existsb (String.eqb d) (chain (chain_fuel t) t q) = true).
    { apply existsb_exists. exists d. split; [assumption|apply String.eqb_refl]. }
    rewrite H. now rewrite orb_true_r.
  - destruct (String.eqb l d) eqn:E; [|reflexivity].
    apply String.eqb_eq in E. subst d. exfalso. exact (not_own_ancestor t H1 H2 l lc q Hl Hq Hin).
Qed.

(* ---- [] on objects never over-permits; $this-> and C::$p never deny *)
Lemma index_rule t s p c m d x : index_path p = true -> find_prop t c m = Some (Some (d, x)) ->
  decide t s p c m = match mb_mod x with Public => Allow | _ => Deny end.
Proof. intros Hp Hf. destruct p; try discriminate; simpl; now rewrite Hf. Qed.
Lemma index_never_over_permits t s p c m d x : index_path p = true -> find_prop t c m = Some (Some (d, x)) ->
  decide t s p c m = Allow -> visible t s d (mb_mod x) = true.
Proof. intros Hp Hf. rewrite (index_rule t s p c m d x Hp Hf). destruct (mb_mod x); [reflexivity| |]; discriminate. Qed.
