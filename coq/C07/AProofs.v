(* C07, instantiation clause — lemmas. *)
From V.C07 Require Import AModel ASpec.

Lemma implements_provided t m f : forall n, implements_concrete f t n m = Some true -> provided t n m.
Proof.
  induction f as [|f IH]; intros n H; [discriminate|]. simpl in H.
  destruct (a_class t n) as [c|] eqn:Hn; [|discriminate].
  destruct (declares_concrete c m) eqn:Hd.
  - exists n, c. repeat split; auto. constructor.
  - destruct (a_extends c) as [p|] eqn:Hp; [|discriminate].
    destruct (IH p H) as (a & ca & H1 & H2 & H3). exists a, ca. repeat split; auto. eapply aa_step; eauto.
Qed.

Lemma missing_nil t n ms : missing_of t n ms = Some [] ->
  forall m, In m ms -> implements_concrete (afuel t) t n m = Some true.
Proof.
  induction ms as [|x r IH]; intros H m Hm; [destruct Hm|]. cbn [missing_of] in H.
  destruct (implements_concrete (afuel t) t n x) as [b|] eqn:Hx; [|simpl in H; discriminate]. cbn [obind] in H.
  destruct (missing_of t n r) as [l|] eqn:Hr; [|simpl in H; discriminate]. cbn [obind] in H.
  destruct b; [|discriminate]. inversion H. subst l.
  destruct Hm as [Hm|Hm]; [now subst|auto].
Qed.

Lemma collect_nil rs : forall acc, collect acc rs = AOk [] -> acc = [] /\ Forall (fun r => r = AOk []) rs.
Proof.
  induction rs as [|r rs IH]; intros acc H; simpl in H.
  - inversion H. split; [reflexivity|constructor].
  - destruct r as [l| |]; try discriminate.
    destruct (IH _ H) as [H1 H2]. apply app_eq_nil in H1. destruct H1 as [H1 H3]. subst.
    split; [reflexivity|]. constructor; auto.
Qed.

Lemma unimpl_iface_nil t n f : forall i, unimpl_iface f t n i = AOk [] ->
  forall j ji m, a_ireach t i j -> a_iface t j = Some ji -> In m (ai_meths ji) ->
  implements_concrete (afuel t) t n m = Some true.
Proof.
  induction f as [|f IH]; intros i H j ji m Hr Hj Hm; [discriminate|]. simpl in H.
  destruct (a_iface t i) as [ii|] eqn:Hi; [|discriminate].
  destruct (missing_of t n (ai_meths ii)) as [own|] eqn:Ho; [|discriminate]. simpl in H.
  destruct (collect_nil _ _ H) as [H1 H2]. subst own.
  destruct Hr as [i|i i' p j Hi' Hp Hr].
  - rewrite Hi in Hj. inversion Hj. subst ji. eapply missing_nil; eauto.
  - rewrite Hi in Hi'. inversion Hi'. subst i'.
    rewrite Forall_forall in H2. specialize (H2 (unimpl_iface f t n p) (in_map _ _ _ Hp)).
    eapply IH; eauto.
Qed.

Lemma unimpl_ifaces_nil t n l : unimpl_ifaces t n l = AOk [] ->
  forall i, In i l -> unimpl_iface (afuel t) t n i = AOk [].
Proof.
  unfold unimpl_ifaces. intros H i Hi. destruct (collect_nil _ _ H) as [_ H2].
  rewrite Forall_forall in H2. exact (H2 _ (in_map _ _ _ Hi)).
Qed.

Lemma unimpl_parent_nil t n f : forall p, unimpl_parent f t n p = AOk [] ->
  forall a ca, a_ancestor t p a -> a_class t a = Some ca ->
  missing_of t n (map am_name (filter am_abstract (a_meths ca))) = Some [] /\ unimpl_ifaces t n (a_impls ca) = AOk [].
Proof.
  induction f as [|f IH]; intros p H a ca Ha Hca; [discriminate|]. simpl in H.
  destruct (a_class t p) as [pc|] eqn:Hp; [|discriminate].
  destruct (missing_of t n (map am_name (filter am_abstract (a_meths pc)))) as [l1|] eqn:H1; [|discriminate]. simpl in H.
  destruct (unimpl_ifaces t n (a_impls pc)) as [l2| |] eqn:H2; try discriminate.
  destruct Ha as [p|p pc' g a Hp' Hg Ha].
  - rewrite Hp in Hca. injection Hca as Hca. subst ca.
    assert (E : l1 = [] /\ l2 = []).
    { destruct (a_extends pc) as [g|].
      - destruct (unimpl_parent f t n g) as [l3| |]; try discriminate. injection H as E.
        apply app_eq_nil in E. destruct E as [E1 E2]. apply app_eq_nil in E2. tauto.
      - injection H as E. apply app_eq_nil in E. tauto. }
    destruct E as [E1 E2]. rewrite E1 in H1. rewrite E2 in H2. auto.
  - rewrite Hp in Hp'. injection Hp' as Hp'. subst pc'. rewrite Hg in H.
    destruct (unimpl_parent f t n g) as [l3| |] eqn:H3; try discriminate. injection H as E.
    apply app_eq_nil in E. destruct E as [_ E2]. apply app_eq_nil in E2. destruct E2 as [_ E3]. rewrite E3 in H3.
    eapply IH; eauto.
Qed.

Lemma abstract_not_instantiable_l t n c : a_class t n = Some c -> a_abstract c = true -> instantiate t n = Refused.
Proof. intros H1 H2. unfold instantiate. now rewrite H1, H2. Qed.
Lemma non_class_not_instantiable_l t n : a_class t n = None -> instantiate t n = Refused.
Proof. intros H. unfold instantiate. now rewrite H. Qed.
Lemma instantiate_validates t n c : a_class t n = Some c -> instantiate t n = Instantiated ->
  a_abstract c = false /\ validate t n c = Instantiated.
Proof.
  intros Hn H. unfold instantiate in H. rewrite Hn in H. destruct (a_abstract c) eqn:Ha; [discriminate|].
  split; [reflexivity|]. unfold afuel in H. simpl in H. rewrite Hn, Ha in H.
  destruct (validate t n c); [reflexivity|discriminate|discriminate].
Qed.

Lemma declares_abstract_not_instantiable_l t n c x : a_class t n = Some c -> In x (a_meths c) -> am_abstract x = true ->
  instantiate t n <> Instantiated.
Proof.
  intros H1 H2 H3 H. destruct (instantiate_validates t n c H1 H) as [_ Hv]. unfold validate in Hv.
  assert (E : existsb am_abstract (a_meths c) = true) by (apply existsb_exists; eauto). rewrite E in Hv. discriminate.
Qed.

Lemma concrete_complete_l t n : instantiate t n = Instantiated -> forall m, required t n m -> provided t n m.
Proof.
  intros Hinst m Hreq.
  destruct (a_class t n) as [c|] eqn:Hn; [|unfold instantiate in Hinst; rewrite Hn in Hinst; discriminate].
  destruct (instantiate_validates t n c Hn Hinst) as [_ H]. unfold validate in H.
  destruct (existsb am_abstract (a_meths c)); [discriminate|].
  destruct (unimpl_ifaces t n (a_impls c)) as [l1| |] eqn:H1; try discriminate.
  destruct (match a_extends c with None => AOk [] | Some p => unimpl_parent (afuel t) t n p end) as [l2| |] eqn:H2; try discriminate.
  destruct (l1 ++ l2)%list eqn:E; [|discriminate]. apply app_eq_nil in E. destruct E. subst l1 l2.
  apply (implements_provided t m (afuel t)).
  destruct Hreq as [c' p a ca x Hn' Hp Ha Hca Hx Habs Hname | a ca i j ji Ha Hca Hi Hr Hj Hm].
  - rewrite Hn in Hn'. inversion Hn'. subst c'. rewrite Hp in H2.
    destruct (unimpl_parent_nil t n _ p H2 a ca Ha Hca) as [Hm _].
    apply (missing_nil t n _ Hm). subst m. apply in_map. apply filter_In. auto.
  - assert (Hifs : unimpl_ifaces t n (a_impls ca) = AOk []).
    { destruct Ha as [n|n c' p a Hn' Hp Ha].
      - rewrite Hn in Hca. inversion Hca. subst ca. assumption.
      - rewrite Hn in Hn'. inversion Hn'. subst c'. rewrite Hp in H2.
        exact (proj2 (unimpl_parent_nil t n _ p H2 a ca Ha Hca)). }
    eapply unimpl_iface_nil; eauto using unimpl_ifaces_nil.
Qed.
