(* C07 — the property, clause by clause.  Only statements; every proof is `exact lemma`.
   `decide t s p c m` is the decision of access path p at site s for member m looked up from class c
   (Model.v); `find_* ... = Some (Some (d, x))` says the name resolves to declaration x in class d
   (resolution is C08's subject); `by_rule`/`visible` is the rule of the property text over the class
   the code is WRITTEN in and the DECLARING class (Spec.v). *)
From V.C07 Require Import Model Spec Proofs PropLemmas AModel ASpec AProofs.

(* ===== "any other read, write or call raises a catchable error": from outside every class, on every
   path that has a check (->, ->{}, ->(), ->{}(), C::m(), []), exactly the public members are reachable.
   Every table, no hypothesis. *)
Theorem outside_enforced_properties : forall t p c m d x, (arrow_path p || index_path p) = true ->
  find_prop t c m = Some (Some (d, x)) -> decide t Outside p c m = by_rule t Outside d (mb_mod x).
Proof. exact outside_props. Qed.
Print Assumptions outside_enforced_properties.
Theorem outside_enforced_calls : forall t p c m d x, call_path p = true ->
  find_meth t c m = Some (Some (d, x)) -> decide t Outside p c m = by_rule t Outside d (mb_mod x).
Proof. exact outside_calls. Qed.
Print Assumptions outside_enforced_calls.
Theorem outside_enforced_static_call : forall t c m d x,
  find_static_meth t c m = Some (Some (d, x)) -> decide t Outside PStaticCall c m = by_rule t Outside d (mb_mod x).
Proof. exact outside_static_call. Qed.
Print Assumptions outside_enforced_static_call.

(* public members are reachable from every site on every path *)
Theorem public_always_allowed_properties : forall t s p c m d x,
  (arrow_path p || index_path p || this_prop_path p) = true ->
  find_prop t c m = Some (Some (d, x)) -> mb_mod x = Public -> decide t s p c m = Allow.
Proof. exact public_props. Qed.
Theorem public_always_allowed_calls : forall t s p c m d x,
  (call_path p || match p with PThisCall => true | _ => false end) = true ->
  find_meth t c m = Some (Some (d, x)) -> mb_mod x = Public -> decide t s p c m = Allow.
Proof. exact public_calls. Qed.
Print Assumptions public_always_allowed_properties.
Print Assumptions public_always_allowed_calls.

(* parent::m() enforces the rule at every site, in every well-formed hierarchy: a parent's private
   method is denied, protected and public ones are allowed *)
Theorem parent_path_enforces_visibility : forall t l r lc q c m d x, wf t = true ->
  get_class t l = Some lc -> c_extends lc = Some q -> find_any_meth t q m = Some (Some (d, x)) ->
  decide t (InMethod l r) PParentCall c m = by_rule t (InMethod l r) d (mb_mod x).
Proof. exact parent_path. Qed.
Print Assumptions parent_path_enforces_visibility.

(* code of the declaring class on an instance of that class: allowed, as the rule says *)
Theorem same_class_enforced_properties : forall t c cc p m x, wf t = true -> get_class t c = Some cc ->
  arrow_path p = true -> find_prop t c m = Some (Some (c, x)) ->
  decide t (InMethod c c) p c m = Allow /\ by_rule t (InMethod c c) c (mb_mod x) = Allow.
Proof. exact same_class_props. Qed.
Theorem same_class_enforced_calls : forall t c cc p m x, wf t = true -> get_class t c = Some cc ->
  call_path p = true -> find_meth t c m = Some (Some (c, x)) ->
  decide t (InMethod c c) p c m = Allow /\ by_rule t (InMethod c c) c (mb_mod x) = Allow.
Proof. exact same_class_calls. Qed.
Print Assumptions same_class_enforced_properties.
Print Assumptions same_class_enforced_calls.

(* ===== the full statement  `forall t s p c m, decide t s p c m = by_rule t s d (mb_mod x)`  is
   REFUTED (Examples.v: private_from_subclass_refuted, private_from_parent_refuted,
   protected_from_parent_refuted, protected_sibling_overdenied_refuted,
   private_inherited_code_overdenied_refuted, this_private_of_parent_refuted, static_prop_refuted,
   index_overdenied_refuted, static_call_private_from_subclass_refuted).  What the -> paths
   implement instead, for every well-formed hierarchy: a non-public member is reachable exactly
   when the RUNTIME class of the calling $this and the RUNTIME class of the object are comparable *)
Theorem arrow_paths_implement_comparability_partial : forall t l r c p m d x cr cc, wf t = true ->
  get_class t r = Some cr -> get_class t c = Some cc -> arrow_path p = true ->
  find_prop t c m = Some (Some (d, x)) ->
  decide t (InMethod l r) p c m =
  match mb_mod x with Public => Allow | _ => if comparable t r c then Allow else Deny end.
Proof. exact arrow_rule. Qed.
Print Assumptions arrow_paths_implement_comparability_partial.
Theorem call_paths_implement_comparability_partial : forall t l r c p m d x cr cc, wf t = true ->
  get_class t r = Some cr -> get_class t c = Some cc -> call_path p = true ->
  find_meth t c m = Some (Some (d, x)) ->
  decide t (InMethod l r) p c m =
  match mb_mod x with Public => Allow | _ => if comparable t r c then Allow else Deny end.
Proof. exact call_rule. Qed.
Print Assumptions call_paths_implement_comparability_partial.

(* ... and therefore exactly where they deviate from the rule: an access the rule forbids is
   allowed only to a private member from code of another class, or to a protected member from code
   that is not in the declaring class or a descendant, and only when the two runtime classes are
   comparable; an access the rule permits is denied only when they are not *)
Theorem arrow_over_permission_only_when : forall t l r c p m d x cr cc, wf t = true ->
  get_class t r = Some cr -> get_class t c = Some cc -> arrow_path p = true ->
  find_prop t c m = Some (Some (d, x)) ->
  decide t (InMethod l r) p c m = Allow -> visible t (InMethod l r) d (mb_mod x) = false ->
  comparable t r c = true /\
  ((mb_mod x = Private /\ l <> d) \/ (mb_mod x = Protected /\ le_class t l d = false)).
Proof. exact arrow_over_permission. Qed.
Print Assumptions arrow_over_permission_only_when.
Theorem arrow_over_denial_only_when : forall t l r c p m d x cr cc, wf t = true ->
  get_class t r = Some cr -> get_class t c = Some cc -> arrow_path p = true ->
  find_prop t c m = Some (Some (d, x)) ->
  decide t (InMethod l r) p c m = Deny -> visible t (InMethod l r) d (mb_mod x) = true ->
  comparable t r c = false.
Proof. exact arrow_over_denial. Qed.
Print Assumptions arrow_over_denial_only_when.

(* [] on objects: never reaches a member the rule hides (it denies every non-public member, also to
   the class's own code — index_overdenied_refuted) *)
Theorem index_never_over_permits : forall t s p c m d x, index_path p = true ->
  find_prop t c m = Some (Some (d, x)) -> decide t s p c m = Allow -> visible t s d (mb_mod x) = true.
Proof. exact PropLemmas.index_never_over_permits. Qed.
Print Assumptions index_never_over_permits.

(* ===== "... and has no effect": NOT a theorem.  The model has no function that composes the access
   decision, the type check and the property table of an object; the clause rests on the tie: every store
   probe (->, ->{}, [], $this->, unset, by-reference, nested append, C::$p) uses a fresh target and reads the
   value back through a getter of the declaring class (checks/C07.py, clauses 3 and 4 of Run.check_v). *)

(* ===== declared types: Types.Is is the denotation of the declared type — int, string, array, a
   class/interface name (any class hierarchy `sub`), nullable, union — by induction on the type.
   (`denote` mirrors the six Is methods constructor by constructor; what makes it a specification is only
   that it is a relation read against the property text — the check's oracle for types is `type_is` itself,
   i.e. the type clause rests on model = implementation plus this equivalence.) *)
Theorem type_is_denote : forall sub t v, type_is sub t v = true <-> denote sub t v.
Proof. exact Proofs.type_is_denote. Qed.
Print Assumptions type_is_denote.
(* property store (->, $this->, ->{}, [] after fix 265b65b) and return (functions; methods after fix
   7ca220f) accept exactly the values of the type *)
Theorem prop_store_exact : forall sub t v, prop_store_accepts sub (Some t) v = true <-> denote sub t v.
Proof. exact prop_store_exact_l. Qed.
Theorem return_exact : forall sub t v, return_accepts sub (Some t) v = true <-> denote sub t v.
Proof. exact return_exact_l. Qed.
Print Assumptions prop_store_exact.
Print Assumptions return_exact.
(* parameters (functions, static methods, constructors, ->methods after fix dcfa9d9): exact for every
   value except null.  Full statement (param_accepts ... = true <-> denote ...) REFUTED by null: *)
Theorem param_exact_partial : forall sub t v, v <> VNull ->
  (param_accepts sub (Some t) v = true <-> denote sub t v).
Proof. exact param_exact_partial_l. Qed.
Theorem param_null_refuted : forall sub, exists t, param_accepts sub (Some t) VNull = true /\ ~ denote sub t VNull.
Proof. exact param_null_refuted_l. Qed.
Print Assumptions param_exact_partial.
Print Assumptions param_null_refuted.

(* ===== "abstract classes and interfaces cannot be instantiated" — every table, no hypothesis *)
Theorem abstract_not_instantiable : forall t n c, a_class t n = Some c -> a_abstract c = true -> instantiate t n = Refused.
Proof. exact abstract_not_instantiable_l. Qed.
Theorem interface_not_instantiable : forall t n, a_class t n = None -> instantiate t n = Refused.
Proof. exact non_class_not_instantiable_l. Qed.
Theorem declares_abstract_not_instantiable : forall t n c x, a_class t n = Some c -> In x (a_meths c) ->
  am_abstract x = true -> instantiate t n <> Instantiated.
Proof. exact declares_abstract_not_instantiable_l. Qed.
Print Assumptions abstract_not_instantiable.
Print Assumptions interface_not_instantiable.
Print Assumptions declares_abstract_not_instantiable.
(* "a concrete class must implement every inherited abstract method": whenever `new n()` succeeds,
   every abstract method of every proper ancestor, and every method of every interface reachable
   through interface-extends edges from an interface implemented by n or an ancestor, is declared
   with a body by n or an ancestor.  Every table (cyclic ones included), no hypothesis. *)
Theorem concrete_complete : forall t n, instantiate t n = Instantiated -> forall m, required t n m -> provided t n m.
Proof. exact concrete_complete_l. Qed.
Print Assumptions concrete_complete.
(* the converse (a class that provides everything required IS instantiable) is not proved;
   it is compared on generated hierarchies with the computed reading ASpec.instantiable_b. *)
