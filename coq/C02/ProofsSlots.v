(* C02 — the slot vector simulates the name-indexed frame (lemmas for Slots.v). *)
From Coq Require Import List String ZArith Bool Arith Lia.
From V.C02 Require Import Lang Slots.
Import ListNotations.
Open Scope string_scope.

Lemma index_of_lt x vs i : index_of x vs = Some i -> i < List.length vs.
Proof.
  revert i. induction vs as [|y r IH]; simpl; intros i H; [discriminate|].
  destruct (String.eqb x y).
  - inversion H; subst. lia.
  - destruct (index_of x r) as [j|]; simpl in H; [|discriminate]. inversion H; subst.
    specialize (IH j eq_refl). lia.
Qed.

(* distinct variables get distinct slots *)
Lemma index_of_inj x y vs i : index_of x vs = Some i -> index_of y vs = Some i -> x = y.
Proof.
  revert i. induction vs as [|z r IH]; simpl; intros i Hx Hy; [discriminate|].
  destruct (String.eqb x z) eqn:Ex, (String.eqb y z) eqn:Ey.
  - apply String.eqb_eq in Ex, Ey. congruence.
  - inversion Hx; subst. destruct (index_of y r); simpl in Hy; discriminate.
  - inversion Hy; subst. destruct (index_of x r); simpl in Hx; discriminate.
  - destruct (index_of x r) as [j|]; simpl in Hx; [|discriminate].
    destruct (index_of y r) as [k|]; simpl in Hy; [|discriminate].
    inversion Hx; inversion Hy; subst. apply (IH k); congruence.
Qed.

Lemma index_of_mem x vs : mem x vs = true -> exists i, index_of x vs = Some i.
Proof.
  induction vs as [|y r IH]; simpl; [discriminate|].
  destruct (String.eqb x y); simpl; [eauto|].
  intros H. destruct (IH H) as [i Hi]. rewrite Hi. simpl. eauto.
Qed.
Lemma index_of_not_mem x vs : mem x vs = false -> index_of x vs = None.
Proof.
  induction vs as [|y r IH]; simpl; [reflexivity|].
  destruct (String.eqb x y); simpl; [discriminate|]. intros H. rewrite (IH H). reflexivity.
Qed.

Lemma nth_error_repeat {A} (a : A) n i : i < n -> nth_error (repeat a n) i = Some a.
Proof. revert i. induction n; intros i H; [lia|]. destruct i; simpl; [reflexivity|]. apply IHn. lia. Qed.

(* CreateContext: the fresh vector represents the empty frame *)
Lemma vrel_fresh vs : vrel vs [] (vfresh vs).
Proof.
  split; [apply repeat_length|]. intros x. destruct (index_of x vs) as [i|] eqn:E; [|reflexivity].
  unfold vfresh. apply nth_error_repeat. eapply index_of_lt; eauto.
Qed.

(* reading a listed variable by its index gives what the frame holds *)
Lemma vrel_rd vs e vec x : vrel vs e vec -> mem x vs = true -> vrd vs vec x = Some (lookup x e).
Proof.
  intros [_ R] M. unfold vrd. destruct (index_of_mem _ _ M) as [i Hi]. specialize (R x). rewrite Hi in *. exact R.
Qed.

Lemma set_nth_length i v l : List.length (set_nth i v l) = List.length l.
Proof. revert i. induction l; intros [|i]; simpl; auto. Qed.
Lemma nth_error_set_same i v l : i < List.length l -> nth_error (set_nth i v l) i = Some v.
Proof.
  revert i. induction l as [|a l IH]; intros i H; simpl in H; [lia|].
  destruct i; simpl; [reflexivity|]. apply IH. lia.
Qed.
Lemma nth_error_set_other i j v l : i <> j -> nth_error (set_nth i v l) j = nth_error l j.
Proof.
  revert i j. induction l as [|a l IH]; intros i j H; [destruct i; reflexivity|].
  destruct i, j; simpl; try reflexivity; try congruence. apply IH. congruence.
Qed.
Lemma lookup_update_same x v e : lookup x (update x v e) = v.
Proof.
  induction e as [|[y w] r IH]; simpl; [rewrite String.eqb_refl; reflexivity|].
  destruct (String.eqb x y) eqn:E; simpl; rewrite E; auto.
Qed.
Lemma lookup_update_other x y v e : x <> y -> lookup y (update x v e) = lookup y e.
Proof.
  intros N. induction e as [|[z w] r IH]; simpl.
  - destruct (String.eqb y x) eqn:E; [apply String.eqb_eq in E; congruence|reflexivity].
  - destruct (String.eqb x z) eqn:E; simpl.
    + apply String.eqb_eq in E. subst z.
      destruct (String.eqb y x) eqn:E2; [apply String.eqb_eq in E2; congruence|reflexivity].
    + destruct (String.eqb y z); auto.
Qed.

(* writing a listed variable by its index succeeds and keeps the representation; every other
   variable (slot) is untouched *)
Lemma vrel_wr vs e vec x v : vrel vs e vec -> mem x vs = true ->
  exists vec', vwr vs vec x v = Some vec' /\ vrel vs (update x v e) vec'.
Proof.
  intros [L R] M. unfold vwr. destruct (index_of_mem _ _ M) as [i Hi]. rewrite Hi.
  pose proof (index_of_lt _ _ _ Hi) as Lt.
  assert (Lt' : (i <? List.length vec)%nat = true) by (apply Nat.ltb_lt; lia). rewrite Lt'.
  eexists. split; [reflexivity|]. split; [rewrite set_nth_length; exact L|].
  intros y. destruct (String.eqb x y) eqn:E.
  - apply String.eqb_eq in E. subst y. rewrite Hi, lookup_update_same. apply nth_error_set_same. lia.
  - assert (N : x <> y) by (intros ->; rewrite String.eqb_refl in E; discriminate).
    rewrite (lookup_update_other x y v e N). specialize (R y).
    destruct (index_of y vs) as [j|] eqn:Hj; [|exact R].
    rewrite nth_error_set_other; [exact R|]. intros ->. apply N. eapply index_of_inj; eauto.
Qed.

(* a variable outside the table: the Go code raises an error instead of touching another slot *)
Lemma vwr_unlisted vs vec x v : mem x vs = false -> vwr vs vec x v = None.
Proof. intros M. unfold vwr. rewrite (index_of_not_mem _ _ M). reflexivity. Qed.
