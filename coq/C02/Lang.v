(* C02 — the control-flow core: values, one AST shared by the two interpreters, variable
   frames, the scalar operators.  No proofs here.

   The operators are C03's subject; here they are one total function used by BOTH interpreters
   and validated against the real code only on the typed domain the generator produces (ints with
   + - *, int comparisons, same-kind == / !=, '.' on ints and strings, ! && || on bools). *)
From Coq Require Import List String ZArith Bool Arith DecimalString.
Import ListNotations.
Open Scope string_scope.

Inductive value :=
| VNull | VBool (b : bool) | VInt (z : Z) | VStr (s : string)
| VArr (l : list value)                       (* list arrays of scalars, value semantics *)
| VObj (id : nat) (cls msg : string)          (* an exception object: identity, class, message *)
| VErr (msg : string)                         (* an internal error (ThrowValue without an object) *)
| VClo (id oid : nat) (cap : list (string * value)).
                                              (* a closure object: which closure of the program, its
                                                 identity, the by-value captures taken at creation *)

Inductive bop := Add | Sub | Mul | Lt | Le | Gt | Ge | Eq | Ne | Concat.

Inductive expr :=
| ELit (v : value)
| EVar (x : string)
| EBin (o : bop) (a b : expr)
| ENot (a : expr)
| EAnd (a b : expr)                            (* short-circuit *)
| EOr (a b : expr)
| EAssign (x : string) (e : expr)              (* $x = e  (value of the expression: e's value) *)
| EPostInc (x : string)                        (* $x++ *)
| EArr (a : args)                              (* [e1, ..., en] *)
| ECall (f : string) (a : args)
| ENew (cls : string) (m : expr)               (* new C(m): a fresh exception object *)
| EMsg (e : expr)                              (* e->getMessage() *)
| EClass (e : expr)                            (* get_class(e) *)
| ESame (a b : expr)                           (* a === b *)
| EPanic                                       (* a call whose Go body panics (the check registers such a
                                                  built-in): TryStatement's guard turns the panic into a
                                                  catchable internal error *)
| EIdx (x : string) (i : expr)                 (* $x[i] *)
| EIdxInc (pre : bool) (x : string) (i : expr) (* ++$x[i] / $x[i]++ *)
| EClosure (id : nat)                          (* function (..) use (..) {..} / fn (..) => e : the id-th closure of the program *)
| ECallV (f : expr) (a : args)                 (* $f(args) *)
| EProp (e : expr)                             (* e->n : the public property of an exception object *)
| ESetProp (e v : expr)                        (* e->n = v *)
| EHi (e : expr)                               (* e->hi() : the user method `function hi() { return "hi" . $this->n; }` *)
| EMatch (s : expr) (m : marms)                (* match (s) { c1, c2 => e, ..., default => d } *)
| ECallN (f : string) (a : args) (xs : list string) (b : args)
                                               (* f(a1, .., an, x1: b1, .., xk: bk): positional arguments, then
                                                  named ones; the i-th name goes with the i-th element of b *)
with args := ANil | ACons (e : expr) (r : args)
(* the arms in source order; the `default` arm is kept last (the parser stores it apart and a match
   has no fall-through, so its position is not observable); MNil = no default *)
with marms := MNil | MDefault (e : expr) | MCons (c : args) (e : expr) (r : marms).

(* statements; blocks are SSeq/SSkip trees *)
Inductive stmt :=
| SSkip
| SSeq (a b : stmt)
| SExpr (e : expr)
| SEcho (e : expr)
| SPush (x : string) (e : expr)                (* $x[] = e; *)
| SSetIdx (x : string) (k : Z) (e : expr)      (* $x[k] = e;  with a literal index *)
| SIf (c : expr) (t : stmt) (ei : elifs) (e : stmt)
| SWhile (c : expr) (b : stmt)
| SDoWhile (b : stmt) (c : expr)
| SFor (init : args) (c : expr) (inc : args) (b : stmt)
| SForeach (arr : expr) (k : option string) (v : string) (b : stmt)
| SSwitch (c : expr) (cl : clauses)
| SBreak (n : nat)
| SContinue (n : nat)
| SReturn (e : option expr)
| SStatic (x : string) (init : value)          (* static $x = <literal>; *)
| STry (b : stmt) (cs : catches) (f : stmt)    (* try {b} catch (T $x) {..} ... finally {f}; no finally = SSkip *)
| SThrow (e : expr)
| SIfInst (x : string) (T : string) (t e : stmt)   (* if ($x instanceof T) { t } else { e } *)
with elifs := EINil | EICons (c : expr) (b : stmt) (r : elifs)
with clauses := CLNil | CLCase (e : expr) (b : stmt) (r : clauses) | CLDefault (b : stmt) (r : clauses)
with catches := CTNil | CTCons (ty : string) (x : option string) (b : stmt) (r : catches).

Record fundef := { fname : string; fparams : list (string * option value); fbody : stmt }.
(* a closure of the program text: parameters, the variables captured by value (use ($a, $b); for an
   arrow function every variable of its body that the enclosing scope has), the body (an arrow
   function's body is `return e;`) *)
Record clodef := { cparams : list (string * option value); cuses : list string; cbody : stmt }.
Record prog := { funcs : list fundef; closures : list clodef; main : stmt }.

Fixpoint find_fun (fs : list fundef) (f : string) : option fundef :=
  match fs with
  | [] => None
  | d :: r => if String.eqb (fname d) f then Some d else find_fun r f
  end.

(* ---------- variable frames ---------- *)
Definition env := list (string * value).
Fixpoint lookup (x : string) (e : env) : value :=
  match e with [] => VNull | (y, v) :: r => if String.eqb x y then v else lookup x r end.
Fixpoint update (x : string) (v : value) (e : env) : env :=
  match e with
  | [] => [(x, v)]
  | (y, w) :: r => if String.eqb x y then (y, v) :: r else (y, w) :: update x v r
  end.

(* a call frame: the local variables, and the names bound to a persistent static cell *)
Definition frame := (env * list string)%type.
Definition empty_frame : frame := ([], []).

(* global state: static cells keyed by (function, variable); the log, newest first (echoed text,
   and two ghost events that the try statement records: entering a try, starting its finally);
   the next object identity *)
Inductive chunk := COut (s : string) | CTry | CFin.
Definition skey := (string * string)%type.
Definition skey_eqb (a b : skey) : bool := String.eqb (fst a) (fst b) && String.eqb (snd a) (snd b).
Definition store := list (skey * value).
Fixpoint sget (k : skey) (s : store) : option value :=
  match s with [] => None | (k', v) :: r => if skey_eqb k k' then Some v else sget k r end.
Fixpoint sset (k : skey) (v : value) (s : store) : store :=
  match s with
  | [] => [(k, v)]
  | (k', w) :: r => if skey_eqb k k' then (k', v) :: r else (k', w) :: sset k v r
  end.
(* ... and the heap: the one public property `n` that every generated exception class declares
   (`public $n = 1;`), per object identity *)
Definition heap := list (nat * value).
Definition glob := (store * list chunk * nat * heap)%type.
Definition empty_glob : glob := ([], [], O, []).
Definition gstat (g : glob) : store := fst (fst (fst g)).
Definition gout (g : glob) : list chunk := snd (fst (fst g)).
Definition gnext (g : glob) : nat := snd (fst g).
Definition gheap (g : glob) : heap := snd g.
Definition set_stat (st : store) (g : glob) : glob := (st, gout g, gnext g, gheap g).
Definition mark (c : chunk) (g : glob) : glob := (gstat g, c :: gout g, gnext g, gheap g).
Definition bump (g : glob) : glob := (gstat g, gout g, S (gnext g), gheap g).
Fixpoint hget (i : nat) (h : heap) : value :=
  match h with [] => VInt 1 | (j, v) :: r => if Nat.eqb i j then v else hget i r end.
Definition set_prop (i : nat) (v : value) (g : glob) : glob := (gstat g, gout g, gnext g, (i, v) :: gheap g).

Fixpoint mem (x : string) (l : list string) : bool :=
  match l with [] => false | y :: r => String.eqb x y || mem x r end.

(* read / write a variable of the function [fn]'s current call *)
Definition rd (fn x : string) (fr : frame) (g : glob) : value :=
  if mem x (snd fr) then match sget (fn, x) (gstat g) with Some v => v | None => VNull end
  else lookup x (fst fr).
Definition wr (fn x : string) (v : value) (fr : frame) (g : glob) : frame * glob :=
  if mem x (snd fr) then (fr, set_stat (sset (fn, x) v (gstat g)) g)
  else ((update x v (fst fr), snd fr), g).
Definition emit (s : string) (g : glob) : glob := mark (COut s) g.
Definition chunk_text (c : chunk) : string := match c with COut s => s | _ => "" end.
Definition output (g : glob) : string := String.concat "" (map chunk_text (rev (gout g))).

(* ---------- scalar operators (shared, see header) ---------- *)
Definition z_to_str (z : Z) : string := NilZero.string_of_int (Z.to_int z).
Definition to_str (v : value) : string :=
  match v with
  | VNull => "" | VBool true => "true" | VBool false => "false"
  | VInt z => z_to_str z | VStr s => s | VArr _ => "Array"
  | VObj _ _ _ => "Object" | VErr m => m | VClo _ _ _ => "Closure"
  end.
Definition truthy (v : value) : bool :=
  match v with
  | VNull => false | VBool b => b | VInt z => negb (z =? 0)%Z
  | VStr s => negb (String.eqb s "") | VArr l => match l with [] => false | _ => true end
  | VObj _ _ _ | VErr _ | VClo _ _ _ => true
  end.
Definition scalar_eqb (a b : value) : bool :=
  match a, b with
  | VNull, VNull => true
  | VBool x, VBool y => Bool.eqb x y
  | VInt x, VInt y => (x =? y)%Z
  | VStr x, VStr y => String.eqb x y
  | VObj i _ _, VObj j _ _ => Nat.eqb i j        (* == on objects: only "the same object" is in the domain *)
  | _, _ => false
  end.
Definition binop (o : bop) (a b : value) : value :=
  match o, a, b with
  | Add, VInt x, VInt y => VInt (x + y)
  | Add, VStr x, _ => VStr (x ++ to_str b)
  | Sub, VInt x, VInt y => VInt (x - y)
  | Mul, VInt x, VInt y => VInt (x * y)
  | Lt, VInt x, VInt y => VBool (x <? y)%Z
  | Le, VInt x, VInt y => VBool (x <=? y)%Z
  | Gt, VInt x, VInt y => VBool (x >? y)%Z
  | Ge, VInt x, VInt y => VBool (x >=? y)%Z
  | Eq, _, _ => VBool (scalar_eqb a b)
  | Ne, _, _ => VBool (negb (scalar_eqb a b))
  | Concat, _, _ => VStr (to_str a ++ to_str b)
  | _, _, _ => VNull
  end.
(* a === b on scalars and exception objects (identity) *)
Definition same_value (a b : value) : bool :=
  match a, b with
  | VErr m, VErr m' => String.eqb m m'        (* isStrictEqual falls back to the string forms *)
  | _, _ => scalar_eqb a b
  end.
(* $e->getMessage() and get_class($e) of a caught exception *)
Definition msg_of (v : value) : option string :=
  match v with VObj _ _ m => Some m | VErr m => Some m | _ => None end.
Definition obj_id (v : value) : option nat :=
  match v with VObj i _ _ => Some i | _ => None end.
Definition class_of (v : value) : option string :=
  match v with VObj _ c _ => Some c | _ => None end.
(* what `throw v` throws: an object or a caught internal error as it is; anything else becomes an
   internal error carrying its string form *)
Definition thrown_of (v : value) : value :=
  match v with VObj _ _ _ | VErr _ => v | _ => VErr (to_str v) end.
(* does `catch (T ...)` accept the thrown value *)
Definition catchfn := string -> value -> bool.

(* $x++ on the value held by the variable: (new value, value of the expression) *)
Definition incr_value (v : value) : value * value :=
  match v with
  | VInt z => (VInt (z + 1), VInt z)
  | VNull => (VInt 1, VNull)
  | _ => (v, v)
  end.
(* switch compares loosely; only same-kind int/int and string/string are in the domain *)
Definition switch_match (a b : value) : bool :=
  match a, b with
  | VInt x, VInt y => (x =? y)%Z
  | VStr x, VStr y => String.eqb x y
  | _, _ => false
  end.
Definition arr_push (a v : value) : value :=
  match a with VArr l => VArr (l ++ [v]) | VNull => VArr [v] | _ => a end.
(* $a[i] on list arrays (in range; the generator never leaves the range) *)
Definition arr_get (a i : value) : value :=
  match a, i with
  | VArr l, VInt z => if (z <? 0)%Z then VNull else nth (Z.to_nat z) l VNull
  | _, _ => VNull
  end.
Fixpoint list_set (n : nat) (v : value) (l : list value) : list value :=
  match l, n with
  | [], _ => []
  | _ :: r, O => v :: r
  | a :: r, S n' => a :: list_set n' v r
  end.
Definition arr_set (a i v : value) : value :=
  match a, i with
  | VArr l, VInt z => if (z <? 0)%Z then a else VArr (list_set (Z.to_nat z) v l)
  | _, _ => a
  end.
(* foreach items: (key, value) pairs of a list array; None when the subject is not iterable *)
Fixpoint items_from (i : Z) (l : list value) : list (value * value) :=
  match l with [] => [] | v :: r => (VInt i, v) :: items_from (i + 1) r end.
Definition foreach_items (a : value) : option (list (value * value)) :=
  match a with VArr l => Some (items_from 0 l) | VNull => Some [] | _ => None end.

(* parameter binding of a fresh call frame: positional, defaults for the missing ones *)
Fixpoint bind_params (ps : list (string * option value)) (vs : list value) (e : env) : env :=
  match ps with
  | [] => e
  | (x, d) :: r =>
      match vs with
      | v :: vr => bind_params r vr (update x v e)
      | [] => bind_params r [] (match d with Some dv => update x dv e | None => e end)
      end
  end.

(* every parameter without a default value has an argument (otherwise the call is an ArgumentCountError) *)
Fixpoint enough_args (ps : list (string * option value)) (vs : list value) : bool :=
  match ps with
  | [] => true
  | (_, d) :: r =>
      match vs with
      | _ :: vr => enough_args r vr
      | [] => match d with Some _ => enough_args r [] | None => false end
      end
  end.

(* results: out of fuel, or a payload with the frame and the global state *)
Inductive res (A : Type) := Fuel | Res (a : A) (fr : frame) (g : glob).
Arguments Fuel {A}.
Arguments Res {A} a fr g.
(* expression outcome: a value, or a thrown value *)
Inductive eout := EV (v : value) | EX (v : value).
(* what a call does: the callee (a named function, or a closure object), argument values, global
   state -> outcome + global state *)
Inductive callee := CFun (f : string) | CClo (id oid : nat) (cap : list (string * value)).
Definition callfn := callee -> list value -> glob -> option (eout * glob).
(* the static cells of a closure object are keyed by a name no function can have *)
Definition clo_name (oid : nat) : string := "{" ++ z_to_str (Z.of_nat oid).
(* by-value capture at creation; installing the captures in the callee's frame *)
Definition capture (fn : string) (uses : list string) (fr : frame) (g : glob) : list (string * value) :=
  map (fun x => (x, rd fn x fr g)) uses.
Fixpoint bind_captured (cap : list (string * value)) (e : env) : env :=
  match cap with [] => e | (x, v) :: r => bind_captured r (update x v e) end.

(* an error raised by the interpreter itself (data.NewErrorThrow / NewErrorThrowByName: undefined function, a jump
   that leaves its function, foreach over a scalar, argument errors): a ThrowValue without an object, which
   catch (Throwable | Exception | Error) accepts *)
Definition err (m : string) : value := VErr m.

(* observation of a whole run: echoed text + how it ended *)
Inductive ending := EndOk | EndError | EndFuel.
Definition obs := (string * ending)%type.
