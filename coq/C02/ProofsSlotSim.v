(* C02 — SlotSem (SlotModel.v: frames as index-accessed cell vectors) computes what ImplSem
   (Model.v: frames as name-indexed maps) computes, for every program whose symbol tables cover
   their bodies, every fuel.  Relational induction on fuel; the relation between the two frames is
   "same static bindings; the vector has one cell per table entry; cell index_of(x) holds what the
   map holds for x". *)
From Coq Require Import List String ZArith Bool Arith Lia.
From V.C02 Require Import Lang Model Slots ProofsSlots SlotModel ProofsSlotUnfold Proofs.
Import ListNotations.
Open Scope string_scope.

(* ---------- cells ---------- *)
Lemma cell_set_length i v l : List.length (cell_set i v l) = List.length l.
Proof. revert i. induction l as [|[x w] r IH]; intros [|i]; simpl; auto. Qed.
Lemma cell_get_set_same i v l : i < List.length l -> cell_get i (cell_set i v l) = v.
Proof.
  unfold cell_get. revert i. induction l as [|[x w] r IH]; intros i H; simpl in H; [lia|].
  destruct i; simpl; [reflexivity|]. apply IH. lia.
Qed.
Lemma cell_get_set_other i j v l : i <> j -> cell_get j (cell_set i v l) = cell_get j l.
Proof.
  unfold cell_get. revert i j. induction l as [|[x w] r IH]; intros i j H; [destruct i; reflexivity|].
  destruct i, j; simpl; try reflexivity; try congruence. apply IH. congruence.
Qed.
Lemma cell_get_fresh vs i : cell_get i (sfresh vs) = VNull.
Proof.
  unfold cell_get, sfresh. destruct (nth_error (map (fun x => (x, VNull)) vs) i) as [[x v]|] eqn:E; [|reflexivity].
  apply nth_error_In in E. apply in_map_iff in E. destruct E as (y & [= _ <-] & _). reflexivity.
Qed.

(* ---------- the relation ---------- *)
Definition venv (vs : list string) (e se : env) : Prop :=
  List.length se = List.length vs /\
  forall x i, index_of x vs = Some i -> cell_get i se = lookup x e.
Definition E (vs : list string) (fr sf : frame) : Prop := snd fr = snd sf /\ venv vs (fst fr) (fst sf).

Lemma venv_fresh vs : venv vs [] (sfresh vs).
Proof. split; [unfold sfresh; apply map_length|]. intros x i _. apply cell_get_fresh. Qed.

Lemma venv_store vs e se x v : venv vs e se -> mem x vs = true -> venv vs (update x v e) (sstore vs x v se).
Proof.
  intros [L R] M. unfold sstore. destruct (index_of_mem _ _ M) as [i Hi]. rewrite Hi.
  pose proof (index_of_lt _ _ _ Hi) as Lt.
  split; [rewrite cell_set_length; exact L|].
  intros y j Hj. destruct (String.eqb x y) eqn:Exy.
  - apply String.eqb_eq in Exy. subst y. rewrite Hi in Hj. inversion Hj; subst j.
    rewrite lookup_update_same. apply cell_get_set_same. lia.
  - assert (N : x <> y) by (intros ->; rewrite String.eqb_refl in Exy; discriminate).
    rewrite (lookup_update_other x y v e N), cell_get_set_other; [apply R; exact Hj|].
    intros ->. apply N. eapply index_of_inj; eauto.
Qed.

Lemma venv_bind_params vs : forall ps avs e se, venv vs e se ->
  forallb (fun q => mem (fst q) vs) ps = true ->
  venv vs (bind_params ps avs e) (sbind_params vs ps avs se).
Proof.
  induction ps as [|[x d] r IH]; intros avs e se H C; simpl; [exact H|].
  simpl in C. apply andb_prop in C as [Cx Cr].
  destruct avs as [|v vr].
  - destruct d as [dv|]; apply IH; auto. apply venv_store; auto.
  - apply IH; auto. apply venv_store; auto.
Qed.
(* a name outside the table: the map records it, the vector ignores it, the table's variables are unaffected *)
Lemma venv_store_out vs e se x v : venv vs e se -> mem x vs = false -> venv vs (update x v e) (sstore vs x v se).
Proof.
  intros [L R] M. unfold sstore. rewrite (index_of_not_mem _ _ M). split; [exact L|].
  intros y j Hj. assert (N : x <> y).
  { intros ->. rewrite (index_of_not_mem _ _ M) in Hj. discriminate. }
  rewrite (lookup_update_other x y v e N). apply R. exact Hj.
Qed.
Lemma venv_bind_captured vs : forall cap e se, venv vs e se ->
  venv vs (bind_captured cap e) (sbind_captured vs cap se).
Proof.
  induction cap as [|[x v] r IH]; intros e se H; simpl; [exact H|].
  apply IH. destruct (mem x vs) eqn:M; [apply venv_store|apply venv_store_out]; auto.
Qed.

Lemma E_rd vs fn x fr sf g : E vs fr sf -> mem x vs = true -> srd vs fn x sf g = rd fn x fr g.
Proof.
  intros [S [L R]] M. unfold srd, rd. rewrite <- S. destruct (mem x (snd fr)); [reflexivity|].
  destruct (index_of_mem _ _ M) as [i Hi]. rewrite Hi. apply R. exact Hi.
Qed.
Lemma E_wr vs fn x v fr sf g fr' g1 sf' g2 : E vs fr sf -> mem x vs = true ->
  wr fn x v fr g = (fr', g1) -> swr vs fn x v sf g = (sf', g2) -> g1 = g2 /\ E vs fr' sf'.
Proof.
  intros [S V] M. unfold wr, swr. rewrite <- S. destruct (mem x (snd fr)).
  - intros [= <- <-] [= <- <-]. split; [reflexivity|]. split; assumption.
  - destruct (index_of_mem _ _ M) as [i Hi]. rewrite Hi. intros [= <- <-] [= <- <-].
    split; [reflexivity|]. split; [reflexivity|]. simpl.
    pose proof (venv_store vs _ _ x v V M) as V'. unfold sstore in V'. rewrite Hi in V'. exact V'.
Qed.
Lemma E_static vs fr sf x : E vs fr sf -> E vs (fst fr, x :: snd fr) (fst sf, x :: snd sf).
Proof. intros [S V]. split; simpl; [rewrite S; reflexivity|exact V]. Qed.

Lemma E_capture vs fn uses fr sf g : E vs fr sf -> mems vs uses = true ->
  scapture vs fn uses sf g = capture fn uses fr g.
Proof.
  intros HE. unfold scapture, capture, mems. induction uses as [|x r IH]; simpl; [reflexivity|].
  intros C. apply andb_prop in C as [Cx Cr]. rewrite (E_rd vs fn x fr sf g HE Cx), IH; auto.
Qed.

(* ---------- results ---------- *)
Definition erel {A} (vs : list string) (ri rs : res A) : Prop :=
  match ri, rs with
  | Fuel, Fuel => True
  | Res a fr g, Res a' sf g' => a = a' /\ g = g' /\ E vs fr sf
  | _, _ => False
  end.

(* R : erel vs X Y.  Leaves: payload [a], ImplSem frame [f], SlotSem frame [sf'], state [g'], R : E vs f sf' *)
Ltac rel_step R a f sf' g' :=
  let a2 := fresh "a2" in let g2 := fresh "g2" in
  match type of R with
  | erel _ ?X ?Y =>
      destruct X as [|a f g']; destruct Y as [|a2 sf' g2]; simpl in R; try contradiction;
      [try exact I | destruct R as (<- & <- & R)]
  end.

Section ExprSim.
Variable funs : list fundef.
Variable clos : list clodef.
Variable vs : list string.
Variable fn : string.

Lemma soperand_eq e fr sf g : E vs fr sf -> cov_expr clos vs e = true -> soperand vs fn e sf g = operand fn e fr g.
Proof.
  intros HE C. destruct e; try reflexivity. simpl in *. rewrite (E_rd vs fn x fr sf g HE C). reflexivity.
Qed.
Lemma sfast_assign_eq r fr sf g : E vs fr sf -> cov_expr clos vs r = true ->
  sfast_assign vs fn r sf g = fast_assign fn r fr g.
Proof.
  intros HE C. destruct r; try reflexivity.
  - simpl in *. rewrite (E_rd vs fn x fr sf g HE C). reflexivity.
  - simpl in C. apply andb_prop in C as [C1 C2]. destruct o; try reflexivity; cbn [sfast_assign fast_assign];
      rewrite (soperand_eq r1 fr sf g HE C1), (soperand_eq r2 fr sf g HE C2); reflexivity.
Qed.
Lemma svar_int_le_eq a b fr sf g : E vs fr sf -> cov_expr clos vs a = true ->
  svar_int_le vs fn a b sf g = var_int_le fn a b fr g.
Proof.
  intros HE C. destruct a; try reflexivity. destruct b; try reflexivity. destruct v; try reflexivity.
  simpl in *. rewrite (E_rd vs fn x fr sf g HE C). reflexivity.
Qed.

Variables cfi cfs : callfn.
Hypothesis Hcf : forall c avs g, cfs c avs g = cfi c avs g.

Ltac andb_split :=
  repeat match goal with H : _ && _ = true |- _ => apply andb_prop in H; destruct H end.

Lemma seval_ieval_both :
  (forall e, forall fr sf g, E vs fr sf -> cov_expr clos vs e = true ->
             erel vs (ieval cfi funs clos fn e fr g) (seval cfs funs clos vs fn e sf g)) /\
  (forall a, (forall fr sf g, E vs fr sf -> cov_args clos vs a = true ->
              erel vs (ieval_args cfi funs clos fn a fr g) (seval_args cfs funs clos vs fn a sf g)) /\
             (forall v fr sf g, E vs fr sf -> cov_args clos vs a = true ->
              erel vs (ieval_conds cfi funs clos fn v a fr g) (seval_conds cfs funs clos vs fn v a sf g)) /\
             (forall ok xs seen fr sf g, E vs fr sf -> cov_args clos vs a = true ->
              erel vs (ieval_nargs cfi funs clos fn ok xs seen a fr g) (seval_nargs cfs funs clos vs fn ok xs seen a sf g))) /\
  (forall m, forall v fr sf g, E vs fr sf -> cov_arms clos vs m = true ->
             erel vs (ieval_arms cfi funs clos fn v m fr g) (seval_arms cfs funs clos vs fn v m sf g)).
Proof.
  apply expr_args_ind.
  - (* ELit *) intros v fr sf g HE C. simpl. auto.
  - (* EVar *) intros x fr sf g HE C. cbn [cov_expr] in C.
    change (ieval cfi funs clos fn (EVar x) fr g) with (Res (EV (rd fn x fr g)) fr g).
    change (seval cfs funs clos vs fn (EVar x) sf g) with (Res (EV (srd vs fn x sf g)) sf g).
    simpl. rewrite (E_rd vs fn x fr sf g); auto.
  - (* EBin *) intros o a IHa b IHb fr sf g HE C. cbn [cov_expr] in C. andb_split.
    assert (S : erel vs (islow funs clos fn cfi o a b fr g) (sslow funs clos vs fn cfs o a b sf g)).
    { unfold islow, sslow. pose proof (IHa fr sf g HE H) as R. rel_step R va f1 s1 g1. destruct va; [|simpl; auto].
      pose proof (IHb _ _ g1 R H0) as R2. rel_step R2 vb f2 s2 g2. destruct vb; simpl; auto. }
    rewrite ieval_bin, seval_bin. destruct o; try exact S.
    rewrite (svar_int_le_eq a b fr sf g HE H). destruct (var_int_le fn a b fr g); [simpl; auto|exact S].
  - (* ENot *) intros a IHa fr sf g HE C. cbn [cov_expr] in C. rewrite ieval_not, seval_not.
    pose proof (IHa fr sf g HE C) as R. rel_step R va f1 s1 g1. destruct va; simpl; auto.
  - (* EAnd *) intros a IHa b IHb fr sf g HE C. cbn [cov_expr] in C. andb_split. rewrite ieval_and, seval_and.
    pose proof (IHa fr sf g HE H) as R. rel_step R va f1 s1 g1. destruct va as [va|]; [|simpl; auto].
    destruct (truthy va); [|simpl; auto]. pose proof (IHb _ _ g1 R H0) as R2. rel_step R2 vb f2 s2 g2. destruct vb; simpl; auto.
  - (* EOr *) intros a IHa b IHb fr sf g HE C. cbn [cov_expr] in C. andb_split. rewrite ieval_or, seval_or.
    pose proof (IHa fr sf g HE H) as R. rel_step R va f1 s1 g1. destruct va as [va|]; [|simpl; auto].
    destruct (truthy va); [simpl; auto|]. pose proof (IHb _ _ g1 R H0) as R2. rel_step R2 vb f2 s2 g2. destruct vb; simpl; auto.
  - (* EAssign *) intros x e IHe fr sf g HE C. cbn [cov_expr] in C. andb_split.
    rewrite ieval_assign, seval_assign, (sfast_assign_eq e fr sf g HE H0).
    destruct (fast_assign fn e fr g) as [z|].
    + destruct (wr fn x (VInt z) fr g) as [fr' g1] eqn:W; destruct (swr vs fn x (VInt z) sf g) as [sf' g2] eqn:SW.
      destruct (E_wr _ _ _ _ _ _ _ _ _ _ _ HE H W SW) as [<- HE']. simpl. auto.
    + pose proof (IHe fr sf g HE H0) as R. rel_step R ve f1 s1 g1. destruct ve as [v|]; [|simpl; auto].
      destruct (wr fn x v f1 g1) as [fr' g2] eqn:W; destruct (swr vs fn x v s1 g1) as [sf' g3] eqn:SW.
      destruct (E_wr _ _ _ _ _ _ _ _ _ _ _ R H W SW) as [<- HE']. simpl. auto.
  - (* EPostInc *) intros x fr sf g HE C. cbn [cov_expr] in C.
    change (ieval cfi funs clos fn (EPostInc x) fr g) with
      (let '(nv, ov) := incr_value (rd fn x fr g) in let '(fr', g') := wr fn x nv fr g in Res (EV ov) fr' g').
    rewrite seval_postinc, (E_rd vs fn x fr sf g HE C).
    destruct (incr_value (rd fn x fr g)) as [nv ov].
    destruct (wr fn x nv fr g) as [fr' g1] eqn:W; destruct (swr vs fn x nv sf g) as [sf' g2] eqn:SW.
    destruct (E_wr _ _ _ _ _ _ _ _ _ _ _ HE C W SW) as [<- HE']. simpl. auto.
  - (* EArr *) intros a [IHa _] fr sf g HE C. cbn [cov_expr] in C. rewrite ieval_arr, seval_arr.
    pose proof (IHa fr sf g HE C) as R. rel_step R va f1 s1 g1. destruct va; simpl; auto.
  - (* ECall *) intros f a [IHa _] fr sf g HE C. cbn [cov_expr] in C.
    rewrite ieval_call, seval_call. destruct (find_fun funs f); [|simpl; auto].
    pose proof (IHa fr sf g HE C) as R. rel_step R va f1 s1 g1. destruct va as [l|]; [|simpl; auto].
    rewrite Hcf. destruct (cfi (CFun f) l g1) as [[o g']|]; simpl; auto.
  - (* ENew *) intros cls m IHm fr sf g HE C. cbn [cov_expr] in C. rewrite ieval_new, seval_new.
    pose proof (IHm fr sf g HE C) as R. rel_step R va f1 s1 g1. destruct va; simpl; auto.
  - (* EMsg *) intros e IHe fr sf g HE C. cbn [cov_expr] in C. rewrite ieval_msg, seval_msg.
    pose proof (IHe fr sf g HE C) as R. rel_step R va f1 s1 g1. destruct va as [v|]; [|simpl; auto].
    destruct (msg_of v); simpl; auto.
  - (* EClass *) intros e IHe fr sf g HE C. cbn [cov_expr] in C. rewrite ieval_class, seval_class.
    pose proof (IHe fr sf g HE C) as R. rel_step R va f1 s1 g1. destruct va as [v|]; [|simpl; auto].
    destruct (class_of v); simpl; auto.
  - (* ESame *) intros a IHa b IHb fr sf g HE C. cbn [cov_expr] in C. andb_split. rewrite ieval_same, seval_same.
    pose proof (IHa fr sf g HE H) as R. rel_step R va f1 s1 g1. destruct va; [|simpl; auto].
    pose proof (IHb _ _ g1 R H0) as R2. rel_step R2 vb f2 s2 g2. destruct vb; simpl; auto.
  - (* EPanic *) intros fr sf g HE C. simpl. auto.
  - (* EIdx *) intros x i IHi fr sf g HE C. cbn [cov_expr] in C. andb_split. rewrite ieval_idx, seval_idx.
    pose proof (IHi fr sf g HE H0) as R. rel_step R va f1 s1 g1. destruct va; [|simpl; auto].
    simpl. rewrite (E_rd vs fn x f1 s1 g1 R H). auto.
  - (* EIdxInc *) intros pre x i IHi fr sf g HE C. cbn [cov_expr] in C. andb_split. rewrite ieval_idxinc, seval_idxinc.
    pose proof (IHi fr sf g HE H0) as R. rel_step R va f1 s1 g1. destruct va as [v|]; [|simpl; auto].
    rewrite (E_rd vs fn x f1 s1 g1 R H).
    destruct (incr_value (arr_get (rd fn x f1 g1) v)) as [nv ov].
    destruct (wr fn x (arr_set (rd fn x f1 g1) v nv) f1 g1) as [fr' g2] eqn:W;
      destruct (swr vs fn x (arr_set (rd fn x f1 g1) v nv) s1 g1) as [sf' g3] eqn:SW.
    destruct (E_wr _ _ _ _ _ _ _ _ _ _ _ R H W SW) as [<- HE']. simpl. auto.
  - (* EClosure *) intros id fr sf g HE C. cbn [cov_expr] in C. rewrite ieval_closure, seval_closure.
    destruct (nth_error clos id) as [cd|]; [|simpl; auto].
    rewrite (E_capture vs fn (cuses cd) fr sf g HE C). simpl. auto.
  - (* ECallV *) intros f IHf a [IHa _] fr sf g HE C. cbn [cov_expr] in C. andb_split.
    rewrite ieval_callv, seval_callv. pose proof (IHf fr sf g HE H) as R. rel_step R va f1 s1 g1.
    destruct va as [v|]; [|simpl; auto]. destruct v; try (simpl; auto; fail).
    pose proof (IHa _ _ g1 R H0) as R2. rel_step R2 vb f2 s2 g2. destruct vb as [l|]; [|simpl; auto].
    rewrite Hcf. destruct (cfi (CClo id oid cap) l g2) as [[o g']|]; simpl; auto.
  - (* EProp *) intros e IHe fr sf g HE C. cbn [cov_expr] in C. rewrite ieval_prop, seval_prop.
    pose proof (IHe fr sf g HE C) as R. rel_step R va f1 s1 g1. destruct va as [v|]; [|simpl; auto].
    destruct (obj_id v); simpl; auto.
  - (* ESetProp *) intros e IHe w IHw fr sf g HE C. cbn [cov_expr] in C. andb_split. rewrite ieval_setprop, seval_setprop.
    pose proof (IHw fr sf g HE H) as R. rel_step R va f1 s1 g1. destruct va as [wv|]; [|simpl; auto].
    pose proof (IHe _ _ g1 R H0) as R2. rel_step R2 vb f2 s2 g2. destruct vb as [v|]; [|simpl; auto].
    destruct (obj_id v); simpl; auto.
  - (* EHi *) intros e IHe fr sf g HE C. cbn [cov_expr] in C. rewrite ieval_hi, seval_hi.
    pose proof (IHe fr sf g HE C) as R. rel_step R va f1 s1 g1. destruct va as [v|]; [|simpl; auto].
    destruct (obj_id v); simpl; auto.
  - (* EMatch *) intros s0 IHs m IHm fr sf g HE C. cbn [cov_expr] in C. andb_split. rewrite ieval_match, seval_match.
    pose proof (IHs fr sf g HE H) as R. rel_step R va f1 s1 g1. destruct va; [|simpl; auto]. apply IHm; auto.
  - (* ECallN *) intros f a [IHa _] xs b (_ & _ & IHn) fr sf g HE C. cbn [cov_expr] in C. andb_split.
    rewrite ieval_calln, seval_calln. destruct (find_fun funs f) as [d|]; [|simpl; auto].
    pose proof (IHa fr sf g HE H) as R. rel_step R va f1 s1 g1. destruct va as [l|]; [|simpl; auto].
    pose proof (IHn (named_ok_impl (fparams d) l) xs [] _ _ g1 R H0) as R2. rel_step R2 vb f2 s2 g2.
    destruct vb as [nvs|]; [|simpl; auto].
    destruct (arrange_impl (fparams d) l nvs) as [full|]; [|simpl; auto].
    rewrite Hcf. destruct (cfi (CFun f) full g2) as [[o g']|]; simpl; auto.
  - (* ANil *) split; [|split]; intros; try rewrite ieval_nargs_nil, seval_nargs_nil; simpl; auto.
  - (* ACons *) intros e IHe r (IHr & IHc & IHn). split; [|split].
    + intros fr sf g HE C. cbn [cov_args] in C. andb_split. rewrite ieval_args_cons, seval_args_cons.
      pose proof (IHe fr sf g HE H) as R. rel_step R va f1 s1 g1. destruct va; [|simpl; auto].
      pose proof (IHr _ _ g1 R H0) as R2. rel_step R2 vb f2 s2 g2. destruct vb; simpl; auto.
    + intros v fr sf g HE C. cbn [cov_args] in C. andb_split. rewrite ieval_conds_cons, seval_conds_cons.
      pose proof (IHe fr sf g HE H) as R. rel_step R va f1 s1 g1. destruct va as [w|]; [|simpl; auto].
      destruct (same_value v w); [simpl; auto|]. apply IHc; auto.
    + intros ok xs seen fr sf g HE C. cbn [cov_args] in C. andb_split. rewrite ieval_nargs_cons, seval_nargs_cons.
      destruct xs as [|x xr]; [simpl; auto|].
      pose proof (IHe fr sf g HE H) as R. rel_step R va f1 s1 g1. destruct va as [w|]; [|simpl; auto].
      destruct (ok x seen); [|simpl; auto]. apply IHn; auto.
  - (* MNil *) intros v fr sf g HE C. simpl. auto.
  - (* MDefault *) intros e IHe v fr sf g HE C. cbn [cov_arms] in C. rewrite ieval_arms_default, seval_arms_default. apply IHe; auto.
  - (* MCons *) intros c (_ & IHc & _) e IHe r IHr v fr sf g HE C. cbn [cov_arms] in C. andb_split.
    rewrite ieval_arms_cons, seval_arms_cons. pose proof (IHc v fr sf g HE H) as R. rel_step R va f1 s1 g1.
    destruct va as [[|]|].
    + apply IHe; auto.
    + apply IHr; auto.
    + simpl. auto.
Qed.
End ExprSim.

(* ---------- statements ---------- *)
Section StmtSim.
Variable cm : catchfn.
Variable funs : list fundef.
Variable clos : list clodef.
Hypothesis Hfun : forall f d, find_fun funs f = Some d ->
  forallb (fun q => mem (fst q) (fun_vars d)) (fparams d) = true /\ cov_stmt clos (fun_vars d) (fbody d) = true.
Hypothesis Hclo : forall id cd, nth_error clos id = Some cd ->
  forallb (fun q => mem (fst q) (clo_vars cd)) (cparams cd) = true /\ cov_stmt clos (clo_vars cd) (cbody cd) = true.

Definition PS (n : nat) := forall vs fn s fr sf g, E vs fr sf -> cov_stmt clos vs s = true ->
  erel vs (iexec cm funs clos n fn s fr g) (sexec cm funs clos n vs fn s sf g).

Lemma scallf_eq n : PS n -> forall c avs g, scallf cm funs clos n c avs g = icallf cm funs clos n c avs g.
Proof.
  intros IH c avs g. unfold scallf, icallf. destruct c as [f|id oid cap].
  - destruct (find_fun funs f) as [d|] eqn:F; [|reflexivity]. destruct (Hfun _ _ F) as [Hp Hc].
    destruct (enough_args (fparams d) avs); [|reflexivity].
    assert (HE : E (fun_vars d) (bind_params (fparams d) avs [], []) (sbind_params (fun_vars d) (fparams d) avs (sfresh (fun_vars d)), [])).
    { split; [reflexivity|]. apply venv_bind_params; [apply venv_fresh|exact Hp]. }
    pose proof (IH (fun_vars d) f (fbody d) _ _ g HE Hc) as R.
    destruct (iexec cm funs clos n f (fbody d) (bind_params (fparams d) avs [], []) g) as [|ci fi gi];
      destruct (sexec cm funs clos n (fun_vars d) f (fbody d) (sbind_params (fun_vars d) (fparams d) avs (sfresh (fun_vars d)), []) g) as [|cs fs gs];
      simpl in R; try contradiction; [reflexivity|]. destruct R as (<- & <- & _). reflexivity.
  - destruct (nth_error clos id) as [cd|] eqn:F; [|reflexivity]. destruct (Hclo _ _ F) as [Hp Hc].
    destruct (enough_args (cparams cd) avs); [|reflexivity].
    assert (HE : E (clo_vars cd) (bind_captured cap (bind_params (cparams cd) avs []), [])
                   (sbind_captured (clo_vars cd) cap (sbind_params (clo_vars cd) (cparams cd) avs (sfresh (clo_vars cd))), [])).
    { split; [reflexivity|]. apply venv_bind_captured. apply venv_bind_params; [apply venv_fresh|exact Hp]. }
    pose proof (IH (clo_vars cd) (clo_name oid) (cbody cd) _ _ g HE Hc) as R.
    destruct (iexec cm funs clos n (clo_name oid) (cbody cd) (bind_captured cap (bind_params (cparams cd) avs []), []) g) as [|ci fi gi];
      destruct (sexec cm funs clos n (clo_vars cd) (clo_name oid) (cbody cd)
                  (sbind_captured (clo_vars cd) cap (sbind_params (clo_vars cd) (cparams cd) avs (sfresh (clo_vars cd))), []) g) as [|cs fs gs];
      simpl in R; try contradiction; [reflexivity|]. destruct R as (<- & <- & _). reflexivity.
Qed.

Section Step.
Variable n : nat.
Hypothesis IH : PS n.
Let Hcf := scallf_eq n IH.
Variable vs : list string.
Variable fn : string.

Ltac andb_split :=
  repeat match goal with H : _ && _ = true |- _ => apply andb_prop in H; destruct H end.

Lemma ev_rel e fr sf g : E vs fr sf -> cov_expr clos vs e = true ->
  erel vs (ieval (icallf cm funs clos n) funs clos fn e fr g) (seval (scallf cm funs clos n) funs clos vs fn e sf g).
Proof. apply (proj1 (seval_ieval_both funs clos vs fn _ _ Hcf)). Qed.
Lemma cond_rel c fr sf g : E vs fr sf -> cov_expr clos vs c = true ->
  erel vs (icond (icallf cm funs clos n) funs clos fn c fr g) (scond (scallf cm funs clos n) funs clos vs fn c sf g).
Proof.
  intros HE C. unfold icond, scond. pose proof (ev_rel c fr sf g HE C) as R. rel_step R v f1 s1 g1. destruct v; simpl; auto.
Qed.
Lemma cond_for_rel c fr sf g : E vs fr sf -> cov_expr clos vs c = true ->
  erel vs (icond_for (icallf cm funs clos n) funs clos fn c fr g) (scond_for (scallf cm funs clos n) funs clos vs fn c sf g).
Proof.
  intros HE C. unfold icond_for, scond_for. destruct c; try (apply cond_rel; auto). destruct o; try (apply cond_rel; auto).
  cbn [cov_expr] in C. apply andb_prop in C as [C1 C2].
  rewrite (svar_int_le_eq clos vs fn c1 c2 fr sf g HE C1). destruct (var_int_le fn c1 c2 fr g); [simpl; auto|].
  apply cond_rel; auto. cbn [cov_expr]. rewrite C1, C2. reflexivity.
Qed.
Lemma each_rel a : forall fr sf g, E vs fr sf -> cov_args clos vs a = true ->
  erel vs (ieval_each (icallf cm funs clos n) funs clos fn a fr g) (seval_each (scallf cm funs clos n) funs clos vs fn a sf g).
Proof.
  induction a as [|e r IHr]; intros fr sf g HE C; cbn [ieval_each seval_each]; [simpl; auto|].
  cbn [cov_args] in C. apply andb_prop in C as [C1 C2].
  pose proof (ev_rel e fr sf g HE C1) as R. rel_step R v f1 s1 g1. destruct v; [|simpl; auto]. apply IHr; auto.
Qed.
Lemma incs_rel a : forall fr sf g, E vs fr sf -> cov_args clos vs a = true ->
  erel vs (ieval_incs (icallf cm funs clos n) funs clos fn a fr g) (seval_incs (scallf cm funs clos n) funs clos vs fn a sf g).
Proof.
  induction a as [|e r IHr]; intros fr sf g HE C; [simpl; auto|].
  cbn [cov_args] in C. apply andb_prop in C as [C1 C2].
  assert (G : erel vs
    match ieval (icallf cm funs clos n) funs clos fn e fr g with
    | Res (EV _) fr0 g0 => ieval_incs (icallf cm funs clos n) funs clos fn r fr0 g0
    | Res (EX x) fr0 g0 => Res (Some x) fr0 g0
    | Fuel => Fuel
    end
    match seval (scallf cm funs clos n) funs clos vs fn e sf g with
    | Res (EV _) fr0 g0 => seval_incs (scallf cm funs clos n) funs clos vs fn r fr0 g0
    | Res (EX x) fr0 g0 => Res (Some x) fr0 g0
    | Fuel => Fuel
    end).
  { pose proof (ev_rel e fr sf g HE C1) as R. rel_step R v f1 s1 g1. destruct v; [|simpl; auto]. apply IHr; auto. }
  destruct e; try exact G.
  cbn [ieval_incs seval_incs]. cbn [cov_expr] in C1. rewrite (E_rd vs fn x fr sf g HE C1).
  destruct (incr_value (rd fn x fr g)) as [nv ov].
  destruct (wr fn x nv fr g) as [fr' g1] eqn:W; destruct (swr vs fn x nv sf g) as [sf' g2] eqn:SW.
  destruct (E_wr _ _ _ _ _ _ _ _ _ _ _ HE C1 W SW) as [<- HE']. apply IHr; auto.
Qed.

Lemma elif_rel e : cov_stmt clos vs e = true -> forall ei fr sf g, E vs fr sf -> cov_elifs clos vs ei = true ->
  erel vs (ielif cm funs clos n fn e ei fr g) (selif cm funs clos n vs fn e ei sf g).
Proof.
  intros Ce. induction ei as [|c b r IHr]; intros fr sf g HE C; cbn [ielif selif].
  - apply IH; auto.
  - cbn [cov_elifs] in C. andb_split.
    pose proof (cond_rel c fr sf g HE H) as R. rel_step R t f1 s1 g1. destruct t as [t|]; [|simpl; auto].
    cbn [thr]. destruct t; [apply IH|apply IHr]; auto.
Qed.

Lemma items_rel k v b : cov_opt vs k = true -> mem v vs = true -> cov_stmt clos vs b = true ->
  forall items fr sf g, E vs fr sf ->
  erel vs (ieach cm funs clos n fn k v b items fr g) (seach cm funs clos n vs fn k v b items sf g).
Proof.
  intros Ck Cv Cb. induction items as [|[kv vv] r IHr]; intros fr sf g HE; cbn [ieach seach]; [simpl; auto|].
  destruct (wr fn v vv fr g) as [fr1 g1] eqn:W; destruct (swr vs fn v vv sf g) as [sf1 g1'] eqn:SW.
  destruct (E_wr _ _ _ _ _ _ _ _ _ _ _ HE Cv W SW) as [<- HE1].
  assert (X : exists fr2 sf2 g2, (match k with Some kx => wr fn kx kv fr1 g1 | None => (fr1, g1) end) = (fr2, g2) /\
                                 (match k with Some kx => swr vs fn kx kv sf1 g1 | None => (sf1, g1) end) = (sf2, g2) /\ E vs fr2 sf2).
  { destruct k as [kx|]; [|exists fr1, sf1, g1; auto].
    destruct (wr fn kx kv fr1 g1) as [fr2 g2] eqn:W2; destruct (swr vs fn kx kv sf1 g1) as [sf2 g2'] eqn:SW2.
    destruct (E_wr _ _ _ _ _ _ _ _ _ _ _ HE1 Ck W2 SW2) as [<- HE2]. exists fr2, sf2, g2. auto. }
  destruct X as (fr2 & sf2 & g2 & -> & -> & HE2).
  pose proof (IH vs fn b fr2 sf2 g2 HE2 Cb) as R. rel_step R c f3 s3 g3.
  destruct (loop_ctl c); [apply IHr; auto|simpl; auto].
Qed.

Lemma runc_rel : forall l fr sf g, E vs fr sf -> cov_clauses clos vs l = true ->
  erel vs (irunc cm funs clos n fn l fr g) (srunc cm funs clos n vs fn l sf g).
Proof.
  induction l as [|e b r IHr|b r IHr]; intros fr sf g HE C; cbn [irunc srunc]; [simpl; auto| |];
    cbn [cov_clauses] in C; andb_split.
  - pose proof (IH vs fn b fr sf g HE H1) as R. rel_step R c f1 s1 g1.
    destruct c; first [apply IHr; solve [auto] | simpl; auto].
  - pose proof (IH vs fn b fr sf g HE H) as R. rel_step R c f1 s1 g1.
    destruct c; first [apply IHr; solve [auto] | simpl; auto].
Qed.

Lemma default_entry_cov : forall cl, cov_clauses clos vs cl = true -> cov_clauses clos vs (default_entry cl) = true.
Proof.
  induction cl as [|e b r IHr|b r IHr]; intros C; cbn [default_entry]; auto.
  cbn [cov_clauses] in C. andb_split. auto.
Qed.

Lemma cases_rel cl cv : cov_clauses clos vs cl = true -> forall l fr sf g, E vs fr sf -> cov_clauses clos vs l = true ->
  erel vs (icases cm funs clos n fn cl cv l fr g) (scases cm funs clos n vs fn cl cv l sf g).
Proof.
  intros Ccl. induction l as [|e b r IHr|b r IHr]; intros fr sf g HE C; cbn [icases scases].
  - apply runc_rel; auto. apply default_entry_cov; auto.
  - pose proof C as C0. cbn [cov_clauses] in C. andb_split.
    pose proof (ev_rel e fr sf g HE H) as R. rel_step R v f1 s1 g1. destruct v as [v|]; [|simpl; auto].
    destruct (switch_match cv v); [apply runc_rel|apply IHr]; auto.
  - cbn [cov_clauses] in C. andb_split. apply IHr; auto.
Qed.

Lemma catch_cov x : forall cs xv cb, cov_catches clos vs cs = true -> find_catch cm cs x = Some (xv, cb) ->
  cov_opt vs xv = true /\ cov_stmt clos vs cb = true.
Proof.
  induction cs as [|ty xv0 b r IHr]; intros xv cb C F; cbn [find_catch] in F; [discriminate|].
  cbn [cov_catches] in C. andb_split. destruct (cm ty x); [inversion F; subst; auto|eapply IHr; eauto].
Qed.

Lemma slot_step : forall s fr sf g, E vs fr sf -> cov_stmt clos vs s = true ->
  erel vs (iexec cm funs clos (S n) fn s fr g) (sexec cm funs clos (S n) vs fn s sf g).
Proof.
  intros s fr sf g HE C. destruct s; cbn [cov_stmt] in C; andb_split.
  - (* SSkip *) simpl. auto.
  - (* SSeq *) rewrite iexec_seq, sexec_seq. pose proof (IH vs fn s1 fr sf g HE H) as R. rel_step R c f1 sf1 g1.
    destruct c; first [apply IH; solve [auto] | simpl; auto].
  - (* SExpr *) rewrite iexec_expr, sexec_expr. pose proof (ev_rel e fr sf g HE C) as R. rel_step R v f1 sf1 g1. destruct v; simpl; auto.
  - (* SEcho *) rewrite iexec_echo, sexec_echo. pose proof (ev_rel e fr sf g HE C) as R. rel_step R v f1 sf1 g1. destruct v; simpl; auto.
  - (* SPush *) rewrite iexec_push, sexec_push. pose proof (ev_rel e fr sf g HE H0) as R. rel_step R v f1 sf1 g1.
    destruct v as [v|]; [|simpl; auto]. rewrite (E_rd vs fn x f1 sf1 g1 R H).
    destruct (wr fn x (arr_push (rd fn x f1 g1) v) f1 g1) as [fr' g2] eqn:W;
      destruct (swr vs fn x (arr_push (rd fn x f1 g1) v) sf1 g1) as [sf' g3] eqn:SW.
    destruct (E_wr _ _ _ _ _ _ _ _ _ _ _ R H W SW) as [<- HE']. simpl. auto.
  - (* SSetIdx *) rewrite iexec_setidx, sexec_setidx. pose proof (ev_rel e fr sf g HE H0) as R. rel_step R v f1 sf1 g1.
    destruct v as [v|]; [|simpl; auto]. rewrite (E_rd vs fn x f1 sf1 g1 R H).
    destruct (wr fn x (arr_set (rd fn x f1 g1) (VInt k) v) f1 g1) as [fr' g2] eqn:W;
      destruct (swr vs fn x (arr_set (rd fn x f1 g1) (VInt k) v) sf1 g1) as [sf' g3] eqn:SW.
    destruct (E_wr _ _ _ _ _ _ _ _ _ _ _ R H W SW) as [<- HE']. simpl. auto.
  - (* SIf *) rewrite iexec_if, sexec_if. pose proof (cond_rel c fr sf g HE H) as R. rel_step R t f1 sf1 g1.
    destruct t as [t|]; [|simpl; auto]. cbn [thr]. destruct t; [apply IH|apply elif_rel]; auto.
  - (* SWhile *) rewrite iexec_while, sexec_while. pose proof (cond_rel c fr sf g HE H) as R. rel_step R t f1 sf1 g1.
    destruct t as [t|]; [|simpl; auto]. cbn [thr]. destruct t; [|simpl; auto].
    pose proof (IH vs fn s f1 sf1 g1 R H0) as R2. rel_step R2 cb f2 sf2 g2.
    destruct (loop_ctl cb); [|simpl; auto]. apply IH; auto. cbn [cov_stmt]. rewrite H, H0. reflexivity.
  - (* SDoWhile *) rewrite iexec_dowhile, sexec_dowhile. pose proof (IH vs fn s fr sf g HE H0) as R. rel_step R cb f1 sf1 g1.
    destruct (loop_ctl cb); [|simpl; auto].
    pose proof (cond_rel c f1 sf1 g1 R H) as R2. rel_step R2 t f2 sf2 g2. destruct t as [t|]; [|simpl; auto].
    cbn [thr]. destruct t; [|simpl; auto]. apply IH; auto. cbn [cov_stmt]. rewrite H, H0. reflexivity.
  - (* SFor *) rewrite iexec_for, sexec_for. pose proof (each_rel init fr sf g HE H) as R. rel_step R o f0 sf0 g0.
    destruct o; [simpl; auto|].
    pose proof (cond_for_rel c f0 sf0 g0 R H2) as R2. rel_step R2 t f1 sf1 g1. destruct t as [t|]; [|simpl; auto].
    cbn [thr]. destruct t; [|simpl; auto].
    pose proof (IH vs fn s f1 sf1 g1 R2 H0) as R3. rel_step R3 cb f2 sf2 g2.
    destruct (loop_ctl cb); [|simpl; auto].
    pose proof (incs_rel inc f2 sf2 g2 R3 H1) as R4. rel_step R4 o2 f3 sf3 g3. destruct o2; [simpl; auto|].
    apply IH; auto. cbn [cov_stmt cov_args]. rewrite H2, H1, H0. reflexivity.
  - (* SForeach *) rewrite iexec_foreach, sexec_foreach. pose proof (ev_rel arr fr sf g HE H) as R. rel_step R v0 f1 sf1 g1.
    destruct v0 as [av|]; [|simpl; auto]. destruct (foreach_items av); [|simpl; auto]. apply items_rel; auto.
  - (* SSwitch *) rewrite iexec_switch, sexec_switch. pose proof (ev_rel c fr sf g HE H) as R. rel_step R v0 f1 sf1 g1.
    destruct v0 as [cv|]; [|simpl; auto]. apply cases_rel; auto.
  - (* SBreak *) simpl. auto.
  - (* SContinue *) simpl. auto.
  - (* SReturn *) destruct e as [e|].
    + rewrite iexec_return, sexec_return. pose proof (ev_rel e fr sf g HE C) as R. rel_step R v f1 sf1 g1. destruct v; simpl; auto.
    + simpl. auto.
  - (* SStatic *) rewrite iexec_static, sexec_static.
    simpl. split; [reflexivity|]. split; [reflexivity|]. apply E_static. exact HE.
  - (* STry *) rewrite iexec_try, sexec_try.
    assert (HE0 : E vs fr sf) by exact HE.
    pose proof (IH vs fn s1 fr sf (mark CTry g) HE H) as R. rel_step R cb f1 sf1 g1.
    assert (X : erel vs
      match cb with
      | IThrow x => match find_catch cm cs x with
                    | Some (xv, cbody) => let '(fr2, g2) := match xv with Some v => wr fn v x f1 g1 | None => (f1, g1) end in
                                          iexec cm funs clos n fn cbody fr2 g2
                    | None => Res cb f1 g1 end
      | _ => Res cb f1 g1 end
      match cb with
      | IThrow x => match find_catch cm cs x with
                    | Some (xv, cbody) => let '(fr2, g2) := match xv with Some v => swr vs fn v x sf1 g1 | None => (sf1, g1) end in
                                          sexec cm funs clos n vs fn cbody fr2 g2
                    | None => Res cb sf1 g1 end
      | _ => Res cb sf1 g1 end).
    { destruct cb; try (simpl; auto; fail).
      destruct (find_catch cm cs v) as [[xv cbody]|] eqn:F; [|simpl; auto].
      destruct (catch_cov v cs xv cbody H1 F) as [Cx Cb].
      destruct xv as [xn|]; [|apply IH; auto].
      destruct (wr fn xn v f1 g1) as [fr2 g2] eqn:W; destruct (swr vs fn xn v sf1 g1) as [sf2 g2'] eqn:SW.
      destruct (E_wr _ _ _ _ _ _ _ _ _ _ _ R Cx W SW) as [<- HE2]. apply IH; auto. }
    rel_step X c3 f3 sf3 g3.
    pose proof (IH vs fn s2 f3 sf3 (mark CFin g3) X H0) as R4. rel_step R4 cf f4 sf4 g4.
    destruct cf; simpl; auto.
  - (* SThrow *) rewrite iexec_throw, sexec_throw. pose proof (ev_rel e fr sf g HE C) as R. rel_step R v f1 sf1 g1. destruct v; simpl; auto.
  - (* SIfInst *) rewrite iexec_ifinst, sexec_ifinst. rewrite (E_rd vs fn x fr sf g HE H).
    destruct (match rd fn x fr g with VObj _ _ _ => cm T (rd fn x fr g) | _ => false end); apply IH; auto.
Qed.
End Step.

Theorem slot_sim : forall n, PS n.
Proof.
  induction n as [|n IHn]; intros vs fn s fr sf g HE C.
  - simpl. exact I.
  - apply slot_step; auto.
Qed.
End StmtSim.

(* ---------- whole programs ---------- *)
Lemma find_fun_In' fs f d : find_fun fs f = Some d -> In d fs.
Proof.
  induction fs as [|d0 r IH]; simpl; [discriminate|].
  destruct (String.eqb (fname d0) f); [intros [= <-]; auto|auto].
Qed.

Lemma slot_sem_is_impl_sem_l : forall cm fuel p, cov_prog p = true -> run_slots cm fuel p = run_impl cm fuel p.
Proof.
  intros cm fuel p C. unfold cov_prog in C.
  apply andb_prop in C as [C Cc]. apply andb_prop in C as [Cm Cf].
  rewrite forallb_forall in Cf, Cc.
  assert (Hfun : forall f d, find_fun (funcs p) f = Some d ->
            forallb (fun q => mem (fst q) (fun_vars d)) (fparams d) = true /\ cov_stmt (closures p) (fun_vars d) (fbody d) = true).
  { intros f d F. apply find_fun_In' in F. specialize (Cf _ F). apply andb_prop in Cf. exact Cf. }
  assert (Hclo : forall id cd, nth_error (closures p) id = Some cd ->
            forallb (fun q => mem (fst q) (clo_vars cd)) (cparams cd) = true /\ cov_stmt (closures p) (clo_vars cd) (cbody cd) = true).
  { intros id cd F. apply nth_error_In in F. specialize (Cc _ F). apply andb_prop in Cc as [Cc1 Cc2].
    apply andb_prop in Cc1 as [Cc1 _]. auto. }
  unfold run_slots, run_impl, srun, irun.
  assert (HE : E (vars_stmt (main p) []) empty_frame (sfresh (vars_stmt (main p) []), [])).
  { split; [reflexivity|]. apply venv_fresh. }
  pose proof (slot_sim cm (funcs p) (closures p) Hfun Hclo fuel (vars_stmt (main p) []) "" (main p) _ _ empty_glob HE Cm) as R.
  destruct (iexec cm (funcs p) (closures p) fuel "" (main p) empty_frame empty_glob) as [|c f g];
    destruct (sexec cm (funcs p) (closures p) fuel (vars_stmt (main p) []) "" (main p) (sfresh (vars_stmt (main p) []), []) empty_glob) as [|c' f' g'];
    simpl in R; try contradiction; [reflexivity|].
  destruct R as (<- & <- & _). reflexivity.
Qed.

(* frames on vectors: a call hands the callee argument values only; the caller's vector afterwards is
   what argument evaluation left *)
Lemma scall_frames_l cf funs clos vs fn f a fr g o fr' g' :
  seval cf funs clos vs fn (ECall f a) fr g = Res o fr' g' ->
  (exists x, seval_args cf funs clos vs fn a fr g = Res (inr x) fr' g' /\ o = EX x) \/
  (find_fun funs f = None /\ fr' = fr /\ g' = g) \/
  (exists avs g1, seval_args cf funs clos vs fn a fr g = Res (inl avs) fr' g1 /\ cf (CFun f) avs g1 = Some (o, g')).
Proof.
  rewrite seval_call. destruct (find_fun funs f) eqn:F.
  - destruct (seval_args cf funs clos vs fn a fr g) as [|[avs|x] f1 g1] eqn:EA; try discriminate.
    + destruct (cf (CFun f) avs g1) as [[o1 g2]|] eqn:EC; try discriminate.
      intros [= <- <- <-]. right. right. eauto.
    + intros [= <- <- <-]. left. eauto.
  - intros [= <- <- <-]. right. left. auto.
Qed.
