(* C02 — the two decidable side conditions of the refinement theorem.

   [wf]    what any PHP front end checks before running: every break/continue level names an
           enclosing loop or switch of the same function, a switch has at most one default.
   [clean] the complement of the recorded defect classes of the implementation.  After the repairs
           of switch fall-through (/repo 8109483), of static in the main script (d3ebf7f) and of the
           closure that runs off its end (1b0c649) NO class is left: [clean_stmt] and [clean] are kept
           as the hook where a future defect class would be excluded, and are true of every program
           (Proofs.clean_all); the theorems in Properties.v are also stated without them.
   No proofs in this file. *)
From Coq Require Import List String ZArith Bool Arith.
From V.C02 Require Import Lang Spec.
Import ListNotations.
Open Scope string_scope.

(* the last statement of the block is a jump *)
Fixpoint ends_jump (s : stmt) : bool :=
  match s with
  | SSeq _ b => ends_jump b
  | SBreak _ | SContinue _ | SReturn _ | SThrow _ => true
  | _ => false
  end.

Fixpoint count_default (l : clauses) : nat :=
  match l with
  | CLNil => O
  | CLCase _ _ r => count_default r
  | CLDefault _ r => S (count_default r)
  end.

(* every switch inside [s] has at most one default *)
Fixpoint one_default (s : stmt) {struct s} : bool :=
  match s with
  | SSeq a b => one_default a && one_default b
  | SIf _ t ei e => one_default t && one_default_elifs ei && one_default e
  | SWhile _ b | SDoWhile b _ | SFor _ _ _ b | SForeach _ _ _ b => one_default b
  | SSwitch _ cl => (count_default cl <=? 1)%nat && one_default_clauses cl
  | STry b cs f => one_default b && one_default_catches cs && one_default f
  | SIfInst _ _ t e => one_default t && one_default e
  | _ => true
  end
with one_default_elifs (l : elifs) {struct l} : bool :=
  match l with EINil => true | EICons _ b r => one_default b && one_default_elifs r end
with one_default_clauses (l : clauses) {struct l} : bool :=
  match l with
  | CLNil => true
  | CLCase _ b r | CLDefault b r => one_default b && one_default_clauses r
  end
with one_default_catches (l : catches) {struct l} : bool :=
  match l with CTNil => true | CTCons _ _ b r => one_default b && one_default_catches r end.

(* no fall-through anywhere in [s]; when [m] (= we are in the main script) no static either *)
Fixpoint clean_stmt (m : bool) (s : stmt) {struct s} : bool :=
  match s with
  | SSeq a b => clean_stmt m a && clean_stmt m b
  | SIf _ t ei e => clean_stmt m t && clean_elifs m ei && clean_stmt m e
  | SWhile _ b | SDoWhile b _ | SFor _ _ _ b | SForeach _ _ _ b => clean_stmt m b
  | SSwitch _ cl => clean_clauses m cl
  | STry b cs f => clean_stmt m b && clean_catches m cs && clean_stmt m f
  | SIfInst _ _ t e => clean_stmt m t && clean_stmt m e
  | _ => true
  end
with clean_elifs (m : bool) (l : elifs) {struct l} : bool :=
  match l with EINil => true | EICons _ b r => clean_stmt m b && clean_elifs m r end
with clean_clauses (m : bool) (l : clauses) {struct l} : bool :=
  match l with
  | CLNil => true
  | CLCase _ b r | CLDefault b r =>
      clean_stmt m b && clean_clauses m r
  end
with clean_catches (m : bool) (l : catches) {struct l} : bool :=
  match l with CTNil => true | CTCons _ _ b r => clean_stmt m b && clean_catches m r end.

(* the block's last statement is a return or a throw: it cannot run off its end *)
Fixpoint ends_return (s : stmt) : bool :=
  match s with
  | SSeq _ b => ends_return b
  | SReturn _ | SThrow _ => true
  | _ => false
  end.

Definition is_main (fn : string) : bool := String.eqb fn "".

Definition wf_body (s : stmt) : bool := scoped 0 s && one_default s.
Definition wf (p : prog) : bool :=
  wf_body (main p) && forallb (fun d => wf_body (fbody d)) (funcs p) && forallb (fun c => wf_body (cbody c)) (closures p).
(* a closure body that runs off its end yields null since /repo 1b0c649, as the model always had it:
   closures are no longer restricted to those that end in a return *)
Definition clean (p : prog) : bool :=
  clean_stmt true (main p) && forallb (fun d => clean_stmt (is_main (fname d)) (fbody d)) (funcs p) &&
  forallb (fun c => clean_stmt false (cbody c)) (closures p).
