(* C02 — RefSem: the reference semantics (PHP's, with origami's documented differences).

   Loop exits are resolved STATICALLY: [resolve] replaces every `break n` / `continue n` by the
   identifier of the loop or switch it names (counting enclosing loops and switches outward, as
   PHP does; a level larger than the nesting depth is rejected, [RBad]).  An identifier is the
   position of the construct in the statement tree.  At run time a construct reacts to an exit
   signal iff the signal carries its own identifier: "break/continue transfer control to exactly
   the construct they name" is literally how this interpreter works.

   switch has fall-through, `default` may stand anywhere, `continue` aimed at a switch ends it.
   A function that ends without return yields null.  Locals live in a per-call map; a `static`
   declaration binds the name, for the rest of that call, to a cell that persists across calls
   of the function (and is shared with recursive calls).  No fast paths, no node selection.
   No proofs in this file. *)
From Coq Require Import List String ZArith Bool Arith.
From V.C02 Require Import Lang.
Import ListNotations.
Open Scope string_scope.

Definition lid := list nat.
Definition lid_eqb (a b : lid) : bool := if list_eq_dec Nat.eq_dec a b then true else false.

Inductive rstmt :=
| RSkip
| RSeq (a b : rstmt)
| RExpr (e : expr)
| REcho (e : expr)
| RPush (x : string) (e : expr)
| RSetIdx (x : string) (k : Z) (e : expr)
| RIf (c : expr) (t : rstmt) (ei : relifs) (e : rstmt)
| RWhile (id : lid) (c : expr) (b : rstmt)
| RDoWhile (id : lid) (b : rstmt) (c : expr)
| RFor (id : lid) (init : args) (c : expr) (inc : args) (b : rstmt)
| RForeach (id : lid) (arr : expr) (k : option string) (v : string) (b : rstmt)
| RSwitch (id : lid) (c : expr) (cl : rclauses)
| RBrkTo (l : lid)
| RCntTo (l : lid)
| RBad                                          (* break/continue naming no enclosing construct *)
| RReturn (e : option expr)
| RStatic (x : string) (init : value)
| RTry (b : rstmt) (cs : rcatches) (f : rstmt)
| RThrowSt (e : expr)
| RIfInst (x : string) (T : string) (t e : rstmt)
with relifs := REINil | REICons (c : expr) (b : rstmt) (r : relifs)
with rclauses := RCLNil | RCLCase (e : expr) (b : rstmt) (r : rclauses) | RCLDefault (b : rstmt) (r : rclauses)
with rcatches := RCTNil | RCTCons (ty : string) (x : option string) (b : rstmt) (r : rcatches).

(* the construct that `break k` / `continue k` names under the stack of enclosing constructs *)
Definition target (stk : list lid) (k : nat) : option lid :=
  match k with O => None | S k' => nth_error stk k' end.

Fixpoint resolve (stk : list lid) (path : lid) (s : stmt) {struct s} : rstmt :=
  match s with
  | SSkip => RSkip
  | SSeq a b => RSeq (resolve stk (0 :: path) a) (resolve stk (1 :: path) b)
  | SExpr e => RExpr e
  | SEcho e => REcho e
  | SPush x e => RPush x e
  | SSetIdx x k e => RSetIdx x k e
  | SIf c t ei e => RIf c (resolve stk (0 :: path) t) (resolve_elifs stk path 2 ei) (resolve stk (1 :: path) e)
  | SWhile c b => RWhile path c (resolve (path :: stk) (0 :: path) b)
  | SDoWhile b c => RDoWhile path (resolve (path :: stk) (0 :: path) b) c
  | SFor i c inc b => RFor path i c inc (resolve (path :: stk) (0 :: path) b)
  | SForeach a k v b => RForeach path a k v (resolve (path :: stk) (0 :: path) b)
  | SSwitch c cl => RSwitch path c (resolve_clauses (path :: stk) path 0 cl)
  | SBreak k => match target stk k with Some l => RBrkTo l | None => RBad end
  | SContinue k => match target stk k with Some l => RCntTo l | None => RBad end
  | SReturn e => RReturn e
  | SStatic x i => RStatic x i
  | STry b cs f => RTry (resolve stk (0 :: path) b) (resolve_catches stk path 2 cs) (resolve stk (1 :: path) f)
  | SThrow e => RThrowSt e
  | SIfInst x T t e => RIfInst x T (resolve stk (0 :: path) t) (resolve stk (1 :: path) e)
  end
with resolve_elifs (stk : list lid) (path : lid) (i : nat) (l : elifs) {struct l} : relifs :=
  match l with
  | EINil => REINil
  | EICons c b r => REICons c (resolve stk (i :: path) b) (resolve_elifs stk path (S i) r)
  end
with resolve_clauses (stk : list lid) (path : lid) (i : nat) (l : clauses) {struct l} : rclauses :=
  match l with
  | CLNil => RCLNil
  | CLCase e b r => RCLCase e (resolve stk (i :: path) b) (resolve_clauses stk path (S i) r)
  | CLDefault b r => RCLDefault (resolve stk (i :: path) b) (resolve_clauses stk path (S i) r)
  end
with resolve_catches (stk : list lid) (path : lid) (i : nat) (l : catches) {struct l} : rcatches :=
  match l with
  | CTNil => RCTNil
  | CTCons ty x b r => RCTCons ty x (resolve stk (i :: path) b) (resolve_catches stk path (S i) r)
  end.

(* every break/continue level is between 1 and the nesting depth (what PHP checks at compile
   time); equivalently, [resolve] produces no [RBad] *)
Fixpoint scoped (d : nat) (s : stmt) {struct s} : bool :=
  match s with
  | SSkip | SExpr _ | SEcho _ | SPush _ _ | SSetIdx _ _ _ | SReturn _ | SStatic _ _ | SThrow _ => true
  | STry b cs f => scoped d b && scoped_catches d cs && scoped d f
  | SIfInst _ _ t e => scoped d t && scoped d e
  | SSeq a b => scoped d a && scoped d b
  | SIf _ t ei e => scoped d t && scoped_elifs d ei && scoped d e
  | SWhile _ b | SDoWhile b _ | SFor _ _ _ b | SForeach _ _ _ b => scoped (S d) b
  | SSwitch _ cl => scoped_clauses (S d) cl
  | SBreak k | SContinue k => (1 <=? k)%nat && (k <=? d)%nat
  end
with scoped_elifs (d : nat) (l : elifs) {struct l} : bool :=
  match l with EINil => true | EICons _ b r => scoped d b && scoped_elifs d r end
with scoped_clauses (d : nat) (l : clauses) {struct l} : bool :=
  match l with
  | CLNil => true
  | CLCase _ b r | CLDefault b r => scoped d b && scoped_clauses d r
  end
with scoped_catches (d : nat) (l : catches) {struct l} : bool :=
  match l with CTNil => true | CTCons _ _ b r => scoped d b && scoped_catches d r end.

Inductive rctl := RNone | RBrk (l : lid) | RCnt (l : lid) | RRet (v : value) | RThrow (v : value).

(* ---------- named arguments, reference semantics (PHP 8 named arguments) ----------
   A named argument x: v is legal when some parameter is called x, that parameter is not among those
   that received a positional argument, and x was not named before.  Each parameter then receives its
   positional argument if there is one, else the argument named after it, else its default; a
   parameter left without any is an ArgumentCountError.  (A name addresses the first parameter that
   carries it: it is consumed there.)  Written per parameter with association lists — no cells, no
   indices — unlike ImplSem. *)
Definition smem (x : string) (l : list string) : bool := existsb (String.eqb x) l.
Fixpoint assoc_named (x : string) (nvs : list (string * value)) : option value :=
  match nvs with
  | [] => None
  | (y, v) :: r => if String.eqb x y then Some v else assoc_named x r
  end.
Definition without_name (x : string) (nvs : list (string * value)) : list (string * value) :=
  filter (fun yv : string * value => negb (String.eqb (fst yv) x)) nvs.
Definition named_ok_spec (ps : list (string * option value)) (vs : list value) (x : string) (seen : list (string * value)) : bool :=
  smem x (map fst ps) && negb (smem x (firstn (List.length vs) (map fst ps))) && negb (smem x (map fst seen)).
Fixpoint arrange_spec (ps : list (string * option value)) (vs : list value) (nvs : list (string * value)) : option (list value) :=
  match ps with
  | [] => Some []
  | (x, d) :: r =>
      let this := match vs with
                  | v :: _ => Some v
                  | [] => match assoc_named x nvs with Some v => Some v | None => d end
                  end in
      match this, arrange_spec r (tl vs) (without_name x nvs) with
      | Some v, Some l => Some (v :: l)
      | _, _ => None
      end
  end.

(* ---------- expressions ---------- *)
Section Expr.
Variable callf : callfn.
Variable funs : list fundef.
Variable clos : list clodef.
Variable fn : string.

Fixpoint reval (e : expr) (fr : frame) (g : glob) {struct e} : res eout :=
  match e with
  | ELit v => Res (EV v) fr g
  | EVar x => Res (EV (rd fn x fr g)) fr g
  | EBin o a b =>
      match reval a fr g with
      | Res (EV va) fr g =>
          match reval b fr g with
          | Res (EV vb) fr g => Res (EV (binop o va vb)) fr g
          | r => r
          end
      | r => r
      end
  | ENot a =>
      match reval a fr g with
      | Res (EV v) fr g => Res (EV (VBool (negb (truthy v)))) fr g
      | r => r
      end
  | EAnd a b =>
      match reval a fr g with
      | Res (EV va) fr g =>
          if truthy va then
            match reval b fr g with
            | Res (EV vb) fr g => Res (EV (VBool (truthy vb))) fr g
            | r => r
            end
          else Res (EV (VBool false)) fr g
      | r => r
      end
  | EOr a b =>
      match reval a fr g with
      | Res (EV va) fr g =>
          if truthy va then Res (EV (VBool true)) fr g
          else
            match reval b fr g with
            | Res (EV vb) fr g => Res (EV (VBool (truthy vb))) fr g
            | r => r
            end
      | r => r
      end
  | EAssign x r =>
      match reval r fr g with
      | Res (EV v) fr g => let '(fr', g') := wr fn x v fr g in Res (EV v) fr' g'
      | r => r
      end
  | EPostInc x =>
      let '(nv, ov) := incr_value (rd fn x fr g) in
      let '(fr', g') := wr fn x nv fr g in Res (EV ov) fr' g'
  | EArr a =>
      match reval_args a fr g with
      | Res (inl vs) fr g => Res (EV (VArr vs)) fr g
      | Res (inr x) fr g => Res (EX x) fr g
      | Fuel => Fuel
      end
  | ECall f a =>
      match find_fun funs f with
      | None => Res (EX (err "undefined function")) fr g
      | Some _ =>
          match reval_args a fr g with
          | Res (inl vs) fr g =>
              match callf (CFun f) vs g with
              | Some (o, g') => Res o fr g'
              | None => Fuel
              end
          | Res (inr x) fr g => Res (EX x) fr g
          | Fuel => Fuel
          end
      end
  | ENew cls m =>
      match reval m fr g with
      | Res (EV v) fr g => Res (EV (VObj (gnext g) cls (to_str v))) fr (bump g)
      | r => r
      end
  | EMsg e =>
      match reval e fr g with
      | Res (EV v) fr g =>
          match msg_of v with
          | Some m => Res (EV (VStr m)) fr g
          | None => Res (EX (VErr "method call on a non-object")) fr g
          end
      | r => r
      end
  | EClass e =>
      match reval e fr g with
      | Res (EV v) fr g =>
          match class_of v with
          | Some c => Res (EV (VStr c)) fr g
          | None => Res (EX (VErr "get_class of a non-object")) fr g
          end
      | r => r
      end
  | ESame a b =>
      match reval a fr g with
      | Res (EV va) fr g =>
          match reval b fr g with
          | Res (EV vb) fr g => Res (EV (VBool (same_value va vb))) fr g
          | r => r
          end
      | r => r
      end
  | EPanic => Res (EX (VErr "go panic")) fr g         (* an internal error is thrown like any other *)
  | EIdx x i =>
      match reval i fr g with
      | Res (EV iv) fr g => Res (EV (arr_get (rd fn x fr g) iv)) fr g
      | r => r
      end
  | EIdxInc pre x i =>                               (* the index is evaluated once *)
      match reval i fr g with
      | Res (EV iv) fr g =>
          let '(nv, ov) := incr_value (arr_get (rd fn x fr g) iv) in
          let '(fr', g') := wr fn x (arr_set (rd fn x fr g) iv nv) fr g in
          Res (EV (if pre then nv else ov)) fr' g'
      | r => r
      end
  | EClosure id =>                                    (* by-value captures are taken now *)
      match nth_error clos id with
      | Some cd => Res (EV (VClo id (gnext g) (capture fn (cuses cd) fr g))) fr (bump g)
      | None => Res (EX (VErr "no such closure")) fr g
      end
  | ECallV f a =>
      match reval f fr g with
      | Res (EV (VClo id oid cap)) fr g =>
          match reval_args a fr g with
          | Res (inl vs) fr g =>
              match callf (CClo id oid cap) vs g with
              | Some (o, g') => Res o fr g'
              | None => Fuel
              end
          | Res (inr x) fr g => Res (EX x) fr g
          | Fuel => Fuel
          end
      | Res (EV _) fr g => Res (EX (VErr "not callable")) fr g
      | r => r
      end
  | EProp e =>
      match reval e fr g with
      | Res (EV v) fr g =>
          match obj_id v with
          | Some i => Res (EV (hget i (gheap g))) fr g
          | None => Res (EX (VErr "property of a non-object")) fr g
          end
      | r => r
      end
  | ESetProp e w =>                                   (* the value first, then the object (BinaryAssign) *)
      match reval w fr g with
      | Res (EV wv) fr g =>
          match reval e fr g with
          | Res (EV v) fr g =>
              match obj_id v with
              | Some i => Res (EV wv) fr (set_prop i wv g)
              | None => Res (EX (VErr "property of a non-object")) fr g
              end
          | r => r
          end
      | r => r
      end
  | EHi e =>
      match reval e fr g with
      | Res (EV v) fr g =>
          match obj_id v with
          | Some i => Res (EV (VStr ("hi" ++ to_str (hget i (gheap g))))) fr g
          | None => Res (EX (VErr "method call on a non-object")) fr g
          end
      | r => r
      end
  | EMatch s m =>
      (* strict comparison against the arm conditions in order; the first arm with an identical
         condition gives the value; `default` when none; origami: null when there is no default
         (PHP would throw UnhandledMatchError — a deliberate, tested difference of the language) *)
      match reval s fr g with
      | Res (EV v) fr g => reval_arms v m fr g
      | r => r
      end
  | ECallN f a xs b =>
      (* positional arguments left to right, then the named ones left to right; each named value is
         computed before its name is judged; the callee receives one value per parameter *)
      match find_fun funs f with
      | None => Res (EX (err "undefined function")) fr g
      | Some d =>
          match reval_args a fr g with
          | Res (inl vs) fr g =>
              match reval_nargs (named_ok_spec (fparams d) vs) xs [] b fr g with
              | Res (inl nvs) fr g =>
                  match arrange_spec (fparams d) vs nvs with
                  | Some full =>
                      match callf (CFun f) full g with
                      | Some (o, g') => Res o fr g'
                      | None => Fuel
                      end
                  | None => Res (EX (VErr "argument not passed")) fr g
                  end
              | Res (inr x) fr g => Res (EX x) fr g
              | Fuel => Fuel
              end
          | Res (inr x) fr g => Res (EX x) fr g
          | Fuel => Fuel
          end
      end
  end
with reval_args (a : args) (fr : frame) (g : glob) {struct a} : res (list value + value) :=
  match a with
  | ANil => Res (inl []) fr g
  | ACons e r =>
      match reval e fr g with
      | Res (EV v) fr g =>
          match reval_args r fr g with
          | Res (inl vs) fr g => Res (inl (v :: vs)) fr g
          | r => r
          end
      | Res (EX x) fr g => Res (inr x) fr g
      | Fuel => Fuel
      end
  end
with reval_arms (v : value) (m : marms) (fr : frame) (g : glob) {struct m} : res eout :=
  match m with
  | MNil => Res (EV VNull) fr g
  | MDefault e => reval e fr g
  | MCons c e r =>
      match reval_conds v c fr g with
      | Res (inl true) fr g => reval e fr g
      | Res (inl false) fr g => reval_arms v r fr g
      | Res (inr x) fr g => Res (EX x) fr g
      | Fuel => Fuel
      end
  end
with reval_conds (v : value) (c : args) (fr : frame) (g : glob) {struct c} : res (bool + value) :=
  match c with
  | ANil => Res (inl false) fr g
  | ACons e r =>
      match reval e fr g with
      | Res (EV w) fr g => if same_value v w then Res (inl true) fr g else reval_conds v r fr g
      | Res (EX x) fr g => Res (inr x) fr g
      | Fuel => Fuel
      end
  end
with reval_nargs (ok : string -> list (string * value) -> bool) (xs : list string) (seen : list (string * value))
                 (b : args) (fr : frame) (g : glob) {struct b} : res (list (string * value) + value) :=
  match b with
  | ANil => Res (inl seen) fr g
  | ACons e r =>
      match xs with
      | [] => Res (inl seen) fr g
      | x :: xr =>
          match reval e fr g with
          | Res (EV v) fr g =>
              if ok x seen then reval_nargs ok xr (seen ++ [(x, v)])%list r fr g
              else Res (inr (VErr "named parameter")) fr g
          | Res (EX w) fr g => Res (inr w) fr g
          | Fuel => Fuel
          end
      end
  end.

Fixpoint reval_each (a : args) (fr : frame) (g : glob) : res (option value) :=
  match a with
  | ANil => Res None fr g
  | ACons e r =>
      match reval e fr g with
      | Res (EV _) fr g => reval_each r fr g
      | Res (EX x) fr g => Res (Some x) fr g
      | Fuel => Fuel
      end
  end.
Definition rcond (c : expr) (fr : frame) (g : glob) : res (bool + value) :=
  match reval c fr g with
  | Res (EV v) fr g => Res (inl (truthy v)) fr g
  | Res (EX x) fr g => Res (inr x) fr g
  | Fuel => Fuel
  end.
End Expr.

(* ---------- statements ---------- *)
Definition rthr {A} (r : res (A + value)) (k : A -> frame -> glob -> res rctl) : res rctl :=
  match r with
  | Fuel => Fuel
  | Res (inl a) fr g => k a fr g
  | Res (inr x) fr g => Res (RThrow x) fr g
  end.

(* a loop [id] looks at the signal its body ended with *)
Inductive rloop_next := RLNext | RLExit (c : rctl).
Definition rloop_ctl (id : lid) (c : rctl) : rloop_next :=
  match c with
  | RNone => RLNext
  | RCnt l => if lid_eqb l id then RLNext else RLExit c
  | RBrk l => if lid_eqb l id then RLExit RNone else RLExit c
  | _ => RLExit c
  end.

(* the clauses from the first `default` on *)
Fixpoint from_default (l : rclauses) : rclauses :=
  match l with
  | RCLNil => RCLNil
  | RCLCase _ _ r => from_default r
  | RCLDefault _ _ => l
  end.

Definition rcall_result (c : rctl) : eout :=
  match c with
  | RRet v => EV v
  | RNone => EV VNull
  | RThrow x => EX x
  | RBrk _ | RCnt _ => EX (err "unreachable: exits are resolved inside the function")
  end.

(* the handler of a thrown value: the first catch clause, in source order, whose type accepts it *)
Fixpoint handler_for (cm : catchfn) (cs : rcatches) (x : value) : option (option string * rstmt) :=
  match cs with
  | RCTNil => None
  | RCTCons ty v b r => if cm ty x then Some (v, b) else handler_for cm r x
  end.

Section Stmt.
Variable cm : catchfn.              (* "T is the thrown object's class, an ancestor or an implemented interface" *)
Variable funs : list fundef.
Variable clos : list clodef.

Fixpoint rexec (n : nat) (fn : string) (s : rstmt) (fr : frame) (g : glob) {struct n} : res rctl :=
  match n with
  | O => Fuel
  | S n' =>
    let callf : callfn := fun c vs g =>
      match c with
      | CFun f =>
          match find_fun funs f with
          | None => Some (EX (err "undefined function"), g)
          | Some d =>
              (* a fresh frame holding only the parameters; the body's exits are resolved on their own *)
              (* every argument has been evaluated; a required parameter without argument: ArgumentCountError *)
              if enough_args (fparams d) vs then
                match rexec n' f (resolve [] [] (fbody d)) (bind_params (fparams d) vs [], []) g with
                | Fuel => None
                | Res c _ g' => Some (rcall_result c, g')
                end
              else Some (EX (VErr "too few arguments"), g)
          end
      | CClo id oid cap =>
          (* a closure: a fresh frame with the parameters and the values captured when the closure was
             created; static locals belong to the closure object *)
          match nth_error clos id with
          | None => Some (EX (VErr "no such closure"), g)
          | Some cd =>
              if enough_args (cparams cd) vs then
                match rexec n' (clo_name oid) (resolve [] [] (cbody cd)) (bind_captured cap (bind_params (cparams cd) vs []), []) g with
                | Fuel => None
                | Res c _ g' => Some (rcall_result c, g')
                end
              else Some (EX (VErr "too few arguments"), g)
          end
      end in
    let ev := reval callf funs clos fn in
    let cond := rcond callf funs clos fn in
    match s with
    | RSkip => Res RNone fr g
    | RSeq a b =>
        match rexec n' fn a fr g with
        | Res RNone fr g => rexec n' fn b fr g
        | r => r
        end
    | RExpr e =>
        match ev e fr g with
        | Res (EV _) fr g => Res RNone fr g
        | Res (EX x) fr g => Res (RThrow x) fr g
        | Fuel => Fuel
        end
    | REcho e =>
        match ev e fr g with
        | Res (EV v) fr g => Res RNone fr (emit (to_str v) g)
        | Res (EX x) fr g => Res (RThrow x) fr g
        | Fuel => Fuel
        end
    | RPush x e =>
        match ev e fr g with
        | Res (EV v) fr g => let '(fr', g') := wr fn x (arr_push (rd fn x fr g) v) fr g in Res RNone fr' g'
        | Res (EX x) fr g => Res (RThrow x) fr g
        | Fuel => Fuel
        end
    | RSetIdx x k e =>
        match ev e fr g with
        | Res (EV v) fr g => let '(fr', g') := wr fn x (arr_set (rd fn x fr g) (VInt k) v) fr g in Res RNone fr' g'
        | Res (EX x) fr g => Res (RThrow x) fr g
        | Fuel => Fuel
        end
    | RIf c t ei e =>
        rthr (cond c fr g) (fun b fr g =>
          if b then rexec n' fn t fr g
          else
            (fix elif (l : relifs) (fr : frame) (g : glob) : res rctl :=
               match l with
               | REINil => rexec n' fn e fr g
               | REICons c b r =>
                   rthr (cond c fr g) (fun t fr g => if t then rexec n' fn b fr g else elif r fr g)
               end) ei fr g)
    | RWhile id c b =>
        rthr (cond c fr g) (fun t fr g =>
          if t then
            match rexec n' fn b fr g with
            | Fuel => Fuel
            | Res cb fr g =>
                match rloop_ctl id cb with
                | RLNext => rexec n' fn (RWhile id c b) fr g
                | RLExit c' => Res c' fr g
                end
            end
          else Res RNone fr g)
    | RDoWhile id b c =>
        match rexec n' fn b fr g with
        | Fuel => Fuel
        | Res cb fr g =>
            match rloop_ctl id cb with
            | RLNext =>
                rthr (cond c fr g) (fun t fr g => if t then rexec n' fn (RDoWhile id b c) fr g else Res RNone fr g)
            | RLExit c' => Res c' fr g
            end
        end
    | RFor id init c inc b =>
        match reval_each callf funs clos fn init fr g with
        | Fuel => Fuel
        | Res (Some x) fr g => Res (RThrow x) fr g
        | Res None fr g =>
            rthr (cond c fr g) (fun t fr g =>
              if t then
                match rexec n' fn b fr g with
                | Fuel => Fuel
                | Res cb fr g =>
                    match rloop_ctl id cb with
                    | RLNext =>
                        match reval_each callf funs clos fn inc fr g with
                        | Fuel => Fuel
                        | Res (Some x) fr g => Res (RThrow x) fr g
                        | Res None fr g => rexec n' fn (RFor id ANil c inc b) fr g
                        end
                    | RLExit c' => Res c' fr g
                    end
                end
              else Res RNone fr g)
        end
    | RForeach id a k v b =>
        match ev a fr g with
        | Fuel => Fuel
        | Res (EX x) fr g => Res (RThrow x) fr g
        | Res (EV av) fr g =>
            match foreach_items av with
            | None => Res (RThrow (err "foreach over a non-array")) fr g
            | Some items =>
                (* by-value foreach walks a snapshot of the array *)
                (fix each (l : list (value * value)) (fr : frame) (g : glob) : res rctl :=
                   match l with
                   | [] => Res RNone fr g
                   | (kv, vv) :: r =>
                       let '(fr1, g1) := wr fn v vv fr g in
                       let '(fr2, g2) := match k with Some kx => wr fn kx kv fr1 g1 | None => (fr1, g1) end in
                       match rexec n' fn b fr2 g2 with
                       | Fuel => Fuel
                       | Res cb fr g =>
                           match rloop_ctl id cb with
                           | RLNext => each r fr g
                           | RLExit c' => Res c' fr g
                           end
                       end
                   end) items fr g
            end
        end
    | RSwitch id c cl =>
        match ev c fr g with
        | Fuel => Fuel
        | Res (EX x) fr g => Res (RThrow x) fr g
        | Res (EV cv) fr g =>
            (* run the clause bodies from an entry point on, falling through *)
            let run :=
              (fix run (l : rclauses) (fr : frame) (g : glob) : res rctl :=
                 match l with
                 | RCLNil => Res RNone fr g
                 | RCLCase _ b r | RCLDefault b r =>
                     match rexec n' fn b fr g with
                     | Fuel => Fuel
                     | Res cb fr g =>
                         match cb with
                         | RNone => run r fr g
                         | RBrk l' | RCnt l' => if lid_eqb l' id then Res RNone fr g else Res cb fr g
                         | _ => Res cb fr g
                         end
                     end
                 end) in
            (* the case expressions are compared in order; `default` is the entry when none matches *)
            (fix find (l : rclauses) (fr : frame) (g : glob) : res rctl :=
               match l with
               | RCLNil => run (from_default cl) fr g
               | RCLDefault _ r => find r fr g
               | RCLCase e _ r =>
                   match ev e fr g with
                   | Fuel => Fuel
                   | Res (EX x) fr g => Res (RThrow x) fr g
                   | Res (EV v) fr g => if switch_match cv v then run l fr g else find r fr g
                   end
               end) cl fr g
        end
    | RBrkTo l => Res (RBrk l) fr g
    | RCntTo l => Res (RCnt l) fr g
    | RBad => Res (RThrow (err "'break'/'continue' not in the 'loop' or 'switch' context")) fr g
    | RReturn None => Res (RRet VNull) fr g
    | RReturn (Some e) =>
        match ev e fr g with
        | Res (EV v) fr g => Res (RRet v) fr g
        | Res (EX x) fr g => Res (RThrow x) fr g
        | Fuel => Fuel
        end
    | RStatic x init =>
        let st := match sget (fn, x) (gstat g) with Some _ => gstat g | None => sset (fn, x) init (gstat g) end in
        Res RNone (fst fr, x :: snd fr) (set_stat st g)
    | RTry b cs f =>
        (* run the block; a throw goes to its first matching handler, with the catch variable bound
           to the thrown value itself; whatever is pending then (nothing, a jump, a return, an
           unhandled or new throw), the finally block runs — once — and the pending signal continues
           unless the finally block itself ends in a jump, return or throw, which replaces it *)
        match rexec n' fn b fr (mark CTry g) with
        | Fuel => Fuel
        | Res cb fr1 g1 =>
            let handled :=
              match cb with
              | RThrow x =>
                  match handler_for cm cs x with
                  | Some (xv, h) =>
                      let '(fr2, g2) := match xv with Some v => wr fn v x fr1 g1 | None => (fr1, g1) end in
                      rexec n' fn h fr2 g2
                  | None => Res cb fr1 g1
                  end
              | _ => Res cb fr1 g1
              end in
            match handled with
            | Fuel => Fuel
            | Res c fr3 g3 =>
                match rexec n' fn f fr3 (mark CFin g3) with
                | Fuel => Fuel
                | Res RNone fr4 g4 => Res c fr4 g4
                | Res cf fr4 g4 => Res cf fr4 g4
                end
            end
        end
    | RIfInst x T t e =>
        (* instanceof asks the hierarchy question the catch clauses ask *)
        if (match rd fn x fr g with VObj _ _ _ => cm T (rd fn x fr g) | _ => false end)
        then rexec n' fn t fr g else rexec n' fn e fr g
    | RThrowSt e =>
        match ev e fr g with
        | Res (EV v) fr g => Res (RThrow (thrown_of v)) fr g
        | Res (EX x) fr g => Res (RThrow x) fr g
        | Fuel => Fuel
        end
    end
  end.

(* a script: `return` at the top level ends it normally; an uncaught throw is a failure *)
Definition rrun (n : nat) (p : stmt) : obs :=
  match rexec n "" (resolve [] [] p) empty_frame empty_glob with
  | Fuel => ("", EndFuel)
  | Res c _ g => (output g, match c with RNone | RRet _ => EndOk | _ => EndError end)
  end.
End Stmt.

Definition run_ref (cm : catchfn) (n : nat) (p : prog) : obs := rrun cm (funcs p) (closures p) n (main p).
