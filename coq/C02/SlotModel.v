(* C02 — SlotSem: ImplSem (Model.v) with the call frame as the Go code has it.
   GENERATED from Model.v by tools/gen_slotmodel.py — do not edit; edit Model.v and re-run.

   runtime/context.go: Context.variables is a vector of cells, one per variable of the function's
   symbol table (parser/scope_manager.go: parameters first, then first occurrence), every cell created
   holding null and carrying the variable's name (data.NewNamedZVal); nodes reach a cell by its
   parse-time INDEX (GetIndexZVal / SetVariableValue).  Here a frame is (vector of (name, value)
   cells, names bound to static cells); [srd]/[swr] go through [index_of] in the table [vs] of the
   running function; a call allocates [sfresh table] and stores parameters and captures by index.
   Everything else is Model.v verbatim.  ProofsSlotSim.v: SlotSem = ImplSem on programs whose
   symbol tables cover their bodies.  No proofs in this file. *)
From Coq Require Import List String ZArith Bool Arith.
From V.C02 Require Import Lang Model Slots.
Import ListNotations.
Open Scope string_scope.

(* ---------- the vector operations ---------- *)
Definition sfresh (vs : list string) : env := map (fun x => (x, VNull)) vs.
Fixpoint cell_set (i : nat) (v : value) (l : env) : env :=
  match l, i with
  | [], _ => []
  | (x, _) :: r, O => (x, v) :: r
  | c :: r, S i' => c :: cell_set i' v r
  end.
(* GetIndexZVal(i).Value; an index outside the vector is the code's "Variable does not exist" error,
   unreachable when the table covers the body (ProofsSlotSim) *)
Definition cell_get (i : nat) (l : env) : value :=
  match nth_error l i with Some (_, v) => v | None => VNull end.
Definition srd (vs : list string) (fn x : string) (fr : frame) (g : glob) : value :=
  if mem x (snd fr) then match sget (fn, x) (gstat g) with Some v => v | None => VNull end
  else match index_of x vs with Some i => cell_get i (fst fr) | None => VNull end.
Definition swr (vs : list string) (fn x : string) (v : value) (fr : frame) (g : glob) : frame * glob :=
  if mem x (snd fr) then (fr, set_stat (sset (fn, x) v (gstat g)) g)
  else match index_of x vs with
       | Some i => ((cell_set i v (fst fr), snd fr), g)
       | None => (fr, g)
       end.
Definition scapture (vs : list string) (fn : string) (uses : list string) (fr : frame) (g : glob) : list (string * value) :=
  map (fun x => (x, srd vs fn x fr g)) uses.
Definition sstore (vs : list string) (x : string) (v : value) (e : env) : env :=
  match index_of x vs with Some i => cell_set i v e | None => e end.
Fixpoint sbind_params (vs : list string) (ps : list (string * option value)) (avs : list value) (e : env) : env :=
  match ps with
  | [] => e
  | (x, d) :: r =>
      match avs with
      | v :: vr => sbind_params vs r vr (sstore vs x v e)
      | [] => sbind_params vs r [] (match d with Some dv => sstore vs x dv e | None => e end)
      end
  end.
Fixpoint sbind_captured (vs : list string) (cap : list (string * value)) (e : env) : env :=
  match cap with [] => e | (x, v) :: r => sbind_captured vs r (sstore vs x v e) end.

(* ---------- expressions (structural; calls go through [callf]) ---------- *)

(* fused_assign.go readIdx / preExtract: an operand that is a variable currently holding an int,
   or an int literal; anything else makes the fast path fall back *)
Definition soperand (vs : list string) (fn : string) (e : expr) (fr : frame) (g : glob) : option Z :=
  match e with
  | EVar y => match srd vs fn y fr g with VInt z => Some z | _ => None end
  | ELit (VInt n) => Some n
  | _ => None
  end.
(* VarFastAssign.GetValue fast paths (vfaOpCopy / vfaOpAdd / vfaOpMul), chosen by NewBinaryAssign
   from the shape of the right-hand side *)
Definition sfast_assign (vs : list string) (fn : string) (r : expr) (fr : frame) (g : glob) : option Z :=
  match r with
  | EVar _ | ELit (VInt _) => soperand vs fn r fr g
  | EBin Add a b => match soperand vs fn a fr g, soperand vs fn b fr g with Some p, Some q => Some (p + q)%Z | _, _ => None end
  | EBin Mul a b => match soperand vs fn a fr g, soperand vs fn b fr g with Some p, Some q => Some (p * q)%Z | _, _ => None end
  | _ => None
  end.
(* VarIntLe.testBool fast path: `$x <= <int literal>` with $x holding an int *)
Definition svar_int_le (vs : list string) (fn : string) (a b : expr) (fr : frame) (g : glob) : option bool :=
  match a, b with
  | EVar x, ELit (VInt n) => match srd vs fn x fr g with VInt z => Some (z <=? n)%Z | _ => None end
  | _, _ => None
  end.

Section Expr.
Variable callf : callfn.
Variable funs : list fundef.
Variable clos : list clodef.
Variable vs : list string.     (* the symbol table of the running function *)
Variable fn : string.

Fixpoint seval (e : expr) (fr : frame) (g : glob) {struct e} : res eout :=
  match e with
  | ELit v => Res (EV v) fr g
  | EVar x => Res (EV (srd vs fn x fr g)) fr g
  | EBin o a b =>
      let slow :=
        match seval a fr g with
        | Res (EV va) fr g =>
            match seval b fr g with
            | Res (EV vb) fr g => Res (EV (binop o va vb)) fr g
            | r => r
            end
        | r => r
        end in
      match o with
      | Le => match svar_int_le vs fn a b fr g with
              | Some t => Res (EV (VBool t)) fr g          (* VarIntLe fast path *)
              | None => slow                                 (* f.Le.GetValue *)
              end
      | _ => slow
      end
  | ENot a =>
      match seval a fr g with
      | Res (EV v) fr g => Res (EV (VBool (negb (truthy v)))) fr g
      | r => r
      end
  | EAnd a b =>
      match seval a fr g with
      | Res (EV va) fr g =>
          if truthy va then
            match seval b fr g with
            | Res (EV vb) fr g => Res (EV (VBool (truthy vb))) fr g
            | r => r
            end
          else Res (EV (VBool false)) fr g
      | r => r
      end
  | EOr a b =>
      match seval a fr g with
      | Res (EV va) fr g =>
          if truthy va then Res (EV (VBool true)) fr g
          else
            match seval b fr g with
            | Res (EV vb) fr g => Res (EV (VBool (truthy vb))) fr g
            | r => r
            end
      | r => r
      end
  | EAssign x r =>
      match sfast_assign vs fn r fr g with
      | Some z =>                                     (* VarFastAssign fast path: AssignIntToZVal *)
          let '(fr', g') := swr vs fn x (VInt z) fr g in Res (EV (VInt z)) fr' g'
      | None =>                                       (* Slow / BinaryAssignVariable *)
          match seval r fr g with
          | Res (EV v) fr g => let '(fr', g') := swr vs fn x v fr g in Res (EV v) fr' g'
          | r => r
          end
      end
  | EPostInc x =>                                     (* VarPostIncr, Fallback PostfixIncr *)
      let '(nv, ov) := incr_value (srd vs fn x fr g) in
      let '(fr', g') := swr vs fn x nv fr g in Res (EV ov) fr' g'
  | EArr a =>
      match seval_args a fr g with
      | Res (inl vs) fr g => Res (EV (VArr vs)) fr g
      | Res (inr x) fr g => Res (EX x) fr g
      | Fuel => Fuel
      end
  | ECall f a =>
      match find_fun funs f with
      | None => Res (EX (err "undefined function")) fr g          (* CallLater: before the arguments *)
      | Some _ =>
          match seval_args a fr g with
          | Res (inl vs) fr g =>
              match callf (CFun f) vs g with
              | Some (o, g') => Res o fr g'                        (* the caller's frame is untouched *)
              | None => Fuel
              end
          | Res (inr x) fr g => Res (EX x) fr g
          | Fuel => Fuel
          end
      end
  | ENew cls m =>                                     (* new C(m) *)
      match seval m fr g with
      | Res (EV v) fr g => Res (EV (VObj (gnext g) cls (to_str v))) fr (bump g)
      | r => r
      end
  | EMsg e =>                                         (* ThrowValue.getMessage *)
      match seval e fr g with
      | Res (EV v) fr g =>
          match msg_of v with
          | Some m => Res (EV (VStr m)) fr g
          | None => Res (EX (VErr "method call on a non-object")) fr g
          end
      | r => r
      end
  | EClass e =>
      match seval e fr g with
      | Res (EV v) fr g =>
          match class_of v with
          | Some c => Res (EV (VStr c)) fr g
          | None => Res (EX (VErr "get_class of a non-object")) fr g
          end
      | r => r
      end
  | ESame a b =>                                      (* BinaryEqStrict / isStrictEqual *)
      match seval a fr g with
      | Res (EV va) fr g =>
          match seval b fr g with
          | Res (EV vb) fr g => Res (EV (VBool (same_value va vb))) fr g
          | r => r
          end
      | r => r
      end
  | EPanic => Res (EX (VErr "go panic")) fr g        (* recovered by TryStatement.guarded *)
  | EIdx x i =>
      match seval i fr g with
      | Res (EV iv) fr g => Res (EV (arr_get (srd vs fn x fr g) iv)) fr g
      | r => r
      end
  | EIdxInc pre x i =>                               (* the index is evaluated once *)
      match seval i fr g with
      | Res (EV iv) fr g =>
          let '(nv, ov) := incr_value (arr_get (srd vs fn x fr g) iv) in
          let '(fr', g') := swr vs fn x (arr_set (srd vs fn x fr g) iv nv) fr g in
          Res (EV (if pre then nv else ov)) fr' g'
      | r => r
      end
  | EClosure id =>                                    (* by-value captures are taken now *)
      match nth_error clos id with
      | Some cd => Res (EV (VClo id (gnext g) (scapture vs fn (cuses cd) fr g))) fr (bump g)
      | None => Res (EX (VErr "no such closure")) fr g
      end
  | ECallV f a =>
      match seval f fr g with
      | Res (EV (VClo id oid cap)) fr g =>
          match seval_args a fr g with
          | Res (inl vs) fr g =>
              match callf (CClo id oid cap) vs g with
              | Some (o, g') => Res o fr g'
              | None => Fuel
              end
          | Res (inr x) fr g => Res (EX x) fr g
          | Fuel => Fuel
          end
      | Res (EV _) fr g => Res (EX (VErr "not callable")) fr g
      | r => r
      end
  | EProp e =>
      match seval e fr g with
      | Res (EV v) fr g =>
          match obj_id v with
          | Some i => Res (EV (hget i (gheap g))) fr g
          | None => Res (EX (VErr "property of a non-object")) fr g
          end
      | r => r
      end
  | ESetProp e w =>                                   (* the value first, then the object (BinaryAssign) *)
      match seval w fr g with
      | Res (EV wv) fr g =>
          match seval e fr g with
          | Res (EV v) fr g =>
              match obj_id v with
              | Some i => Res (EV wv) fr (set_prop i wv g)
              | None => Res (EX (VErr "property of a non-object")) fr g
              end
          | r => r
          end
      | r => r
      end
  | EHi e =>
      match seval e fr g with
      | Res (EV v) fr g =>
          match obj_id v with
          | Some i => Res (EV (VStr ("hi" ++ to_str (hget i (gheap g))))) fr g
          | None => Res (EX (VErr "method call on a non-object")) fr g
          end
      | r => r
      end
  | EMatch s m =>                                     (* MatchStatement.GetValue *)
      match seval s fr g with
      | Res (EV v) fr g => seval_arms v m fr g
      | r => r
      end
  | ECallN f a xs b =>                                (* positional, then named in source order; value first, then the name check *)
      match find_fun funs f with
      | None => Res (EX (err "undefined function")) fr g
      | Some d =>
          match seval_args a fr g with
          | Res (inl vs) fr g =>
              match seval_nargs (named_ok_impl (fparams d) vs) xs [] b fr g with
              | Res (inl nvs) fr g =>
                  match arrange_impl (fparams d) vs nvs with
                  | Some full =>
                      match callf (CFun f) full g with
                      | Some (o, g') => Res o fr g'
                      | None => Fuel
                      end
                  | None => Res (EX (VErr "argument not passed")) fr g
                  end
              | Res (inr x) fr g => Res (EX x) fr g
              | Fuel => Fuel
              end
          | Res (inr x) fr g => Res (EX x) fr g
          | Fuel => Fuel
          end
      end
  end
with seval_args (a : args) (fr : frame) (g : glob) {struct a} : res (list value + value) :=
  match a with
  | ANil => Res (inl []) fr g
  | ACons e r =>
      match seval e fr g with
      | Res (EV v) fr g =>
          match seval_args r fr g with
          | Res (inl vs) fr g => Res (inl (v :: vs)) fr g
          | r => r
          end
      | Res (EX x) fr g => Res (inr x) fr g
      | Fuel => Fuel
      end
  end
(* the arms in order; within an arm the conditions in order, compared with isStrictEqual; the first
   hit evaluates that arm's expression; no hit: the default block, else null *)
with seval_arms (v : value) (m : marms) (fr : frame) (g : glob) {struct m} : res eout :=
  match m with
  | MNil => Res (EV VNull) fr g
  | MDefault e => seval e fr g
  | MCons c e r =>
      match seval_conds v c fr g with
      | Res (inl true) fr g => seval e fr g
      | Res (inl false) fr g => seval_arms v r fr g
      | Res (inr x) fr g => Res (EX x) fr g
      | Fuel => Fuel
      end
  end
with seval_conds (v : value) (c : args) (fr : frame) (g : glob) {struct c} : res (bool + value) :=
  match c with
  | ANil => Res (inl false) fr g
  | ACons e r =>
      match seval e fr g with
      | Res (EV w) fr g => if same_value v w then Res (inl true) fr g else seval_conds v r fr g
      | Res (EX x) fr g => Res (inr x) fr g
      | Fuel => Fuel
      end
  end
(* the named arguments in source order: the value is computed, then the name is checked against what is
   bound so far ([ok]); the first offending name ends the call with an Error *)
with seval_nargs (ok : string -> list (string * value) -> bool) (xs : list string) (seen : list (string * value))
                 (b : args) (fr : frame) (g : glob) {struct b} : res (list (string * value) + value) :=
  match b with
  | ANil => Res (inl seen) fr g
  | ACons e r =>
      match xs with
      | [] => Res (inl seen) fr g
      | x :: xr =>
          match seval e fr g with
          | Res (EV v) fr g =>
              if ok x seen then seval_nargs ok xr (seen ++ [(x, v)])%list r fr g
              else Res (inr (VErr "named parameter")) fr g
          | Res (EX w) fr g => Res (inr w) fr g
          | Fuel => Fuel
          end
      end
  end.

(* a list of expressions evaluated for effect (for-initialisers) *)
Fixpoint seval_each (a : args) (fr : frame) (g : glob) : res (option value) :=
  match a with
  | ANil => Res None fr g
  | ACons e r =>
      match seval e fr g with
      | Res (EV _) fr g => seval_each r fr g
      | Res (EX x) fr g => Res (Some x) fr g
      | Fuel => Fuel
      end
  end.
(* for-increments: NewForStatement replaces a VarPostIncr by VarStmtIncr (fresh IntValue holding
   the incremented number; the result is discarded), every other increment is evaluated as is *)
Fixpoint seval_incs (a : args) (fr : frame) (g : glob) : res (option value) :=
  match a with
  | ANil => Res None fr g
  | ACons e r =>
      match e with
      | EPostInc x =>
          let '(nv, _) := incr_value (srd vs fn x fr g) in
          let '(fr', g') := swr vs fn x nv fr g in seval_incs r fr' g'
      | _ =>
          match seval e fr g with
          | Res (EV _) fr g => seval_incs r fr g
          | Res (EX x) fr g => Res (Some x) fr g
          | Fuel => Fuel
          end
      end
  end.
(* the condition of if / while / do-while: GetValue then AsBool *)
Definition scond (c : expr) (fr : frame) (g : glob) : res (bool + value) :=
  match seval c fr g with
  | Res (EV v) fr g => Res (inl (truthy v)) fr g
  | Res (EX x) fr g => Res (inr x) fr g
  | Fuel => Fuel
  end.
(* the condition of for: BoolTest fast path when the node is a VarIntLe *)
Definition scond_for (c : expr) (fr : frame) (g : glob) : res (bool + value) :=
  match c with
  | EBin Le a b =>
      match svar_int_le vs fn a b fr g with
      | Some t => Res (inl t) fr g
      | None => scond c fr g
      end
  | _ => scond c fr g
  end.
End Expr.

(* ---------- statements ---------- *)

Section Stmt.
Variable cm : catchfn.
Variable funs : list fundef.
Variable clos : list clodef.

Fixpoint sexec (n : nat) (vs : list string) (fn : string) (s : stmt) (fr : frame) (g : glob) {struct n} : res ictl :=
  match n with
  | O => Fuel
  | S n' =>
    (* CallExpression.GetValue + FunctionStatement.Call: fresh frame, parameters bound, body run *)
    let callf : callfn := fun c avs g =>
      match c with
      | CFun f =>
          match find_fun funs f with
          | None => Some (EX (err "undefined function"), g)
          | Some d =>
              if enough_args (fparams d) avs then
                match sexec n' (fun_vars d) f (fbody d) (sbind_params (fun_vars d) (fparams d) avs (sfresh (fun_vars d)), []) g with
                | Fuel => None
                | Res c _ g' => Some (call_result c, g')
                end
              else Some (EX (VErr "too few arguments"), g)
          end
      | CClo id oid cap =>
          (* LambdaExpression.Call: a fresh context, the parameters, then the captured values; the
             closure object's own static store *)
          match nth_error clos id with
          | None => Some (EX (VErr "no such closure"), g)
          | Some cd =>
              if enough_args (cparams cd) avs then
                match sexec n' (clo_vars cd) (clo_name oid) (cbody cd)
                      (sbind_captured (clo_vars cd) cap (sbind_params (clo_vars cd) (cparams cd) avs (sfresh (clo_vars cd))), []) g with
                | Fuel => None
                | Res c _ g' => Some (call_result c, g')
                end
              else Some (EX (VErr "too few arguments"), g)
          end
      end in
    let ev := seval callf funs clos vs fn in
    let cond := scond callf funs clos vs fn in
    match s with
    | SSkip => Res INone fr g
    | SSeq a b =>
        match sexec n' vs fn a fr g with
        | Res INone fr g => sexec n' vs fn b fr g
        | r => r
        end
    | SExpr e =>
        match ev e fr g with
        | Res (EV _) fr g => Res INone fr g
        | Res (EX x) fr g => Res (IThrow x) fr g
        | Fuel => Fuel
        end
    | SEcho e =>
        match ev e fr g with
        | Res (EV v) fr g => Res INone fr (emit (to_str v) g)
        | Res (EX x) fr g => Res (IThrow x) fr g
        | Fuel => Fuel
        end
    | SPush x e =>
        match ev e fr g with
        | Res (EV v) fr g => let '(fr', g') := swr vs fn x (arr_push (srd vs fn x fr g) v) fr g in Res INone fr' g'
        | Res (EX x) fr g => Res (IThrow x) fr g
        | Fuel => Fuel
        end
    | SSetIdx x k e =>                                            (* BinaryAssign on an IndexExpression *)
        match ev e fr g with
        | Res (EV v) fr g => let '(fr', g') := swr vs fn x (arr_set (srd vs fn x fr g) (VInt k) v) fr g in Res INone fr' g'
        | Res (EX x) fr g => Res (IThrow x) fr g
        | Fuel => Fuel
        end
    | SIf c t ei e =>                                             (* IfStatement.GetValue *)
        thr (cond c fr g) (fun b fr g =>
          if b then sexec n' vs fn t fr g
          else
            (fix elif (l : elifs) (fr : frame) (g : glob) : res ictl :=
               match l with
               | EINil => sexec n' vs fn e fr g
               | EICons c b r =>
                   thr (cond c fr g) (fun t fr g => if t then sexec n' vs fn b fr g else elif r fr g)
               end) ei fr g)
    | SWhile c b =>                                               (* WhileStatement.GetValue *)
        thr (cond c fr g) (fun t fr g =>
          if t then
            match sexec n' vs fn b fr g with
            | Fuel => Fuel
            | Res cb fr g =>
                match loop_ctl cb with
                | LNext => sexec n' vs fn (SWhile c b) fr g
                | LExit c' => Res c' fr g
                end
            end
          else Res INone fr g)
    | SDoWhile b c =>                                             (* DoWhileStatement.GetValue *)
        match sexec n' vs fn b fr g with
        | Fuel => Fuel
        | Res cb fr g =>
            match loop_ctl cb with
            | LNext =>
                thr (cond c fr g) (fun t fr g => if t then sexec n' vs fn (SDoWhile b c) fr g else Res INone fr g)
            | LExit c' => Res c' fr g
            end
        end
    | SFor init c inc b =>                                        (* ForStatement.GetValue *)
        match seval_each callf funs clos vs fn init fr g with
        | Fuel => Fuel
        | Res (Some x) fr g => Res (IThrow x) fr g
        | Res None fr g =>
            thr (scond_for callf funs clos vs fn c fr g) (fun t fr g =>
              if t then
                match sexec n' vs fn b fr g with
                | Fuel => Fuel
                | Res cb fr g =>
                    match loop_ctl cb with
                    | LNext =>
                        match seval_incs callf funs clos vs fn inc fr g with
                        | Fuel => Fuel
                        | Res (Some x) fr g => Res (IThrow x) fr g
                        | Res None fr g => sexec n' vs fn (SFor ANil c inc b) fr g
                        end
                    | LExit c' => Res c' fr g
                    end
                end
              else Res INone fr g)
        end
    | SForeach a k v b =>                                         (* ForeachStatement.GetValue, ArrayValue *)
        match ev a fr g with
        | Fuel => Fuel
        | Res (EX x) fr g => Res (IThrow x) fr g
        | Res (EV av) fr g =>
            match foreach_items av with
            | None => Res (IThrow (err "foreach over a non-array")) fr g
            | Some items =>
                (fix each (l : list (value * value)) (fr : frame) (g : glob) : res ictl :=
                   match l with
                   | [] => Res INone fr g
                   | (kv, vv) :: r =>
                       let '(fr1, g1) := swr vs fn v vv fr g in
                       let '(fr2, g2) := match k with Some kx => swr vs fn kx kv fr1 g1 | None => (fr1, g1) end in
                       match sexec n' vs fn b fr2 g2 with
                       | Fuel => Fuel
                       | Res cb fr g =>
                           match loop_ctl cb with
                           | LNext => each r fr g
                           | LExit c' => Res c' fr g
                           end
                       end
                   end) items fr g
            end
        end
    | SSwitch c cl =>                                             (* SwitchStatement.GetValue *)
        match ev c fr g with
        | Fuel => Fuel
        | Res (EX x) fr g => Res (IThrow x) fr g
        | Res (EV cv) fr g =>
            (* runSwitchClause over the clauses in source order from the entry point: a body that runs
               off its end falls through into the next clause; break / continue aimed at the switch
               end it (IsBreak / IsContinue asked once), return and throw go outward *)
            let run :=
              (fix run (l : clauses) (fr : frame) (g : glob) : res ictl :=
                 match l with
                 | CLNil => Res INone fr g
                 | CLCase _ b r | CLDefault b r =>
                     match sexec n' vs fn b fr g with
                     | Fuel => Fuel
                     | Res cb fr g =>
                         match cb with
                         | INone => run r fr g
                         | _ => Res (switch_ctl cb) fr g
                         end
                     end
                 end) in
            (* the case values are compared in source order (default takes no part); no match: the
               default clause, wherever it stands (DefaultIndex), is the entry *)
            (fix cases (l : clauses) (fr : frame) (g : glob) : res ictl :=
               match l with
               | CLNil => run (default_entry cl) fr g
               | CLDefault _ r => cases r fr g
               | CLCase e _ r =>
                   match ev e fr g with
                   | Fuel => Fuel
                   | Res (EX x) fr g => Res (IThrow x) fr g
                   | Res (EV v) fr g => if switch_match cv v then run l fr g else cases r fr g
                   end
               end) cl fr g
        end
    | SBreak k => Res (IBrk k) fr g
    | SContinue k => Res (ICnt k) fr g
    | SReturn None => Res (IRet VNull) fr g
    | SReturn (Some e) =>
        match ev e fr g with
        | Res (EV v) fr g => Res (IRet v) fr g
        | Res (EX x) fr g => Res (IThrow x) fr g
        | Fuel => Fuel
        end
    | SStatic x init =>                                           (* StaticVarStatement.GetValue *)
        (* the main script has a store of its own since /repo d3ebf7f *)
        let st := match sget (fn, x) (gstat g) with Some _ => gstat g | None => sset (fn, x) init (gstat g) end in
        Res INone (fst fr, x :: snd fr) (set_stat st g)
    | STry b cs f =>                                              (* TryStatement.GetValue *)
        match sexec n' vs fn b fr (mark CTry g) with                 (* ghost event: the try is entered *)
        | Fuel => Fuel
        | Res cb fr1 g1 =>
            let caught :=                                         (* tryValue *)
              match cb with
              | IThrow x =>
                  match find_catch cm cs x with
                  | Some (xv, cbody) =>
                      let '(fr2, g2) := match xv with Some v => swr vs fn v x fr1 g1 | None => (fr1, g1) end in
                      sexec n' vs fn cbody fr2 g2
                  | None => Res cb fr1 g1
                  end
              | _ => Res cb fr1 g1                                (* break / continue / return pass through *)
              end in
            match caught with
            | Fuel => Fuel
            | Res c fr3 g3 =>
                match sexec n' vs fn f fr3 (mark CFin g3) with       (* ghost event: the finally block starts *)
                | Fuel => Fuel
                | Res INone fr4 g4 => Res c fr4 g4
                | Res cf fr4 g4 => Res cf fr4 g4                  (* a control from finally replaces the pending one *)
                end
            end
        end
    | SIfInst x T t e =>                                          (* IfStatement over InstanceOfExpression *)
        if (match srd vs fn x fr g with VObj _ _ _ => cm T (srd vs fn x fr g) | _ => false end)
        then sexec n' vs fn t fr g else sexec n' vs fn e fr g
    | SThrow e =>                                                 (* ThrowStatement.GetValue *)
        match ev e fr g with
        | Res (EV v) fr g => Res (IThrow (thrown_of v)) fr g
        | Res (EX x) fr g => Res (IThrow x) fr g
        | Fuel => Fuel
        end
    end
  end.

(* Program.GetValue on a fresh VM: a ReturnControl ends the script normally; any other control
   that reaches the top is handed to the VM's handler (diagnostic, failure) *)
Definition srun (n : nat) (p : stmt) : obs :=
  match sexec n (vars_stmt p []) "" p (sfresh (vars_stmt p []), []) empty_glob with
  | Fuel => ("", EndFuel)
  | Res c _ g =>
      (output g, match c with INone | IRet _ => EndOk | _ => EndError end)
  end.
End Stmt.

Definition run_slots (cm : catchfn) (n : nat) (p : prog) : obs := srun cm (funcs p) (closures p) n (main p).
