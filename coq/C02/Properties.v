(* C02 — the property, clause by clause.  Only statements here; every proof is `exact lemma`. *)
From Coq Require Import List String ZArith Bool.
From V.C02 Require Import Lang Model Spec Wf Proofs Slots ProofsSlots SlotModel ProofsSlotUnfold ProofsSlotSim.
Import ListNotations.
Open Scope string_scope.

(* "a program built from assignments, if/elseif/else, while, do-while, for, foreach, switch,
   break/continue with levels, user functions with defaults, recursion, static locals and return
   prints exactly what the reference semantics prescribe": for EVERY program of the core that a
   PHP front end accepts ([wf]) — no defect class is excluded any more, every class once outside
   [clean] has been repaired in /repo (see repaired_classes) — and for EVERY fuel, the implementation's interpreter and the reference interpreter produce the same
   echoed text and the same kind of ending (normal / uncaught error / out of fuel).
   The AST also contains try/catch/finally and throw (property C05); the two interpreters take the
   catch-type test as a parameter ([cmi]: the walk the code performs, [cmr]: "the class, an ancestor
   or an implemented interface"), and the theorem asks that the two tests agree — C05 discharges
   that from C08's theorems; programs without catch clauses never consult it. *)
Theorem impl_refines_ref : forall cmi cmr, (forall t v, cmi t v = cmr t v) ->
  forall fuel p, wf p = true ->
  run_impl cmi fuel p = run_ref cmr fuel p.
Proof. exact impl_refines_ref_wf_l. Qed.
Print Assumptions impl_refines_ref.

(* "every loop exit and return transfers control to exactly the construct it names": for every
   statement [s] of such a program, in every context (function [fn], stack [stk] of enclosing
   loops/switches, position [path], frame, global state), the two interpreters end in the same
   state, and the control the implementation returns — a level counter — denotes, under [stk],
   exactly the construct identifier the reference semantics resolved statically ([crel]):
   IBrk k ~ RBrk l iff the k-th enclosing construct is l, IRet v ~ RRet v, nothing else. *)
Theorem exits_reach_named_construct : forall cmi cmr, (forall t v, cmi t v = cmr t v) ->
  forall p, wf p = true ->
  forall fuel fn s stk path fr g,
  scoped (List.length stk) s = true -> one_default s = true ->
  shorter stk path ->
  rrel stk (iexec cmi (funcs p) (closures p) fuel fn s fr g) (rexec cmr (funcs p) (closures p) fuel fn (resolve stk path s) fr g).
Proof. exact exits_named_wf_l. Qed.
Print Assumptions exits_reach_named_construct.

(* "fast-path integer nodes falling back": whenever a fused node's fast path fires it yields,
   for every operand kind held by the variables, what the node it replaced yields. *)
(* VarFastAssign ($x = $y | $x = <int> | $x = a + b | $x = a * b) *)
Theorem fast_assign_sound : forall cf funs clos fn x r fr g z,
  fast_assign fn r fr g = Some z ->
  ieval cf funs clos fn r fr g = Res (EV (VInt z)) fr g /\
  ieval cf funs clos fn (EAssign x r) fr g =
    (let '(fr', g') := wr fn x (VInt z) fr g in Res (EV (VInt z)) fr' g').
Proof. exact fast_assign_sound_l. Qed.
Print Assumptions fast_assign_sound.
(* VarIntLe ($x <= <int>): the fast answer is the answer of the BinaryLe it wraps *)
Theorem var_int_le_sound : forall cf funs clos fn a b fr g t,
  var_int_le fn a b fr g = Some t ->
  islow funs clos fn cf Le a b fr g = Res (EV (VBool t)) fr g.
Proof. exact var_int_le_sound_l. Qed.
Print Assumptions var_int_le_sound.
(* VarStmtIncr (for-increments): same effect as evaluating the $x++ it replaced *)
Theorem stmt_incr_sound : forall cf funs clos fn a fr g,
  ieval_incs cf funs clos fn a fr g = ieval_each cf funs clos fn a fr g.
Proof. exact stmt_incr_sound_l. Qed.
Print Assumptions stmt_incr_sound.
(* BoolTest in ForStatement: same truth value as GetValue + AsBool *)
Theorem bool_test_sound : forall cf funs clos fn c fr g,
  icond_for cf funs clos fn c fr g = icond cf funs clos fn c fr g.
Proof. exact bool_test_sound_l. Qed.
Print Assumptions bool_test_sound.

(* "locals of one call are never visible to another call": a call evaluates its arguments in
   the caller's frame and hands the callee nothing but the argument VALUES and the global state
   ([cf f vs g1] has no frame argument); the caller's frame after the call is exactly what the
   argument evaluation left, whatever the callee did. *)
Theorem call_leaves_caller_frame : forall cf funs clos fn f a fr g o fr' g',
  ieval cf funs clos fn (ECall f a) fr g = Res o fr' g' ->
  (exists x, ieval_args cf funs clos fn a fr g = Res (inr x) fr' g' /\ o = EX x) \/
  (find_fun funs f = None /\ fr' = fr /\ g' = g) \/
  (exists vs g1, ieval_args cf funs clos fn a fr g = Res (inl vs) fr' g1 /\ cf (CFun f) vs g1 = Some (o, g')).
Proof. exact call_frames_l. Qed.
Print Assumptions call_leaves_caller_frame.
(* ... and the call function the statement interpreter builds runs the body in a frame that
   contains the bound parameters and nothing else, and drops that frame afterwards *)
Theorem callee_frame_is_fresh : forall cm funs clos n f vs g,
  icallf cm funs clos n (CFun f) vs g =
  match find_fun funs f with
  | None => Some (EX (err "undefined function"), g)
  | Some d =>
      if enough_args (fparams d) vs then
        match iexec cm funs clos n f (fbody d) (bind_params (fparams d) vs [], []) g with
        | Fuel => None
        | Res c _ g' => Some (call_result c, g')
        end
      else Some (EX (VErr "too few arguments"), g)
  end.
Proof. exact (fun _ _ _ _ _ _ _ => eq_refl). Qed.
Print Assumptions callee_frame_is_fresh.
(* a closure call: a fresh frame holding the bound parameters and the values captured when the closure
   object was CREATED ([cap] travels inside the closure value; see ieval on EClosure), static cells of
   its own ([clo_name oid]); nothing of the caller's or of the defining function's current frame *)
Theorem closure_frame_is_fresh : forall cm funs clos n id oid cap vs g,
  icallf cm funs clos n (CClo id oid cap) vs g =
  match nth_error clos id with
  | None => Some (EX (VErr "no such closure"), g)
  | Some cd =>
      if enough_args (cparams cd) vs then
        match iexec cm funs clos n (clo_name oid) (cbody cd) (bind_captured cap (bind_params (cparams cd) vs []), []) g with
        | Fuel => None
        | Res c _ g' => Some (call_result c, g')
        end
      else Some (EX (VErr "too few arguments"), g)
  end.
Proof. exact (fun _ _ _ _ _ _ _ _ _ => eq_refl). Qed.
Print Assumptions closure_frame_is_fresh.

(* "each call gets a fresh slot vector indexed by parse-time variable index": SlotSem (SlotModel.v) is
   ImplSem with the call frame as runtime/context.go has it — a vector of named cells, one per variable of
   the function's symbol table (parameters first, then first occurrence), allocated full of nulls at the
   call, read and written by index.  For every program whose tables cover their bodies ([cov_prog],
   recomputed for every generated program: Run.check_case clause 6) and every fuel it computes what
   ImplSem computes ... *)
Theorem slot_sem_is_impl_sem : forall cm fuel p, cov_prog p = true -> run_slots cm fuel p = run_impl cm fuel p.
Proof. exact slot_sem_is_impl_sem_l. Qed.
Print Assumptions slot_sem_is_impl_sem.
(* ... statement by statement, from related frames to related frames ([E]: same static bindings, one cell
   per table entry, cell index_of(x) holds what the map holds for x), same control, same global state *)
Theorem slot_sim_statement : forall cm funs clos,
  (forall f d, find_fun funs f = Some d ->
     forallb (fun q => mem (fst q) (fun_vars d)) (fparams d) = true /\ cov_stmt clos (fun_vars d) (fbody d) = true) ->
  (forall id cd, nth_error clos id = Some cd ->
     forallb (fun q => mem (fst q) (clo_vars cd)) (cparams cd) = true /\ cov_stmt clos (clo_vars cd) (cbody cd) = true) ->
  forall n vs fn s fr sf g, E vs fr sf -> cov_stmt clos vs s = true ->
  erel vs (iexec cm funs clos n fn s fr g) (sexec cm funs clos n vs fn s sf g).
Proof. exact slot_sim. Qed.
Print Assumptions slot_sim_statement.
(* hence the slot-vector interpreter refines the reference semantics too *)
Theorem slots_refine_ref : forall cmi cmr, (forall t v, cmi t v = cmr t v) ->
  forall fuel p, wf p = true -> cov_prog p = true ->
  run_slots cmi fuel p = run_ref cmr fuel p.
Proof.
  exact (fun cmi cmr H fuel p W V =>
           eq_trans (slot_sem_is_impl_sem_l cmi fuel p V) (impl_refines_ref_wf_l cmi cmr H fuel p W)).
Qed.
Print Assumptions slots_refine_ref.
(* "locals of one call are never visible to another call", on vectors: the callee of a named function
   runs on a vector allocated for ITS table, holding nulls and the bound parameters (a closure: plus
   its captured values); the caller's vector after the call is the one argument evaluation left *)
Theorem callee_vector_is_fresh : forall cm funs clos n f avs g,
  scallf cm funs clos n (CFun f) avs g =
  match find_fun funs f with
  | None => Some (EX (err "undefined function"), g)
  | Some d =>
      if enough_args (fparams d) avs then
        match sexec cm funs clos n (fun_vars d) f (fbody d) (sbind_params (fun_vars d) (fparams d) avs (sfresh (fun_vars d)), []) g with
        | Fuel => None
        | Res c _ g' => Some (call_result c, g')
        end
      else Some (EX (VErr "too few arguments"), g)
  end.
Proof. exact (fun _ _ _ _ _ _ _ => eq_refl). Qed.
Print Assumptions callee_vector_is_fresh.
Theorem call_leaves_caller_vector : forall cf funs clos vs fn f a fr g o fr' g',
  seval cf funs clos vs fn (ECall f a) fr g = Res o fr' g' ->
  (exists x, seval_args cf funs clos vs fn a fr g = Res (inr x) fr' g' /\ o = EX x) \/
  (find_fun funs f = None /\ fr' = fr /\ g' = g) \/
  (exists avs g1, seval_args cf funs clos vs fn a fr g = Res (inl avs) fr' g1 /\ cf (CFun f) avs g1 = Some (o, g')).
Proof. exact scall_frames_l. Qed.
Print Assumptions call_leaves_caller_vector.
(* the vector operations themselves *)
Theorem slot_vector_represents_frame : forall vs,
  vrel vs [] (vfresh vs) /\
  (forall e vec x, vrel vs e vec -> mem x vs = true -> vrd vs vec x = Some (lookup x e)) /\
  (forall e vec x v, vrel vs e vec -> mem x vs = true ->
     exists vec', vwr vs vec x v = Some vec' /\ vrel vs (update x v e) vec') /\
  (forall vec x v, mem x vs = false -> vwr vs vec x v = None).
Proof.
  exact (fun vs => conj (vrel_fresh vs) (conj (vrel_rd vs) (conj (vrel_wr vs) (vwr_unlisted vs)))).
Qed.
Print Assumptions slot_vector_represents_frame.
Theorem slots_distinct : forall x y vs i, index_of x vs = Some i -> index_of y vs = Some i -> x = y.
Proof. exact index_of_inj. Qed.
Print Assumptions slots_distinct.

(* "named arguments are bound by parameter name" (/repo 023935e, 79da08f): what the code does with its
   per-parameter cells and index scans ([named_ok_impl], [arrange_impl]: CallExpression.GetValue ->
   bindNamedCall) is what the reference semantics says with association lists — a named argument is
   accepted iff a parameter carries the name, that parameter got no positional argument and the name was
   not used before; every parameter then receives its positional argument, else the argument named after
   it, else its default, and a parameter left without any makes the call an ArgumentCountError.  Both are
   used by the interpreters' ECallN case, so impl_refines_ref covers calls with named arguments. *)
Theorem named_argument_check : forall ps vs x seen, named_ok_impl ps vs x seen = named_ok_spec ps vs x seen.
Proof. exact named_ok_eq. Qed.
Print Assumptions named_argument_check.
Theorem named_arguments_bound_by_name : forall ps vs nvs, arrange_impl ps vs nvs = arrange_spec ps vs nvs.
Proof. exact arrange_eq. Qed.
Print Assumptions named_arguments_bound_by_name.
(* function f($a = 1, $b = 2, $c = 3): f(c: 9) passes 1, 2, 9 and f(5, c: 9) passes 5, 2, 9 (the code before the
   repair passed null, 2, 3 and 5, null, 3); f(5, a: 9) and f(d: 1) are refused, g(y: 2) with function g($x, $y = 10)
   lacks $x *)
Theorem named_arguments_examples :
  let ps := [("a", Some (VInt 1)); ("b", Some (VInt 2)); ("c", Some (VInt 3))] in
  arrange_impl ps [] [("c", VInt 9)] = Some [VInt 1; VInt 2; VInt 9] /\
  arrange_impl ps [VInt 5] [("c", VInt 9)] = Some [VInt 5; VInt 2; VInt 9] /\
  named_ok_impl ps [VInt 5] "a" [] = false /\ named_ok_impl ps [] "d" [] = false /\
  named_ok_impl ps [] "c" [("c", VInt 9)] = false /\ named_ok_impl ps [VInt 5] "c" [("b", VInt 7)] = true /\
  arrange_impl [("x", None); ("y", Some (VInt 10))] [] [("y", VInt 2)] = None.
Proof. vm_compute. repeat split. Qed.
Print Assumptions named_arguments_examples.

(* The classes that used to be outside [clean] and have been repaired in /repo (switch fall-through in three
   positions: 8109483; static in the main script: d3ebf7f; a closure running off its end: 1b0c649): the former
   `_refuted` witnesses are now inside the theorem, and both interpreters compute PHP's answer on them.
   No class is left outside: [clean] holds of every program. *)
Theorem repaired_classes :
  map (run_impl no_catch 50) [w_fallthrough; w_case_group; w_default_first; w_static_main; w_closure_falloff]
  = [("ab", EndOk); ("x", EndOk); ("d1", EndOk); ("12", EndOk); ("null", EndOk)] /\
  map (run_ref no_catch 50) [w_fallthrough; w_case_group; w_default_first; w_static_main; w_closure_falloff]
  = [("ab", EndOk); ("x", EndOk); ("d1", EndOk); ("12", EndOk); ("null", EndOk)] /\
  forallb wf [w_fallthrough; w_case_group; w_default_first; w_static_main; w_closure_falloff] = true.
Proof. exact repaired_classes_l. Qed.
Print Assumptions repaired_classes.
Theorem no_class_excluded : forall p, clean p = true.
Proof. exact clean_all. Qed.
Print Assumptions no_class_excluded.
