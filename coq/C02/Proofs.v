(* C02 — lemmas: ImplSem refines RefSem on wf ∧ clean programs. *)
From Coq Require Import List String ZArith Bool Arith Lia.
From V.C02 Require Import Lang Model Spec Wf.
Import ListNotations.
Open Scope string_scope.

(* ---------- the call functions the two interpreters build at fuel n ---------- *)
Definition icallf (cm : catchfn) (funs : list fundef) (clos : list clodef) (n : nat) : callfn := fun c vs g =>
  match c with
  | CFun f =>
      match find_fun funs f with
      | None => Some (EX (err "undefined function"), g)
      | Some d =>
          if enough_args (fparams d) vs then
            match iexec cm funs clos n f (fbody d) (bind_params (fparams d) vs [], []) g with
            | Fuel => None
            | Res c _ g' => Some (call_result c, g')
            end
          else Some (EX (VErr "too few arguments"), g)
      end
  | CClo id oid cap =>
      match nth_error clos id with
      | None => Some (EX (VErr "no such closure"), g)
      | Some cd =>
          if enough_args (cparams cd) vs then
            match iexec cm funs clos n (clo_name oid) (cbody cd) (bind_captured cap (bind_params (cparams cd) vs []), []) g with
            | Fuel => None
            | Res c _ g' => Some (call_result c, g')
            end
          else Some (EX (VErr "too few arguments"), g)
      end
  end.
Definition rcallf (cm : catchfn) (funs : list fundef) (clos : list clodef) (n : nat) : callfn := fun c vs g =>
  match c with
  | CFun f =>
      match find_fun funs f with
      | None => Some (EX (err "undefined function"), g)
      | Some d =>
          if enough_args (fparams d) vs then
            match rexec cm funs clos n f (resolve [] [] (fbody d)) (bind_params (fparams d) vs [], []) g with
            | Fuel => None
            | Res c _ g' => Some (rcall_result c, g')
            end
          else Some (EX (VErr "too few arguments"), g)
      end
  | CClo id oid cap =>
      match nth_error clos id with
      | None => Some (EX (VErr "no such closure"), g)
      | Some cd =>
          if enough_args (cparams cd) vs then
            match rexec cm funs clos n (clo_name oid) (resolve [] [] (cbody cd)) (bind_captured cap (bind_params (cparams cd) vs []), []) g with
            | Fuel => None
            | Res c _ g' => Some (rcall_result c, g')
            end
          else Some (EX (VErr "too few arguments"), g)
      end
  end.

Section Unfold.
Variable cm : catchfn.
Variable funs : list fundef.
Variable clos : list clodef.
Variables (n : nat) (fn : string) (fr : frame) (g : glob).
Let ev := ieval (icallf cm funs clos n) funs clos fn.
Let cond := icond (icallf cm funs clos n) funs clos fn.

Lemma iexec_0 s : iexec cm funs clos 0 fn s fr g = Fuel.
Proof. reflexivity. Qed.
Lemma iexec_skip : iexec cm funs clos (S n) fn SSkip fr g = Res INone fr g.
Proof. reflexivity. Qed.
Lemma iexec_seq a b : iexec cm funs clos (S n) fn (SSeq a b) fr g =
  match iexec cm funs clos n fn a fr g with Res INone fr g => iexec cm funs clos n fn b fr g | r => r end.
Proof. reflexivity. Qed.
Lemma iexec_expr e : iexec cm funs clos (S n) fn (SExpr e) fr g =
  match ev e fr g with
  | Res (EV _) fr g => Res INone fr g | Res (EX x) fr g => Res (IThrow x) fr g | Fuel => Fuel end.
Proof. reflexivity. Qed.
Lemma iexec_echo e : iexec cm funs clos (S n) fn (SEcho e) fr g =
  match ev e fr g with
  | Res (EV v) fr g => Res INone fr (emit (to_str v) g) | Res (EX x) fr g => Res (IThrow x) fr g | Fuel => Fuel end.
Proof. reflexivity. Qed.
Lemma iexec_push x e : iexec cm funs clos (S n) fn (SPush x e) fr g =
  match ev e fr g with
  | Res (EV v) fr g => let '(fr', g') := wr fn x (arr_push (rd fn x fr g) v) fr g in Res INone fr' g'
  | Res (EX x) fr g => Res (IThrow x) fr g | Fuel => Fuel end.
Proof. reflexivity. Qed.
Lemma iexec_setidx x k e : iexec cm funs clos (S n) fn (SSetIdx x k e) fr g =
  match ev e fr g with
  | Res (EV v) fr g => let '(fr', g') := wr fn x (arr_set (rd fn x fr g) (VInt k) v) fr g in Res INone fr' g'
  | Res (EX x) fr g => Res (IThrow x) fr g | Fuel => Fuel end.
Proof. reflexivity. Qed.
Definition ielif (e : stmt) := fix elif (l : elifs) (fr : frame) (g : glob) : res ictl :=
  match l with
  | EINil => iexec cm funs clos n fn e fr g
  | EICons c b r => thr (cond c fr g) (fun t fr g => if t then iexec cm funs clos n fn b fr g else elif r fr g)
  end.
Lemma iexec_if c t ei e : iexec cm funs clos (S n) fn (SIf c t ei e) fr g =
  thr (cond c fr g) (fun b fr g => if b then iexec cm funs clos n fn t fr g else ielif e ei fr g).
Proof. reflexivity. Qed.
Lemma iexec_while c b : iexec cm funs clos (S n) fn (SWhile c b) fr g =
  thr (cond c fr g) (fun t fr g =>
    if t then
      match iexec cm funs clos n fn b fr g with
      | Fuel => Fuel
      | Res cb fr g =>
          match loop_ctl cb with
          | LNext => iexec cm funs clos n fn (SWhile c b) fr g
          | LExit c' => Res c' fr g
          end
      end
    else Res INone fr g).
Proof. reflexivity. Qed.
Lemma iexec_dowhile b c : iexec cm funs clos (S n) fn (SDoWhile b c) fr g =
  match iexec cm funs clos n fn b fr g with
  | Fuel => Fuel
  | Res cb fr g =>
      match loop_ctl cb with
      | LNext => thr (cond c fr g) (fun t fr g => if t then iexec cm funs clos n fn (SDoWhile b c) fr g else Res INone fr g)
      | LExit c' => Res c' fr g
      end
  end.
Proof. reflexivity. Qed.
Lemma iexec_for init c inc b : iexec cm funs clos (S n) fn (SFor init c inc b) fr g =
  match ieval_each (icallf cm funs clos n) funs clos fn init fr g with
  | Fuel => Fuel
  | Res (Some x) fr g => Res (IThrow x) fr g
  | Res None fr g =>
      thr (icond_for (icallf cm funs clos n) funs clos fn c fr g) (fun t fr g =>
        if t then
          match iexec cm funs clos n fn b fr g with
          | Fuel => Fuel
          | Res cb fr g =>
              match loop_ctl cb with
              | LNext =>
                  match ieval_incs (icallf cm funs clos n) funs clos fn inc fr g with
                  | Fuel => Fuel
                  | Res (Some x) fr g => Res (IThrow x) fr g
                  | Res None fr g => iexec cm funs clos n fn (SFor ANil c inc b) fr g
                  end
              | LExit c' => Res c' fr g
              end
          end
        else Res INone fr g)
  end.
Proof. reflexivity. Qed.
Definition ieach (k : option string) (v : string) (b : stmt) := fix each (l : list (value * value)) (fr : frame) (g : glob) : res ictl :=
  match l with
  | [] => Res INone fr g
  | (kv, vv) :: r =>
      let '(fr1, g1) := wr fn v vv fr g in
      let '(fr2, g2) := match k with Some kx => wr fn kx kv fr1 g1 | None => (fr1, g1) end in
      match iexec cm funs clos n fn b fr2 g2 with
      | Fuel => Fuel
      | Res cb fr g =>
          match loop_ctl cb with
          | LNext => each r fr g
          | LExit c' => Res c' fr g
          end
      end
  end.
Lemma iexec_foreach a k v b : iexec cm funs clos (S n) fn (SForeach a k v b) fr g =
  match ev a fr g with
  | Fuel => Fuel
  | Res (EX x) fr g => Res (IThrow x) fr g
  | Res (EV av) fr g =>
      match foreach_items av with
      | None => Res (IThrow (err "foreach over a non-array")) fr g
      | Some items => ieach k v b items fr g
      end
  end.
Proof. reflexivity. Qed.
Definition irunc := fix run (l : clauses) (fr : frame) (g : glob) : res ictl :=
  match l with
  | CLNil => Res INone fr g
  | CLCase _ b r | CLDefault b r =>
      match iexec cm funs clos n fn b fr g with
      | Fuel => Fuel
      | Res cb fr g =>
          match cb with
          | INone => run r fr g
          | _ => Res (switch_ctl cb) fr g
          end
      end
  end.
Definition icases (cl : clauses) (cv : value) := fix cases (l : clauses) (fr : frame) (g : glob) : res ictl :=
  match l with
  | CLNil => irunc (default_entry cl) fr g
  | CLDefault _ r => cases r fr g
  | CLCase e _ r =>
      match ev e fr g with
      | Fuel => Fuel
      | Res (EX x) fr g => Res (IThrow x) fr g
      | Res (EV v) fr g => if switch_match cv v then irunc l fr g else cases r fr g
      end
  end.
Lemma iexec_switch c cl : iexec cm funs clos (S n) fn (SSwitch c cl) fr g =
  match ev c fr g with
  | Fuel => Fuel
  | Res (EX x) fr g => Res (IThrow x) fr g
  | Res (EV cv) fr g => icases cl cv cl fr g
  end.
Proof. reflexivity. Qed.
Lemma iexec_break k : iexec cm funs clos (S n) fn (SBreak k) fr g = Res (IBrk k) fr g.
Proof. reflexivity. Qed.
Lemma iexec_continue k : iexec cm funs clos (S n) fn (SContinue k) fr g = Res (ICnt k) fr g.
Proof. reflexivity. Qed.
Lemma iexec_return_none : iexec cm funs clos (S n) fn (SReturn None) fr g = Res (IRet VNull) fr g.
Proof. reflexivity. Qed.
Lemma iexec_return e : iexec cm funs clos (S n) fn (SReturn (Some e)) fr g =
  match ev e fr g with
  | Res (EV v) fr g => Res (IRet v) fr g | Res (EX x) fr g => Res (IThrow x) fr g | Fuel => Fuel end.
Proof. reflexivity. Qed.
Lemma iexec_static x init : iexec cm funs clos (S n) fn (SStatic x init) fr g =
  let st := match sget (fn, x) (gstat g) with Some _ => gstat g | None => sset (fn, x) init (gstat g) end in
  Res INone (fst fr, x :: snd fr) (set_stat st g).
Proof. reflexivity. Qed.
Lemma iexec_try b cs f : iexec cm funs clos (S n) fn (STry b cs f) fr g =
  match iexec cm funs clos n fn b fr (mark CTry g) with
  | Fuel => Fuel
  | Res cb fr1 g1 =>
      match
        match cb with
        | IThrow x =>
            match find_catch cm cs x with
            | Some (xv, cbody) =>
                let '(fr2, g2) := match xv with Some v => wr fn v x fr1 g1 | None => (fr1, g1) end in
                iexec cm funs clos n fn cbody fr2 g2
            | None => Res cb fr1 g1
            end
        | _ => Res cb fr1 g1
        end
      with
      | Fuel => Fuel
      | Res c fr3 g3 =>
          match iexec cm funs clos n fn f fr3 (mark CFin g3) with
          | Fuel => Fuel
          | Res INone fr4 g4 => Res c fr4 g4
          | Res cf fr4 g4 => Res cf fr4 g4
          end
      end
  end.
Proof. reflexivity. Qed.
Lemma iexec_ifinst x T t e : iexec cm funs clos (S n) fn (SIfInst x T t e) fr g =
  if (match rd fn x fr g with VObj _ _ _ => cm T (rd fn x fr g) | _ => false end)
  then iexec cm funs clos n fn t fr g else iexec cm funs clos n fn e fr g.
Proof. reflexivity. Qed.
Lemma iexec_throw e : iexec cm funs clos (S n) fn (SThrow e) fr g =
  match ev e fr g with
  | Res (EV v) fr g => Res (IThrow (thrown_of v)) fr g
  | Res (EX x) fr g => Res (IThrow x) fr g
  | Fuel => Fuel
  end.
Proof. reflexivity. Qed.
End Unfold.

Section UnfoldR.
Variable cm : catchfn.
Variable funs : list fundef.
Variable clos : list clodef.
Variables (n : nat) (fn : string) (fr : frame) (g : glob).
Let ev := reval (rcallf cm funs clos n) funs clos fn.
Let cond := rcond (rcallf cm funs clos n) funs clos fn.

Lemma rexec_0 s : rexec cm funs clos 0 fn s fr g = Fuel.
Proof. reflexivity. Qed.
Lemma rexec_skip : rexec cm funs clos (S n) fn RSkip fr g = Res RNone fr g.
Proof. reflexivity. Qed.
Lemma rexec_seq a b : rexec cm funs clos (S n) fn (RSeq a b) fr g =
  match rexec cm funs clos n fn a fr g with Res RNone fr g => rexec cm funs clos n fn b fr g | r => r end.
Proof. reflexivity. Qed.
Lemma rexec_expr e : rexec cm funs clos (S n) fn (RExpr e) fr g =
  match ev e fr g with
  | Res (EV _) fr g => Res RNone fr g | Res (EX x) fr g => Res (RThrow x) fr g | Fuel => Fuel end.
Proof. reflexivity. Qed.
Lemma rexec_echo e : rexec cm funs clos (S n) fn (REcho e) fr g =
  match ev e fr g with
  | Res (EV v) fr g => Res RNone fr (emit (to_str v) g) | Res (EX x) fr g => Res (RThrow x) fr g | Fuel => Fuel end.
Proof. reflexivity. Qed.
Lemma rexec_push x e : rexec cm funs clos (S n) fn (RPush x e) fr g =
  match ev e fr g with
  | Res (EV v) fr g => let '(fr', g') := wr fn x (arr_push (rd fn x fr g) v) fr g in Res RNone fr' g'
  | Res (EX x) fr g => Res (RThrow x) fr g | Fuel => Fuel end.
Proof. reflexivity. Qed.
Lemma rexec_setidx x k e : rexec cm funs clos (S n) fn (RSetIdx x k e) fr g =
  match ev e fr g with
  | Res (EV v) fr g => let '(fr', g') := wr fn x (arr_set (rd fn x fr g) (VInt k) v) fr g in Res RNone fr' g'
  | Res (EX x) fr g => Res (RThrow x) fr g | Fuel => Fuel end.
Proof. reflexivity. Qed.
Definition relif (e : rstmt) := fix elif (l : relifs) (fr : frame) (g : glob) : res rctl :=
  match l with
  | REINil => rexec cm funs clos n fn e fr g
  | REICons c b r => rthr (cond c fr g) (fun t fr g => if t then rexec cm funs clos n fn b fr g else elif r fr g)
  end.
Lemma rexec_if c t ei e : rexec cm funs clos (S n) fn (RIf c t ei e) fr g =
  rthr (cond c fr g) (fun b fr g => if b then rexec cm funs clos n fn t fr g else relif e ei fr g).
Proof. reflexivity. Qed.
Lemma rexec_while id c b : rexec cm funs clos (S n) fn (RWhile id c b) fr g =
  rthr (cond c fr g) (fun t fr g =>
    if t then
      match rexec cm funs clos n fn b fr g with
      | Fuel => Fuel
      | Res cb fr g =>
          match rloop_ctl id cb with
          | RLNext => rexec cm funs clos n fn (RWhile id c b) fr g
          | RLExit c' => Res c' fr g
          end
      end
    else Res RNone fr g).
Proof. reflexivity. Qed.
Lemma rexec_dowhile id b c : rexec cm funs clos (S n) fn (RDoWhile id b c) fr g =
  match rexec cm funs clos n fn b fr g with
  | Fuel => Fuel
  | Res cb fr g =>
      match rloop_ctl id cb with
      | RLNext => rthr (cond c fr g) (fun t fr g => if t then rexec cm funs clos n fn (RDoWhile id b c) fr g else Res RNone fr g)
      | RLExit c' => Res c' fr g
      end
  end.
Proof. reflexivity. Qed.
Lemma rexec_for id init c inc b : rexec cm funs clos (S n) fn (RFor id init c inc b) fr g =
  match reval_each (rcallf cm funs clos n) funs clos fn init fr g with
  | Fuel => Fuel
  | Res (Some x) fr g => Res (RThrow x) fr g
  | Res None fr g =>
      rthr (cond c fr g) (fun t fr g =>
        if t then
          match rexec cm funs clos n fn b fr g with
          | Fuel => Fuel
          | Res cb fr g =>
              match rloop_ctl id cb with
              | RLNext =>
                  match reval_each (rcallf cm funs clos n) funs clos fn inc fr g with
                  | Fuel => Fuel
                  | Res (Some x) fr g => Res (RThrow x) fr g
                  | Res None fr g => rexec cm funs clos n fn (RFor id ANil c inc b) fr g
                  end
              | RLExit c' => Res c' fr g
              end
          end
        else Res RNone fr g)
  end.
Proof. reflexivity. Qed.
Definition reach (id : lid) (k : option string) (v : string) (b : rstmt) := fix each (l : list (value * value)) (fr : frame) (g : glob) : res rctl :=
  match l with
  | [] => Res RNone fr g
  | (kv, vv) :: r =>
      let '(fr1, g1) := wr fn v vv fr g in
      let '(fr2, g2) := match k with Some kx => wr fn kx kv fr1 g1 | None => (fr1, g1) end in
      match rexec cm funs clos n fn b fr2 g2 with
      | Fuel => Fuel
      | Res cb fr g =>
          match rloop_ctl id cb with
          | RLNext => each r fr g
          | RLExit c' => Res c' fr g
          end
      end
  end.
Lemma rexec_foreach id a k v b : rexec cm funs clos (S n) fn (RForeach id a k v b) fr g =
  match ev a fr g with
  | Fuel => Fuel
  | Res (EX x) fr g => Res (RThrow x) fr g
  | Res (EV av) fr g =>
      match foreach_items av with
      | None => Res (RThrow (err "foreach over a non-array")) fr g
      | Some items => reach id k v b items fr g
      end
  end.
Proof. reflexivity. Qed.
Definition rrunc (id : lid) := fix run (l : rclauses) (fr : frame) (g : glob) : res rctl :=
  match l with
  | RCLNil => Res RNone fr g
  | RCLCase _ b r | RCLDefault b r =>
      match rexec cm funs clos n fn b fr g with
      | Fuel => Fuel
      | Res cb fr g =>
          match cb with
          | RNone => run r fr g
          | RBrk l' | RCnt l' => if lid_eqb l' id then Res RNone fr g else Res cb fr g
          | _ => Res cb fr g
          end
      end
  end.
Definition rfind (id : lid) (cl : rclauses) (cv : value) := fix find (l : rclauses) (fr : frame) (g : glob) : res rctl :=
  match l with
  | RCLNil => rrunc id (from_default cl) fr g
  | RCLDefault _ r => find r fr g
  | RCLCase e _ r =>
      match ev e fr g with
      | Fuel => Fuel
      | Res (EX x) fr g => Res (RThrow x) fr g
      | Res (EV v) fr g => if switch_match cv v then rrunc id l fr g else find r fr g
      end
  end.
Lemma rexec_switch id c cl : rexec cm funs clos (S n) fn (RSwitch id c cl) fr g =
  match ev c fr g with
  | Fuel => Fuel
  | Res (EX x) fr g => Res (RThrow x) fr g
  | Res (EV cv) fr g => rfind id cl cv cl fr g
  end.
Proof. reflexivity. Qed.
Lemma rexec_brk l : rexec cm funs clos (S n) fn (RBrkTo l) fr g = Res (RBrk l) fr g.
Proof. reflexivity. Qed.
Lemma rexec_cnt l : rexec cm funs clos (S n) fn (RCntTo l) fr g = Res (RCnt l) fr g.
Proof. reflexivity. Qed.
Lemma rexec_bad : rexec cm funs clos (S n) fn RBad fr g =
  Res (RThrow (err "'break'/'continue' not in the 'loop' or 'switch' context")) fr g.
Proof. reflexivity. Qed.
Lemma rexec_return_none : rexec cm funs clos (S n) fn (RReturn None) fr g = Res (RRet VNull) fr g.
Proof. reflexivity. Qed.
Lemma rexec_return e : rexec cm funs clos (S n) fn (RReturn (Some e)) fr g =
  match ev e fr g with
  | Res (EV v) fr g => Res (RRet v) fr g | Res (EX x) fr g => Res (RThrow x) fr g | Fuel => Fuel end.
Proof. reflexivity. Qed.
Lemma rexec_static x init : rexec cm funs clos (S n) fn (RStatic x init) fr g =
  let st := match sget (fn, x) (gstat g) with Some _ => gstat g | None => sset (fn, x) init (gstat g) end in
  Res RNone (fst fr, x :: snd fr) (set_stat st g).
Proof. reflexivity. Qed.
Lemma rexec_try b cs f : rexec cm funs clos (S n) fn (RTry b cs f) fr g =
  match rexec cm funs clos n fn b fr (mark CTry g) with
  | Fuel => Fuel
  | Res cb fr1 g1 =>
      match
        match cb with
        | RThrow x =>
            match handler_for cm cs x with
            | Some (xv, h) =>
                let '(fr2, g2) := match xv with Some v => wr fn v x fr1 g1 | None => (fr1, g1) end in
                rexec cm funs clos n fn h fr2 g2
            | None => Res cb fr1 g1
            end
        | _ => Res cb fr1 g1
        end
      with
      | Fuel => Fuel
      | Res c fr3 g3 =>
          match rexec cm funs clos n fn f fr3 (mark CFin g3) with
          | Fuel => Fuel
          | Res RNone fr4 g4 => Res c fr4 g4
          | Res cf fr4 g4 => Res cf fr4 g4
          end
      end
  end.
Proof. reflexivity. Qed.
Lemma rexec_ifinst x T t e : rexec cm funs clos (S n) fn (RIfInst x T t e) fr g =
  if (match rd fn x fr g with VObj _ _ _ => cm T (rd fn x fr g) | _ => false end)
  then rexec cm funs clos n fn t fr g else rexec cm funs clos n fn e fr g.
Proof. reflexivity. Qed.
Lemma rexec_throw e : rexec cm funs clos (S n) fn (RThrowSt e) fr g =
  match ev e fr g with
  | Res (EV v) fr g => Res (RThrow (thrown_of v)) fr g
  | Res (EX x) fr g => Res (RThrow x) fr g
  | Fuel => Fuel
  end.
Proof. reflexivity. Qed.
End UnfoldR.

(* ---------- expressions: the fast paths are sound, ieval = reval ---------- *)
Scheme expr_ind2 := Induction for expr Sort Prop
  with args_ind2 := Induction for args Sort Prop
  with marms_ind2 := Induction for marms Sort Prop.
Combined Scheme expr_args_ind from expr_ind2, args_ind2, marms_ind2.

(* ---------- named arguments: the cells of the code = the per-parameter reading of the reference ---------- *)
Lemma bind_named_cons ps cs x v nvs :
  bind_named ps cs ((x, v) :: nvs) =
  bind_named ps (match pindex x ps with Some i => set_cell i v cs | None => cs end) nvs.
Proof. reflexivity. Qed.

(* peeling the first parameter off: its cell holds the positional value, else the first argument named
   after it; the remaining cells are the cells of the remaining parameters and the remaining names *)
Lemma bind_named_peel y d r : forall nvs c cr,
  bind_named ((y, d) :: r) (c :: cr) nvs =
  (match c with Some _ => c | None => assoc_named y nvs end) :: bind_named r cr (without_name y nvs).
Proof.
  induction nvs as [|[x v] nvs IH]; intros c cr.
  - destruct c; reflexivity.
  - rewrite bind_named_cons. cbn [pindex assoc_named without_name filter fst].
    rewrite (String.eqb_sym y x). destruct (String.eqb x y) eqn:E; cbn [negb].
    + cbn [set_cell]. rewrite IH. destruct c; reflexivity.
    + destruct (pindex x r) as [j|] eqn:P; cbn [option_map].
      * cbn [set_cell]. rewrite IH. rewrite bind_named_cons, P. reflexivity.
      * rewrite IH. rewrite bind_named_cons, P. reflexivity.
Qed.

Lemma smem_cons x y l : smem x (y :: l) = String.eqb x y || smem x l.
Proof. reflexivity. Qed.
Lemma assoc_none_smem x nvs :
  (match assoc_named x nvs with Some _ => false | None => true end) = negb (smem x (map fst nvs)).
Proof.
  induction nvs as [|[y v] r IH]; [reflexivity|]. cbn [assoc_named map fst]. rewrite smem_cons.
  destruct (String.eqb x y); [reflexivity|exact IH].
Qed.
Lemma smem_without x y nvs : String.eqb x y = false ->
  smem x (map fst (without_name y nvs)) = smem x (map fst nvs).
Proof.
  intros N. induction nvs as [|[z v] r IH]; [reflexivity|]. cbn [without_name filter fst map].
  destruct (String.eqb z y) eqn:E; cbn [negb].
  - rewrite smem_cons. apply String.eqb_eq in E. subst z. rewrite N. exact IH.
  - cbn [map fst]. rewrite !smem_cons. fold (without_name y r). rewrite IH. reflexivity.
Qed.
Lemma pindex_none_smem x ps : pindex x ps = None -> smem x (map fst ps) = false.
Proof.
  induction ps as [|[y d] r IH]; [reflexivity|]. cbn [pindex map fst]. rewrite smem_cons.
  destruct (String.eqb x y); [discriminate|]. destruct (pindex x r); [discriminate|]. intros _. apply IH. reflexivity.
Qed.

(* the name check on the cells = known, not positional, not named before *)
Lemma named_ok_eq : forall ps vs x seen, named_ok_impl ps vs x seen = named_ok_spec ps vs x seen.
Proof.
  induction ps as [|[y d] r IH]; intros vs x seen; [reflexivity|].
  unfold named_ok_impl. cbn [pindex pos_cells]. destruct (String.eqb x y) eqn:E.
  - unfold named_ok_spec. cbn [map fst]. rewrite smem_cons, E. cbn [orb andb].
    destruct vs as [|v vr]; rewrite bind_named_peel; cbn [nth_error List.length firstn].
    + apply String.eqb_eq in E. subst y. cbn [smem existsb negb andb]. apply assoc_none_smem.
    + rewrite smem_cons, E. reflexivity.
  - destruct (pindex x r) as [i|] eqn:P; cbn [option_map].
    + assert (T : forall vr seen', named_ok_impl r vr x seen' =
                 match nth_error (bind_named r (pos_cells r vr) seen') i with Some None => true | _ => false end).
      { intros. unfold named_ok_impl. rewrite P. reflexivity. }
      unfold named_ok_spec. cbn [map fst]. rewrite smem_cons, E. cbn [orb].
      destruct vs as [|v vr]; rewrite bind_named_peel; cbn [nth_error List.length firstn]; rewrite <- T, IH;
        unfold named_ok_spec; rewrite (smem_without _ _ _ E); [reflexivity|].
      rewrite smem_cons, E. reflexivity.
    + unfold named_ok_spec. cbn [map fst]. rewrite smem_cons, E, (pindex_none_smem _ _ P). reflexivity.
Qed.

(* the cells with the defaults filled in = positional value, else the value named after the parameter, else its default *)
Lemma arrange_eq : forall ps vs nvs, arrange_impl ps vs nvs = arrange_spec ps vs nvs.
Proof.
  induction ps as [|[y d] r IH]; intros vs nvs; [reflexivity|].
  unfold arrange_impl. cbn [pos_cells].
  destruct vs as [|v vr]; rewrite bind_named_peel; cbn [fill_defaults arrange_spec tl].
  - fold (arrange_impl r [] (without_name y nvs)). rewrite IH. reflexivity.
  - fold (arrange_impl r vr (without_name y nvs)). rewrite IH. reflexivity.
Qed.

Section ExprEq.
Variable funs : list fundef.
Variable clos : list clodef.
Variable fn : string.

Lemma operand_reval cf e fr g z :
  operand fn e fr g = Some z -> reval cf funs clos fn e fr g = Res (EV (VInt z)) fr g.
Proof.
  destruct e; cbn [operand reval]; try discriminate.
  - destruct v; try discriminate. intros [= ->]. reflexivity.
  - destruct (rd fn x fr g) eqn:E; try discriminate. intros [= ->]. reflexivity.
Qed.

(* VarFastAssign: when the fast path applies it computes what the slow path (the original
   right-hand side node) computes, without touching the state *)
Lemma fast_assign_reval cf r fr g z :
  fast_assign fn r fr g = Some z -> reval cf funs clos fn r fr g = Res (EV (VInt z)) fr g.
Proof.
  destruct r; cbn [fast_assign operand reval]; try discriminate.
  - destruct v; try discriminate. intros [= ->]. reflexivity.
  - destruct (rd fn x fr g) eqn:E; try discriminate. intros [= ->]. reflexivity.
  - destruct o; try discriminate.
    + destruct (operand fn r1 fr g) as [p|] eqn:E1; try discriminate.
      destruct (operand fn r2 fr g) as [q|] eqn:E2; try discriminate.
      intros [= <-]. rewrite (operand_reval cf _ _ _ _ E1), (operand_reval cf _ _ _ _ E2). reflexivity.
    + destruct (operand fn r1 fr g) as [p|] eqn:E1; try discriminate.
      destruct (operand fn r2 fr g) as [q|] eqn:E2; try discriminate.
      intros [= <-]. rewrite (operand_reval cf _ _ _ _ E1), (operand_reval cf _ _ _ _ E2). reflexivity.
Qed.

(* VarIntLe *)
Lemma var_int_le_reval cf a b fr g t :
  var_int_le fn a b fr g = Some t -> reval cf funs clos fn (EBin Le a b) fr g = Res (EV (VBool t)) fr g.
Proof.
  destruct a; cbn [var_int_le]; try discriminate. destruct b; try discriminate.
  destruct v; try discriminate. destruct (rd fn x fr g) eqn:E; try discriminate.
  intros [= <-]. cbn [reval]. rewrite E. reflexivity.
Qed.

Definition islow cf o a b fr g :=
  match ieval cf funs clos fn a fr g with
  | Res (EV va) fr g =>
      match ieval cf funs clos fn b fr g with
      | Res (EV vb) fr g => Res (EV (binop o va vb)) fr g
      | r => r
      end
  | r => r
  end.
Lemma ieval_bin cf o a b fr g : ieval cf funs clos fn (EBin o a b) fr g =
  match o with
  | Le => match var_int_le fn a b fr g with Some t => Res (EV (VBool t)) fr g | None => islow cf o a b fr g end
  | _ => islow cf o a b fr g
  end.
Proof. destruct o; reflexivity. Qed.
Lemma ieval_assign cf x r fr g : ieval cf funs clos fn (EAssign x r) fr g =
  match fast_assign fn r fr g with
  | Some z => let '(fr', g') := wr fn x (VInt z) fr g in Res (EV (VInt z)) fr' g'
  | None =>
      match ieval cf funs clos fn r fr g with
      | Res (EV v) fr g => let '(fr', g') := wr fn x v fr g in Res (EV v) fr' g'
      | r => r
      end
  end.
Proof. reflexivity. Qed.

Lemma reval_bin cf o a b fr g : reval cf funs clos fn (EBin o a b) fr g =
  match reval cf funs clos fn a fr g with
  | Res (EV va) fr g =>
      match reval cf funs clos fn b fr g with
      | Res (EV vb) fr g => Res (EV (binop o va vb)) fr g
      | r => r
      end
  | r => r
  end.
Proof. reflexivity. Qed.
Lemma reval_assign cf x r fr g : reval cf funs clos fn (EAssign x r) fr g =
  match reval cf funs clos fn r fr g with
  | Res (EV v) fr g => let '(fr', g') := wr fn x v fr g in Res (EV v) fr' g'
  | r => r
  end.
Proof. reflexivity. Qed.


Lemma ieval_not cf a fr g : ieval cf funs clos fn (ENot a) fr g =
  match ieval cf funs clos fn a fr g with
  | Res (EV v) fr g => Res (EV (VBool (negb (truthy v)))) fr g
  | r => r
  end.
Proof. reflexivity. Qed.
Lemma ieval_and cf a b fr g : ieval cf funs clos fn (EAnd a b) fr g =
  match ieval cf funs clos fn a fr g with
  | Res (EV va) fr g =>
      if truthy va then
        match ieval cf funs clos fn b fr g with
        | Res (EV vb) fr g => Res (EV (VBool (truthy vb))) fr g
        | r => r
        end
      else Res (EV (VBool false)) fr g
  | r => r
  end.
Proof. reflexivity. Qed.
Lemma ieval_or cf a b fr g : ieval cf funs clos fn (EOr a b) fr g =
  match ieval cf funs clos fn a fr g with
  | Res (EV va) fr g =>
      if truthy va then Res (EV (VBool true)) fr g
      else
        match ieval cf funs clos fn b fr g with
        | Res (EV vb) fr g => Res (EV (VBool (truthy vb))) fr g
        | r => r
        end
  | r => r
  end.
Proof. reflexivity. Qed.
Lemma ieval_arr cf a fr g : ieval cf funs clos fn (EArr a) fr g =
  match ieval_args cf funs clos fn a fr g with
  | Res (inl vs) fr g => Res (EV (VArr vs)) fr g
  | Res (inr x) fr g => Res (EX x) fr g
  | Fuel => Fuel
  end.
Proof. reflexivity. Qed.
Lemma ieval_call cf f a fr g : ieval cf funs clos fn (ECall f a) fr g =
  match find_fun funs f with
  | None => Res (EX (err "undefined function")) fr g
  | Some _ =>
      match ieval_args cf funs clos fn a fr g with
      | Res (inl vs) fr g =>
          match cf (CFun f) vs g with
          | Some (o, g') => Res o fr g'
          | None => Fuel
          end
      | Res (inr x) fr g => Res (EX x) fr g
      | Fuel => Fuel
      end
  end.
Proof. reflexivity. Qed.
Lemma ieval_args_cons cf e r fr g : ieval_args cf funs clos fn (ACons e r) fr g =
  match ieval cf funs clos fn e fr g with
  | Res (EV v) fr g =>
      match ieval_args cf funs clos fn r fr g with
      | Res (inl vs) fr g => Res (inl (v :: vs)) fr g
      | r => r
      end
  | Res (EX x) fr g => Res (inr x) fr g
  | Fuel => Fuel
  end.
Proof. reflexivity. Qed.

Lemma reval_not cf a fr g : reval cf funs clos fn (ENot a) fr g =
  match reval cf funs clos fn a fr g with
  | Res (EV v) fr g => Res (EV (VBool (negb (truthy v)))) fr g
  | r => r
  end.
Proof. reflexivity. Qed.
Lemma reval_and cf a b fr g : reval cf funs clos fn (EAnd a b) fr g =
  match reval cf funs clos fn a fr g with
  | Res (EV va) fr g =>
      if truthy va then
        match reval cf funs clos fn b fr g with
        | Res (EV vb) fr g => Res (EV (VBool (truthy vb))) fr g
        | r => r
        end
      else Res (EV (VBool false)) fr g
  | r => r
  end.
Proof. reflexivity. Qed.
Lemma reval_or cf a b fr g : reval cf funs clos fn (EOr a b) fr g =
  match reval cf funs clos fn a fr g with
  | Res (EV va) fr g =>
      if truthy va then Res (EV (VBool true)) fr g
      else
        match reval cf funs clos fn b fr g with
        | Res (EV vb) fr g => Res (EV (VBool (truthy vb))) fr g
        | r => r
        end
  | r => r
  end.
Proof. reflexivity. Qed.
Lemma reval_arr cf a fr g : reval cf funs clos fn (EArr a) fr g =
  match reval_args cf funs clos fn a fr g with
  | Res (inl vs) fr g => Res (EV (VArr vs)) fr g
  | Res (inr x) fr g => Res (EX x) fr g
  | Fuel => Fuel
  end.
Proof. reflexivity. Qed.
Lemma reval_call cf f a fr g : reval cf funs clos fn (ECall f a) fr g =
  match find_fun funs f with
  | None => Res (EX (err "undefined function")) fr g
  | Some _ =>
      match reval_args cf funs clos fn a fr g with
      | Res (inl vs) fr g =>
          match cf (CFun f) vs g with
          | Some (o, g') => Res o fr g'
          | None => Fuel
          end
      | Res (inr x) fr g => Res (EX x) fr g
      | Fuel => Fuel
      end
  end.
Proof. reflexivity. Qed.
Lemma reval_args_cons cf e r fr g : reval_args cf funs clos fn (ACons e r) fr g =
  match reval cf funs clos fn e fr g with
  | Res (EV v) fr g =>
      match reval_args cf funs clos fn r fr g with
      | Res (inl vs) fr g => Res (inl (v :: vs)) fr g
      | r => r
      end
  | Res (EX x) fr g => Res (inr x) fr g
  | Fuel => Fuel
  end.
Proof. reflexivity. Qed.

Lemma ieval_new cf cls m fr g : ieval cf funs clos fn (ENew cls m) fr g =
  match ieval cf funs clos fn m fr g with
  | Res (EV v) fr g => Res (EV (VObj (gnext g) cls (to_str v))) fr (bump g)
  | r => r
  end.
Proof. reflexivity. Qed.
Lemma ieval_msg cf e fr g : ieval cf funs clos fn (EMsg e) fr g =
  match ieval cf funs clos fn e fr g with
  | Res (EV v) fr g =>
      match msg_of v with
      | Some m => Res (EV (VStr m)) fr g
      | None => Res (EX (VErr "method call on a non-object")) fr g
      end
  | r => r
  end.
Proof. reflexivity. Qed.
Lemma ieval_class cf e fr g : ieval cf funs clos fn (EClass e) fr g =
  match ieval cf funs clos fn e fr g with
  | Res (EV v) fr g =>
      match class_of v with
      | Some c => Res (EV (VStr c)) fr g
      | None => Res (EX (VErr "get_class of a non-object")) fr g
      end
  | r => r
  end.
Proof. reflexivity. Qed.
Lemma ieval_same cf a b fr g : ieval cf funs clos fn (ESame a b) fr g =
  match ieval cf funs clos fn a fr g with
  | Res (EV va) fr g =>
      match ieval cf funs clos fn b fr g with
      | Res (EV vb) fr g => Res (EV (VBool (same_value va vb))) fr g
      | r => r
      end
  | r => r
  end.
Proof. reflexivity. Qed.

Lemma reval_new cf cls m fr g : reval cf funs clos fn (ENew cls m) fr g =
  match reval cf funs clos fn m fr g with
  | Res (EV v) fr g => Res (EV (VObj (gnext g) cls (to_str v))) fr (bump g)
  | r => r
  end.
Proof. reflexivity. Qed.
Lemma reval_msg cf e fr g : reval cf funs clos fn (EMsg e) fr g =
  match reval cf funs clos fn e fr g with
  | Res (EV v) fr g =>
      match msg_of v with
      | Some m => Res (EV (VStr m)) fr g
      | None => Res (EX (VErr "method call on a non-object")) fr g
      end
  | r => r
  end.
Proof. reflexivity. Qed.
Lemma reval_class cf e fr g : reval cf funs clos fn (EClass e) fr g =
  match reval cf funs clos fn e fr g with
  | Res (EV v) fr g =>
      match class_of v with
      | Some c => Res (EV (VStr c)) fr g
      | None => Res (EX (VErr "get_class of a non-object")) fr g
      end
  | r => r
  end.
Proof. reflexivity. Qed.
Lemma reval_same cf a b fr g : reval cf funs clos fn (ESame a b) fr g =
  match reval cf funs clos fn a fr g with
  | Res (EV va) fr g =>
      match reval cf funs clos fn b fr g with
      | Res (EV vb) fr g => Res (EV (VBool (same_value va vb))) fr g
      | r => r
      end
  | r => r
  end.
Proof. reflexivity. Qed.

Lemma ieval_match cf s m fr g : ieval cf funs clos fn (EMatch s m) fr g =
  match ieval cf funs clos fn s fr g with
  | Res (EV v) fr g => ieval_arms cf funs clos fn v m fr g
  | r => r
  end.
Proof. reflexivity. Qed.
Lemma ieval_arms_nil cf v fr g : ieval_arms cf funs clos fn v MNil fr g = Res (EV VNull) fr g.
Proof. reflexivity. Qed.
Lemma ieval_arms_default cf v e fr g : ieval_arms cf funs clos fn v (MDefault e) fr g = ieval cf funs clos fn e fr g.
Proof. reflexivity. Qed.
Lemma ieval_arms_cons cf v c e r fr g : ieval_arms cf funs clos fn v (MCons c e r) fr g =
  match ieval_conds cf funs clos fn v c fr g with
  | Res (inl true) fr g => ieval cf funs clos fn e fr g
  | Res (inl false) fr g => ieval_arms cf funs clos fn v r fr g
  | Res (inr x) fr g => Res (EX x) fr g
  | Fuel => Fuel
  end.
Proof. reflexivity. Qed.
Lemma ieval_conds_nil cf v fr g : ieval_conds cf funs clos fn v ANil fr g = Res (inl false) fr g.
Proof. reflexivity. Qed.
Lemma ieval_conds_cons cf v e r fr g : ieval_conds cf funs clos fn v (ACons e r) fr g =
  match ieval cf funs clos fn e fr g with
  | Res (EV w) fr g => if same_value v w then Res (inl true) fr g else ieval_conds cf funs clos fn v r fr g
  | Res (EX x) fr g => Res (inr x) fr g
  | Fuel => Fuel
  end.
Proof. reflexivity. Qed.

Lemma ieval_calln cf f a xs b fr g : ieval cf funs clos fn (ECallN f a xs b) fr g =
  match find_fun funs f with
  | None => Res (EX (err "undefined function")) fr g
  | Some d =>
      match ieval_args cf funs clos fn a fr g with
      | Res (inl pvs) fr g =>
          match ieval_nargs cf funs clos fn (named_ok_impl (fparams d) pvs) xs [] b fr g with
          | Res (inl nvs) fr g =>
              match arrange_impl (fparams d) pvs nvs with
              | Some full =>
                  match cf (CFun f) full g with
                  | Some (o, g') => Res o fr g'
                  | None => Fuel
                  end
              | None => Res (EX (VErr "argument not passed")) fr g
              end
          | Res (inr x) fr g => Res (EX x) fr g
          | Fuel => Fuel
          end
      | Res (inr x) fr g => Res (EX x) fr g
      | Fuel => Fuel
      end
  end.
Proof. reflexivity. Qed.
Lemma ieval_nargs_nil cf ok xs seen fr g : ieval_nargs cf funs clos fn ok xs seen ANil fr g = Res (inl seen) fr g.
Proof. reflexivity. Qed.
Lemma ieval_nargs_cons cf ok xs seen e r fr g : ieval_nargs cf funs clos fn ok xs seen (ACons e r) fr g =
  match xs with
  | [] => Res (inl seen) fr g
  | x :: xr =>
      match ieval cf funs clos fn e fr g with
      | Res (EV v) fr g =>
          if ok x seen then ieval_nargs cf funs clos fn ok xr (seen ++ [(x, v)])%list r fr g
          else Res (inr (VErr "named parameter")) fr g
      | Res (EX w) fr g => Res (inr w) fr g
      | Fuel => Fuel
      end
  end.
Proof. reflexivity. Qed.

Lemma reval_match cf s m fr g : reval cf funs clos fn (EMatch s m) fr g =
  match reval cf funs clos fn s fr g with
  | Res (EV v) fr g => reval_arms cf funs clos fn v m fr g
  | r => r
  end.
Proof. reflexivity. Qed.
Lemma reval_arms_nil cf v fr g : reval_arms cf funs clos fn v MNil fr g = Res (EV VNull) fr g.
Proof. reflexivity. Qed.
Lemma reval_arms_default cf v e fr g : reval_arms cf funs clos fn v (MDefault e) fr g = reval cf funs clos fn e fr g.
Proof. reflexivity. Qed.
Lemma reval_arms_cons cf v c e r fr g : reval_arms cf funs clos fn v (MCons c e r) fr g =
  match reval_conds cf funs clos fn v c fr g with
  | Res (inl true) fr g => reval cf funs clos fn e fr g
  | Res (inl false) fr g => reval_arms cf funs clos fn v r fr g
  | Res (inr x) fr g => Res (EX x) fr g
  | Fuel => Fuel
  end.
Proof. reflexivity. Qed.
Lemma reval_conds_nil cf v fr g : reval_conds cf funs clos fn v ANil fr g = Res (inl false) fr g.
Proof. reflexivity. Qed.
Lemma reval_conds_cons cf v e r fr g : reval_conds cf funs clos fn v (ACons e r) fr g =
  match reval cf funs clos fn e fr g with
  | Res (EV w) fr g => if same_value v w then Res (inl true) fr g else reval_conds cf funs clos fn v r fr g
  | Res (EX x) fr g => Res (inr x) fr g
  | Fuel => Fuel
  end.
Proof. reflexivity. Qed.

Lemma ieval_idx cf x i fr g : ieval cf funs clos fn (EIdx x i) fr g =
  match ieval cf funs clos fn i fr g with
  | Res (EV iv) fr g => Res (EV (arr_get (rd fn x fr g) iv)) fr g
  | r => r
  end.
Proof. reflexivity. Qed.
Lemma ieval_idxinc cf pre x i fr g : ieval cf funs clos fn (EIdxInc pre x i) fr g =
  match ieval cf funs clos fn i fr g with
  | Res (EV iv) fr g =>
      let '(nv, ov) := incr_value (arr_get (rd fn x fr g) iv) in
      let '(fr', g') := wr fn x (arr_set (rd fn x fr g) iv nv) fr g in
      Res (EV (if pre then nv else ov)) fr' g'
  | r => r
  end.
Proof. reflexivity. Qed.
Lemma ieval_closure cf id fr g : ieval cf funs clos fn (EClosure id) fr g =
  match nth_error clos id with
  | Some cd => Res (EV (VClo id (gnext g) (capture fn (cuses cd) fr g))) fr (bump g)
  | None => Res (EX (VErr "no such closure")) fr g
  end.
Proof. reflexivity. Qed.
Lemma ieval_callv cf f a fr g : ieval cf funs clos fn (ECallV f a) fr g =
  match ieval cf funs clos fn f fr g with
  | Res (EV (VClo id oid cap)) fr g =>
      match ieval_args cf funs clos fn a fr g with
      | Res (inl vs) fr g =>
          match cf (CClo id oid cap) vs g with
          | Some (o, g') => Res o fr g'
          | None => Fuel
          end
      | Res (inr x) fr g => Res (EX x) fr g
      | Fuel => Fuel
      end
  | Res (EV _) fr g => Res (EX (VErr "not callable")) fr g
  | r => r
  end.
Proof. reflexivity. Qed.

Lemma reval_idx cf x i fr g : reval cf funs clos fn (EIdx x i) fr g =
  match reval cf funs clos fn i fr g with
  | Res (EV iv) fr g => Res (EV (arr_get (rd fn x fr g) iv)) fr g
  | r => r
  end.
Proof. reflexivity. Qed.
Lemma reval_idxinc cf pre x i fr g : reval cf funs clos fn (EIdxInc pre x i) fr g =
  match reval cf funs clos fn i fr g with
  | Res (EV iv) fr g =>
      let '(nv, ov) := incr_value (arr_get (rd fn x fr g) iv) in
      let '(fr', g') := wr fn x (arr_set (rd fn x fr g) iv nv) fr g in
      Res (EV (if pre then nv else ov)) fr' g'
  | r => r
  end.
Proof. reflexivity. Qed.
Lemma reval_closure cf id fr g : reval cf funs clos fn (EClosure id) fr g =
  match nth_error clos id with
  | Some cd => Res (EV (VClo id (gnext g) (capture fn (cuses cd) fr g))) fr (bump g)
  | None => Res (EX (VErr "no such closure")) fr g
  end.
Proof. reflexivity. Qed.
Lemma reval_callv cf f a fr g : reval cf funs clos fn (ECallV f a) fr g =
  match reval cf funs clos fn f fr g with
  | Res (EV (VClo id oid cap)) fr g =>
      match reval_args cf funs clos fn a fr g with
      | Res (inl vs) fr g =>
          match cf (CClo id oid cap) vs g with
          | Some (o, g') => Res o fr g'
          | None => Fuel
          end
      | Res (inr x) fr g => Res (EX x) fr g
      | Fuel => Fuel
      end
  | Res (EV _) fr g => Res (EX (VErr "not callable")) fr g
  | r => r
  end.
Proof. reflexivity. Qed.

Lemma ieval_prop cf e fr g : ieval cf funs clos fn (EProp e) fr g =
  match ieval cf funs clos fn e fr g with
  | Res (EV v) fr g =>
      match obj_id v with
      | Some i => Res (EV (hget i (gheap g))) fr g
      | None => Res (EX (VErr "property of a non-object")) fr g
      end
  | r => r
  end.
Proof. reflexivity. Qed.
Lemma ieval_setprop cf e w fr g : ieval cf funs clos fn (ESetProp e w) fr g =
  match ieval cf funs clos fn w fr g with
  | Res (EV wv) fr g =>
      match ieval cf funs clos fn e fr g with
      | Res (EV v) fr g =>
          match obj_id v with
          | Some i => Res (EV wv) fr (set_prop i wv g)
          | None => Res (EX (VErr "property of a non-object")) fr g
          end
      | r => r
      end
  | r => r
  end.
Proof. reflexivity. Qed.
Lemma ieval_hi cf e fr g : ieval cf funs clos fn (EHi e) fr g =
  match ieval cf funs clos fn e fr g with
  | Res (EV v) fr g =>
      match obj_id v with
      | Some i => Res (EV (VStr ("hi" ++ to_str (hget i (gheap g))))) fr g
      | None => Res (EX (VErr "method call on a non-object")) fr g
      end
  | r => r
  end.
Proof. reflexivity. Qed.

Lemma reval_prop cf e fr g : reval cf funs clos fn (EProp e) fr g =
  match reval cf funs clos fn e fr g with
  | Res (EV v) fr g =>
      match obj_id v with
      | Some i => Res (EV (hget i (gheap g))) fr g
      | None => Res (EX (VErr "property of a non-object")) fr g
      end
  | r => r
  end.
Proof. reflexivity. Qed.
Lemma reval_setprop cf e w fr g : reval cf funs clos fn (ESetProp e w) fr g =
  match reval cf funs clos fn w fr g with
  | Res (EV wv) fr g =>
      match reval cf funs clos fn e fr g with
      | Res (EV v) fr g =>
          match obj_id v with
          | Some i => Res (EV wv) fr (set_prop i wv g)
          | None => Res (EX (VErr "property of a non-object")) fr g
          end
      | r => r
      end
  | r => r
  end.
Proof. reflexivity. Qed.
Lemma reval_hi cf e fr g : reval cf funs clos fn (EHi e) fr g =
  match reval cf funs clos fn e fr g with
  | Res (EV v) fr g =>
      match obj_id v with
      | Some i => Res (EV (VStr ("hi" ++ to_str (hget i (gheap g))))) fr g
      | None => Res (EX (VErr "method call on a non-object")) fr g
      end
  | r => r
  end.
Proof. reflexivity. Qed.

Lemma reval_calln cf f a xs b fr g : reval cf funs clos fn (ECallN f a xs b) fr g =
  match find_fun funs f with
  | None => Res (EX (err "undefined function")) fr g
  | Some d =>
      match reval_args cf funs clos fn a fr g with
      | Res (inl pvs) fr g =>
          match reval_nargs cf funs clos fn (named_ok_spec (fparams d) pvs) xs [] b fr g with
          | Res (inl nvs) fr g =>
              match arrange_spec (fparams d) pvs nvs with
              | Some full =>
                  match cf (CFun f) full g with
                  | Some (o, g') => Res o fr g'
                  | None => Fuel
                  end
              | None => Res (EX (VErr "argument not passed")) fr g
              end
          | Res (inr x) fr g => Res (EX x) fr g
          | Fuel => Fuel
          end
      | Res (inr x) fr g => Res (EX x) fr g
      | Fuel => Fuel
      end
  end.
Proof. reflexivity. Qed.
Lemma reval_nargs_nil cf ok xs seen fr g : reval_nargs cf funs clos fn ok xs seen ANil fr g = Res (inl seen) fr g.
Proof. reflexivity. Qed.
Lemma reval_nargs_cons cf ok xs seen e r fr g : reval_nargs cf funs clos fn ok xs seen (ACons e r) fr g =
  match xs with
  | [] => Res (inl seen) fr g
  | x :: xr =>
      match reval cf funs clos fn e fr g with
      | Res (EV v) fr g =>
          if ok x seen then reval_nargs cf funs clos fn ok xr (seen ++ [(x, v)])%list r fr g
          else Res (inr (VErr "named parameter")) fr g
      | Res (EX w) fr g => Res (inr w) fr g
      | Fuel => Fuel
      end
  end.
Proof. reflexivity. Qed.

Lemma reval_postinc cf x fr g : reval cf funs clos fn (EPostInc x) fr g =
  let '(nv, ov) := incr_value (rd fn x fr g) in
  let '(fr', g') := wr fn x nv fr g in Res (EV ov) fr' g'.
Proof. reflexivity. Qed.

Variables cf1 cf2 : callfn.
Hypothesis cf_eq : forall c vs g, cf1 c vs g = cf2 c vs g.

Lemma ieval_reval_both :
  (forall e, forall fr g, ieval cf1 funs clos fn e fr g = reval cf2 funs clos fn e fr g) /\
  (forall a, (forall fr g, ieval_args cf1 funs clos fn a fr g = reval_args cf2 funs clos fn a fr g) /\
             (forall v fr g, ieval_conds cf1 funs clos fn v a fr g = reval_conds cf2 funs clos fn v a fr g) /\
             (forall ok1 ok2, (forall x s, ok1 x s = ok2 x s) -> forall xs seen fr g,
                ieval_nargs cf1 funs clos fn ok1 xs seen a fr g = reval_nargs cf2 funs clos fn ok2 xs seen a fr g)) /\
  (forall m, forall v fr g, ieval_arms cf1 funs clos fn v m fr g = reval_arms cf2 funs clos fn v m fr g).
Proof.
  apply expr_args_ind; intros; try reflexivity;
    try rewrite ieval_bin; try rewrite ieval_assign, reval_assign;
    try rewrite ieval_not, reval_not; try rewrite ieval_and, reval_and; try rewrite ieval_or, reval_or;
    try rewrite ieval_arr, reval_arr; try rewrite ieval_call, reval_call;
    try rewrite ieval_new, reval_new; try rewrite ieval_msg, reval_msg;
    try rewrite ieval_class, reval_class; try rewrite ieval_same, reval_same;
    try rewrite ieval_match, reval_match;
    try rewrite ieval_idx, reval_idx; try rewrite ieval_idxinc, reval_idxinc;
    try rewrite ieval_callv, reval_callv;
    try rewrite ieval_prop, reval_prop; try rewrite ieval_setprop, reval_setprop; try rewrite ieval_hi, reval_hi;
    try rewrite ieval_calln, reval_calln.
  - (* EBin *)
    assert (S : islow cf1 o a b fr g = reval cf2 funs clos fn (EBin o a b) fr g).
    { unfold islow. rewrite reval_bin. rewrite H. destruct (reval cf2 funs clos fn a fr g) as [|[va|x] fr0 g0]; try reflexivity.
      rewrite H0. reflexivity. }
    destruct o; try exact S.
    destruct (var_int_le fn a b fr g) as [t|] eqn:E; [|exact S].
    symmetry. apply var_int_le_reval. exact E.
  - rewrite H. reflexivity.
  - rewrite H. destruct (reval cf2 funs clos fn a fr g) as [|[va|x] fr0 g0]; try reflexivity.
    destruct (truthy va); [|reflexivity]. rewrite H0. reflexivity.
  - rewrite H. destruct (reval cf2 funs clos fn a fr g) as [|[va|x] fr0 g0]; try reflexivity.
    destruct (truthy va); [reflexivity|]. rewrite H0. reflexivity.
  - (* EAssign *)
    destruct (fast_assign fn e fr g) as [z|] eqn:E.
    + rewrite (fast_assign_reval cf2 _ _ _ _ E). reflexivity.
    + rewrite H. reflexivity.
  - (* EArr *) destruct H as [H _]. rewrite H. reflexivity.
  - (* ECall *)
    destruct H as [H _]. destruct (find_fun funs f); [|reflexivity]. rewrite H.
    destruct (reval_args cf2 funs clos fn a fr g) as [|[vs|x] fr0 g0]; try reflexivity.
    rewrite cf_eq. reflexivity.
  - rewrite H. reflexivity.
  - rewrite H. reflexivity.
  - rewrite H. reflexivity.
  - rewrite H. destruct (reval cf2 funs clos fn a fr g) as [|[va|x] fr0 g0]; try reflexivity.
    rewrite H0. reflexivity.
  - (* EIdx *) rewrite H. reflexivity.
  - (* EIdxInc *) rewrite H. reflexivity.
  - (* ECallV *)
    destruct H0 as [H0 _]. rewrite H.
    destruct (reval cf2 funs clos fn f fr g) as [|[v|x] fr0 g0]; try reflexivity.
    destruct v; try reflexivity. rewrite H0.
    destruct (reval_args cf2 funs clos fn a fr0 g0) as [|[vs|x] fr1 g1]; try reflexivity.
    rewrite cf_eq. reflexivity.
  - (* EProp *) rewrite H. reflexivity.
  - (* ESetProp *) rewrite H0. destruct (reval cf2 funs clos fn v fr g) as [|[wv|x] fr0 g0]; try reflexivity.
    rewrite H. reflexivity.
  - (* EHi *) rewrite H. reflexivity.
  - (* EMatch *)
    rewrite H. destruct (reval cf2 funs clos fn s fr g) as [|[v|x] fr0 g0]; try reflexivity. apply H0.
  - (* ECallN *)
    destruct H as [Ha _]. destruct H0 as (_ & _ & Hn). destruct (find_fun funs f) as [d|]; [|reflexivity]. rewrite Ha.
    destruct (reval_args cf2 funs clos fn a fr g) as [|[pvs|x] fr0 g0]; try reflexivity.
    rewrite (Hn (named_ok_impl (fparams d) pvs) (named_ok_spec (fparams d) pvs) (named_ok_eq (fparams d) pvs)).
    destruct (reval_nargs cf2 funs clos fn (named_ok_spec (fparams d) pvs) xs [] b fr0 g0) as [|[nvs|x] fr1 g1]; try reflexivity.
    rewrite arrange_eq. destruct (arrange_spec (fparams d) pvs nvs); [|reflexivity]. rewrite cf_eq. reflexivity.
  - (* ANil *) repeat split; reflexivity.
  - (* ACons *)
    destruct H0 as (Ha & Hc & Hn). repeat split; intros.
    + rewrite ieval_args_cons, reval_args_cons, H.
      destruct (reval cf2 funs clos fn e fr g) as [|[v|x] fr0 g0]; try reflexivity. rewrite Ha. reflexivity.
    + rewrite ieval_conds_cons, reval_conds_cons, H.
      destruct (reval cf2 funs clos fn e fr g) as [|[w|x] fr0 g0]; try reflexivity.
      destruct (same_value v w); [reflexivity|apply Hc].
    + rewrite ieval_nargs_cons, reval_nargs_cons. destruct xs as [|x xr]; [reflexivity|]. rewrite H.
      destruct (reval cf2 funs clos fn e fr g) as [|[v|w] fr0 g0]; try reflexivity.
      rewrite H0. destruct (ok2 x seen); [|reflexivity]. apply Hn. exact H0.
  - (* MDefault *) rewrite ieval_arms_default, reval_arms_default. apply H.
  - (* MCons *)
    destruct H as (_ & Hc & _). rewrite ieval_arms_cons, reval_arms_cons, Hc.
    destruct (reval_conds cf2 funs clos fn v c fr g) as [|[[|]|x] fr0 g0]; try reflexivity; auto.
Qed.

Lemma ieval_reval e fr g : ieval cf1 funs clos fn e fr g = reval cf2 funs clos fn e fr g.
Proof. apply (proj1 ieval_reval_both). Qed.

Lemma ieval_each_reval a fr g : ieval_each cf1 funs clos fn a fr g = reval_each cf2 funs clos fn a fr g.
Proof.
  revert fr g. induction a; intros; simpl; [reflexivity|].
  rewrite ieval_reval. destruct (reval cf2 funs clos fn e fr g) as [|[v|x] fr0 g0]; auto.
Qed.

(* VarStmtIncr computes what the $x++ it replaced computes (its value is discarded) *)
Lemma ieval_incs_reval a fr g : ieval_incs cf1 funs clos fn a fr g = reval_each cf2 funs clos fn a fr g.
Proof.
  revert fr g. induction a; intros; [reflexivity|].
  assert (G : match ieval cf1 funs clos fn e fr g with
              | Res (EV _) fr0 g0 => ieval_incs cf1 funs clos fn a fr0 g0
              | Res (EX x) fr0 g0 => Res (Some x) fr0 g0
              | Fuel => Fuel
              end = reval_each cf2 funs clos fn (ACons e a) fr g).
  { simpl. rewrite ieval_reval. destruct (reval cf2 funs clos fn e fr g) as [|[v|x] fr0 g0]; auto. }
  destruct e; try exact G.
  simpl. rewrite reval_postinc.
  destruct (incr_value (rd fn x fr g)) as [nv ov]. destruct (wr fn x nv fr g) as [fr' g']. apply IHa.
Qed.

Lemma icond_rcond c fr g : icond cf1 funs clos fn c fr g = rcond cf2 funs clos fn c fr g.
Proof. unfold icond, rcond. rewrite ieval_reval. reflexivity. Qed.

(* the BoolTest fast path of ForStatement *)
Lemma icond_for_rcond c fr g : icond_for cf1 funs clos fn c fr g = rcond cf2 funs clos fn c fr g.
Proof.
  unfold icond_for. destruct c; try apply icond_rcond. destruct o; try apply icond_rcond.
  destruct (var_int_le fn c1 c2 fr g) as [t|] eqn:E; [|apply icond_rcond].
  unfold rcond. rewrite (var_int_le_reval cf2 _ _ _ _ _ E). reflexivity.
Qed.
End ExprEq.

(* ---------- the simulation ---------- *)
Definition crel (stk : list lid) (ci : ictl) (cr : rctl) : Prop :=
  match ci, cr with
  | INone, RNone => True
  | IBrk k, RBrk l => target stk k = Some l
  | ICnt k, RCnt l => target stk k = Some l
  | IRet v, RRet w => v = w
  | IThrow v, RThrow w => v = w
  | _, _ => False
  end.
Definition rrel (stk : list lid) (ri : res ictl) (rr : res rctl) : Prop :=
  match ri, rr with
  | Fuel, Fuel => True
  | Res ci fi gi, Res cr fr gr => crel stk ci cr /\ fi = fr /\ gi = gr
  | _, _ => False
  end.
Definition shorter (stk : list lid) (path : lid) := forall l, In l stk -> List.length l < List.length path.

Lemma lid_eqb_refl l : lid_eqb l l = true.
Proof. unfold lid_eqb. destruct (list_eq_dec Nat.eq_dec l l); congruence. Qed.
Lemma lid_eqb_neq a b : a <> b -> lid_eqb a b = false.
Proof. unfold lid_eqb. destruct (list_eq_dec Nat.eq_dec a b); congruence. Qed.

Lemma shorter_cons stk path i : shorter stk path -> shorter stk (i :: path).
Proof. intros H l Hl. specialize (H l Hl). simpl. lia. Qed.
Lemma shorter_push stk path i : shorter stk path -> shorter (path :: stk) (i :: path).
Proof. intros H l [<-|Hl]; simpl; [lia|]. specialize (H l Hl). lia. Qed.
Lemma shorter_neq stk path : shorter stk path -> forall l, In l stk -> l <> path.
Proof. intros H l Hl ->. specialize (H _ Hl). lia. Qed.

Lemma target_in_scope stk k : (1 <=? k)%nat && (k <=? List.length stk)%nat = true -> exists l, target stk k = Some l.
Proof.
  intros H. apply andb_prop in H as [H1 H2]. apply Nat.leb_le in H1, H2.
  destruct k as [|k']; [lia|]. unfold target. destruct (nth_error stk k') as [l|] eqn:E; [eauto|].
  apply nth_error_None in E. lia.
Qed.

(* a loop [id] whose body ran under the stack id :: stk *)
Lemma loop_ctl_rel stk id ci cr :
  crel (id :: stk) ci cr -> (forall l, In l stk -> l <> id) ->
  match loop_ctl ci, rloop_ctl id cr with
  | LNext, RLNext => True
  | LExit c, RLExit c' => crel stk c c'
  | _, _ => False
  end.
Proof.
  intros C N. destruct ci, cr; simpl in C; try contradiction; simpl; auto.
  - destruct k as [|[|k]]; simpl in C; try discriminate.
    + inversion C; subst. rewrite lid_eqb_refl. simpl. exact I.
    + assert (l <> id) by (apply N; eapply nth_error_In; eauto).
      rewrite lid_eqb_neq by assumption. simpl. exact C.
  - destruct k as [|[|k]]; simpl in C; try discriminate.
    + inversion C; subst. rewrite lid_eqb_refl. simpl. exact I.
    + assert (l <> id) by (apply N; eapply nth_error_In; eauto).
      rewrite lid_eqb_neq by assumption. simpl. exact C.
Qed.

(* what the reference switch [id] does with the signal of a clause that does not fall through *)
Definition rswitch_ctl (id : lid) (c : rctl) : rctl :=
  match c with
  | RBrk l | RCnt l => if lid_eqb l id then RNone else c
  | _ => c
  end.
Lemma switch_ctl_rel stk id ci cr :
  crel (id :: stk) ci cr -> (forall l, In l stk -> l <> id) ->
  crel stk (switch_ctl ci) (rswitch_ctl id cr).
Proof.
  intros C N. destruct ci, cr; simpl in C; try contradiction; simpl; auto.
  - destruct k as [|[|k]]; simpl in C; try discriminate.
    + inversion C; subst. rewrite lid_eqb_refl. simpl. exact I.
    + assert (l <> id) by (apply N; eapply nth_error_In; eauto).
      rewrite lid_eqb_neq by assumption. simpl. exact C.
  - destruct k as [|[|k]]; simpl in C; try discriminate.
    + inversion C; subst. rewrite lid_eqb_refl. simpl. exact I.
    + assert (l <> id) by (apply N; eapply nth_error_In; eauto).
      rewrite lid_eqb_neq by assumption. simpl. exact C.
Qed.

Lemma find_fun_name fs f d : find_fun fs f = Some d -> fname d = f.
Proof.
  induction fs as [|d0 r IH]; simpl; [discriminate|].
  destruct (String.eqb (fname d0) f) eqn:E; [|exact IH].
  intros [= <-]. apply String.eqb_eq. exact E.
Qed.
Lemma find_fun_In fs f d : find_fun fs f = Some d -> In d fs.
Proof.
  induction fs as [|d0 r IH]; simpl; [discriminate|].
  destruct (String.eqb (fname d0) f); [intros [= <-]; auto|auto].
Qed.

Section Sim.
Variables cmi cmr : catchfn.
Hypothesis Hcm : forall t v, cmi t v = cmr t v.
Variable funs : list fundef.
Variable clos : list clodef.

(* a block that ends in a jump never completes normally *)
Lemma ends_jump_not_none : forall b fuel fn stk path fr g cc fr' g',
  ends_jump b = true -> rexec cmr funs clos fuel fn (resolve stk path b) fr g = Res cc fr' g' -> cc <> RNone.
Proof.
  induction b; intros fuel fn stk path fr g cc fr' g' E R; simpl in E; try discriminate;
    (destruct fuel as [|fuel]; [rewrite rexec_0 in R; discriminate|]); cbn [resolve] in R.
  - rewrite rexec_seq in R.
    destruct (rexec cmr funs clos fuel fn (resolve stk (0 :: path) b1) fr g) as [|ca fa ga] eqn:Ea; [discriminate|].
    destruct ca; try (inversion R; subst; discriminate).
    eapply IHb2; eauto.
  - destruct (target stk n); [rewrite rexec_brk in R|rewrite rexec_bad in R]; inversion R; discriminate.
  - destruct (target stk n); [rewrite rexec_cnt in R|rewrite rexec_bad in R]; inversion R; discriminate.
  - destruct e as [e|].
    + rewrite rexec_return in R.
      destruct (reval (rcallf cmr funs clos fuel) funs clos fn e fr g) as [|[v|x] f1 g1]; inversion R; discriminate.
    + rewrite rexec_return_none in R. inversion R; discriminate.
  - rewrite rexec_throw in R.
    destruct (reval (rcallf cmr funs clos fuel) funs clos fn e fr g) as [|[v|x] f1 g1]; inversion R; discriminate.
Qed.

Hypothesis Hfuns : forall f d, find_fun funs f = Some d ->
  scoped 0 (fbody d) = true /\ one_default (fbody d) = true /\ clean_stmt (is_main f) (fbody d) = true.

Hypothesis Hclos : forall id cd, nth_error clos id = Some cd ->
  scoped 0 (cbody cd) = true /\ one_default (cbody cd) = true /\ forall oid, clean_stmt (is_main (clo_name oid)) (cbody cd) = true.

Definition P (n : nat) := forall fn s stk path fr g,
  scoped (List.length stk) s = true -> one_default s = true -> clean_stmt (is_main fn) s = true ->
  shorter stk path ->
  rrel stk (iexec cmi funs clos n fn s fr g) (rexec cmr funs clos n fn (resolve stk path s) fr g).

Lemma shorter_nil path : shorter [] path.
Proof. intros l []. Qed.

Lemma call_result_rel ci cr : crel [] ci cr -> call_result ci = rcall_result cr.
Proof.
  destruct ci, cr; simpl; intros C; try contradiction; subst; try reflexivity.
  - destruct k; simpl in C; [discriminate|]. destruct k; discriminate.
  - destruct k; simpl in C; [discriminate|]. destruct k; discriminate.
Qed.

Lemma callf_eq n : P n -> forall c vs g, icallf cmi funs clos n c vs g = rcallf cmr funs clos n c vs g.
Proof.
  intros IH c vs g. unfold icallf, rcallf. destruct c as [f|id oid cap].
  - destruct (find_fun funs f) as [d|] eqn:E; [|reflexivity].
    destruct (Hfuns _ _ E) as (H1 & H2 & H3). destruct (enough_args (fparams d) vs); [|reflexivity].
    pose proof (IH f (fbody d) [] [] (bind_params (fparams d) vs [], []) g H1 H2 H3 (shorter_nil _)) as R.
    destruct (iexec cmi funs clos n f (fbody d) (bind_params (fparams d) vs [], []) g) as [|ci fi gi];
      destruct (rexec cmr funs clos n f (resolve [] [] (fbody d)) (bind_params (fparams d) vs [], []) g) as [|cr fr gr];
      simpl in R; try contradiction; [reflexivity|].
    destruct R as (C & _ & <-). rewrite (call_result_rel _ _ C). reflexivity.
  - destruct (nth_error clos id) as [cd|] eqn:E; [|reflexivity].
    destruct (Hclos _ _ E) as (H1 & H2 & H3). destruct (enough_args (cparams cd) vs); [|reflexivity].
    pose proof (IH (clo_name oid) (cbody cd) [] [] (bind_captured cap (bind_params (cparams cd) vs []), []) g H1 H2 (H3 oid) (shorter_nil _)) as R.
    destruct (iexec cmi funs clos n (clo_name oid) (cbody cd) (bind_captured cap (bind_params (cparams cd) vs []), []) g) as [|ci fi gi];
      destruct (rexec cmr funs clos n (clo_name oid) (resolve [] [] (cbody cd)) (bind_captured cap (bind_params (cparams cd) vs []), []) g) as [|cr fr gr];
      simpl in R; try contradiction; [reflexivity|].
    destruct R as (C & _ & <-). rewrite (call_result_rel _ _ C). reflexivity.
Qed.

Section Step.
Variable n : nat.
Hypothesis IH : P n.
Let Hcf := callf_eq n IH.

Ltac split_rel R ci fi gi cr fr gr :=
  match type of R with
  | rrel _ ?a ?b =>
      destruct a as [|ci fi gi]; destruct b as [|cr fr gr]; simpl in R; try contradiction;
      [try exact I | destruct R as (R & <- & <-)]
  end.

(* the else-if chain of IfStatement *)
Lemma sim_elifs fn stk path e : forall ei i fr g,
  scoped (List.length stk) e = true -> one_default e = true -> clean_stmt (is_main fn) e = true ->
  scoped_elifs (List.length stk) ei = true -> one_default_elifs ei = true -> clean_elifs (is_main fn) ei = true ->
  shorter stk path ->
  rrel stk (ielif cmi funs clos n fn e ei fr g)
           (relif cmr funs clos n fn (resolve stk (1 :: path) e) (resolve_elifs stk path i ei) fr g).
Proof.
  induction ei as [|c b r IHr]; intros i fr g He1 He2 He3 H1 H2 H3 Hsh; cbn [ielif relif resolve_elifs].
  - apply IH; auto using shorter_cons.
  - cbn [scoped_elifs one_default_elifs clean_elifs] in H1, H2, H3.
    apply andb_prop in H1 as [H1a H1b]. apply andb_prop in H2 as [H2a H2b]. apply andb_prop in H3 as [H3a H3b].
    rewrite (icond_rcond funs clos fn _ _ Hcf).
    destruct (rcond (rcallf cmr funs clos n) funs clos fn c fr g) as [|[t|x] f1 g1]; simpl; auto.
    destruct t.
    + apply IH; auto using shorter_cons.
    + apply IHr; auto.
Qed.

(* the element walk of foreach *)
Lemma sim_each fn stk path k v b : forall items fr g,
  scoped (S (List.length stk)) b = true -> one_default b = true -> clean_stmt (is_main fn) b = true ->
  shorter stk path ->
  rrel stk (ieach cmi funs clos n fn k v b items fr g)
           (reach cmr funs clos n fn path k v (resolve (path :: stk) (0 :: path) b) items fr g).
Proof.
  induction items as [|[kv vv] r IHr]; intros fr g H1 H2 H3 Hsh; cbn [ieach reach]; [simpl; auto|].
  destruct (wr fn v vv fr g) as [fr1 g1].
  destruct (match k with Some kx => wr fn kx kv fr1 g1 | None => (fr1, g1) end) as [fr2 g2].
  pose proof (IH fn b (path :: stk) (0 :: path) fr2 g2 H1 H2 H3 (shorter_push _ _ _ Hsh)) as R.
  split_rel R ci fi gi cr fr' gr.
  pose proof (loop_ctl_rel stk path ci cr R (shorter_neq _ _ Hsh)) as L.
  destruct (loop_ctl ci), (rloop_ctl path cr); try contradiction.
  - apply IHr; auto.
  - simpl. auto.
Qed.

Lemma rrunc_unfold fn id b r fr g :
  rrunc cmr funs clos n fn id (RCLDefault b r) fr g =
  match rexec cmr funs clos n fn b fr g with
  | Fuel => Fuel
  | Res cb fr g =>
      match cb with
      | RNone => rrunc cmr funs clos n fn id r fr g
      | RBrk l' | RCnt l' => if lid_eqb l' id then Res RNone fr g else Res cb fr g
      | _ => Res cb fr g
      end
  end.
Proof. reflexivity. Qed.
Lemma rrunc_case fn id e b r fr g :
  rrunc cmr funs clos n fn id (RCLCase e b r) fr g = rrunc cmr funs clos n fn id (RCLDefault b r) fr g.
Proof. reflexivity. Qed.
Lemma irunc_unfold fn b r fr g :
  irunc cmi funs clos n fn (CLDefault b r) fr g =
  match iexec cmi funs clos n fn b fr g with
  | Fuel => Fuel
  | Res cb fr g => match cb with INone => irunc cmi funs clos n fn r fr g | _ => Res (switch_ctl cb) fr g end
  end.
Proof. reflexivity. Qed.
Lemma irunc_case fn e b r fr g :
  irunc cmi funs clos n fn (CLCase e b r) fr g = irunc cmi funs clos n fn (CLDefault b r) fr g.
Proof. reflexivity. Qed.

(* running the clauses from an entry point on, with fall-through, on both sides *)
Lemma sim_runc fn stk path : shorter stk path -> forall l i fr g,
  scoped_clauses (S (List.length stk)) l = true -> one_default_clauses l = true ->
  clean_clauses (is_main fn) l = true ->
  rrel stk (irunc cmi funs clos n fn l fr g)
           (rrunc cmr funs clos n fn path (resolve_clauses (path :: stk) path i l) fr g).
Proof.
  intros Hsh. induction l as [|e b r IHr|b r IHr]; intros i fr g H1 H2 H3.
  - simpl. auto.
  - cbn [resolve_clauses]. rewrite irunc_case, rrunc_case.
    cbn [scoped_clauses one_default_clauses clean_clauses] in *.
    apply andb_prop in H1 as [H1 H1r]. apply andb_prop in H2 as [H2 H2r]. apply andb_prop in H3 as [H3 H3r].
    rewrite irunc_unfold, rrunc_unfold.
    pose proof (IH fn b (path :: stk) (i :: path) fr g H1 H2 H3 (shorter_push _ _ _ Hsh)) as R.
    split_rel R ci fi gi cr fr' gr.
    pose proof (switch_ctl_rel stk path ci cr R (shorter_neq _ _ Hsh)) as SW.
    destruct ci, cr; simpl in R; try contradiction.
    + apply IHr; auto.
    + simpl in SW |- *. destruct (lid_eqb l path); simpl; auto.
    + simpl in SW |- *. destruct (lid_eqb l path); simpl; auto.
    + simpl. auto.
    + simpl. auto.
  - cbn [resolve_clauses].
    cbn [scoped_clauses one_default_clauses clean_clauses] in *.
    apply andb_prop in H1 as [H1 H1r]. apply andb_prop in H2 as [H2 H2r]. apply andb_prop in H3 as [H3 H3r].
    rewrite irunc_unfold, rrunc_unfold.
    pose proof (IH fn b (path :: stk) (i :: path) fr g H1 H2 H3 (shorter_push _ _ _ Hsh)) as R.
    split_rel R ci fi gi cr fr' gr.
    pose proof (switch_ctl_rel stk path ci cr R (shorter_neq _ _ Hsh)) as SW.
    destruct ci, cr; simpl in R; try contradiction.
    + apply IHr; auto.
    + simpl in SW |- *. destruct (lid_eqb l path); simpl; auto.
    + simpl in SW |- *. destruct (lid_eqb l path); simpl; auto.
    + simpl. auto.
    + simpl. auto.
Qed.

(* the entry when no case matches: the suffix from `default` on, the same on both sides *)
Lemma sim_default_entry fn stk path : shorter stk path -> forall cl i fr g,
  scoped_clauses (S (List.length stk)) cl = true -> one_default_clauses cl = true ->
  clean_clauses (is_main fn) cl = true ->
  rrel stk (irunc cmi funs clos n fn (default_entry cl) fr g)
           (rrunc cmr funs clos n fn path (from_default (resolve_clauses (path :: stk) path i cl)) fr g).
Proof.
  intros Hsh. induction cl as [|e b r IHr|b r IHr]; intros i fr g H1 H2 H3;
    cbn [default_entry resolve_clauses from_default].
  - simpl. auto.
  - cbn [scoped_clauses one_default_clauses clean_clauses] in *.
    apply andb_prop in H1 as [_ H1]. apply andb_prop in H2 as [_ H2]. apply andb_prop in H3 as [_ H3].
    apply IHr; auto.
  - apply (sim_runc fn stk path Hsh (CLDefault b r) i); auto.
Qed.

(* the case search of SwitchStatement.GetValue *)
Lemma sim_cases fn stk path cl0 rcl0 cv :
  (forall fr g, rrel stk (irunc cmi funs clos n fn (default_entry cl0) fr g)
                         (rrunc cmr funs clos n fn path (from_default rcl0) fr g)) ->
  shorter stk path ->
  forall l i fr g,
  scoped_clauses (S (List.length stk)) l = true -> one_default_clauses l = true ->
  clean_clauses (is_main fn) l = true ->
  rrel stk (icases cmi funs clos n fn cl0 cv l fr g)
           (rfind cmr funs clos n fn path rcl0 cv (resolve_clauses (path :: stk) path i l) fr g).
Proof.
  intros D Hsh. induction l as [|e b r IHr|b r IHr]; intros i fr g H1 H2 H3;
    cbn [icases rfind resolve_clauses].
  - apply D.
  - rewrite (ieval_reval funs clos fn _ _ Hcf).
    destruct (reval (rcallf cmr funs clos n) funs clos fn e fr g) as [|[v|x] f1 g1]; [simpl; auto| |simpl; auto].
    destruct (switch_match cv v).
    + apply (sim_runc fn stk path Hsh (CLCase e b r) i); auto.
    + cbn [scoped_clauses one_default_clauses clean_clauses] in *.
      apply andb_prop in H1 as [_ H1r]. apply andb_prop in H2 as [_ H2r]. apply andb_prop in H3 as [_ H3r].
      apply IHr; auto.
  - cbn [scoped_clauses one_default_clauses clean_clauses] in *.
    apply andb_prop in H1 as [_ H1r]. apply andb_prop in H2 as [_ H2r]. apply andb_prop in H3 as [_ H3r].
    apply IHr; auto.
Qed.

(* the catch search: same clause on both sides *)
Lemma find_catch_rel fn stk path x : forall cs i,
  scoped_catches (List.length stk) cs = true -> one_default_catches cs = true ->
  clean_catches (is_main fn) cs = true ->
  match find_catch cmi cs x, handler_for cmr (resolve_catches stk path i cs) x with
  | None, None => True
  | Some (xv, cb), Some (xv', h) =>
      xv = xv' /\ exists j, h = resolve stk (j :: path) cb /\
      scoped (List.length stk) cb = true /\ one_default cb = true /\ clean_stmt (is_main fn) cb = true
  | _, _ => False
  end.
Proof.
  induction cs as [|ty xv b r IHr]; intros i H1 H2 H3; cbn [find_catch handler_for resolve_catches]; [exact I|].
  cbn [scoped_catches one_default_catches clean_catches] in *.
  apply andb_prop in H1 as [H1 H1r]. apply andb_prop in H2 as [H2 H2r]. apply andb_prop in H3 as [H3 H3r].
  rewrite <- Hcm. destruct (cmi ty x).
  - split; [reflexivity|]. exists i. auto.
  - apply IHr; auto.
Qed.

(* the finally part of TryStatement.GetValue *)
Lemma sim_finally fn stk path f ri rr :
  scoped (List.length stk) f = true -> one_default f = true -> clean_stmt (is_main fn) f = true ->
  shorter stk path -> rrel stk ri rr ->
  rrel stk
    match ri with
    | Fuel => Fuel
    | Res c fr3 g3 =>
        match iexec cmi funs clos n fn f fr3 (mark CFin g3) with
        | Fuel => Fuel
        | Res INone fr4 g4 => Res c fr4 g4
        | Res cf fr4 g4 => Res cf fr4 g4
        end
    end
    match rr with
    | Fuel => Fuel
    | Res c fr3 g3 =>
        match rexec cmr funs clos n fn (resolve stk (1 :: path) f) fr3 (mark CFin g3) with
        | Fuel => Fuel
        | Res RNone fr4 g4 => Res c fr4 g4
        | Res cf fr4 g4 => Res cf fr4 g4
        end
    end.
Proof.
  intros H1 H2 H3 Hsh R.
  destruct ri as [|c fr3 g3], rr as [|c' fr3' g3']; simpl in R; try contradiction; [exact I|].
  destruct R as (C & <- & <-).
  pose proof (IH fn f stk (1 :: path) fr3 (mark CFin g3) H1 H2 H3 (shorter_cons _ _ _ Hsh)) as R.
  split_rel R ci fi gi cr fr' gr.
  destruct ci, cr; simpl in R; try contradiction; simpl; auto.
Qed.

Lemma sim_step : P (S n).
Proof.
  intros fn s stk path fr g Hs Ho Hc Hsh.
  destruct s; cbn [resolve scoped one_default clean_stmt] in *.
  - (* SSkip *) simpl. auto.
  - (* SSeq *)
    apply andb_prop in Hs as [Hs1 Hs2]. apply andb_prop in Ho as [Ho1 Ho2]. apply andb_prop in Hc as [Hc1 Hc2].
    rewrite iexec_seq, rexec_seq.
    pose proof (IH fn s1 stk (0 :: path) fr g Hs1 Ho1 Hc1 (shorter_cons _ _ _ Hsh)) as R.
    split_rel R ci fi gi cr fr' gr.
    destruct ci, cr; simpl in R; try contradiction; try (simpl; auto; fail).
    apply IH; auto using shorter_cons.
  - (* SExpr *)
    rewrite iexec_expr, rexec_expr, (ieval_reval funs clos fn _ _ Hcf).
    destruct (reval (rcallf cmr funs clos n) funs clos fn e fr g) as [|[v|x] f1 g1]; simpl; auto.
  - (* SEcho *)
    rewrite iexec_echo, rexec_echo, (ieval_reval funs clos fn _ _ Hcf).
    destruct (reval (rcallf cmr funs clos n) funs clos fn e fr g) as [|[v|x] f1 g1]; simpl; auto.
  - (* SPush *)
    rewrite iexec_push, rexec_push, (ieval_reval funs clos fn _ _ Hcf).
    destruct (reval (rcallf cmr funs clos n) funs clos fn e fr g) as [|[v|y] f1 g1]; try (simpl; auto; fail).
    destruct (wr fn x (arr_push (rd fn x f1 g1) v) f1 g1). simpl. auto.
  - (* SSetIdx *)
    rewrite iexec_setidx, rexec_setidx, (ieval_reval funs clos fn _ _ Hcf).
    destruct (reval (rcallf cmr funs clos n) funs clos fn e fr g) as [|[v|y] f1 g1]; try (simpl; auto; fail).
    destruct (wr fn x (arr_set (rd fn x f1 g1) (VInt k) v) f1 g1). simpl. auto.
  - (* SIf *)
    apply andb_prop in Hs as [Hs Hs3]. apply andb_prop in Hs as [Hs1 Hs2].
    apply andb_prop in Ho as [Ho Ho3]. apply andb_prop in Ho as [Ho1 Ho2].
    apply andb_prop in Hc as [Hc Hc3]. apply andb_prop in Hc as [Hc1 Hc2].
    rewrite iexec_if, rexec_if, (icond_rcond funs clos fn _ _ Hcf).
    destruct (rcond (rcallf cmr funs clos n) funs clos fn c fr g) as [|[t|x] f1 g1]; try (simpl; auto; fail).
    cbn [thr rthr]. destruct t.
    + apply IH; auto using shorter_cons.
    + apply sim_elifs; auto.
  - (* SWhile *)
    rewrite iexec_while, rexec_while, (icond_rcond funs clos fn _ _ Hcf).
    destruct (rcond (rcallf cmr funs clos n) funs clos fn c fr g) as [|[t|x] f1 g1]; try (simpl; auto; fail).
    cbn [thr rthr]. destruct t; [|simpl; auto].
    pose proof (IH fn s (path :: stk) (0 :: path) f1 g1 Hs Ho Hc (shorter_push _ _ _ Hsh)) as R.
    split_rel R ci fi gi cr fr' gr.
    pose proof (loop_ctl_rel stk path ci cr R (shorter_neq _ _ Hsh)) as L.
    destruct (loop_ctl ci), (rloop_ctl path cr); try contradiction.
    + apply (IH fn (SWhile c s) stk path); auto.
    + simpl. auto.
  - (* SDoWhile *)
    rewrite iexec_dowhile, rexec_dowhile.
    pose proof (IH fn s (path :: stk) (0 :: path) fr g Hs Ho Hc (shorter_push _ _ _ Hsh)) as R.
    split_rel R ci fi gi cr fr' gr.
    pose proof (loop_ctl_rel stk path ci cr R (shorter_neq _ _ Hsh)) as L.
    destruct (loop_ctl ci), (rloop_ctl path cr); try contradiction; [|simpl; auto].
    rewrite (icond_rcond funs clos fn _ _ Hcf).
    destruct (rcond (rcallf cmr funs clos n) funs clos fn c fi gi) as [|[t|x] f1 g1]; try (simpl; auto; fail).
    cbn [thr rthr]. destruct t; [|simpl; auto].
    apply (IH fn (SDoWhile s c) stk path); auto.
  - (* SFor *)
    rewrite iexec_for, rexec_for, (ieval_each_reval funs clos fn _ _ Hcf).
    destruct (reval_each (rcallf cmr funs clos n) funs clos fn init fr g) as [|[x|] f0 g0]; try (simpl; auto; fail).
    rewrite (icond_for_rcond funs clos fn _ _ Hcf).
    destruct (rcond (rcallf cmr funs clos n) funs clos fn c f0 g0) as [|[t|x] f1 g1]; try (simpl; auto; fail).
    cbn [thr rthr]. destruct t; [|simpl; auto].
    pose proof (IH fn s (path :: stk) (0 :: path) f1 g1 Hs Ho Hc (shorter_push _ _ _ Hsh)) as R.
    split_rel R ci fi gi cr fr' gr.
    pose proof (loop_ctl_rel stk path ci cr R (shorter_neq _ _ Hsh)) as L.
    destruct (loop_ctl ci), (rloop_ctl path cr); try contradiction; [|simpl; auto].
    rewrite (ieval_incs_reval funs clos fn _ _ Hcf).
    destruct (reval_each (rcallf cmr funs clos n) funs clos fn inc fi gi) as [|[x|] f2 g2]; try (simpl; auto; fail).
    apply (IH fn (SFor ANil c inc s) stk path); auto.
  - (* SForeach *)
    rewrite iexec_foreach, rexec_foreach, (ieval_reval funs clos fn _ _ Hcf).
    destruct (reval (rcallf cmr funs clos n) funs clos fn arr fr g) as [|[av|x] f1 g1]; try (simpl; auto; fail).
    destruct (foreach_items av) as [items|]; [|simpl; auto].
    apply sim_each; auto.
  - (* SSwitch *)
    apply andb_prop in Ho as [Hd Ho]. apply Nat.leb_le in Hd.
    rewrite iexec_switch, rexec_switch, (ieval_reval funs clos fn _ _ Hcf).
    destruct (reval (rcallf cmr funs clos n) funs clos fn c fr g) as [|[cv|x] f1 g1]; try (simpl; auto; fail).
    apply sim_cases; auto.
    intros fr0 g0. apply sim_default_entry; auto.
  - (* SBreak *)
    destruct (target_in_scope _ _ Hs) as [l Hl]. rewrite Hl, iexec_break, rexec_brk. simpl. auto.
  - (* SContinue *)
    destruct (target_in_scope _ _ Hs) as [l Hl]. rewrite Hl, iexec_continue, rexec_cnt. simpl. auto.
  - (* SReturn *)
    destruct e as [e|].
    + rewrite iexec_return, rexec_return, (ieval_reval funs clos fn _ _ Hcf).
      destruct (reval (rcallf cmr funs clos n) funs clos fn e fr g) as [|[v|x] f1 g1]; simpl; auto.
    + rewrite iexec_return_none, rexec_return_none. simpl. auto.
  - (* SStatic *)
    rewrite iexec_static, rexec_static. simpl. auto.
  - (* STry *)
    apply andb_prop in Hs as [Hs Hs3]. apply andb_prop in Hs as [Hs1 Hs2].
    apply andb_prop in Ho as [Ho Ho3]. apply andb_prop in Ho as [Ho1 Ho2].
    apply andb_prop in Hc as [Hc Hc3]. apply andb_prop in Hc as [Hc1 Hc2].
    rewrite iexec_try, rexec_try.
    pose proof (IH fn s1 stk (0 :: path) fr (mark CTry g) Hs1 Ho1 Hc1 (shorter_cons _ _ _ Hsh)) as R.
    split_rel R ci fi gi cr fr' gr.
    apply sim_finally; auto.
    destruct ci, cr; simpl in R; try contradiction; try (simpl; auto; fail).
    subst v0.
    pose proof (find_catch_rel fn stk path v cs 2 Hs2 Ho2 Hc2) as F.
    destruct (find_catch cmi cs v) as [[xv cb]|]; destruct (handler_for cmr (resolve_catches stk path 2 cs) v) as [[xv' h]|];
      try contradiction; [|simpl; auto].
    destruct F as (<- & j & -> & F1 & F2 & F3).
    destruct (match xv with Some v1 => wr fn v1 v fi gi | None => (fi, gi) end) as [fr2 g2].
    apply IH; auto using shorter_cons.
  - (* SThrow *)
    rewrite iexec_throw, rexec_throw, (ieval_reval funs clos fn _ _ Hcf).
    destruct (reval (rcallf cmr funs clos n) funs clos fn e fr g) as [|[v|x] f1 g1]; simpl; auto.
  - (* SIfInst *)
    apply andb_prop in Hs as [Hs1 Hs2]. apply andb_prop in Ho as [Ho1 Ho2]. apply andb_prop in Hc as [Hc1 Hc2].
    rewrite iexec_ifinst, rexec_ifinst. rewrite <- Hcm.
    destruct (match rd fn x fr g with VObj _ _ _ => cmi T (rd fn x fr g) | _ => false end);
      apply IH; auto using shorter_cons.
Qed.
End Step.

Theorem sim : forall n, P n.
Proof.
  induction n as [|n IHn].
  - intros fn s stk path fr g _ _ _ _. rewrite iexec_0, rexec_0. exact I.
  - apply sim_step. exact IHn.
Qed.
End Sim.

(* ---------- whole programs ---------- *)
Lemma forallb_find (P : fundef -> bool) fs f d :
  forallb P fs = true -> find_fun fs f = Some d -> P d = true.
Proof. intros H E. apply find_fun_In in E. rewrite forallb_forall in H. auto. Qed.

Lemma funs_ok p : wf p = true -> clean p = true ->
  forall f d, find_fun (funcs p) f = Some d ->
  scoped 0 (fbody d) = true /\ one_default (fbody d) = true /\ clean_stmt (is_main f) (fbody d) = true.
Proof.
  unfold wf, clean. intros W C f d E.
  apply andb_prop in W as [W _]. apply andb_prop in W as [_ W].
  apply andb_prop in C as [C _]. apply andb_prop in C as [_ C].
  pose proof (forallb_find _ _ _ _ W E) as W1. pose proof (forallb_find _ _ _ _ C E) as C1. simpl in W1, C1.
  unfold wf_body in W1. apply andb_prop in W1 as [S O].
  rewrite (find_fun_name _ _ _ E) in C1. auto.
Qed.

Lemma is_main_clo oid : is_main (clo_name oid) = false.
Proof. reflexivity. Qed.

Lemma clos_ok p : wf p = true -> clean p = true ->
  forall id cd, nth_error (closures p) id = Some cd ->
  scoped 0 (cbody cd) = true /\ one_default (cbody cd) = true /\
  forall oid, clean_stmt (is_main (clo_name oid)) (cbody cd) = true.
Proof.
  unfold wf, clean. intros W C id cd E. apply nth_error_In in E.
  apply andb_prop in W as [_ W]. apply andb_prop in C as [_ C].
  rewrite forallb_forall in W, C. specialize (W _ E). specialize (C _ E).
  unfold wf_body in W. apply andb_prop in W as [S O].
  split; [exact S|]. split; [exact O|]. intros oid. rewrite is_main_clo. exact C.
Qed.

(* no defect class is left outside [clean]: it holds of every program *)
Lemma clean_stmt_all : forall m s, clean_stmt m s = true
with clean_elifs_all : forall m l, clean_elifs m l = true
with clean_clauses_all : forall m l, clean_clauses m l = true
with clean_catches_all : forall m l, clean_catches m l = true.
Proof.
  - intros m s. destruct s; cbn [clean_stmt]; try reflexivity;
      repeat rewrite clean_stmt_all; try rewrite clean_elifs_all; try rewrite clean_clauses_all;
      try rewrite clean_catches_all; reflexivity.
  - intros m l. destruct l; cbn [clean_elifs]; [reflexivity|]. rewrite clean_stmt_all, clean_elifs_all. reflexivity.
  - intros m l. destruct l; cbn [clean_clauses]; [reflexivity| |]; rewrite clean_stmt_all, clean_clauses_all; reflexivity.
  - intros m l. destruct l; cbn [clean_catches]; [reflexivity|]. rewrite clean_stmt_all, clean_catches_all. reflexivity.
Qed.

Lemma clean_all : forall p, clean p = true.
Proof.
  intros p. unfold clean. rewrite clean_stmt_all. cbn [andb].
  apply andb_true_intro. split; apply forallb_forall; intros x _; apply clean_stmt_all.
Qed.

Lemma impl_refines_ref_l : forall cmi cmr, (forall t v, cmi t v = cmr t v) ->
  forall fuel p, wf p = true -> clean p = true ->
  run_impl cmi fuel p = run_ref cmr fuel p.
Proof.
  intros cmi cmr Hcm fuel p W C. unfold run_impl, run_ref, irun, rrun.
  pose proof (funs_ok p W C) as HF. pose proof (clos_ok p W C) as HC.
  unfold wf, clean in W, C. apply andb_prop in W as [W _]. apply andb_prop in W as [W _].
  apply andb_prop in C as [C _]. apply andb_prop in C as [C _].
  unfold wf_body in W. apply andb_prop in W as [S O].
  pose proof (sim cmi cmr Hcm (funcs p) (closures p) HF HC fuel "" (main p) [] [] empty_frame empty_glob S O C (shorter_nil _)) as R.
  destruct (iexec cmi (funcs p) (closures p) fuel "" (main p) empty_frame empty_glob) as [|ci fi gi];
    destruct (rexec cmr (funcs p) (closures p) fuel "" (resolve [] [] (main p)) empty_frame empty_glob) as [|cr fr gr];
    simpl in R; try contradiction; [reflexivity|].
  destruct R as (R & _ & <-).
  destruct ci, cr; simpl in R; try contradiction; reflexivity.
Qed.

(* the statement-level refinement, for every statement in every context of a wf, clean program *)
Lemma exits_named_l : forall cmi cmr, (forall t v, cmi t v = cmr t v) ->
  forall p, wf p = true -> clean p = true ->
  forall fuel fn s stk path fr g,
  scoped (List.length stk) s = true -> one_default s = true -> clean_stmt (is_main fn) s = true ->
  shorter stk path ->
  rrel stk (iexec cmi (funcs p) (closures p) fuel fn s fr g) (rexec cmr (funcs p) (closures p) fuel fn (resolve stk path s) fr g).
Proof. intros cmi cmr Hcm p W C fuel. apply sim; auto. apply funs_ok; auto. apply clos_ok; auto. Qed.

(* [clean] excludes nothing any more (clean_all): the same two statements without it *)
Lemma impl_refines_ref_wf_l : forall cmi cmr, (forall t v, cmi t v = cmr t v) ->
  forall fuel p, wf p = true -> run_impl cmi fuel p = run_ref cmr fuel p.
Proof. intros cmi cmr H fuel p W. apply impl_refines_ref_l; [exact H|exact W|apply clean_all]. Qed.

Lemma exits_named_wf_l : forall cmi cmr, (forall t v, cmi t v = cmr t v) ->
  forall p, wf p = true ->
  forall fuel fn s stk path fr g,
  scoped (List.length stk) s = true -> one_default s = true ->
  shorter stk path ->
  rrel stk (iexec cmi (funcs p) (closures p) fuel fn s fr g) (rexec cmr (funcs p) (closures p) fuel fn (resolve stk path s) fr g).
Proof.
  intros cmi cmr H p W fuel fn s stk path fr g S O SH.
  apply exits_named_l; auto using clean_all, clean_stmt_all.
Qed.

(* fast paths of the implementation, stated on ImplSem alone: whenever a fast path fires it
   yields what the node it replaced yields *)
Lemma ieval_self cf funs clos fn e fr g : ieval cf funs clos fn e fr g = reval cf funs clos fn e fr g.
Proof. apply ieval_reval. reflexivity. Qed.

Lemma fast_assign_sound_l cf funs clos fn x r fr g z :
  fast_assign fn r fr g = Some z ->
  ieval cf funs clos fn r fr g = Res (EV (VInt z)) fr g /\
  ieval cf funs clos fn (EAssign x r) fr g =
    (let '(fr', g') := wr fn x (VInt z) fr g in Res (EV (VInt z)) fr' g').
Proof.
  intros H. split.
  - rewrite ieval_self. apply fast_assign_reval. exact H.
  - rewrite ieval_assign, H. reflexivity.
Qed.

Lemma var_int_le_sound_l cf funs clos fn a b fr g t :
  var_int_le fn a b fr g = Some t ->
  islow funs clos fn cf Le a b fr g = Res (EV (VBool t)) fr g.
Proof.
  destruct a; cbn [var_int_le]; try discriminate. destruct b; try discriminate.
  destruct v; try discriminate. destruct (rd fn x fr g) eqn:E; try discriminate.
  intros [= <-]. unfold islow.
  change (ieval cf funs clos fn (EVar x) fr g) with (Res (EV (rd fn x fr g)) fr g). rewrite E.
  change (ieval cf funs clos fn (ELit (VInt z)) fr g) with (Res (EV (VInt z)) fr g). reflexivity.
Qed.

Lemma stmt_incr_sound_l cf funs clos fn a fr g :
  ieval_incs cf funs clos fn a fr g = ieval_each cf funs clos fn a fr g.
Proof.
  rewrite (ieval_incs_reval funs clos fn cf cf (fun _ _ _ => eq_refl)).
  symmetry. apply ieval_each_reval. reflexivity.
Qed.

Lemma bool_test_sound_l cf funs clos fn c fr g :
  icond_for cf funs clos fn c fr g = icond cf funs clos fn c fr g.
Proof.
  rewrite (icond_for_rcond funs clos fn cf cf (fun _ _ _ => eq_refl)).
  symmetry. apply icond_rcond. reflexivity.
Qed.

(* call frames: the callee starts from its parameters alone, the caller's frame is what the
   argument evaluation left *)
Lemma call_frames_l cf funs clos fn f a fr g o fr' g' :
  ieval cf funs clos fn (ECall f a) fr g = Res o fr' g' ->
  (exists x, ieval_args cf funs clos fn a fr g = Res (inr x) fr' g' /\ o = EX x) \/
  (find_fun funs f = None /\ fr' = fr /\ g' = g) \/
  (exists vs g1, ieval_args cf funs clos fn a fr g = Res (inl vs) fr' g1 /\ cf (CFun f) vs g1 = Some (o, g')).
Proof.
  rewrite ieval_call. destruct (find_fun funs f) eqn:E.
  - destruct (ieval_args cf funs clos fn a fr g) as [|[vs|x] f1 g1] eqn:EA; try discriminate.
    + destruct (cf (CFun f) vs g1) as [[o1 g2]|] eqn:EC; try discriminate.
      intros [= <- <- <-]. right. right. eauto.
    + intros [= <- <- <-]. left. eauto.
  - intros [= <- <- <-]. right. left. auto.
Qed.

(* ---------- small programs used in Examples / Properties ---------- *)
Definition lit (z : Z) := ELit (VInt z).
Definition str (s : string) := ELit (VStr s).
Definition P0 (m : stmt) : prog := {| funcs := []; closures := []; main := m |}.

(* the former defect classes, now repaired in /repo (8109483, d3ebf7f): ImplSem and RefSem agree on them *)
(* switch (1) { case 1: echo "a"; case 2: echo "b"; } *)
Definition w_fallthrough : prog :=
  P0 (SSwitch (lit 1) (CLCase (lit 1) (SEcho (str "a")) (CLCase (lit 2) (SEcho (str "b")) CLNil))).
(* switch (1) { case 1: case 2: echo "x"; } *)
Definition w_case_group : prog :=
  P0 (SSwitch (lit 1) (CLCase (lit 1) SSkip (CLCase (lit 2) (SEcho (str "x")) CLNil))).
(* switch (9) { default: echo "d"; case 1: echo "1"; } *)
Definition w_default_first : prog :=
  P0 (SSwitch (lit 9) (CLDefault (SEcho (str "d")) (CLCase (lit 1) (SEcho (str "1")) CLNil))).
(* for ($i = 0; $i < 2; $i++) { static $x = 0; $x++; echo $x; } *)
Definition w_static_main : prog :=
  P0 (SFor (ACons (EAssign "i" (lit 0)) ANil) (EBin Lt (EVar "i") (lit 2)) (ACons (EPostInc "i") ANil)
        (SSeq (SStatic "x" (VInt 0)) (SSeq (SExpr (EPostInc "x")) (SEcho (EVar "x"))))).
(* $f = function () { $x = 5; }; if ($f() === null) { echo "null"; } else { echo "value"; }   (/repo 1b0c649) *)
Definition w_closure_falloff : prog :=
  {| funcs := []; closures := [{| cparams := []; cuses := []; cbody := SExpr (EAssign "x" (lit 5)) |}];
     main := SSeq (SExpr (EAssign "f" (EClosure 0)))
                  (SIf (ESame (ECallV (EVar "f") ANil) (ELit VNull)) (SEcho (str "null")) EINil (SEcho (str "value"))) |}.
Lemma repaired_classes_l :
  map (run_impl no_catch 50) [w_fallthrough; w_case_group; w_default_first; w_static_main; w_closure_falloff]
  = [("ab", EndOk); ("x", EndOk); ("d1", EndOk); ("12", EndOk); ("null", EndOk)] /\
  map (run_ref no_catch 50) [w_fallthrough; w_case_group; w_default_first; w_static_main; w_closure_falloff]
  = [("ab", EndOk); ("x", EndOk); ("d1", EndOk); ("12", EndOk); ("null", EndOk)] /\
  forallb wf [w_fallthrough; w_case_group; w_default_first; w_static_main; w_closure_falloff] = true.
Proof. vm_compute. auto. Qed.
