(* C02 — ImplSem: the interpreter in the code's own style (node/*.go at /repo HEAD).

   Each GetValue returns a result and a Control; here a statement returns an [ictl]:
     INone        nil control
     IBrk k       *BreakStatement (k <= 1) or breakSignal with k levels left   (node/break.go)
     ICnt k       *ContinueStatement / continueSignal                          (node/continue.go)
     IRet v       ReturnControl
     IThrow v     ThrowControl
   A loop or switch that receives IBrk/ICnt asks IsBreak()/IsContinue() once: k <= 1 means
   "for you" (consumed), otherwise the signal goes on outward with k-1.

   Statement lists ([]data.GetValue walked by `for _, statement := range`) are SSeq trees: the
   walk stops at the first non-nil control, which is what [iexec] does for SSeq.
   Statement result values (the `v` beside the control) are not modelled: since /repo 110cdb4
   (a function without return yields null) no construct of the core observes them.
   Scalars are immutable values (since /repo d042b12 VarStmtIncr no longer mutates a boxed
   integer in place); a call frame is a name-indexed map standing for the slot vector that
   CreateContext allocates (one fresh null cell per variable of the function).
   No proofs in this file. *)
From Coq Require Import List String ZArith Bool Arith.
From V.C02 Require Import Lang.
Import ListNotations.
Open Scope string_scope.

Inductive ictl := INone | IBrk (k : nat) | ICnt (k : nat) | IRet (v : value) | IThrow (v : value).

(* ---------- named arguments (CallExpression.GetValue -> bindNamedCall, /repo 023935e, 79da08f) ----------
   The code keeps one cell per parameter (bound[] + the callee context): positional arguments fill the
   leading cells in order; a named argument scans the parameter list for the first parameter of that
   name (its target), and is an Error when there is none ("Unknown named parameter") or when the target
   cell is already filled, by a positional or an earlier named argument ("overwrites previous
   argument"); the cells still empty at the end take the parameter's default, and a parameter without
   one is an ArgumentCountError. *)
Fixpoint pindex (x : string) (ps : list (string * option value)) : option nat :=
  match ps with
  | [] => None
  | (y, _) :: r => if String.eqb x y then Some O else option_map S (pindex x r)
  end.
(* the cells after the positional arguments *)
Fixpoint pos_cells (ps : list (string * option value)) (vs : list value) : list (option value) :=
  match ps with
  | [] => []
  | _ :: r => match vs with v :: vr => Some v :: pos_cells r vr | [] => None :: pos_cells r [] end
  end.
(* fill cell i (the check before it guarantees the cell is empty; a filled cell is left alone) *)
Fixpoint set_cell (i : nat) (v : value) (cs : list (option value)) : list (option value) :=
  match cs with
  | [] => []
  | c :: r =>
      match i with
      | O => (match c with None => Some v | Some _ => c end) :: r
      | S j => c :: set_cell j v r
      end
  end.
Definition bind_named (ps : list (string * option value)) (cs : list (option value)) (nvs : list (string * value))
  : list (option value) :=
  fold_left (fun cs (xv : string * value) =>
               match pindex (fst xv) ps with Some i => set_cell i (snd xv) cs | None => cs end) nvs cs.
(* may the named argument x be bound, after the positional values vs and the named ones in seen? *)
Definition named_ok_impl (ps : list (string * option value)) (vs : list value) (x : string) (seen : list (string * value)) : bool :=
  match pindex x ps with
  | None => false                                                             (* Unknown named parameter *)
  | Some i =>
      match nth_error (bind_named ps (pos_cells ps vs) seen) i with
      | Some None => true
      | _ => false                                                            (* overwrites previous argument *)
      end
  end.
(* the remaining cells take the defaults; the result is the full argument list of the callee *)
Fixpoint fill_defaults (ps : list (string * option value)) (cs : list (option value)) : option (list value) :=
  match ps, cs with
  | (_, d) :: r, c :: cr =>
      match (match c with Some v => Some v | None => d end), fill_defaults r cr with
      | Some v, Some l => Some (v :: l)
      | _, _ => None                                                          (* Argument #i not passed *)
      end
  | _, _ => Some []
  end.
Definition arrange_impl (ps : list (string * option value)) (vs : list value) (nvs : list (string * value)) : option (list value) :=
  fill_defaults ps (bind_named ps (pos_cells ps vs) nvs).

(* ---------- expressions (structural; calls go through [callf]) ---------- *)

(* fused_assign.go readIdx / preExtract: an operand that is a variable currently holding an int,
   or an int literal; anything else makes the fast path fall back *)
Definition operand (fn : string) (e : expr) (fr : frame) (g : glob) : option Z :=
  match e with
  | EVar y => match rd fn y fr g with VInt z => Some z | _ => None end
  | ELit (VInt n) => Some n
  | _ => None
  end.
(* VarFastAssign.GetValue fast paths (vfaOpCopy / vfaOpAdd / vfaOpMul), chosen by NewBinaryAssign
   from the shape of the right-hand side *)
Definition fast_assign (fn : string) (r : expr) (fr : frame) (g : glob) : option Z :=
  match r with
  | EVar _ | ELit (VInt _) => operand fn r fr g
  | EBin Add a b => match operand fn a fr g, operand fn b fr g with Some p, Some q => Some (p + q)%Z | _, _ => None end
  | EBin Mul a b => match operand fn a fr g, operand fn b fr g with Some p, Some q => Some (p * q)%Z | _, _ => None end
  | _ => None
  end.
(* VarIntLe.testBool fast path: `$x <= <int literal>` with $x holding an int *)
Definition var_int_le (fn : string) (a b : expr) (fr : frame) (g : glob) : option bool :=
  match a, b with
  | EVar x, ELit (VInt n) => match rd fn x fr g with VInt z => Some (z <=? n)%Z | _ => None end
  | _, _ => None
  end.

Section Expr.
Variable callf : callfn.
Variable funs : list fundef.
Variable clos : list clodef.
Variable fn : string.

Fixpoint ieval (e : expr) (fr : frame) (g : glob) {struct e} : res eout :=
  match e with
  | ELit v => Res (EV v) fr g
  | EVar x => Res (EV (rd fn x fr g)) fr g
  | EBin o a b =>
      let slow :=
        match ieval a fr g with
        | Res (EV va) fr g =>
            match ieval b fr g with
            | Res (EV vb) fr g => Res (EV (binop o va vb)) fr g
            | r => r
            end
        | r => r
        end in
      match o with
      | Le => match var_int_le fn a b fr g with
              | Some t => Res (EV (VBool t)) fr g          (* VarIntLe fast path *)
              | None => slow                                 (* f.Le.GetValue *)
              end
      | _ => slow
      end
  | ENot a =>
      match ieval a fr g with
      | Res (EV v) fr g => Res (EV (VBool (negb (truthy v)))) fr g
      | r => r
      end
  | EAnd a b =>
      match ieval a fr g with
      | Res (EV va) fr g =>
          if truthy va then
            match ieval b fr g with
            | Res (EV vb) fr g => Res (EV (VBool (truthy vb))) fr g
            | r => r
            end
          else Res (EV (VBool false)) fr g
      | r => r
      end
  | EOr a b =>
      match ieval a fr g with
      | Res (EV va) fr g =>
          if truthy va then Res (EV (VBool true)) fr g
          else
            match ieval b fr g with
            | Res (EV vb) fr g => Res (EV (VBool (truthy vb))) fr g
            | r => r
            end
      | r => r
      end
  | EAssign x r =>
      match fast_assign fn r fr g with
      | Some z =>                                     (* VarFastAssign fast path: AssignIntToZVal *)
          let '(fr', g') := wr fn x (VInt z) fr g in Res (EV (VInt z)) fr' g'
      | None =>                                       (* Slow / BinaryAssignVariable *)
          match ieval r fr g with
          | Res (EV v) fr g => let '(fr', g') := wr fn x v fr g in Res (EV v) fr' g'
          | r => r
          end
      end
  | EPostInc x =>                                     (* VarPostIncr, Fallback PostfixIncr *)
      let '(nv, ov) := incr_value (rd fn x fr g) in
      let '(fr', g') := wr fn x nv fr g in Res (EV ov) fr' g'
  | EArr a =>
      match ieval_args a fr g with
      | Res (inl vs) fr g => Res (EV (VArr vs)) fr g
      | Res (inr x) fr g => Res (EX x) fr g
      | Fuel => Fuel
      end
  | ECall f a =>
      match find_fun funs f with
      | None => Res (EX (err "undefined function")) fr g          (* CallLater: before the arguments *)
      | Some _ =>
          match ieval_args a fr g with
          | Res (inl vs) fr g =>
              match callf (CFun f) vs g with
              | Some (o, g') => Res o fr g'                        (* the caller's frame is untouched *)
              | None => Fuel
              end
          | Res (inr x) fr g => Res (EX x) fr g
          | Fuel => Fuel
          end
      end
  | ENew cls m =>                                     (* new C(m) *)
      match ieval m fr g with
      | Res (EV v) fr g => Res (EV (VObj (gnext g) cls (to_str v))) fr (bump g)
      | r => r
      end
  | EMsg e =>                                         (* ThrowValue.getMessage *)
      match ieval e fr g with
      | Res (EV v) fr g =>
          match msg_of v with
          | Some m => Res (EV (VStr m)) fr g
          | None => Res (EX (VErr "method call on a non-object")) fr g
          end
      | r => r
      end
  | EClass e =>
      match ieval e fr g with
      | Res (EV v) fr g =>
          match class_of v with
          | Some c => Res (EV (VStr c)) fr g
          | None => Res (EX (VErr "get_class of a non-object")) fr g
          end
      | r => r
      end
  | ESame a b =>                                      (* BinaryEqStrict / isStrictEqual *)
      match ieval a fr g with
      | Res (EV va) fr g =>
          match ieval b fr g with
          | Res (EV vb) fr g => Res (EV (VBool (same_value va vb))) fr g
          | r => r
          end
      | r => r
      end
  | EPanic => Res (EX (VErr "go panic")) fr g        (* recovered by TryStatement.guarded *)
  | EIdx x i =>
      match ieval i fr g with
      | Res (EV iv) fr g => Res (EV (arr_get (rd fn x fr g) iv)) fr g
      | r => r
      end
  | EIdxInc pre x i =>                               (* the index is evaluated once *)
      match ieval i fr g with
      | Res (EV iv) fr g =>
          let '(nv, ov) := incr_value (arr_get (rd fn x fr g) iv) in
          let '(fr', g') := wr fn x (arr_set (rd fn x fr g) iv nv) fr g in
          Res (EV (if pre then nv else ov)) fr' g'
      | r => r
      end
  | EClosure id =>                                    (* by-value captures are taken now *)
      match nth_error clos id with
      | Some cd => Res (EV (VClo id (gnext g) (capture fn (cuses cd) fr g))) fr (bump g)
      | None => Res (EX (VErr "no such closure")) fr g
      end
  | ECallV f a =>
      match ieval f fr g with
      | Res (EV (VClo id oid cap)) fr g =>
          match ieval_args a fr g with
          | Res (inl vs) fr g =>
              match callf (CClo id oid cap) vs g with
              | Some (o, g') => Res o fr g'
              | None => Fuel
              end
          | Res (inr x) fr g => Res (EX x) fr g
          | Fuel => Fuel
          end
      | Res (EV _) fr g => Res (EX (VErr "not callable")) fr g
      | r => r
      end
  | EProp e =>
      match ieval e fr g with
      | Res (EV v) fr g =>
          match obj_id v with
          | Some i => Res (EV (hget i (gheap g))) fr g
          | None => Res (EX (VErr "property of a non-object")) fr g
          end
      | r => r
      end
  | ESetProp e w =>                                   (* the value first, then the object (BinaryAssign) *)
      match ieval w fr g with
      | Res (EV wv) fr g =>
          match ieval e fr g with
          | Res (EV v) fr g =>
              match obj_id v with
              | Some i => Res (EV wv) fr (set_prop i wv g)
              | None => Res (EX (VErr "property of a non-object")) fr g
              end
          | r => r
          end
      | r => r
      end
  | EHi e =>
      match ieval e fr g with
      | Res (EV v) fr g =>
          match obj_id v with
          | Some i => Res (EV (VStr ("hi" ++ to_str (hget i (gheap g))))) fr g
          | None => Res (EX (VErr "method call on a non-object")) fr g
          end
      | r => r
      end
  | EMatch s m =>                                     (* MatchStatement.GetValue *)
      match ieval s fr g with
      | Res (EV v) fr g => ieval_arms v m fr g
      | r => r
      end
  | ECallN f a xs b =>                                (* positional, then named in source order; value first, then the name check *)
      match find_fun funs f with
      | None => Res (EX (err "undefined function")) fr g
      | Some d =>
          match ieval_args a fr g with
          | Res (inl vs) fr g =>
              match ieval_nargs (named_ok_impl (fparams d) vs) xs [] b fr g with
              | Res (inl nvs) fr g =>
                  match arrange_impl (fparams d) vs nvs with
                  | Some full =>
                      match callf (CFun f) full g with
                      | Some (o, g') => Res o fr g'
                      | None => Fuel
                      end
                  | None => Res (EX (VErr "argument not passed")) fr g
                  end
              | Res (inr x) fr g => Res (EX x) fr g
              | Fuel => Fuel
              end
          | Res (inr x) fr g => Res (EX x) fr g
          | Fuel => Fuel
          end
      end
  end
with ieval_args (a : args) (fr : frame) (g : glob) {struct a} : res (list value + value) :=
  match a with
  | ANil => Res (inl []) fr g
  | ACons e r =>
      match ieval e fr g with
      | Res (EV v) fr g =>
          match ieval_args r fr g with
          | Res (inl vs) fr g => Res (inl (v :: vs)) fr g
          | r => r
          end
      | Res (EX x) fr g => Res (inr x) fr g
      | Fuel => Fuel
      end
  end
(* the arms in order; within an arm the conditions in order, compared with isStrictEqual; the first
   hit evaluates that arm's expression; no hit: the default block, else null *)
with ieval_arms (v : value) (m : marms) (fr : frame) (g : glob) {struct m} : res eout :=
  match m with
  | MNil => Res (EV VNull) fr g
  | MDefault e => ieval e fr g
  | MCons c e r =>
      match ieval_conds v c fr g with
      | Res (inl true) fr g => ieval e fr g
      | Res (inl false) fr g => ieval_arms v r fr g
      | Res (inr x) fr g => Res (EX x) fr g
      | Fuel => Fuel
      end
  end
with ieval_conds (v : value) (c : args) (fr : frame) (g : glob) {struct c} : res (bool + value) :=
  match c with
  | ANil => Res (inl false) fr g
  | ACons e r =>
      match ieval e fr g with
      | Res (EV w) fr g => if same_value v w then Res (inl true) fr g else ieval_conds v r fr g
      | Res (EX x) fr g => Res (inr x) fr g
      | Fuel => Fuel
      end
  end
(* the named arguments in source order: the value is computed, then the name is checked against what is
   bound so far ([ok]); the first offending name ends the call with an Error *)
with ieval_nargs (ok : string -> list (string * value) -> bool) (xs : list string) (seen : list (string * value))
                 (b : args) (fr : frame) (g : glob) {struct b} : res (list (string * value) + value) :=
  match b with
  | ANil => Res (inl seen) fr g
  | ACons e r =>
      match xs with
      | [] => Res (inl seen) fr g
      | x :: xr =>
          match ieval e fr g with
          | Res (EV v) fr g =>
              if ok x seen then ieval_nargs ok xr (seen ++ [(x, v)])%list r fr g
              else Res (inr (VErr "named parameter")) fr g
          | Res (EX w) fr g => Res (inr w) fr g
          | Fuel => Fuel
          end
      end
  end.

(* a list of expressions evaluated for effect (for-initialisers) *)
Fixpoint ieval_each (a : args) (fr : frame) (g : glob) : res (option value) :=
  match a with
  | ANil => Res None fr g
  | ACons e r =>
      match ieval e fr g with
      | Res (EV _) fr g => ieval_each r fr g
      | Res (EX x) fr g => Res (Some x) fr g
      | Fuel => Fuel
      end
  end.
(* for-increments: NewForStatement replaces a VarPostIncr by VarStmtIncr (fresh IntValue holding
   the incremented number; the result is discarded), every other increment is evaluated as is *)
Fixpoint ieval_incs (a : args) (fr : frame) (g : glob) : res (option value) :=
  match a with
  | ANil => Res None fr g
  | ACons e r =>
      match e with
      | EPostInc x =>
          let '(nv, _) := incr_value (rd fn x fr g) in
          let '(fr', g') := wr fn x nv fr g in ieval_incs r fr' g'
      | _ =>
          match ieval e fr g with
          | Res (EV _) fr g => ieval_incs r fr g
          | Res (EX x) fr g => Res (Some x) fr g
          | Fuel => Fuel
          end
      end
  end.
(* the condition of if / while / do-while: GetValue then AsBool *)
Definition icond (c : expr) (fr : frame) (g : glob) : res (bool + value) :=
  match ieval c fr g with
  | Res (EV v) fr g => Res (inl (truthy v)) fr g
  | Res (EX x) fr g => Res (inr x) fr g
  | Fuel => Fuel
  end.
(* the condition of for: BoolTest fast path when the node is a VarIntLe *)
Definition icond_for (c : expr) (fr : frame) (g : glob) : res (bool + value) :=
  match c with
  | EBin Le a b =>
      match var_int_le fn a b fr g with
      | Some t => Res (inl t) fr g
      | None => icond c fr g
      end
  | _ => icond c fr g
  end.
End Expr.

(* ---------- statements ---------- *)

(* what a loop does with the control its body returned *)
Inductive loop_next := LNext | LExit (c : ictl).
Definition loop_ctl (c : ictl) : loop_next :=
  match c with
  | INone => LNext
  | ICnt k => if (k <=? 1)%nat then LNext else LExit (ICnt (k - 1))
  | IBrk k => if (k <=? 1)%nat then LExit INone else LExit (IBrk (k - 1))
  | IRet v => LExit (IRet v)
  | IThrow v => LExit (IThrow v)
  end.
(* SwitchCase.GetValue / the default walk of SwitchStatement.GetValue *)
Definition switch_ctl (c : ictl) : ictl :=
  match c with
  | INone => INone
  | IBrk k => if (k <=? 1)%nat then INone else IBrk (k - 1)
  | ICnt k => if (k <=? 1)%nat then INone else ICnt (k - 1)
  | IRet v => IRet v
  | IThrow v => IThrow v
  end.
(* FunctionStatement.Call: what the caller gets for the control the body ended with *)
Definition call_result (c : ictl) : eout :=
  match c with
  | IRet v => EV v
  | INone => EV VNull
  | IBrk _ | ICnt _ => EX (err "'break'/'continue' not in the 'loop' or 'switch' context")
  | IThrow x => EX x
  end.
(* parser/switch_parser.go keeps the cases in source order and records where the default block
   stands (DefaultIndex): the clauses from `default` on ([wf]: at most one default) *)
Fixpoint default_entry (cl : clauses) : clauses :=
  match cl with
  | CLNil => CLNil
  | CLCase _ _ r => default_entry r
  | CLDefault _ _ => cl
  end.

(* continue with [k] on a value, turn a thrown value into the Throw control *)
Definition thr {A} (r : res (A + value)) (k : A -> frame -> glob -> res ictl) : res ictl :=
  match r with
  | Fuel => Fuel
  | Res (inl a) fr g => k a fr g
  | Res (inr x) fr g => Res (IThrow x) fr g
  end.

(* TryStatement.tryValue: the catch blocks in order, the first whose type accepts the thrown value *)
Fixpoint find_catch (cm : catchfn) (cs : catches) (x : value) : option (option string * stmt) :=
  match cs with
  | CTNil => None
  | CTCons ty v b r => if cm ty x then Some (v, b) else find_catch cm r x
  end.

Section Stmt.
Variable cm : catchfn.
Variable funs : list fundef.
Variable clos : list clodef.

Fixpoint iexec (n : nat) (fn : string) (s : stmt) (fr : frame) (g : glob) {struct n} : res ictl :=
  match n with
  | O => Fuel
  | S n' =>
    (* CallExpression.GetValue + FunctionStatement.Call: fresh frame, parameters bound, body run *)
    let callf : callfn := fun c vs g =>
      match c with
      | CFun f =>
          match find_fun funs f with
          | None => Some (EX (err "undefined function"), g)
          | Some d =>
              if enough_args (fparams d) vs then
                match iexec n' f (fbody d) (bind_params (fparams d) vs [], []) g with
                | Fuel => None
                | Res c _ g' => Some (call_result c, g')
                end
              else Some (EX (VErr "too few arguments"), g)
          end
      | CClo id oid cap =>
          (* LambdaExpression.Call: a fresh context, the parameters, then the captured values; the
             closure object's own static store *)
          match nth_error clos id with
          | None => Some (EX (VErr "no such closure"), g)
          | Some cd =>
              if enough_args (cparams cd) vs then
                match iexec n' (clo_name oid) (cbody cd) (bind_captured cap (bind_params (cparams cd) vs []), []) g with
                | Fuel => None
                | Res c _ g' => Some (call_result c, g')
                end
              else Some (EX (VErr "too few arguments"), g)
          end
      end in
    let ev := ieval callf funs clos fn in
    let cond := icond callf funs clos fn in
    match s with
    | SSkip => Res INone fr g
    | SSeq a b =>
        match iexec n' fn a fr g with
        | Res INone fr g => iexec n' fn b fr g
        | r => r
        end
    | SExpr e =>
        match ev e fr g with
        | Res (EV _) fr g => Res INone fr g
        | Res (EX x) fr g => Res (IThrow x) fr g
        | Fuel => Fuel
        end
    | SEcho e =>
        match ev e fr g with
        | Res (EV v) fr g => Res INone fr (emit (to_str v) g)
        | Res (EX x) fr g => Res (IThrow x) fr g
        | Fuel => Fuel
        end
    | SPush x e =>
        match ev e fr g with
        | Res (EV v) fr g => let '(fr', g') := wr fn x (arr_push (rd fn x fr g) v) fr g in Res INone fr' g'
        | Res (EX x) fr g => Res (IThrow x) fr g
        | Fuel => Fuel
        end
    | SSetIdx x k e =>                                            (* BinaryAssign on an IndexExpression *)
        match ev e fr g with
        | Res (EV v) fr g => let '(fr', g') := wr fn x (arr_set (rd fn x fr g) (VInt k) v) fr g in Res INone fr' g'
        | Res (EX x) fr g => Res (IThrow x) fr g
        | Fuel => Fuel
        end
    | SIf c t ei e =>                                             (* IfStatement.GetValue *)
        thr (cond c fr g) (fun b fr g =>
          if b then iexec n' fn t fr g
          else
            (fix elif (l : elifs) (fr : frame) (g : glob) : res ictl :=
               match l with
               | EINil => iexec n' fn e fr g
               | EICons c b r =>
                   thr (cond c fr g) (fun t fr g => if t then iexec n' fn b fr g else elif r fr g)
               end) ei fr g)
    | SWhile c b =>                                               (* WhileStatement.GetValue *)
        thr (cond c fr g) (fun t fr g =>
          if t then
            match iexec n' fn b fr g with
            | Fuel => Fuel
            | Res cb fr g =>
                match loop_ctl cb with
                | LNext => iexec n' fn (SWhile c b) fr g
                | LExit c' => Res c' fr g
                end
            end
          else Res INone fr g)
    | SDoWhile b c =>                                             (* DoWhileStatement.GetValue *)
        match iexec n' fn b fr g with
        | Fuel => Fuel
        | Res cb fr g =>
            match loop_ctl cb with
            | LNext =>
                thr (cond c fr g) (fun t fr g => if t then iexec n' fn (SDoWhile b c) fr g else Res INone fr g)
            | LExit c' => Res c' fr g
            end
        end
    | SFor init c inc b =>                                        (* ForStatement.GetValue *)
        match ieval_each callf funs clos fn init fr g with
        | Fuel => Fuel
        | Res (Some x) fr g => Res (IThrow x) fr g
        | Res None fr g =>
            thr (icond_for callf funs clos fn c fr g) (fun t fr g =>
              if t then
                match iexec n' fn b fr g with
                | Fuel => Fuel
                | Res cb fr g =>
                    match loop_ctl cb with
                    | LNext =>
                        match ieval_incs callf funs clos fn inc fr g with
                        | Fuel => Fuel
                        | Res (Some x) fr g => Res (IThrow x) fr g
                        | Res None fr g => iexec n' fn (SFor ANil c inc b) fr g
                        end
                    | LExit c' => Res c' fr g
                    end
                end
              else Res INone fr g)
        end
    | SForeach a k v b =>                                         (* ForeachStatement.GetValue, ArrayValue *)
        match ev a fr g with
        | Fuel => Fuel
        | Res (EX x) fr g => Res (IThrow x) fr g
        | Res (EV av) fr g =>
            match foreach_items av with
            | None => Res (IThrow (err "foreach over a non-array")) fr g
            | Some items =>
                (fix each (l : list (value * value)) (fr : frame) (g : glob) : res ictl :=
                   match l with
                   | [] => Res INone fr g
                   | (kv, vv) :: r =>
                       let '(fr1, g1) := wr fn v vv fr g in
                       let '(fr2, g2) := match k with Some kx => wr fn kx kv fr1 g1 | None => (fr1, g1) end in
                       match iexec n' fn b fr2 g2 with
                       | Fuel => Fuel
                       | Res cb fr g =>
                           match loop_ctl cb with
                           | LNext => each r fr g
                           | LExit c' => Res c' fr g
                           end
                       end
                   end) items fr g
            end
        end
    | SSwitch c cl =>                                             (* SwitchStatement.GetValue *)
        match ev c fr g with
        | Fuel => Fuel
        | Res (EX x) fr g => Res (IThrow x) fr g
        | Res (EV cv) fr g =>
            (* runSwitchClause over the clauses in source order from the entry point: a body that runs
               off its end falls through into the next clause; break / continue aimed at the switch
               end it (IsBreak / IsContinue asked once), return and throw go outward *)
            let run :=
              (fix run (l : clauses) (fr : frame) (g : glob) : res ictl :=
                 match l with
                 | CLNil => Res INone fr g
                 | CLCase _ b r | CLDefault b r =>
                     match iexec n' fn b fr g with
                     | Fuel => Fuel
                     | Res cb fr g =>
                         match cb with
                         | INone => run r fr g
                         | _ => Res (switch_ctl cb) fr g
                         end
                     end
                 end) in
            (* the case values are compared in source order (default takes no part); no match: the
               default clause, wherever it stands (DefaultIndex), is the entry *)
            (fix cases (l : clauses) (fr : frame) (g : glob) : res ictl :=
               match l with
               | CLNil => run (default_entry cl) fr g
               | CLDefault _ r => cases r fr g
               | CLCase e _ r =>
                   match ev e fr g with
                   | Fuel => Fuel
                   | Res (EX x) fr g => Res (IThrow x) fr g
                   | Res (EV v) fr g => if switch_match cv v then run l fr g else cases r fr g
                   end
               end) cl fr g
        end
    | SBreak k => Res (IBrk k) fr g
    | SContinue k => Res (ICnt k) fr g
    | SReturn None => Res (IRet VNull) fr g
    | SReturn (Some e) =>
        match ev e fr g with
        | Res (EV v) fr g => Res (IRet v) fr g
        | Res (EX x) fr g => Res (IThrow x) fr g
        | Fuel => Fuel
        end
    | SStatic x init =>                                           (* StaticVarStatement.GetValue *)
        (* the main script has a store of its own since /repo d3ebf7f *)
        let st := match sget (fn, x) (gstat g) with Some _ => gstat g | None => sset (fn, x) init (gstat g) end in
        Res INone (fst fr, x :: snd fr) (set_stat st g)
    | STry b cs f =>                                              (* TryStatement.GetValue *)
        match iexec n' fn b fr (mark CTry g) with                 (* ghost event: the try is entered *)
        | Fuel => Fuel
        | Res cb fr1 g1 =>
            let caught :=                                         (* tryValue *)
              match cb with
              | IThrow x =>
                  match find_catch cm cs x with
                  | Some (xv, cbody) =>
                      let '(fr2, g2) := match xv with Some v => wr fn v x fr1 g1 | None => (fr1, g1) end in
                      iexec n' fn cbody fr2 g2
                  | None => Res cb fr1 g1
                  end
              | _ => Res cb fr1 g1                                (* break / continue / return pass through *)
              end in
            match caught with
            | Fuel => Fuel
            | Res c fr3 g3 =>
                match iexec n' fn f fr3 (mark CFin g3) with       (* ghost event: the finally block starts *)
                | Fuel => Fuel
                | Res INone fr4 g4 => Res c fr4 g4
                | Res cf fr4 g4 => Res cf fr4 g4                  (* a control from finally replaces the pending one *)
                end
            end
        end
    | SIfInst x T t e =>                                          (* IfStatement over InstanceOfExpression *)
        if (match rd fn x fr g with VObj _ _ _ => cm T (rd fn x fr g) | _ => false end)
        then iexec n' fn t fr g else iexec n' fn e fr g
    | SThrow e =>                                                 (* ThrowStatement.GetValue *)
        match ev e fr g with
        | Res (EV v) fr g => Res (IThrow (thrown_of v)) fr g
        | Res (EX x) fr g => Res (IThrow x) fr g
        | Fuel => Fuel
        end
    end
  end.

(* Program.GetValue on a fresh VM: a ReturnControl ends the script normally; any other control
   that reaches the top is handed to the VM's handler (diagnostic, failure) *)
Definition irun (n : nat) (p : stmt) : obs :=
  match iexec n "" p empty_frame empty_glob with
  | Fuel => ("", EndFuel)
  | Res c _ g =>
      (output g, match c with INone | IRet _ => EndOk | _ => EndError end)
  end.
End Stmt.

Definition run_impl (cm : catchfn) (n : nat) (p : prog) : obs := irun cm (funcs p) (closures p) n (main p).
(* programs without try/catch do not consult the catch-type test *)
Definition no_catch : catchfn := fun _ _ => false.
