(* C02 — correspondence: evaluate ImplSem and RefSem on the programs the real interpreter ran. *)
From Coq Require Import List String ZArith Bool Arith.
From V.C02 Require Import Lang Model Spec Wf Slots SlotModel.
Import ListNotations.
Open Scope string_scope.

Definition FUEL : nat := 4000.

(* a case: the program, what the implementation printed, how it ended (0 = normally,
   1 = uncaught error), and whether the generator meant it to be in the clean fragment *)
Definition case := (prog * string * nat * bool)%type.

Definition ending_code (e : ending) : nat :=
  match e with EndOk => 0 | EndError => 1 | EndFuel => 2 end.
Definition obs_is (o : obs) (out : string) (code : nat) : bool :=
  String.eqb (fst o) out && Nat.eqb (ending_code (snd o)) code.

(* failing clause numbers:
   1 = ImplSem (the model) and the implementation disagree            -> the tie is broken
   2 = RefSem (the spec) and the implementation disagree              -> the property is violated
   3 = the program is not wf (generator error)
   4 = Coq's [clean] disagrees with the generator's intention
   5 = the model ran out of fuel (generator produced a too long run)
   6 = some function's / closure's symbol table does not cover its body (Slots.cov_prog)
   7 = SlotSem (frames as index-accessed vectors) and the implementation disagree *)
Definition check_case (c : case) : list nat :=
  let '(p, out, code, cl) := c in
  let mi := run_impl no_catch FUEL p in
  let mr := run_ref no_catch FUEL p in
  (if obs_is mi out code then [] else [1%nat]) ++
  (if obs_is mr out code then [] else [2%nat]) ++
  (if wf p then [] else [3%nat]) ++
  (if Bool.eqb (clean p) cl then [] else [4%nat]) ++
  (match snd mi with EndFuel => [5%nat] | _ => [] end) ++
  (if cov_prog p then [] else [6%nat]) ++
  (if obs_is (run_slots no_catch FUEL p) out code then [] else [7%nat]).

(* for replays: both observations side by side *)
Definition show_case (p : prog) := (run_impl no_catch FUEL p, run_ref no_catch FUEL p, wf p, clean p).
