(* C02 — the slot vector of a call (runtime/context.go Context.variables, parser/scope_manager.go).

   The parser gives every variable of a function a parse-time index (parameters first, then first
   occurrence); CreateContext allocates one null cell per index; nodes read and write cells by
   index.  ImplSem (Model.v) keeps a call frame as a name-indexed map instead.  This file states
   what makes that a faithful representation: a vector indexed through the function's variable
   list simulates the map for every variable of the list.  [fun_vars] computes such a list for a
   function of the core AST and [covers] checks that a body mentions listed variables only; the
   check evaluates [covers] for every function of every generated program.
   (Definitions here; the simulation lemmas are in Proofs.v.) *)
From Coq Require Import List String ZArith Bool Arith.
From V.C02 Require Import Lang.
Import ListNotations.
Open Scope string_scope.

Definition add_var (x : string) (acc : list string) : list string :=
  if mem x acc then acc else (acc ++ [x])%list.

Fixpoint vars_expr (e : expr) (acc : list string) {struct e} : list string :=
  match e with
  | ELit _ | EPanic | EClosure _ => acc
  | EVar x | EPostInc x => add_var x acc
  | EBin _ a b | EAnd a b | EOr a b | ESame a b => vars_expr b (vars_expr a acc)
  | ENot a | EMsg a | EClass a | ENew _ a => vars_expr a acc
  | EAssign x e => add_var x (vars_expr e acc)
  | EArr a | ECall _ a => vars_args a acc
  | EIdx x i | EIdxInc _ x i => add_var x (vars_expr i acc)
  | ECallV f a => vars_args a (vars_expr f acc)
  | EMatch s m => vars_arms m (vars_expr s acc)
  end
with vars_args (a : args) (acc : list string) {struct a} : list string :=
  match a with ANil => acc | ACons e r => vars_args r (vars_expr e acc) end
with vars_arms (m : marms) (acc : list string) {struct m} : list string :=
  match m with
  | MNil => acc
  | MDefault e => vars_expr e acc
  | MCons c e r => vars_arms r (vars_expr e (vars_args c acc))
  end.

Definition add_opt (x : option string) (acc : list string) : list string :=
  match x with Some v => add_var v acc | None => acc end.

Fixpoint vars_stmt (s : stmt) (acc : list string) {struct s} : list string :=
  match s with
  | SSkip | SBreak _ | SContinue _ | SReturn None => acc
  | SSeq a b => vars_stmt b (vars_stmt a acc)
  | SExpr e | SEcho e | SReturn (Some e) | SThrow e => vars_expr e acc
  | SPush x e | SSetIdx x _ e => add_var x (vars_expr e acc)
  | SIf c t ei e => vars_stmt e (vars_elifs ei (vars_stmt t (vars_expr c acc)))
  | SWhile c b => vars_stmt b (vars_expr c acc)
  | SDoWhile b c => vars_expr c (vars_stmt b acc)
  | SFor i c inc b => vars_stmt b (vars_args inc (vars_expr c (vars_args i acc)))
  | SForeach a k v b => vars_stmt b (add_var v (add_opt k (vars_expr a acc)))
  | SSwitch c cl => vars_clauses cl (vars_expr c acc)
  | SStatic x _ => add_var x acc
  | STry b cs f => vars_stmt f (vars_catches cs (vars_stmt b acc))
  end
with vars_elifs (l : elifs) (acc : list string) {struct l} : list string :=
  match l with EINil => acc | EICons c b r => vars_elifs r (vars_stmt b (vars_expr c acc)) end
with vars_clauses (l : clauses) (acc : list string) {struct l} : list string :=
  match l with
  | CLNil => acc
  | CLCase e b r => vars_clauses r (vars_stmt b (vars_expr e acc))
  | CLDefault b r => vars_clauses r (vars_stmt b acc)
  end
with vars_catches (l : catches) (acc : list string) {struct l} : list string :=
  match l with CTNil => acc | CTCons _ x b r => vars_catches r (vars_stmt b (add_opt x acc)) end.

(* the symbol table of a function: parameters first, then first occurrence in the body *)
Definition fun_vars (d : fundef) : list string :=
  vars_stmt (fbody d) (fold_left (fun acc p => add_var (fst p) acc) (fparams d) []).

(* the symbol table of a closure: parameters, captured variables, then the body *)
Definition clo_vars (c : clodef) : list string :=
  vars_stmt (cbody c) (fold_left (fun acc x => add_var x acc) (cuses c)
                         (fold_left (fun acc p => add_var (fst p) acc) (cparams c) [])).

(* every variable the statement mentions is in the table *)
Definition covers (vs : list string) (s : stmt) : bool :=
  forallb (fun x => mem x vs) (vars_stmt s []).

(* ---------- the vector and its two operations ---------- *)
Fixpoint index_of (x : string) (vs : list string) : option nat :=
  match vs with
  | [] => None
  | y :: r => if String.eqb x y then Some O else option_map S (index_of x r)
  end.
Fixpoint set_nth (i : nat) (v : value) (l : list value) : list value :=
  match l, i with
  | [], _ => []
  | _ :: r, O => v :: r
  | a :: r, S i' => a :: set_nth i' v r
  end.
(* Context.GetVariableValue / SetVariableValue by index; an index outside the vector is the Go
   code's "Variable does not exist" / "index out of range" error: None *)
Definition vrd (vs : list string) (vec : list value) (x : string) : option value :=
  match index_of x vs with
  | Some i => nth_error vec i
  | None => None
  end.
Definition vwr (vs : list string) (vec : list value) (x : string) (v : value) : option (list value) :=
  match index_of x vs with
  | Some i => if (i <? List.length vec)%nat then Some (set_nth i v vec) else None
  | None => None
  end.
(* CreateContext: one null cell per variable *)
Definition vfresh (vs : list string) : list value := repeat VNull (List.length vs).

(* the vector represents the map on the table's variables, and the map holds nothing else *)
Definition vrel (vs : list string) (e : env) (vec : list value) : Prop :=
  List.length vec = List.length vs /\
  forall x, match index_of x vs with
            | Some i => nth_error vec i = Some (lookup x e)
            | None => lookup x e = VNull
            end.
