(* C02 — the slot vector of a call (runtime/context.go Context.variables, parser/scope_manager.go).

   The parser gives every variable of a function a parse-time index (parameters first, then first
   occurrence); CreateContext allocates one null cell per index; nodes read and write cells by
   index.  ImplSem (Model.v) keeps a call frame as a name-indexed map instead.  This file states
   what makes that a faithful representation: a vector indexed through the function's variable
   list simulates the map for every variable of the list.  [fun_vars] computes such a list for a
   function of the core AST and [covers] checks that a body mentions listed variables only; the
   check evaluates [covers] for every function of every generated program.
   (Definitions here; the simulation lemmas are in Proofs.v.) *)
From Coq Require Import List String ZArith Bool Arith.
From V.C02 Require Import Lang.
Import ListNotations.
Open Scope string_scope.

Definition add_var (x : string) (acc : list string) : list string :=
  if mem x acc then acc else (acc ++ [x])%list.

Fixpoint vars_expr (e : expr) (acc : list string) {struct e} : list string :=
  match e with
  | ELit _ | EPanic | EClosure _ => acc
  | EVar x | EPostInc x => add_var x acc
  | EBin _ a b | EAnd a b | EOr a b | ESame a b => vars_expr b (vars_expr a acc)
  | ENot a | EMsg a | EClass a | ENew _ a | EProp a | EHi a => vars_expr a acc
  | ESetProp a b => vars_expr a (vars_expr b acc)
  | EAssign x e => add_var x (vars_expr e acc)
  | EArr a | ECall _ a => vars_args a acc
  | EIdx x i | EIdxInc _ x i => add_var x (vars_expr i acc)
  | ECallV f a => vars_args a (vars_expr f acc)
  | EMatch s m => vars_arms m (vars_expr s acc)
  | ECallN _ a _ b => vars_args b (vars_args a acc)
  end
with vars_args (a : args) (acc : list string) {struct a} : list string :=
  match a with ANil => acc | ACons e r => vars_args r (vars_expr e acc) end
with vars_arms (m : marms) (acc : list string) {struct m} : list string :=
  match m with
  | MNil => acc
  | MDefault e => vars_expr e acc
  | MCons c e r => vars_arms r (vars_expr e (vars_args c acc))
  end.

Definition add_opt (x : option string) (acc : list string) : list string :=
  match x with Some v => add_var v acc | None => acc end.

Fixpoint vars_stmt (s : stmt) (acc : list string) {struct s} : list string :=
  match s with
  | SSkip | SBreak _ | SContinue _ | SReturn None => acc
  | SSeq a b => vars_stmt b (vars_stmt a acc)
  | SExpr e | SEcho e | SReturn (Some e) | SThrow e => vars_expr e acc
  | SPush x e | SSetIdx x _ e => add_var x (vars_expr e acc)
  | SIf c t ei e => vars_stmt e (vars_elifs ei (vars_stmt t (vars_expr c acc)))
  | SWhile c b => vars_stmt b (vars_expr c acc)
  | SDoWhile b c => vars_expr c (vars_stmt b acc)
  | SFor i c inc b => vars_stmt b (vars_args inc (vars_expr c (vars_args i acc)))
  | SForeach a k v b => vars_stmt b (add_var v (add_opt k (vars_expr a acc)))
  | SSwitch c cl => vars_clauses cl (vars_expr c acc)
  | SStatic x _ => add_var x acc
  | STry b cs f => vars_stmt f (vars_catches cs (vars_stmt b acc))
  | SIfInst x _ t e => vars_stmt e (vars_stmt t (add_var x acc))
  end
with vars_elifs (l : elifs) (acc : list string) {struct l} : list string :=
  match l with EINil => acc | EICons c b r => vars_elifs r (vars_stmt b (vars_expr c acc)) end
with vars_clauses (l : clauses) (acc : list string) {struct l} : list string :=
  match l with
  | CLNil => acc
  | CLCase e b r => vars_clauses r (vars_stmt b (vars_expr e acc))
  | CLDefault b r => vars_clauses r (vars_stmt b acc)
  end
with vars_catches (l : catches) (acc : list string) {struct l} : list string :=
  match l with CTNil => acc | CTCons _ x b r => vars_catches r (vars_stmt b (add_opt x acc)) end.

(* the symbol table of a function: parameters first, then first occurrence in the body *)
Definition fun_vars (d : fundef) : list string :=
  vars_stmt (fbody d) (fold_left (fun acc p => add_var (fst p) acc) (fparams d) []).

(* the symbol table of a closure: parameters, captured variables, then the body *)
Definition clo_vars (c : clodef) : list string :=
  vars_stmt (cbody c) (fold_left (fun acc x => add_var x acc) (cuses c)
                         (fold_left (fun acc p => add_var (fst p) acc) (cparams c) [])).

(* every variable the statement mentions is in the table *)
Definition covers (vs : list string) (s : stmt) : bool :=
  forallb (fun x => mem x vs) (vars_stmt s []).

(* ---------- the vector and its two operations ---------- *)
Fixpoint index_of (x : string) (vs : list string) : option nat :=
  match vs with
  | [] => None
  | y :: r => if String.eqb x y then Some O else option_map S (index_of x r)
  end.
Fixpoint set_nth (i : nat) (v : value) (l : list value) : list value :=
  match l, i with
  | [], _ => []
  | _ :: r, O => v :: r
  | a :: r, S i' => a :: set_nth i' v r
  end.
(* Context.GetVariableValue / SetVariableValue by index; an index outside the vector is the Go
   code's "Variable does not exist" / "index out of range" error: None *)
Definition vrd (vs : list string) (vec : list value) (x : string) : option value :=
  match index_of x vs with
  | Some i => nth_error vec i
  | None => None
  end.
Definition vwr (vs : list string) (vec : list value) (x : string) (v : value) : option (list value) :=
  match index_of x vs with
  | Some i => if (i <? List.length vec)%nat then Some (set_nth i v vec) else None
  | None => None
  end.
(* CreateContext: one null cell per variable *)
Definition vfresh (vs : list string) : list value := repeat VNull (List.length vs).

(* the vector represents the map on the table's variables, and the map holds nothing else *)
Definition vrel (vs : list string) (e : env) (vec : list value) : Prop :=
  List.length vec = List.length vs /\
  forall x, match index_of x vs with
            | Some i => nth_error vec i = Some (lookup x e)
            | None => lookup x e = VNull
            end.

(* ---------- coverage, structurally: every variable the code touches has a slot ---------- *)
Section Cov.
Variable clos : list clodef.
Variable vs : list string.
Definition mems (xs : list string) : bool := forallb (fun x => mem x vs) xs.
Fixpoint cov_expr (e : expr) {struct e} : bool :=
  match e with
  | ELit _ | EPanic => true
  | EClosure id => match nth_error clos id with Some cd => mems (cuses cd) | None => true end
  | EVar x | EPostInc x => mem x vs
  | EBin _ a b | EAnd a b | EOr a b | ESame a b => cov_expr a && cov_expr b
  | ENot a | EMsg a | EClass a | ENew _ a | EProp a | EHi a => cov_expr a
  | ESetProp a b => cov_expr b && cov_expr a
  | EAssign x e => mem x vs && cov_expr e
  | EArr a | ECall _ a => cov_args a
  | EIdx x i | EIdxInc _ x i => mem x vs && cov_expr i
  | ECallV f a => cov_expr f && cov_args a
  | EMatch s m => cov_expr s && cov_arms m
  | ECallN _ a _ b => cov_args a && cov_args b
  end
with cov_args (a : args) {struct a} : bool :=
  match a with ANil => true | ACons e r => cov_expr e && cov_args r end
with cov_arms (m : marms) {struct m} : bool :=
  match m with
  | MNil => true
  | MDefault e => cov_expr e
  | MCons c e r => cov_args c && cov_expr e && cov_arms r
  end.
Definition cov_opt (x : option string) : bool := match x with Some v => mem v vs | None => true end.
Fixpoint cov_stmt (s : stmt) {struct s} : bool :=
  match s with
  | SSkip | SBreak _ | SContinue _ | SReturn None => true
  | SSeq a b => cov_stmt a && cov_stmt b
  | SExpr e | SEcho e | SReturn (Some e) | SThrow e => cov_expr e
  | SPush x e | SSetIdx x _ e => mem x vs && cov_expr e
  | SIf c t ei e => cov_expr c && cov_stmt t && cov_elifs ei && cov_stmt e
  | SWhile c b | SDoWhile b c => cov_expr c && cov_stmt b
  | SFor i c inc b => cov_args i && cov_expr c && cov_args inc && cov_stmt b
  | SForeach a k v b => cov_expr a && cov_opt k && mem v vs && cov_stmt b
  | SSwitch c cl => cov_expr c && cov_clauses cl
  | SStatic x _ => mem x vs
  | STry b cs f => cov_stmt b && cov_catches cs && cov_stmt f
  | SIfInst x _ t e => mem x vs && cov_stmt t && cov_stmt e
  end
with cov_elifs (l : elifs) {struct l} : bool :=
  match l with EINil => true | EICons c b r => cov_expr c && cov_stmt b && cov_elifs r end
with cov_clauses (l : clauses) {struct l} : bool :=
  match l with
  | CLNil => true
  | CLCase e b r => cov_expr e && cov_stmt b && cov_clauses r
  | CLDefault b r => cov_stmt b && cov_clauses r
  end
with cov_catches (l : catches) {struct l} : bool :=
  match l with CTNil => true | CTCons _ x b r => cov_opt x && cov_stmt b && cov_catches r end.
End Cov.

(* every function, closure and the main script: parameters (and captures) and body within the table *)
Definition cov_prog (p : prog) : bool :=
  cov_stmt (closures p) (vars_stmt (main p) []) (main p) &&
  forallb (fun d => forallb (fun q => mem (fst q) (fun_vars d)) (fparams d) && cov_stmt (closures p) (fun_vars d) (fbody d)) (funcs p) &&
  forallb (fun c => forallb (fun q => mem (fst q) (clo_vars c)) (cparams c) && forallb (fun x => mem x (clo_vars c)) (cuses c) &&
                    cov_stmt (closures p) (clo_vars c) (cbody c)) (closures p).
