(* C02 — unfolding equations of SlotSem.  GENERATED from Proofs.v by tools/gen_slotmodel.py. *)
From Coq Require Import List String ZArith Bool Arith Lia.
From V.C02 Require Import Lang Model Slots SlotModel.
Import ListNotations.
Open Scope string_scope.

Definition scallf (cm : catchfn) (funs : list fundef) (clos : list clodef) (n : nat) : callfn := fun c avs g =>
  match c with
  | CFun f =>
      match find_fun funs f with
      | None => Some (EX (err "undefined function"), g)
      | Some d =>
          if enough_args (fparams d) avs then
            match sexec cm funs clos n (fun_vars d) f (fbody d) (sbind_params (fun_vars d) (fparams d) avs (sfresh (fun_vars d)), []) g with
            | Fuel => None
            | Res c _ g' => Some (call_result c, g')
            end
          else Some (EX (VErr "too few arguments"), g)
      end
  | CClo id oid cap =>
      match nth_error clos id with
      | None => Some (EX (VErr "no such closure"), g)
      | Some cd =>
          if enough_args (cparams cd) avs then
            match sexec cm funs clos n (clo_vars cd) (clo_name oid) (cbody cd)
                    (sbind_captured (clo_vars cd) cap (sbind_params (clo_vars cd) (cparams cd) avs (sfresh (clo_vars cd))), []) g with
            | Fuel => None
            | Res c _ g' => Some (call_result c, g')
            end
          else Some (EX (VErr "too few arguments"), g)
      end
  end.

Section SUnfold.
Variable cm : catchfn.
Variable funs : list fundef.
Variable clos : list clodef.
Variables (n : nat) (vs : list string) (fn : string) (fr : frame) (g : glob).
Let ev := seval (scallf cm funs clos n) funs clos vs fn.
Let cond := scond (scallf cm funs clos n) funs clos vs fn.

Lemma sexec_0 s : sexec cm funs clos 0 vs fn s fr g = Fuel.
Proof. reflexivity. Qed.
Lemma sexec_skip : sexec cm funs clos (S n) vs fn SSkip fr g = Res INone fr g.
Proof. reflexivity. Qed.
Lemma sexec_seq a b : sexec cm funs clos (S n) vs fn (SSeq a b) fr g =
  match sexec cm funs clos n vs fn a fr g with Res INone fr g => sexec cm funs clos n vs fn b fr g | r => r end.
Proof. reflexivity. Qed.
Lemma sexec_expr e : sexec cm funs clos (S n) vs fn (SExpr e) fr g =
  match ev e fr g with
  | Res (EV _) fr g => Res INone fr g | Res (EX x) fr g => Res (IThrow x) fr g | Fuel => Fuel end.
Proof. reflexivity. Qed.
Lemma sexec_echo e : sexec cm funs clos (S n) vs fn (SEcho e) fr g =
  match ev e fr g with
  | Res (EV v) fr g => Res INone fr (emit (to_str v) g) | Res (EX x) fr g => Res (IThrow x) fr g | Fuel => Fuel end.
Proof. reflexivity. Qed.
Lemma sexec_push x e : sexec cm funs clos (S n) vs fn (SPush x e) fr g =
  match ev e fr g with
  | Res (EV v) fr g => let '(fr', g') := swr vs fn x (arr_push (srd vs fn x fr g) v) fr g in Res INone fr' g'
  | Res (EX x) fr g => Res (IThrow x) fr g | Fuel => Fuel end.
Proof. reflexivity. Qed.
Lemma sexec_setidx x k e : sexec cm funs clos (S n) vs fn (SSetIdx x k e) fr g =
  match ev e fr g with
  | Res (EV v) fr g => let '(fr', g') := swr vs fn x (arr_set (srd vs fn x fr g) (VInt k) v) fr g in Res INone fr' g'
  | Res (EX x) fr g => Res (IThrow x) fr g | Fuel => Fuel end.
Proof. reflexivity. Qed.
Definition selif (e : stmt) := fix elif (l : elifs) (fr : frame) (g : glob) : res ictl :=
  match l with
  | EINil => sexec cm funs clos n vs fn e fr g
  | EICons c b r => thr (cond c fr g) (fun t fr g => if t then sexec cm funs clos n vs fn b fr g else elif r fr g)
  end.
Lemma sexec_if c t ei e : sexec cm funs clos (S n) vs fn (SIf c t ei e) fr g =
  thr (cond c fr g) (fun b fr g => if b then sexec cm funs clos n vs fn t fr g else selif e ei fr g).
Proof. reflexivity. Qed.
Lemma sexec_while c b : sexec cm funs clos (S n) vs fn (SWhile c b) fr g =
  thr (cond c fr g) (fun t fr g =>
    if t then
      match sexec cm funs clos n vs fn b fr g with
      | Fuel => Fuel
      | Res cb fr g =>
          match loop_ctl cb with
          | LNext => sexec cm funs clos n vs fn (SWhile c b) fr g
          | LExit c' => Res c' fr g
          end
      end
    else Res INone fr g).
Proof. reflexivity. Qed.
Lemma sexec_dowhile b c : sexec cm funs clos (S n) vs fn (SDoWhile b c) fr g =
  match sexec cm funs clos n vs fn b fr g with
  | Fuel => Fuel
  | Res cb fr g =>
      match loop_ctl cb with
      | LNext => thr (cond c fr g) (fun t fr g => if t then sexec cm funs clos n vs fn (SDoWhile b c) fr g else Res INone fr g)
      | LExit c' => Res c' fr g
      end
  end.
Proof. reflexivity. Qed.
Lemma sexec_for init c inc b : sexec cm funs clos (S n) vs fn (SFor init c inc b) fr g =
  match seval_each (scallf cm funs clos n) funs clos vs fn init fr g with
  | Fuel => Fuel
  | Res (Some x) fr g => Res (IThrow x) fr g
  | Res None fr g =>
      thr (scond_for (scallf cm funs clos n) funs clos vs fn c fr g) (fun t fr g =>
        if t then
          match sexec cm funs clos n vs fn b fr g with
          | Fuel => Fuel
          | Res cb fr g =>
              match loop_ctl cb with
              | LNext =>
                  match seval_incs (scallf cm funs clos n) funs clos vs fn inc fr g with
                  | Fuel => Fuel
                  | Res (Some x) fr g => Res (IThrow x) fr g
                  | Res None fr g => sexec cm funs clos n vs fn (SFor ANil c inc b) fr g
                  end
              | LExit c' => Res c' fr g
              end
          end
        else Res INone fr g)
  end.
Proof. reflexivity. Qed.
Definition seach (k : option string) (v : string) (b : stmt) := fix each (l : list (value * value)) (fr : frame) (g : glob) : res ictl :=
  match l with
  | [] => Res INone fr g
  | (kv, vv) :: r =>
      let '(fr1, g1) := swr vs fn v vv fr g in
      let '(fr2, g2) := match k with Some kx => swr vs fn kx kv fr1 g1 | None => (fr1, g1) end in
      match sexec cm funs clos n vs fn b fr2 g2 with
      | Fuel => Fuel
      | Res cb fr g =>
          match loop_ctl cb with
          | LNext => each r fr g
          | LExit c' => Res c' fr g
          end
      end
  end.
Lemma sexec_foreach a k v b : sexec cm funs clos (S n) vs fn (SForeach a k v b) fr g =
  match ev a fr g with
  | Fuel => Fuel
  | Res (EX x) fr g => Res (IThrow x) fr g
  | Res (EV av) fr g =>
      match foreach_items av with
      | None => Res (IThrow (err "foreach over a non-array")) fr g
      | Some items => seach k v b items fr g
      end
  end.
Proof. reflexivity. Qed.
Definition srunc := fix run (l : clauses) (fr : frame) (g : glob) : res ictl :=
  match l with
  | CLNil => Res INone fr g
  | CLCase _ b r | CLDefault b r =>
      match sexec cm funs clos n vs fn b fr g with
      | Fuel => Fuel
      | Res cb fr g =>
          match cb with
          | INone => run r fr g
          | _ => Res (switch_ctl cb) fr g
          end
      end
  end.
Definition scases (cl : clauses) (cv : value) := fix cases (l : clauses) (fr : frame) (g : glob) : res ictl :=
  match l with
  | CLNil => srunc (default_entry cl) fr g
  | CLDefault _ r => cases r fr g
  | CLCase e _ r =>
      match ev e fr g with
      | Fuel => Fuel
      | Res (EX x) fr g => Res (IThrow x) fr g
      | Res (EV v) fr g => if switch_match cv v then srunc l fr g else cases r fr g
      end
  end.
Lemma sexec_switch c cl : sexec cm funs clos (S n) vs fn (SSwitch c cl) fr g =
  match ev c fr g with
  | Fuel => Fuel
  | Res (EX x) fr g => Res (IThrow x) fr g
  | Res (EV cv) fr g => scases cl cv cl fr g
  end.
Proof. reflexivity. Qed.
Lemma sexec_break k : sexec cm funs clos (S n) vs fn (SBreak k) fr g = Res (IBrk k) fr g.
Proof. reflexivity. Qed.
Lemma sexec_continue k : sexec cm funs clos (S n) vs fn (SContinue k) fr g = Res (ICnt k) fr g.
Proof. reflexivity. Qed.
Lemma sexec_return_none : sexec cm funs clos (S n) vs fn (SReturn None) fr g = Res (IRet VNull) fr g.
Proof. reflexivity. Qed.
Lemma sexec_return e : sexec cm funs clos (S n) vs fn (SReturn (Some e)) fr g =
  match ev e fr g with
  | Res (EV v) fr g => Res (IRet v) fr g | Res (EX x) fr g => Res (IThrow x) fr g | Fuel => Fuel end.
Proof. reflexivity. Qed.
Lemma sexec_static x init : sexec cm funs clos (S n) vs fn (SStatic x init) fr g =
  let st := match sget (fn, x) (gstat g) with Some _ => gstat g | None => sset (fn, x) init (gstat g) end in
  Res INone (fst fr, x :: snd fr) (set_stat st g).
Proof. reflexivity. Qed.
Lemma sexec_try b cs f : sexec cm funs clos (S n) vs fn (STry b cs f) fr g =
  match sexec cm funs clos n vs fn b fr (mark CTry g) with
  | Fuel => Fuel
  | Res cb fr1 g1 =>
      match
        match cb with
        | IThrow x =>
            match find_catch cm cs x with
            | Some (xv, cbody) =>
                let '(fr2, g2) := match xv with Some v => swr vs fn v x fr1 g1 | None => (fr1, g1) end in
                sexec cm funs clos n vs fn cbody fr2 g2
            | None => Res cb fr1 g1
            end
        | _ => Res cb fr1 g1
        end
      with
      | Fuel => Fuel
      | Res c fr3 g3 =>
          match sexec cm funs clos n vs fn f fr3 (mark CFin g3) with
          | Fuel => Fuel
          | Res INone fr4 g4 => Res c fr4 g4
          | Res cf fr4 g4 => Res cf fr4 g4
          end
      end
  end.
Proof. reflexivity. Qed.
Lemma sexec_ifinst x T t e : sexec cm funs clos (S n) vs fn (SIfInst x T t e) fr g =
  if (match srd vs fn x fr g with VObj _ _ _ => cm T (srd vs fn x fr g) | _ => false end)
  then sexec cm funs clos n vs fn t fr g else sexec cm funs clos n vs fn e fr g.
Proof. reflexivity. Qed.
Lemma sexec_throw e : sexec cm funs clos (S n) vs fn (SThrow e) fr g =
  match ev e fr g with
  | Res (EV v) fr g => Res (IThrow (thrown_of v)) fr g
  | Res (EX x) fr g => Res (IThrow x) fr g
  | Fuel => Fuel
  end.
Proof. reflexivity. Qed.
End SUnfold.

Section SExprUnfold.
Variable funs : list fundef.
Variable clos : list clodef.
Variable vs : list string.
Variable fn : string.

Definition sslow cf o a b fr g :=
  match seval cf funs clos vs fn a fr g with
  | Res (EV va) fr g =>
      match seval cf funs clos vs fn b fr g with
      | Res (EV vb) fr g => Res (EV (binop o va vb)) fr g
      | r => r
      end
  | r => r
  end.

Lemma seval_bin cf o a b fr g : seval cf funs clos vs fn (EBin o a b) fr g =
  match o with
  | Le => match svar_int_le vs fn a b fr g with Some t => Res (EV (VBool t)) fr g | None => sslow cf o a b fr g end
  | _ => sslow cf o a b fr g
  end.
Proof. destruct o; reflexivity. Qed.

Lemma seval_assign cf x r fr g : seval cf funs clos vs fn (EAssign x r) fr g =
  match sfast_assign vs fn r fr g with
  | Some z => let '(fr', g') := swr vs fn x (VInt z) fr g in Res (EV (VInt z)) fr' g'
  | None =>
      match seval cf funs clos vs fn r fr g with
      | Res (EV v) fr g => let '(fr', g') := swr vs fn x v fr g in Res (EV v) fr' g'
      | r => r
      end
  end.
Proof. reflexivity. Qed.

Lemma seval_not cf a fr g : seval cf funs clos vs fn (ENot a) fr g =
  match seval cf funs clos vs fn a fr g with
  | Res (EV v) fr g => Res (EV (VBool (negb (truthy v)))) fr g
  | r => r
  end.
Proof. reflexivity. Qed.

Lemma seval_and cf a b fr g : seval cf funs clos vs fn (EAnd a b) fr g =
  match seval cf funs clos vs fn a fr g with
  | Res (EV va) fr g =>
      if truthy va then
        match seval cf funs clos vs fn b fr g with
        | Res (EV vb) fr g => Res (EV (VBool (truthy vb))) fr g
        | r => r
        end
      else Res (EV (VBool false)) fr g
  | r => r
  end.
Proof. reflexivity. Qed.

Lemma seval_or cf a b fr g : seval cf funs clos vs fn (EOr a b) fr g =
  match seval cf funs clos vs fn a fr g with
  | Res (EV va) fr g =>
      if truthy va then Res (EV (VBool true)) fr g
      else
        match seval cf funs clos vs fn b fr g with
        | Res (EV vb) fr g => Res (EV (VBool (truthy vb))) fr g
        | r => r
        end
  | r => r
  end.
Proof. reflexivity. Qed.

Lemma seval_arr cf a fr g : seval cf funs clos vs fn (EArr a) fr g =
  match seval_args cf funs clos vs fn a fr g with
  | Res (inl vs) fr g => Res (EV (VArr vs)) fr g
  | Res (inr x) fr g => Res (EX x) fr g
  | Fuel => Fuel
  end.
Proof. reflexivity. Qed.

Lemma seval_call cf f a fr g : seval cf funs clos vs fn (ECall f a) fr g =
  match find_fun funs f with
  | None => Res (EX (err "undefined function")) fr g
  | Some _ =>
      match seval_args cf funs clos vs fn a fr g with
      | Res (inl vs) fr g =>
          match cf (CFun f) vs g with
          | Some (o, g') => Res o fr g'
          | None => Fuel
          end
      | Res (inr x) fr g => Res (EX x) fr g
      | Fuel => Fuel
      end
  end.
Proof. reflexivity. Qed.

Lemma seval_args_cons cf e r fr g : seval_args cf funs clos vs fn (ACons e r) fr g =
  match seval cf funs clos vs fn e fr g with
  | Res (EV v) fr g =>
      match seval_args cf funs clos vs fn r fr g with
      | Res (inl vs) fr g => Res (inl (v :: vs)) fr g
      | r => r
      end
  | Res (EX x) fr g => Res (inr x) fr g
  | Fuel => Fuel
  end.
Proof. reflexivity. Qed.

Lemma seval_new cf cls m fr g : seval cf funs clos vs fn (ENew cls m) fr g =
  match seval cf funs clos vs fn m fr g with
  | Res (EV v) fr g => Res (EV (VObj (gnext g) cls (to_str v))) fr (bump g)
  | r => r
  end.
Proof. reflexivity. Qed.

Lemma seval_msg cf e fr g : seval cf funs clos vs fn (EMsg e) fr g =
  match seval cf funs clos vs fn e fr g with
  | Res (EV v) fr g =>
      match msg_of v with
      | Some m => Res (EV (VStr m)) fr g
      | None => Res (EX (VErr "method call on a non-object")) fr g
      end
  | r => r
  end.
Proof. reflexivity. Qed.

Lemma seval_class cf e fr g : seval cf funs clos vs fn (EClass e) fr g =
  match seval cf funs clos vs fn e fr g with
  | Res (EV v) fr g =>
      match class_of v with
      | Some c => Res (EV (VStr c)) fr g
      | None => Res (EX (VErr "get_class of a non-object")) fr g
      end
  | r => r
  end.
Proof. reflexivity. Qed.

Lemma seval_same cf a b fr g : seval cf funs clos vs fn (ESame a b) fr g =
  match seval cf funs clos vs fn a fr g with
  | Res (EV va) fr g =>
      match seval cf funs clos vs fn b fr g with
      | Res (EV vb) fr g => Res (EV (VBool (same_value va vb))) fr g
      | r => r
      end
  | r => r
  end.
Proof. reflexivity. Qed.

Lemma seval_match cf s m fr g : seval cf funs clos vs fn (EMatch s m) fr g =
  match seval cf funs clos vs fn s fr g with
  | Res (EV v) fr g => seval_arms cf funs clos vs fn v m fr g
  | r => r
  end.
Proof. reflexivity. Qed.

Lemma seval_arms_nil cf v fr g : seval_arms cf funs clos vs fn v MNil fr g = Res (EV VNull) fr g.
Proof. reflexivity. Qed.

Lemma seval_arms_default cf v e fr g : seval_arms cf funs clos vs fn v (MDefault e) fr g = seval cf funs clos vs fn e fr g.
Proof. reflexivity. Qed.

Lemma seval_arms_cons cf v c e r fr g : seval_arms cf funs clos vs fn v (MCons c e r) fr g =
  match seval_conds cf funs clos vs fn v c fr g with
  | Res (inl true) fr g => seval cf funs clos vs fn e fr g
  | Res (inl false) fr g => seval_arms cf funs clos vs fn v r fr g
  | Res (inr x) fr g => Res (EX x) fr g
  | Fuel => Fuel
  end.
Proof. reflexivity. Qed.

Lemma seval_conds_nil cf v fr g : seval_conds cf funs clos vs fn v ANil fr g = Res (inl false) fr g.
Proof. reflexivity. Qed.

Lemma seval_conds_cons cf v e r fr g : seval_conds cf funs clos vs fn v (ACons e r) fr g =
  match seval cf funs clos vs fn e fr g with
  | Res (EV w) fr g => if same_value v w then Res (inl true) fr g else seval_conds cf funs clos vs fn v r fr g
  | Res (EX x) fr g => Res (inr x) fr g
  | Fuel => Fuel
  end.
Proof. reflexivity. Qed.

Lemma seval_calln cf f a xs b fr g : seval cf funs clos vs fn (ECallN f a xs b) fr g =
  match find_fun funs f with
  | None => Res (EX (err "undefined function")) fr g
  | Some d =>
      match seval_args cf funs clos vs fn a fr g with
      | Res (inl pvs) fr g =>
          match seval_nargs cf funs clos vs fn (named_ok_impl (fparams d) pvs) xs [] b fr g with
          | Res (inl nvs) fr g =>
              match arrange_impl (fparams d) pvs nvs with
              | Some full =>
                  match cf (CFun f) full g with
                  | Some (o, g') => Res o fr g'
                  | None => Fuel
                  end
              | None => Res (EX (VErr "argument not passed")) fr g
              end
          | Res (inr x) fr g => Res (EX x) fr g
          | Fuel => Fuel
          end
      | Res (inr x) fr g => Res (EX x) fr g
      | Fuel => Fuel
      end
  end.
Proof. reflexivity. Qed.

Lemma seval_nargs_nil cf ok xs seen fr g : seval_nargs cf funs clos vs fn ok xs seen ANil fr g = Res (inl seen) fr g.
Proof. reflexivity. Qed.

Lemma seval_nargs_cons cf ok xs seen e r fr g : seval_nargs cf funs clos vs fn ok xs seen (ACons e r) fr g =
  match xs with
  | [] => Res (inl seen) fr g
  | x :: xr =>
      match seval cf funs clos vs fn e fr g with
      | Res (EV v) fr g =>
          if ok x seen then seval_nargs cf funs clos vs fn ok xr (seen ++ [(x, v)])%list r fr g
          else Res (inr (VErr "named parameter")) fr g
      | Res (EX w) fr g => Res (inr w) fr g
      | Fuel => Fuel
      end
  end.
Proof. reflexivity. Qed.

Lemma seval_idx cf x i fr g : seval cf funs clos vs fn (EIdx x i) fr g =
  match seval cf funs clos vs fn i fr g with
  | Res (EV iv) fr g => Res (EV (arr_get (srd vs fn x fr g) iv)) fr g
  | r => r
  end.
Proof. reflexivity. Qed.

Lemma seval_idxinc cf pre x i fr g : seval cf funs clos vs fn (EIdxInc pre x i) fr g =
  match seval cf funs clos vs fn i fr g with
  | Res (EV iv) fr g =>
      let '(nv, ov) := incr_value (arr_get (srd vs fn x fr g) iv) in
      let '(fr', g') := swr vs fn x (arr_set (srd vs fn x fr g) iv nv) fr g in
      Res (EV (if pre then nv else ov)) fr' g'
  | r => r
  end.
Proof. reflexivity. Qed.

Lemma seval_closure cf id fr g : seval cf funs clos vs fn (EClosure id) fr g =
  match nth_error clos id with
  | Some cd => Res (EV (VClo id (gnext g) (scapture vs fn (cuses cd) fr g))) fr (bump g)
  | None => Res (EX (VErr "no such closure")) fr g
  end.
Proof. reflexivity. Qed.

Lemma seval_callv cf f a fr g : seval cf funs clos vs fn (ECallV f a) fr g =
  match seval cf funs clos vs fn f fr g with
  | Res (EV (VClo id oid cap)) fr g =>
      match seval_args cf funs clos vs fn a fr g with
      | Res (inl vs) fr g =>
          match cf (CClo id oid cap) vs g with
          | Some (o, g') => Res o fr g'
          | None => Fuel
          end
      | Res (inr x) fr g => Res (EX x) fr g
      | Fuel => Fuel
      end
  | Res (EV _) fr g => Res (EX (VErr "not callable")) fr g
  | r => r
  end.
Proof. reflexivity. Qed.

Lemma seval_prop cf e fr g : seval cf funs clos vs fn (EProp e) fr g =
  match seval cf funs clos vs fn e fr g with
  | Res (EV v) fr g =>
      match obj_id v with
      | Some i => Res (EV (hget i (gheap g))) fr g
      | None => Res (EX (VErr "property of a non-object")) fr g
      end
  | r => r
  end.
Proof. reflexivity. Qed.

Lemma seval_setprop cf e w fr g : seval cf funs clos vs fn (ESetProp e w) fr g =
  match seval cf funs clos vs fn w fr g with
  | Res (EV wv) fr g =>
      match seval cf funs clos vs fn e fr g with
      | Res (EV v) fr g =>
          match obj_id v with
          | Some i => Res (EV wv) fr (set_prop i wv g)
          | None => Res (EX (VErr "property of a non-object")) fr g
          end
      | r => r
      end
  | r => r
  end.
Proof. reflexivity. Qed.

Lemma seval_hi cf e fr g : seval cf funs clos vs fn (EHi e) fr g =
  match seval cf funs clos vs fn e fr g with
  | Res (EV v) fr g =>
      match obj_id v with
      | Some i => Res (EV (VStr ("hi" ++ to_str (hget i (gheap g))))) fr g
      | None => Res (EX (VErr "method call on a non-object")) fr g
      end
  | r => r
  end.
Proof. reflexivity. Qed.

Lemma seval_postinc cf x fr g : seval cf funs clos vs fn (EPostInc x) fr g =
  let '(nv, ov) := incr_value (srd vs fn x fr g) in
  let '(fr', g') := swr vs fn x nv fr g in Res (EV ov) fr' g'.
Proof. reflexivity. Qed.
End SExprUnfold.
