(* C02 — non-vacuity: concrete programs meeting the theorems' hypotheses. *)
From Coq Require Import List String ZArith Bool.
From V.C02 Require Import Lang Model Spec Wf Proofs Slots ProofsSlots SlotModel.
Import ListNotations.
Open Scope string_scope.

(* A program using every construct of the core: recursion, a default parameter, a static local,
   while / do-while / for (two initialisers, two increments, `<=` fast path) / foreach with key,
   switch with default, `continue`, `continue 2`, `break 3`, if / elseif / else, && and !, array
   append, and a caller variable ($i) that a callee also uses.  PHP source:
     function fact($n) {
       if ($n <= 1) {
         return 1;
       }
       return $n * fact($n - 1);
     }
     function counter($step = 2) {
       static $n = 10;
       $n = $n + $step;
       return $n;
     }
     function scan($limit, $i = 0) {
       $acc = 0;
       while ($i < $limit) {
         $i++;
         if ($i == 2) {
           continue;
         }
         foreach ([1, 2, 3] as $k => $v) {
           switch ($v) {
             case 2:
               continue 2;
             case 3:
               break 3;
             default:
               $acc = $acc + $v;
           }
           echo "k" . $k;
         }
         echo "i" . $i;
       }
       return $acc;
     }
     $i = 100;
     $arr = [];
     echo "f=" . fact(5);
     echo " c=" . counter();
     echo "," . counter(5);
     echo " s=" . scan(4);
     for ($a = 0, $b = 10; $a <= 2; $a++, $b = $b - 1) {
       $arr[] = $a;
       if ($a == 0) {
         echo " zero" . 0;
       } elseif ($a == 1) {
         echo " one" . $b;
       } else {
         echo " other" . $b;
       }
     }
     $d = 0;
     do {
       $d++;
       if ((($d > 1) && !($d == 5))) {
         break;
       }
     } while ($d < 9);
     foreach ($arr as $e) {
       echo " e" . $e;
     }
     echo " i=" . $i;
     echo " d=" . $d;
 *)
Definition ex_prog : prog :=
  {| funcs := [{| fname := "fact"; fparams := [("n", None)]; fbody := (SSeq (SIf (EBin Le (EVar "n") (ELit (VInt 1))) (SReturn (Some (ELit (VInt 1)))) EINil SSkip) (SReturn (Some (EBin Mul (EVar "n") (ECall "fact" (ACons (EBin Sub (EVar "n") (ELit (VInt 1))) ANil)))))) |}; {| fname := "counter"; fparams := [("step", Some (VInt 2))]; fbody := (SSeq (SStatic "n" (VInt 10)) (SSeq (SExpr (EAssign "n" (EBin Add (EVar "n") (EVar "step")))) (SReturn (Some (EVar "n"))))) |}; {| fname := "scan"; fparams := [("limit", None); ("i", Some (VInt 0))]; fbody := (SSeq (SExpr (EAssign "acc" (ELit (VInt 0)))) (SSeq (SWhile (EBin Lt (EVar "i") (EVar "limit")) (SSeq (SExpr (EPostInc "i")) (SSeq (SIf (EBin Eq (EVar "i") (ELit (VInt 2))) (SContinue 1) EINil SSkip) (SSeq (SForeach (EArr (ACons (ELit (VInt 1)) (ACons (ELit (VInt 2)) (ACons (ELit (VInt 3)) ANil)))) (Some "k") "v" (SSeq (SSwitch (EVar "v") (CLCase (ELit (VInt 2)) (SContinue 2) (CLCase (ELit (VInt 3)) (SBreak 3) (CLDefault (SExpr (EAssign "acc" (EBin Add (EVar "acc") (EVar "v")))) CLNil)))) (SEcho (EBin Concat (ELit (VStr "k")) (EVar "k"))))) (SEcho (EBin Concat (ELit (VStr "i")) (EVar "i"))))))) (SReturn (Some (EVar "acc"))))) |}]; closures := []; main := (SSeq (SExpr (EAssign "i" (ELit (VInt 100)))) (SSeq (SExpr (EAssign "arr" (EArr ANil))) (SSeq (SEcho (EBin Concat (ELit (VStr "f=")) (ECall "fact" (ACons (ELit (VInt 5)) ANil)))) (SSeq (SEcho (EBin Concat (ELit (VStr " c=")) (ECall "counter" ANil))) (SSeq (SEcho (EBin Concat (ELit (VStr ",")) (ECall "counter" (ACons (ELit (VInt 5)) ANil)))) (SSeq (SEcho (EBin Concat (ELit (VStr " s=")) (ECall "scan" (ACons (ELit (VInt 4)) ANil)))) (SSeq (SFor (ACons (EAssign "a" (ELit (VInt 0))) (ACons (EAssign "b" (ELit (VInt 10))) ANil)) (EBin Le (EVar "a") (ELit (VInt 2))) (ACons (EPostInc "a") (ACons (EAssign "b" (EBin Sub (EVar "b") (ELit (VInt 1)))) ANil)) (SSeq (SPush "arr" (EVar "a")) (SIf (EBin Eq (EVar "a") (ELit (VInt 0))) (SEcho (EBin Concat (ELit (VStr " zero")) (ELit (VInt 0)))) (EICons (EBin Eq (EVar "a") (ELit (VInt 1))) (SEcho (EBin Concat (ELit (VStr " one")) (EVar "b"))) EINil) (SEcho (EBin Concat (ELit (VStr " other")) (EVar "b")))))) (SSeq (SExpr (EAssign "d" (ELit (VInt 0)))) (SSeq (SDoWhile (SSeq (SExpr (EPostInc "d")) (SIf (EAnd (EBin Gt (EVar "d") (ELit (VInt 1))) (ENot (EBin Eq (EVar "d") (ELit (VInt 5))))) (SBreak 1) EINil SSkip)) (EBin Lt (EVar "d") (ELit (VInt 9)))) (SSeq (SForeach (EVar "arr") None "e" (SEcho (EBin Concat (ELit (VStr " e")) (EVar "e")))) (SSeq (SEcho (EBin Concat (ELit (VStr " i=")) (EVar "i"))) (SEcho (EBin Concat (ELit (VStr " d=")) (EVar "d")))))))))))))) |}.

Example ex_wf : wf ex_prog = true.
Proof. vm_compute. reflexivity. Qed.
Example ex_clean : clean ex_prog = true.
Proof. vm_compute. reflexivity. Qed.
(* what the real interpreter prints for it (observed), is what both interpreters compute *)
Example ex_impl : run_impl no_catch 200 ex_prog = ("f=120 c=12,17k0 s=1 zero0 one9 other8 e0 e1 e2 i=100 d=2", EndOk).
Proof. vm_compute. reflexivity. Qed.
Example ex_ref : run_ref no_catch 200 ex_prog = ("f=120 c=12,17k0 s=1 zero0 one9 other8 e0 e1 e2 i=100 d=2", EndOk).
Proof. vm_compute. reflexivity. Qed.

(* the statement-level theorem's hypotheses are satisfiable inside loops: `break 2` under two
   enclosing constructs *)
Example ex_scoped : scoped 2 (SIf (EBin Lt (EVar "a") (lit 3)) (SBreak 2) EINil (SContinue 1)) = true.
Proof. reflexivity. Qed.
Example ex_shorter : shorter [[0; 1]; [1]] [0; 0; 1].
Proof. intros l [<-|[<-|[]]]; simpl; auto. Qed.

(* fast-path hypotheses are satisfiable, and so is the fallback situation *)
Example ex_fast_fires : fast_assign "" (EBin Add (EVar "a") (lit 2)) ([("a", VInt 5)], []) empty_glob = Some 7%Z.
Proof. reflexivity. Qed.
Example ex_fast_falls_back : fast_assign "" (EBin Add (EVar "a") (lit 2)) ([("a", VStr "x")], []) empty_glob = None.
Proof. reflexivity. Qed.
Example ex_le_fires : var_int_le "" (EVar "a") (lit 2) ([("a", VInt 5)], []) empty_glob = Some false.
Proof. reflexivity. Qed.

(* the variable tables of the example's functions cover their bodies; slots are as the parser numbers
   them: parameters first, then first occurrence *)
Example ex_tables : map fun_vars (funcs ex_prog) = [["n"]; ["step"; "n"]; ["limit"; "i"; "acc"; "k"; "v"]].
Proof. vm_compute. reflexivity. Qed.
Example ex_covers : cov_prog ex_prog = true.
Proof. vm_compute. reflexivity. Qed.
Example ex_slots : run_slots no_catch 200 ex_prog = run_impl no_catch 200 ex_prog.
Proof. vm_compute. reflexivity. Qed.
Example ex_vrel : vrel ["a"; "b"] [("b", VInt 2)] [VNull; VInt 2].
Proof. split; [reflexivity|]. intros x. simpl. destruct (String.eqb x "a") eqn:A; simpl.
  - apply String.eqb_eq in A. subst. reflexivity.
  - destruct (String.eqb x "b") eqn:B; simpl; reflexivity.
Qed.
