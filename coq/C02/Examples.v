(* C02 — non-vacuity: concrete programs meeting the theorems' hypotheses. *)
From Coq Require Import List String ZArith Bool.
From V.C02 Require Import Lang Model Spec Wf Proofs.
Import ListNotations.
Open Scope string_scope.

Example placeholder : wf w_fallthrough = true.
Proof. reflexivity. Qed.
