(* C15 — the property, clause by clause.  Statements; every proof is `exact lemma` or a few lines
   that unfold a definition before applying one. *)
From Coq Require Import ZArith List Bool String Permutation.
From V.C15 Require Import Model Spec MethodTable Run StrModel Proofs StrProofs.
Open Scope Z_scope.

(* the model's capture kinds and parameter kinds are exactly the regenerated method table *)
Theorem table_matches_model : forall m, lookup (meth_name m) method_table = Some (by_pointer m, sig_of m).
Proof. exact table_matches_model_l. Qed.
Print Assumptions table_matches_model.

(* "return, for every receiver and every combination of supplied and omitted arguments, what
   their documentation specifies, including negative and out-of-range indexes and variadic
   items": for every receiver (any length, any elements incl. nested arrays) and every argument
   tuple in the specified shapes (index positions: an int of any size, null, or omitted; any
   number of variadic items of any kind), the call through the binder returns the documented
   (JavaScript) result AND leaves the documented receiver:
   push, pop, shift, unshift, slice, splice, concat, join, reverse, indexOf, includes, flat *)
Theorem call_is_spec : forall m l args p, spec_call m l args = Some p -> call m l args = p.
Proof. exact call_is_spec_l. Qed.
Print Assumptions call_is_spec.

(* arguments supplied through ...spread, ANYWHERE in the argument list: the call is the call on the
   flattened list — a spread contributes its elements in place, whatever precedes or follows it
   (so $a->push(...$xs, 10) pushes the elements of $xs and then 10); call_is_spec applies to
   `call m l (flatten_args items)` *)
Theorem flatten_app : forall a b, flatten_args (a ++ b) = (flatten_args a ++ flatten_args b)%list.
Proof. exact flatten_app_l. Qed.
Theorem flatten_plain : forall es, flatten_args (map APlain es) = es.
Proof. exact flatten_plain_l. Qed.
Theorem flatten_spread_anywhere : forall pre xs post,
  flatten_args (map APlain pre ++ ASpread (EArr xs) :: map APlain post) = (pre ++ xs ++ post)%list.
Proof. exact flatten_spread_anywhere_l. Qed.
Print Assumptions flatten_spread_anywhere.

(* "every combination of supplied and omitted arguments" written with NAMED arguments
   ($a->slice(end: 2)): when the binder accepts the call, every positional argument stays where it
   was, every  name: v  arrives at the position of the single (non-variadic) parameter called
   `name`, behind the positional ones; the call is then the positional call on that argument list
   (call_is_spec applies to it).  bind_named rejects unknown names, variadic parameters and
   parameters that already have an argument. *)
Theorem named_binding : forall pn pos named args,
  bind_named pn pos named = Some args ->
  (forall j, (j < List.length pos)%nat -> nth j args ENull = nth j pos ENull) /\
  (forall n v, In (n, v) named ->
     exists i, pindex pn n 0 = Some i /\ (List.length pos <= i)%nat /\ nth i args ENull = v).
Proof. exact named_binding_l. Qed.
Theorem named_parameter_exists : forall pn n i, pindex pn n 0 = Some i -> nth_error pn i = Some (n, PSingle).
Proof. intros pn n i H. destruct (pindex_sound _ _ _ _ H) as [_ B]. rewrite Nat.sub_0_r in B. exact B. Qed.
Print Assumptions named_binding.
Print Assumptions named_parameter_exists.

(* callback methods, for EVERY callback f (any Gallina function of element, index, array):
   map, filter, find, findIndex, forEach, every, some, flatMap *)
Theorem call_cb_is_spec : forall m f l p, spec_cb m f l = Some p -> call_cb m f l = p.
Proof. exact call_cb_is_spec_l. Qed.
Print Assumptions call_cb_is_spec.

(* callbacks that throw: a callback that never throws gives the result above; the throw of the
   first invocation that is actually reached (all earlier ones returned without stopping the
   method) comes out of the method and the receiver is untouched (no partial mutation) *)
Theorem call_cbT_total : forall m f l,
  call_cbT m (fun e i a => Some (f e i a)) l = (Some (fst (call_cb m f l)), l).
Proof. exact call_cbT_total_l. Qed.
Theorem cb_throw_propagates : forall m f pre x post,
  is_cb_method m = true ->
  passes m f (pre ++ x :: post)%list 0 pre = true ->
  f x (zlen pre) (pre ++ x :: post)%list = None ->
  call_cbT m f (pre ++ x :: post)%list = (None, (pre ++ x :: post)%list).
Proof. exact cb_throw_propagates_l. Qed.
Print Assumptions call_cbT_total.
Print Assumptions cb_throw_propagates.

(* reduce(cb, initial?) for every reducer; an omitted (or null) initial value starts from the
   first element *)
Theorem reduce_is_spec : forall f l init,
  call_reduce f l init =
  (js_reduce f l (match init with x :: _ => if is_null x then None else Some x | [] => None end), l).
Proof. exact reduce_is_spec_l. Qed.
Print Assumptions reduce_is_spec.

(* "for every receiver" includes receivers reached by earlier calls: a sequence of documented calls
   on one receiver object behaves as the fold of the documented single calls — each call sees
   exactly the contents the previous one left and nothing else of the receiver's history *)
Theorem seq_is_spec : forall ss l ps, spec_seq l ss = Some ps -> run_seq l ss = ps.
Proof. exact seq_is_spec_l. Qed.
Print Assumptions seq_is_spec.

(* chained calls  $a->m1(..)->m2(..)  with no variable in between: the documented result of m2 on
   the array m1 returned, and the receiver exactly as m1 alone leaves it (in particular untouched
   when m1 is not a mutating method, whatever m2 does to the intermediate value) *)
Theorem chain_is_spec : forall l s1 s2 p, spec_chain l s1 s2 = Some p -> run_chain l s1 s2 = Some p.
Proof. exact chain_is_spec_l. Qed.
Theorem chain_receiver : forall l s1 s2 p, run_chain l s1 s2 = Some p -> snd p = snd (do_step l s1).
Proof. exact chain_receiver_l. Qed.
Print Assumptions chain_is_spec.
Print Assumptions chain_receiver.

(* sort(): the result (= the receiver afterwards) is ascending by text, a permutation of the
   receiver, and stable (elements with equal text keep their order) *)
Theorem sort_sorted : forall l, sorted_by_text (ssort l).
Proof. exact ssort_sorted_l. Qed.
Theorem sort_permutation : forall l, Permutation l (ssort l).
Proof. exact ssort_perm_l. Qed.
Theorem sort_stable : forall t l, filter (same_text_as t) (ssort l) = filter (same_text_as t) l.
Proof. exact ssort_stable_l. Qed.
Print Assumptions sort_sorted.
Print Assumptions sort_permutation.
Print Assumptions sort_stable.

(* "The methods documented as mutating change the receiver exactly as specified [call_is_spec,
   sort_*], and all others leave it untouched" *)
Theorem nonmutating_frame : forall m l args, documented_mutating m = false -> snd (call m l args) = l.
Proof. exact nonmutating_frame_l. Qed.
Theorem nonmutating_frame_cb : forall m f l, snd (call_cb m f l) = l.
Proof. exact nonmutating_frame_cb_l. Qed.
(* the documented-mutating methods are exactly those that capture the slot list by pointer in
   the regenerated table, plus reverse (which swaps in place through the shared backing array) *)
Theorem mutating_as_documented : forall m,
  documented_mutating m = by_pointer m || (match m with MReverse => true | _ => false end).
Proof. exact mutating_table_l. Qed.
Print Assumptions nonmutating_frame.

(* string methods (length, indexOf, substring, replace, split, trim, toUpperCase, toLowerCase,
   startsWith, endsWith): on the specified argument shapes the modelled body (argument coercion,
   clamping, swap) yields the documented result; substring for every int start/end, null or
   omitted end *)
Theorem string_call_is_spec : forall m s args r, sspec m s args = Some r -> scall m s args = Some r.
Proof. exact scall_is_spec_l. Qed.
Theorem substring_is_js : forall s a e slots,
  slot 0 slots = EInt a ->
  slot 1 slots = match e with Some b => EInt b | None => ENull end ->
  m_substring s slots = Some (js_substring s a e).
Proof. exact m_substring_spec. Qed.
Print Assumptions string_call_is_spec.

(* sspec is written with the SAME byte-string functions as scall (only substring has a spec of its
   own), so string_call_is_spec says little beyond the argument coercion.  What those functions
   compute, stated without reference to how:
   startsWith / endsWith: true exactly when the receiver is  x ++ r  /  r ++ x  (as bytes);
   indexOf: the byte offset of the LEFTMOST occurrence, -1 exactly when there is none;
   split on a non-empty separator: joining the pieces with the separator gives the receiver back *)
Theorem string_startsWith_iff : forall s x,
  scall SStartsWith s [EStr x] = Some (EBool true) <-> exists r, s = (x ++ r)%string.
Proof. intros s x. cbn. rewrite <- prefixb_iff. split; [intro H; injection H; auto | intros ->; reflexivity]. Qed.
Theorem string_endsWith_iff : forall s x,
  scall SEndsWith s [EStr x] = Some (EBool true) <-> exists r, s = (r ++ x)%string.
Proof. intros s x. cbn. rewrite <- suffixb_iff. split; [intro H; injection H; auto | intros ->; reflexivity]. Qed.
Theorem string_indexOf_leftmost : forall s x,
  exists i, scall SIndexOf s [EStr x] = Some (EInt i) /\
  ((i = -1 /\ forall pre post, s <> (pre ++ x ++ post)%string) \/
   (exists pre post, s = (pre ++ x ++ post)%string /\ i = slen pre /\
      forall pre' post', s = (pre' ++ x ++ post')%string -> slen pre <= slen pre')).
Proof. intros s x. exists (sindex x s). split; [reflexivity | exact (sindex_leftmost_l x s)]. Qed.
Theorem string_split_join : forall s x l,
  x <> EmptyString -> scall SSplit s [EStr x] = Some (EArr (map EStr l)) -> sjoin x l = s.
Proof.
  intros s x l Hx H. cbn in H. injection H as H.
  assert (E : l = split_by x s).
  { revert H. generalize (split_by x s). induction l as [|a l IH]; intros [|b m] H; try discriminate; [reflexivity|].
    cbn in H. injection H as -> H. f_equal. apply IH. exact H. }
  subst l. apply split_join_l. exact Hx.
Qed.
(* toUpperCase / toLowerCase on ANY valid UTF-8 receiver: every character is replaced by its image
   (ASCII letters by the ASCII rule; the image of a non-ASCII character is Go's unicode.ToUpper /
   ToLower of the code point — Unicode simple case mapping — a parameter of the model, measured);
   on an ASCII receiver this is the byte-wise ASCII mapping whatever the table says *)
Theorem case_map_ascii : forall f tbl s, is_ascii_str s = true -> case_map f tbl s = Some (smap f s).
Proof. exact case_map_ascii_l. Qed.
Theorem case_map_chars : forall f tbl s r, case_map f tbl s = Some r ->
  exists ds, chars_mapped f tbl (utf8_chars s) ds = true /\ r = String.concat "" ds.
Proof. intros f tbl s r H. exact (case_map_chars_l f tbl (utf8_chars s) r H). Qed.
Print Assumptions case_map_ascii.
Print Assumptions case_map_chars.
(* trim(): the receiver is  l ++ result ++ r  with l and r consisting of (ASCII) white space only,
   and the result neither begins nor ends with white space.
   replace(x, y) with a non-empty x that does not occur in the receiver returns the receiver. *)
Theorem string_trim_spec : forall s r0, scall STrim s [] = Some (EStr r0) ->
  exists l r, s = (l ++ r0 ++ r)%string /\ all_space l = true /\ all_space r = true /\
              no_lead_space r0 = true /\ no_lead_space (srev r0) = true.
Proof. intros s r0 H. cbn in H. injection H as <-. exact (trim_space_spec_l s). Qed.
Theorem string_replace_absent : forall s x y, x <> EmptyString ->
  (forall pre post, s <> (pre ++ x ++ post)%string) ->
  scall SReplace s [EStr x; EStr y] = Some (EStr s).
Proof. intros s x y N H. cbn. rewrite (replace_absent_l x y s N H). reflexivity. Qed.
(* split() without a separator (on white space): every piece is non-empty and free of white
   space, and the pieces concatenated are the receiver with its (ASCII) white space removed *)
Theorem string_split_space_spec : forall s l,
  scall SSplit s [] = Some (EArr (map EStr l)) ->
  sconcat l = drop_spaces s /\ forallb good_field l = true.
Proof.
  intros s l H. cbn in H. injection H as H.
  assert (E : l = fields s).
  { revert H. generalize (fields s). induction l as [|a l IH]; intros [|b m] H; try discriminate; [reflexivity|].
    cbn in H. injection H as -> H. f_equal. apply IH. exact H. }
  subst l. exact (fields_spec_l s).
Qed.
Print Assumptions string_split_space_spec.
Print Assumptions string_trim_spec.
Print Assumptions string_replace_absent.
Print Assumptions string_startsWith_iff.
Print Assumptions string_endsWith_iff.
Print Assumptions string_indexOf_leftmost.
Print Assumptions string_split_join.
