From Coq Require Import ZArith List Bool String.
From V.C15 Require Import Model Spec MethodTable Proofs.
Theorem table_matches_model : forall m, lookup (meth_name m) method_table = Some (by_pointer m, sig_of m).
Proof. exact table_matches_model_l. Qed.
Print Assumptions table_matches_model.
