(* C15 — lemmas. *)
From Coq Require Import ZArith List Bool String Lia.
From V.C15 Require Import Model Spec MethodTable.
Open Scope Z_scope.

Lemma table_matches_model_l : forall m, lookup (meth_name m) method_table = Some (by_pointer m, sig_of m).
Proof. destruct m; reflexivity. Qed.
