(* C15 — lemmas behind Properties.v (array methods). *)
From Coq Require Import ZArith List Bool String Lia Permutation OrderedTypeEx.
From V.C15 Require Import Model Spec MethodTable.
Open Scope Z_scope.

Lemma table_matches_model_l : forall m, lookup (meth_name m) method_table = Some (by_pointer m, sig_of m).
Proof. destruct m; reflexivity. Qed.

(* ------------------------------------------------------------------ induction on nested elements *)
Section ElemInd.
  Variable P : elem -> Prop.
  Hypothesis Hnull : P ENull.
  Hypothesis Hbool : forall b, P (EBool b).
  Hypothesis Hint : forall z, P (EInt z).
  Hypothesis Hstr : forall s, P (EStr s).
  Hypothesis Harr : forall l, Forall P l -> P (EArr l).
  Hypothesis Hatom : forall id text t, P (EAtom id text t).
  Fixpoint elem_ind' (e : elem) : P e :=
    match e with
    | ENull => Hnull | EBool b => Hbool b | EInt z => Hint z | EStr s => Hstr s
    | EArr l => Harr l ((fix go (l : list elem) : Forall P l :=
                           match l with [] => Forall_nil P | x :: r => Forall_cons x (elem_ind' x) (go r) end) l)
    | EAtom id text t => Hatom id text t
    end.
End ElemInd.

(* ------------------------------------------------------------------ binding *)
Lemma slot_bind2 : forall args i, (i < 2)%nat ->
  slot i (bind [PSingle; PSingle] args) = match nth_error args i with Some a => a | None => ENull end.
Proof.
  intros args i Hi. destruct args as [|a [|b r]]; destruct i as [|[|i]]; try lia; reflexivity.
Qed.
Lemma slot_bind1 : forall args,
  slot 0 (bind [PSingle] args) = match nth_error args 0 with Some a => a | None => ENull end.
Proof. destruct args; reflexivity. Qed.

Lemma zlen_app : forall (a b : list elem), zlen (a ++ b) = zlen a + zlen b.
Proof. intros; unfold zlen; rewrite app_length; lia. Qed.
Lemma zlen_nonneg : forall (l : list elem), 0 <= zlen l.
Proof. intros; unfold zlen; lia. Qed.

(* ------------------------------------------------------------------ push / unshift / pop / shift / reverse *)
Lemma pop_spec : forall l : list elem,
  m_pop l = match rev l with [] => (ENull, []) | x :: r => (x, rev r) end.
Proof.
  intros l. destruct l as [|a l']; [reflexivity|].
  unfold m_pop. set (l := a :: l').
  assert (Hne : l <> []) by discriminate.
  rewrite (app_removelast_last ENull Hne) at 3.
  rewrite rev_app_distr. cbn. rewrite rev_involutive. reflexivity.
Qed.

(* ------------------------------------------------------------------ slice *)
Lemma firstn_zero_count : forall (l : list elem) a b, a <= 0 -> firstn (Z.to_nat a) (skipn b l) = [].
Proof. intros l a b H. assert (Z.to_nat a = 0%nat) as -> by lia. reflexivity. Qed.

Lemma slice_core : forall (l : list elem) (s e : Z),
  let n := zlen l in
  let start1 := if s <? 0 then n + s else s in
  let end1 := if e <? 0 then n + e else e in
  let start2 := if start1 <? 0 then 0 else start1 in
  let end2 := if end1 >? n then n else end1 in
  let start3 := if start2 >? end2 then end2 else start2 in
  sub_list start3 end2 l =
  take_from (rel_index s n) (Z.max (rel_index e n - rel_index s n) 0) l.
Proof.
  intros l s e n start1 end1 start2 end2 start3.
  pose proof (zlen_nonneg l) as Hn. fold n in Hn.
  unfold sub_list, take_from, rel_index.
  subst start3 end2 start2 end1 start1.
  destruct (Z.ltb_spec s 0); destruct (Z.ltb_spec e 0);
  repeat match goal with
  | |- context [if ?a <? ?b then _ else _] => destruct (Z.ltb_spec a b)
  | |- context [if ?a >? ?b then _ else _] => rewrite (Z.gtb_ltb a b); destruct (Z.ltb_spec b a)
  end;
  first
  [ rewrite !firstn_zero_count by lia; reflexivity
  | match goal with
    | |- firstn (Z.to_nat ?a) (skipn (Z.to_nat ?b) _) = firstn (Z.to_nat ?a') (skipn (Z.to_nat ?b') _) =>
        replace a' with a by lia; replace b' with b by lia; reflexivity
    end ].
Qed.

Lemma slice_is_spec : forall l args,
  index_arg_ok args 0 && index_arg_ok args 1 = true ->
  m_slice l (bind (sig_of MSlice) args) = EArr (js_slice l (opt_int args 0) (opt_int args 1)).
Proof.
  intros l args Hok. apply andb_true_iff in Hok. destruct Hok as [H0 H1].
  unfold m_slice, js_slice. cbn [sig_of].
  rewrite !slot_bind2 by lia. unfold index_arg_ok, opt_int in *.
  destruct (nth_error args 0) as [[| | s0 | | |]|]; try discriminate;
  destruct (nth_error args 1) as [[| | e0 | | |]|]; try discriminate; cbn [as_int is_null];
  f_equal; apply slice_core.
Qed.

(* ------------------------------------------------------------------ splice *)
Lemma splice_core : forall (l items : list elem) (s : Z) (dc : option Z),
  let n := zlen l in
  let dc0 := match dc with Some d => d | None => n end in
  let start1 := if s <? 0 then n + s else s in
  let start2 := if start1 <? 0 then 0 else start1 in
  let start3 := if start2 >? n then n else start2 in
  let dc1 := if dc0 <? 0 then 0 else dc0 in
  let dc2 := if start3 + dc1 >? n then n - start3 else dc1 in
  (sub_list start3 (start3 + dc2) l,
   (firstn (Z.to_nat start3) l ++ items ++ skipn (Z.to_nat (start3 + dc2)) l)%list)
  = js_splice l s dc items.
Proof.
  intros l items s dc n dc0 start1 start2 start3 dc1 dc2.
  pose proof (zlen_nonneg l) as Hn. fold n in Hn.
  unfold js_splice, sub_list, take_from, rel_index. fold n.
  assert (Hk : start3 = (if s <? 0 then Z.max (n + s) 0 else Z.min s n)).
  { subst start3 start2 start1.
    destruct (Z.ltb_spec s 0); cbv iota;
    repeat match goal with
    | |- context [if ?a <? ?b then _ else _] => destruct (Z.ltb_spec a b); cbv iota
    | |- context [if ?a >? ?b then _ else _] => rewrite (Z.gtb_ltb a b); destruct (Z.ltb_spec b a); cbv iota
    end.
    all: lia. }
  rewrite <- Hk.
  assert (Hs3 : 0 <= start3 <= n).
  { rewrite Hk. destruct (Z.ltb_spec s 0); lia. }
  assert (Hd : dc2 = match dc with None => n - start3 | Some c => Z.min (Z.max c 0) (n - start3) end).
  { subst dc2 dc1 dc0. destruct dc as [c|];
    repeat match goal with
    | |- context [if ?a <? ?b then _ else _] => destruct (Z.ltb_spec a b); cbv iota
    | |- context [if ?a >? ?b then _ else _] => rewrite (Z.gtb_ltb a b); destruct (Z.ltb_spec b a); cbv iota
    end.
    all: lia. }
  rewrite <- Hd.
  replace (start3 + dc2 - start3) with dc2 by lia. reflexivity.
Qed.

Lemma slot_bind3 : forall args,
  slot 0 (bind [PSingle; PSingle; PVariadic] args) = match nth_error args 0 with Some a => a | None => ENull end /\
  slot 1 (bind [PSingle; PSingle; PVariadic] args) = match nth_error args 1 with Some a => a | None => ENull end /\
  slot 2 (bind [PSingle; PSingle; PVariadic] args) = EArr (skipn 2 args).
Proof. destruct args as [|a [|b r]]; repeat split; reflexivity. Qed.

Lemma splice_is_spec : forall l args s,
  nth_error args 0 = Some (EInt s) -> index_arg_ok args 1 = true ->
  m_splice l (bind (sig_of MSplice) args) =
  (let (del, aft) := js_splice l s (opt_int args 1) (skipn 2 args) in (EArr del, aft)).
Proof.
  intros l args s H0 H1. unfold m_splice. cbn [sig_of].
  destruct (slot_bind3 args) as [S0 [S1 S2]]. rewrite S0, S1, S2, H0. cbn [as_int items_of].
  pose proof (splice_core l (skipn 2 args) s (opt_int args 1)) as Hc. cbn zeta in Hc.
  unfold index_arg_ok, opt_int in *.
  destruct (nth_error args 1) as [[| | d | | |]|]; try discriminate; cbn [as_int is_null] in *;
    rewrite <- Hc; reflexivity.
Qed.

(* ------------------------------------------------------------------ join *)
Lemma join_str_js : forall e, join_str e = js_str e.
Proof.
  induction e using elem_ind'; try reflexivity.
  cbn. f_equal. induction H as [|x r Hx _ IH]; [reflexivity|]. cbn. rewrite Hx, IH. reflexivity.
Qed.
Lemma map_join_str : forall l, map join_str l = map js_str l.
Proof. intro l; apply map_ext; intro; apply join_str_js. Qed.

(* ------------------------------------------------------------------ indexOf / includes *)
Lemma find_elem_js : forall x l i, find_elem x i l = js_find_from x i l.
Proof.
  intros x l; induction l as [|y r IH]; intro i; [reflexivity|]. cbn.
  replace (elem_equals y x) with (strict_eqb y x) by (destruct y, x; reflexivity).
  destruct (strict_eqb y x); [reflexivity|apply IH].
Qed.
Lemma js_find_nil : forall x i, js_find_from x i [] = -1.
Proof. reflexivity. Qed.

Lemma index_of_is_spec : forall l args x,
  nth_error args 0 = Some x -> index_arg_ok args 1 = true ->
  index_of l (bind [PSingle; PSingle] args) = js_index_of l x (opt_int args 1).
Proof.
  intros l args x H0 H1. unfold index_of, js_index_of.
  rewrite !slot_bind2 by lia. rewrite H0.
  pose proof (zlen_nonneg l) as Hn. set (n := zlen l) in *.
  assert (Hfrom : match as_int (match nth_error args 1 with Some a => a | None => ENull end) with
                  | Some f => f | None => 0 end
                  = match opt_int args 1 with Some f => f | None => 0 end).
  { unfold index_arg_ok, opt_int in *. destruct (nth_error args 1) as [[| | f | | |]|]; try discriminate; reflexivity. }
  rewrite Hfrom. set (f0 := match opt_int args 1 with Some f => f | None => 0 end).
  unfold rel_index. rewrite find_elem_js.
  destruct (Z.ltb_spec f0 0).
  - destruct (Z.ltb_spec (n + f0) 0).
    + replace (Z.max (n + f0) 0) with 0 by lia.
      destruct (Z.geb_spec 0 n).
      * assert (n = 0) by lia. unfold n, zlen in H3. destruct l; [reflexivity|cbn in H3; lia].
      * reflexivity.
    + replace (Z.max (n + f0) 0) with (n + f0) by lia.
      destruct (Z.geb_spec (n + f0) n); [lia|reflexivity].
  - destruct (Z.ltb_spec f0 0); [lia|].
    destruct (Z.geb_spec f0 n).
    + replace (Z.min f0 n) with n by lia.
      unfold n, zlen. rewrite Nat2Z.id. rewrite skipn_all. reflexivity.
    + replace (Z.min f0 n) with f0 by lia. reflexivity.
Qed.

(* ------------------------------------------------------------------ flat *)
Lemma flat_map_single : forall (l : list elem) (g : elem -> list elem),
  (forall x, In x l -> g x = [x]) -> flat_map g l = l.
Proof.
  induction l as [|x r IH]; intros g H; [reflexivity|]. cbn.
  rewrite (H x (or_introl eq_refl)). cbn. f_equal. apply IH. intros y Hy. apply H. right; exact Hy.
Qed.
Lemma js_flat_e_nonpos : forall d e, d <= 0 -> js_flat_e d e = [e].
Proof.
  intros d e Hd; destruct e; try reflexivity. cbn.
  destruct (Z.ltb_spec 0 d); [lia|reflexivity].
Qed.
Lemma flatten_e_js : forall e d, 0 < d -> flatten_e d e = js_flat_e d e.
Proof.
  induction e using elem_ind'; intros d Hd; try reflexivity.
  cbn. destruct (Z.ltb_spec 0 d); [|lia].
  destruct (Z.leb_spec (d - 1) 0).
  - symmetry. apply flat_map_single. intros x _. apply js_flat_e_nonpos. exact H1.
  - clear H0. induction H as [|x r Hx _ IH]; [reflexivity|].
    cbn. rewrite (Hx (d - 1)) by lia. f_equal. exact IH.
Qed.
Lemma flatten_js : forall l d, flatten d l = flat_map (js_flat_e d) l.
Proof.
  intros l d. unfold flatten. destruct (Z.leb_spec d 0).
  - symmetry. apply flat_map_single. intros x _. apply js_flat_e_nonpos. exact H.
  - apply flat_map_ext. intro e. apply flatten_e_js. exact H.
Qed.
Lemma flat_is_spec : forall l args, index_arg_ok args 0 = true ->
  m_flat l (bind [PSingle] args) = EArr (js_flat l (opt_int args 0)).
Proof.
  intros l args H. unfold m_flat, js_flat. rewrite slot_bind1.
  unfold index_arg_ok, opt_int in *.
  destruct (nth_error args 0) as [[| | d | | |]|]; try discriminate; cbn [is_null as_int];
    rewrite flatten_js; reflexivity.
Qed.

(* ------------------------------------------------------------------ callback methods *)
Lemma map_loop_spec : forall f all l i,
  map_loop f all i l = map (fun p => f (snd p) (fst p) all) (indexed i l).
Proof. intros f all l; induction l as [|x r IH]; intro i; [reflexivity|]. cbn. rewrite IH. reflexivity. Qed.
Lemma filter_loop_spec : forall f all l i,
  filter_loop f all i l = map snd (filter (fun p => truthy (f (snd p) (fst p) all)) (indexed i l)).
Proof.
  intros f all l; induction l as [|x r IH]; intro i; [reflexivity|]. cbn.
  destruct (truthy (f x i all)); cbn; rewrite IH; reflexivity.
Qed.
Lemma find_loop_spec : forall f all l i,
  find_loop f all i l = List.find (fun p => truthy (f (snd p) (fst p) all)) (indexed i l).
Proof.
  intros f all l; induction l as [|x r IH]; intro i; [reflexivity|]. cbn.
  destruct (truthy (f x i all)); [reflexivity|apply IH].
Qed.
Lemma every_loop_spec : forall f all l i,
  every_loop f all i l = forallb (fun p => truthy (f (snd p) (fst p) all)) (indexed i l).
Proof.
  intros f all l; induction l as [|x r IH]; intro i; [reflexivity|]. cbn.
  destruct (truthy (f x i all)); [apply IH|reflexivity].
Qed.
Lemma find_some_spec : forall f all l i,
  (match find_loop f all i l with Some _ => true | None => false end)
  = existsb (fun p => truthy (f (snd p) (fst p) all)) (indexed i l).
Proof.
  intros f all l; induction l as [|x r IH]; intro i; [reflexivity|]. cbn.
  destruct (truthy (f x i all)); [reflexivity|apply IH].
Qed.
Lemma flatmap_loop_spec : forall f all l i,
  flatmap_loop f all i l =
  flat_map (fun p => match f (snd p) (fst p) all with EArr x => x | y => [y] end) (indexed i l).
Proof.
  intros f all l; induction l as [|x r IH]; intro i; [reflexivity|]. cbn. rewrite IH.
  unfold spread1. destruct (f x i all); reflexivity.
Qed.
Lemma reduce_loop_spec : forall f all l acc i,
  reduce_loop f all acc i l = fold_left (fun a p => f a (snd p) (fst p) all) (indexed i l) acc.
Proof. intros f all l; induction l as [|x r IH]; intros acc i; [reflexivity|]. cbn. apply IH. Qed.

Lemma call_cb_is_spec_l : forall m f l p, spec_cb m f l = Some p -> call_cb m f l = p.
Proof.
  intros m f l p H; destruct m; cbn in H; try discriminate; injection H as <-; cbn [call_cb].
  - rewrite map_loop_spec. reflexivity.
  - rewrite filter_loop_spec. reflexivity.
  - rewrite find_loop_spec. unfold js_find. destruct (find _ _) as [[i x]|]; reflexivity.
  - rewrite find_loop_spec. unfold js_find. destruct (find _ _) as [[i x]|]; reflexivity.
  - reflexivity.
  - rewrite every_loop_spec. reflexivity.
  - rewrite find_some_spec. reflexivity.
  - rewrite flatmap_loop_spec. reflexivity.
Qed.

Lemma reduce_is_spec_l : forall f l init,
  call_reduce f l init =
  (js_reduce f l (match init with x :: _ => if is_null x then None else Some x | [] => None end), l).
Proof.
  intros f l init. unfold call_reduce, m_reduce, js_reduce. f_equal.
  change (slot 1 (ENull :: bind [PSingle] init)) with (slot 0 (bind [PSingle] init)).
  rewrite slot_bind1.
  destruct init as [|x r]; cbn [nth_error is_null].
  - destruct l as [|y t]; [reflexivity|apply reduce_loop_spec].
  - destruct (is_null x) eqn:E.
    + destruct l as [|y t]; [reflexivity|apply reduce_loop_spec].
    + apply reduce_loop_spec.
Qed.

(* ------------------------------------------------------------------ sort: sorted, permutation, stable *)
Definition str_le (a b : string) : Prop := String.ltb b a = false.
Lemma leb_true_le : forall a b, String.leb a b = true -> str_le a b.
Proof.
  intros a b; unfold String.leb, str_le, String.ltb. rewrite (String.compare_antisym a b).
  destruct (String.compare b a); simpl; congruence.
Qed.
Lemma leb_false_lt : forall a b, String.leb a b = false -> String.ltb b a = true.
Proof.
  intros a b; unfold String.leb, String.ltb. rewrite (String.compare_antisym a b).
  destruct (String.compare b a); simpl; congruence.
Qed.
Lemma ltb_lt : forall a b, String.ltb a b = true <-> String_as_OT.lt a b.
Proof.
  intros a b. rewrite <- String_as_OT.cmp_lt. unfold String.ltb, String_as_OT.cmp.
  destruct (String.compare a b); split; congruence.
Qed.
Lemma str_le_trans : forall a b c, str_le a b -> str_le b c -> str_le a c.
Proof.
  unfold str_le. intros a b c Hab Hbc.
  destruct (String.ltb c a) eqn:Hca; [|reflexivity]. exfalso.
  apply ltb_lt in Hca.
  (* trichotomy on (a, b) and (b, c) through compare *)
  unfold String.ltb in Hab, Hbc.
  destruct (String.compare b a) eqn:Eba; try discriminate;
  destruct (String.compare c b) eqn:Ecb; try discriminate.
  - apply String.compare_eq_iff in Eba, Ecb. subst. exact (String_as_OT.lt_not_eq _ _ Hca eq_refl).
  - apply String.compare_eq_iff in Eba. subst b.
    assert (String_as_OT.lt a c).
    { apply String_as_OT.cmp_lt. unfold String_as_OT.cmp. rewrite (String.compare_antisym a c), Ecb. reflexivity. }
    exact (String_as_OT.lt_not_eq _ _ (String_as_OT.lt_trans _ _ _ Hca H) eq_refl).
  - apply String.compare_eq_iff in Ecb. subst c.
    assert (String_as_OT.lt a b).
    { apply String_as_OT.cmp_lt. unfold String_as_OT.cmp. rewrite (String.compare_antisym a b), Eba. reflexivity. }
    exact (String_as_OT.lt_not_eq _ _ (String_as_OT.lt_trans _ _ _ Hca H) eq_refl).
  - assert (String_as_OT.lt a b).
    { apply String_as_OT.cmp_lt. unfold String_as_OT.cmp. rewrite (String.compare_antisym a b), Eba. reflexivity. }
    assert (String_as_OT.lt b c).
    { apply String_as_OT.cmp_lt. unfold String_as_OT.cmp. rewrite (String.compare_antisym b c), Ecb. reflexivity. }
    exact (String_as_OT.lt_not_eq _ _ (String_as_OT.lt_trans _ _ _ Hca (String_as_OT.lt_trans _ _ _ H H0)) eq_refl).
Qed.

Lemma insert_perm : forall e l, Permutation (e :: l) (insert_sorted e l).
Proof.
  intros e l; induction l as [|x r IH]; cbn; [apply Permutation_refl|].
  destruct (String.leb (estr e) (estr x)); [apply Permutation_refl|].
  eapply perm_trans; [apply perm_swap|]. apply perm_skip. exact IH.
Qed.
Lemma ssort_perm_l : forall l, Permutation l (ssort l).
Proof.
  unfold ssort. induction l as [|x r IH]; cbn; [constructor|].
  eapply perm_trans; [apply perm_skip, IH|apply insert_perm].
Qed.
Lemma insert_keeps_sorted : forall e l, sorted_by_text l -> sorted_by_text (insert_sorted e l).
Proof.
  intros e l; induction l as [|x r IH]; cbn; intros H; [split; [intros y []|exact I]|].
  destruct H as [Hx Hr]. destruct (String.leb (estr e) (estr x)) eqn:E.
  - cbn. split; [|split; assumption].
    apply leb_true_le in E.
    intros y [<-|Hy]; [exact E|].
    exact (str_le_trans _ _ _ E (Hx y Hy)).
  - cbn. split; [|apply IH, Hr].
    intros y Hy. apply (Permutation_in _ (Permutation_sym (insert_perm e r))) in Hy.
    destruct Hy as [<-|Hy]; [|auto].
    apply leb_false_lt in E. unfold String.ltb in *.
    rewrite (String.compare_antisym (estr x) (estr e)) in E.
    destruct (String.compare (estr e) (estr x)); simpl in E; congruence.
Qed.
Lemma ssort_sorted_l : forall l, sorted_by_text (ssort l).
Proof. unfold ssort. induction l as [|x r IH]; cbn; [exact I|apply insert_keeps_sorted, IH]. Qed.

Definition same_text_as (t : string) (e : elem) : bool := String.eqb (estr e) t.
Lemma insert_filter : forall t e l,
  filter (same_text_as t) (insert_sorted e l) =
  if same_text_as t e then e :: filter (same_text_as t) l else filter (same_text_as t) l.
Proof.
  intros t e l; induction l as [|x r IH]; cbn.
  - destruct (same_text_as t e); reflexivity.
  - destruct (String.leb (estr e) (estr x)) eqn:E; cbn.
    + destruct (same_text_as t e); reflexivity.
    + rewrite IH. unfold same_text_as in *.
      destruct (String.eqb (estr x) t) eqn:Ex; destruct (String.eqb (estr e) t) eqn:Ee; try reflexivity.
      apply String.eqb_eq in Ex, Ee. rewrite Ex, Ee in E.
      unfold String.leb in E. rewrite (String.compare_antisym t t) in E.
      destruct (String.compare t t) eqn:C; simpl in E; try discriminate.
      pose proof (String.compare_antisym t t) as A. rewrite C in A. discriminate.
Qed.
Lemma ssort_stable_l : forall t l, filter (same_text_as t) (ssort l) = filter (same_text_as t) l.
Proof.
  intros t l. unfold ssort. induction l as [|x r IH]; cbn; [reflexivity|].
  rewrite insert_filter, IH. reflexivity.
Qed.

(* ------------------------------------------------------------------ every callback-free method *)
Lemma call_is_spec_l : forall m l args p, spec_call m l args = Some p -> call m l args = p.
Proof.
  intros m l args p H; destruct m; cbn [spec_call] in H; try discriminate.
  - (* push *) injection H as <-. unfold call, m_push. cbn. rewrite zlen_app. reflexivity.
  - (* pop *) injection H as <-. unfold call. apply pop_spec.
  - (* shift *) injection H as <-. reflexivity.
  - (* unshift *) injection H as <-. unfold call, m_unshift. cbn. rewrite zlen_app. reflexivity.
  - (* slice *)
    destruct (index_arg_ok args 0 && index_arg_ok args 1) eqn:E; [|discriminate].
    injection H as <-. unfold call. rewrite (slice_is_spec l args E). reflexivity.
  - (* splice *)
    destruct (nth_error args 0) as [[| | s | | |]|] eqn:E0; try discriminate.
    destruct (index_arg_ok args 1) eqn:E1; [|discriminate].
    unfold call. rewrite (splice_is_spec l args s E0 E1).
    destruct (js_splice l s (opt_int args 1) (skipn 2 args)) as [del aft]. injection H as <-. reflexivity.
  - (* concat *) injection H as <-. reflexivity.
  - (* join *)
    unfold call, m_join. cbn [sig_of]. rewrite slot_bind1.
    destruct args as [|a r]; [injection H as <-; cbn; rewrite map_join_str; reflexivity|].
    destruct a; try discriminate; injection H as <-; cbn; rewrite map_join_str; reflexivity.
  - (* reverse *) injection H as <-. reflexivity.
  - (* indexOf *)
    destruct args as [|x r] eqn:Ea; [discriminate|]. rewrite <- Ea in *.
    destruct (index_arg_ok args 1) eqn:E1; [|discriminate]. injection H as <-.
    unfold call, m_index_of. cbn [sig_of].
    rewrite (index_of_is_spec l args x) by (try assumption; subst args; reflexivity). reflexivity.
  - (* includes *)
    destruct args as [|x r] eqn:Ea; [discriminate|]. rewrite <- Ea in *.
    destruct (index_arg_ok args 1) eqn:E1; [|discriminate]. injection H as <-.
    unfold call, m_includes. cbn [sig_of].
    rewrite (index_of_is_spec l args x) by (try assumption; subst args; reflexivity). reflexivity.
  - (* flat *)
    destruct (index_arg_ok args 0) eqn:E; [|discriminate]. injection H as <-.
    unfold call. cbn [sig_of]. rewrite (flat_is_spec l args E). reflexivity.
Qed.

(* ------------------------------------------------------------------ frame *)
Lemma nonmutating_frame_l : forall m l args, documented_mutating m = false -> snd (call m l args) = l.
Proof. intros m l args H; destruct m; try discriminate; reflexivity. Qed.
Lemma nonmutating_frame_cb_l : forall m f l, snd (call_cb m f l) = l.
Proof. intros m f l; destruct m; reflexivity. Qed.
Lemma mutating_table_l : forall m, documented_mutating m = by_pointer m || (match m with MReverse => true | _ => false end).
Proof. destruct m; reflexivity. Qed.

(* ------------------------------------------------------------------ sequences *)
Lemma step_is_spec_l : forall l s p, spec_step l s = Some p -> do_step l s = p.
Proof.
  intros l s p H; destruct s; cbn in *.
  - apply call_is_spec_l; exact H.
  - apply call_cb_is_spec_l; exact H.
  - injection H as <-. apply reduce_is_spec_l.
Qed.
Lemma seq_is_spec_l : forall ss l ps, spec_seq l ss = Some ps -> run_seq l ss = ps.
Proof.
  induction ss as [|s r IH]; intros l ps H; cbn in *.
  - injection H as <-. reflexivity.
  - destruct (spec_step l s) as [p|] eqn:E; [|discriminate].
    destruct (spec_seq (snd p) r) as [ps'|] eqn:E2; [|discriminate].
    injection H as <-. rewrite (step_is_spec_l l s p E). cbn. f_equal. apply IH. exact E2.
Qed.

(* ------------------------------------------------------------------ callbacks that throw *)
Section Total.
  Variable f : callback.
  Let fT : callbackT := fun e i a => Some (f e i a).
  Lemma map_loopT_total : forall all l i, map_loopT fT all i l = Some (map_loop f all i l).
  Proof. intros all l; induction l as [|x r IH]; intro i; [reflexivity|]. cbn. rewrite IH. reflexivity. Qed.
  Lemma filter_loopT_total : forall all l i, filter_loopT fT all i l = Some (filter_loop f all i l).
  Proof. intros all l; induction l as [|x r IH]; intro i; [reflexivity|]. cbn. rewrite IH. destruct (truthy _); reflexivity. Qed.
  Lemma find_loopT_total : forall all l i, find_loopT fT all i l = Some (find_loop f all i l).
  Proof. intros all l; induction l as [|x r IH]; intro i; [reflexivity|]. cbn. destruct (truthy _); [reflexivity|apply IH]. Qed.
  Lemma every_loopT_total : forall all l i, every_loopT fT all i l = Some (every_loop f all i l).
  Proof. intros all l; induction l as [|x r IH]; intro i; [reflexivity|]. cbn. destruct (truthy _); [apply IH|reflexivity]. Qed.
  Lemma foreach_loopT_total : forall all l i, foreach_loopT fT all i l = Some tt.
  Proof. intros all l; induction l as [|x r IH]; intro i; [reflexivity|]. cbn. apply IH. Qed.
  Lemma flatmap_loopT_total : forall all l i, flatmap_loopT fT all i l = Some (flatmap_loop f all i l).
  Proof. intros all l; induction l as [|x r IH]; intro i; [reflexivity|]. cbn. rewrite IH. reflexivity. Qed.
End Total.

Lemma call_cbT_total_l : forall m f l,
  call_cbT m (fun e i a => Some (f e i a)) l = (Some (fst (call_cb m f l)), l).
Proof.
  intros m f l; destruct m; cbn; try reflexivity;
    rewrite ?map_loopT_total, ?filter_loopT_total, ?find_loopT_total, ?every_loopT_total,
            ?foreach_loopT_total, ?flatmap_loopT_total; reflexivity.
Qed.

Section Throws.
  Variables (f : callbackT) (all : list elem) (x : elem) (post : list elem).
  Lemma map_loopT_throw : forall pre i, passes MMap f all i pre = true -> f x (i + zlen pre) all = None ->
    map_loopT f all i (pre ++ x :: post) = None.
  Proof.
    induction pre as [|y r IH]; intros i Hp Hx; cbn in *.
    - unfold zlen in Hx; cbn in Hx; rewrite Z.add_0_r in Hx. rewrite Hx. reflexivity.
    - destruct (f y i all) as [v|]; [|discriminate]. cbn in Hp.
      rewrite IH; [reflexivity|exact Hp|]. replace (i + 1 + zlen r) with (i + zlen (y :: r)) by (unfold zlen; cbn [List.length]; lia). exact Hx.
  Qed.
  Lemma filter_loopT_throw : forall pre i, passes MFilter f all i pre = true -> f x (i + zlen pre) all = None ->
    filter_loopT f all i (pre ++ x :: post) = None.
  Proof.
    induction pre as [|y r IH]; intros i Hp Hx; cbn in *.
    - unfold zlen in Hx; cbn in Hx; rewrite Z.add_0_r in Hx. rewrite Hx. reflexivity.
    - destruct (f y i all) as [v|]; [|discriminate]. cbn in Hp.
      rewrite IH; [reflexivity|exact Hp|]. replace (i + 1 + zlen r) with (i + zlen (y :: r)) by (unfold zlen; cbn [List.length]; lia). exact Hx.
  Qed.
  Lemma foreach_loopT_throw : forall pre i, passes MForEach f all i pre = true -> f x (i + zlen pre) all = None ->
    foreach_loopT f all i (pre ++ x :: post) = None.
  Proof.
    induction pre as [|y r IH]; intros i Hp Hx; cbn in *.
    - unfold zlen in Hx; cbn in Hx; rewrite Z.add_0_r in Hx. rewrite Hx. reflexivity.
    - destruct (f y i all) as [v|]; [|discriminate]. cbn in Hp.
      apply IH; [exact Hp|]. replace (i + 1 + zlen r) with (i + zlen (y :: r)) by (unfold zlen; cbn [List.length]; lia). exact Hx.
  Qed.
  Lemma flatmap_loopT_throw : forall pre i, passes MFlatMap f all i pre = true -> f x (i + zlen pre) all = None ->
    flatmap_loopT f all i (pre ++ x :: post) = None.
  Proof.
    induction pre as [|y r IH]; intros i Hp Hx; cbn in *.
    - unfold zlen in Hx; cbn in Hx; rewrite Z.add_0_r in Hx. rewrite Hx. reflexivity.
    - destruct (f y i all) as [v|]; [|discriminate]. cbn in Hp.
      rewrite IH; [reflexivity|exact Hp|]. replace (i + 1 + zlen r) with (i + zlen (y :: r)) by (unfold zlen; cbn [List.length]; lia). exact Hx.
  Qed.
  (* find / findIndex / some share find_loopT: not stopped = result not truthy *)
  Lemma find_loopT_throw : forall m pre i, (m = MFind \/ m = MFindIndex \/ m = MSome) ->
    passes m f all i pre = true -> f x (i + zlen pre) all = None ->
    find_loopT f all i (pre ++ x :: post) = None.
  Proof.
    intros m pre; induction pre as [|y r IH]; intros i Hm Hp Hx; cbn in *.
    - unfold zlen in Hx; cbn in Hx; rewrite Z.add_0_r in Hx. rewrite Hx. reflexivity.
    - destruct (f y i all) as [v|]; [|discriminate].
      apply andb_true_iff in Hp. destruct Hp as [Hs Hp].
      assert (Ht : truthy v = false) by (destruct Hm as [ -> | [ -> | -> ] ]; cbn in Hs; apply negb_true_iff in Hs; exact Hs).
      rewrite Ht.
      apply IH; [exact Hm|exact Hp|]. replace (i + 1 + zlen r) with (i + zlen (y :: r)) by (unfold zlen; cbn [List.length]; lia). exact Hx.
  Qed.
  Lemma every_loopT_throw : forall pre i, passes MEvery f all i pre = true -> f x (i + zlen pre) all = None ->
    every_loopT f all i (pre ++ x :: post) = None.
  Proof.
    induction pre as [|y r IH]; intros i Hp Hx; cbn in *.
    - unfold zlen in Hx; cbn in Hx; rewrite Z.add_0_r in Hx. rewrite Hx. reflexivity.
    - destruct (f y i all) as [v|]; [|discriminate].
      apply andb_true_iff in Hp. destruct Hp as [Hs Hp]. cbn in Hs. rewrite negb_involutive in Hs. rewrite Hs.
      apply IH; [exact Hp|]. replace (i + 1 + zlen r) with (i + zlen (y :: r)) by (unfold zlen; cbn [List.length]; lia). exact Hx.
  Qed.
End Throws.

Lemma cb_throw_propagates_l : forall m f pre x post,
  is_cb_method m = true ->
  passes m f (pre ++ x :: post)%list 0 pre = true ->
  f x (zlen pre) (pre ++ x :: post)%list = None ->
  call_cbT m f (pre ++ x :: post)%list = (None, (pre ++ x :: post)%list).
Proof.
  intros m f pre x post Hm Hp Hx. set (l := (pre ++ x :: post)%list) in *.
  assert (Hx' : f x (0 + zlen pre) l = None) by exact Hx.
  destruct m; try discriminate; cbn [call_cbT]; unfold l at 2 3.
  - rewrite (map_loopT_throw f l x post pre 0 Hp Hx'). reflexivity.
  - rewrite (filter_loopT_throw f l x post pre 0 Hp Hx'). reflexivity.
  - rewrite (find_loopT_throw f l x post MFind pre 0 (or_introl eq_refl) Hp Hx'). reflexivity.
  - rewrite (find_loopT_throw f l x post MFindIndex pre 0 (or_intror (or_introl eq_refl)) Hp Hx'). reflexivity.
  - rewrite (foreach_loopT_throw f l x post pre 0 Hp Hx'). reflexivity.
  - rewrite (every_loopT_throw f l x post pre 0 Hp Hx'). reflexivity.
  - rewrite (find_loopT_throw f l x post MSome pre 0 (or_intror (or_intror eq_refl)) Hp Hx'). reflexivity.
  - rewrite (flatmap_loopT_throw f l x post pre 0 Hp Hx'). reflexivity.
Qed.

(* ------------------------------------------------------------------ named arguments *)
Lemma set_slot_same : forall i v l, nth i (set_slot i v l) ENull = v.
Proof. induction i; intros v [|x l]; cbn; auto. Qed.
Lemma set_slot_other : forall i j v l, i <> j -> nth j (set_slot i v l) ENull = nth j l ENull.
Proof.
  induction i; intros [|j] v [|x l] H; cbn; try congruence; auto.
  - destruct j; reflexivity.
  - rewrite IHi by congruence. destruct j; reflexivity.
Qed.
Lemma place_named_inv : forall pn npos named used acc args,
  place_named pn npos used acc named = Some args ->
  (forall j, (In j used \/ (j < npos)%nat) -> nth j args ENull = nth j acc ENull) /\
  (forall n v, In (n, v) named -> exists i, pindex pn n 0 = Some i /\ (npos <= i)%nat /\ nth i args ENull = v).
Proof.
  induction named as [|[n v] r IH]; intros used acc args H; cbn [place_named] in H.
  - inversion H; subst. split; [reflexivity | intros ? ? []].
  - destruct (pindex pn n 0) as [i|] eqn:P; [|discriminate].
    destruct ((i <? npos)%nat || existsb (Nat.eqb i) used) eqn:G; [discriminate|].
    apply orb_false_iff in G. destruct G as [G1 G2]. apply Nat.ltb_ge in G1.
    destruct (IH _ _ _ H) as [K1 K2]. split.
    + intros j Hj. rewrite K1 by (destruct Hj; [left; right; assumption | right; assumption]).
      apply set_slot_other. intro E; subst j. destruct Hj as [Hj|Hj]; [|lia].
      assert (existsb (Nat.eqb i) used = true) by (apply existsb_exists; exists i; split; [assumption | apply Nat.eqb_refl]).
      congruence.
    + intros n' v' [E|Hin].
      * inversion E; subst. exists i. repeat split; auto.
        rewrite K1 by (left; left; reflexivity). apply set_slot_same.
      * apply K2; assumption.
Qed.
Lemma named_binding_l : forall pn pos named args,
  bind_named pn pos named = Some args ->
  (forall j, (j < List.length pos)%nat -> nth j args ENull = nth j pos ENull) /\
  (forall n v, In (n, v) named ->
     exists i, pindex pn n 0 = Some i /\ (List.length pos <= i)%nat /\ nth i args ENull = v).
Proof.
  intros pn pos named args H. destruct (place_named_inv _ _ _ _ _ _ H) as [K1 K2]. split; auto.
Qed.
(* the name found is the name of a single (non-variadic) parameter at that position *)
Lemma pindex_sound : forall pn n k i, pindex pn n k = Some i ->
  (k <= i)%nat /\ nth_error pn (i - k) = Some (n, PSingle).
Proof.
  induction pn as [|[x kd] r IH]; intros n k i H; cbn in H; [discriminate|].
  destruct kd.
  - destruct (String.eqb x n) eqn:E.
    + inversion H; subst. apply String.eqb_eq in E; subst. split; [lia|]. rewrite Nat.sub_diag. reflexivity.
    + destruct (IH _ _ _ H) as [A B]. split; [lia|]. replace (i - k)%nat with (S (i - S k)) by lia. exact B.
  - destruct (IH _ _ _ H) as [A B]. split; [lia|]. replace (i - k)%nat with (S (i - S k)) by lia. exact B.
Qed.

(* ------------------------------------------------------------------ chained calls *)
Lemma chain_is_spec_l : forall l s1 s2 p, spec_chain l s1 s2 = Some p -> run_chain l s1 s2 = Some p.
Proof.
  intros l s1 s2 p H. unfold spec_chain in H. unfold run_chain.
  destruct (spec_step l s1) as [[r1 a1]|] eqn:E1; [|discriminate].
  rewrite (step_is_spec_l _ _ _ E1). cbn [fst snd].
  destruct r1 as [| | | |l1|]; try discriminate.
  destruct (spec_step l1 s2) as [[r2 a2]|] eqn:E2; [|discriminate].
  rewrite (step_is_spec_l _ _ _ E2). cbn [fst]. exact H.
Qed.
(* a chain leaves the receiver exactly as its first call alone does *)
Lemma chain_receiver_l : forall l s1 s2 p, run_chain l s1 s2 = Some p -> snd p = snd (do_step l s1).
Proof.
  intros l s1 s2 p H. unfold run_chain in H. destruct (fst (do_step l s1)); try discriminate.
  injection H as <-. reflexivity.
Qed.

(* ------------------------------------------------------------------ spread arguments *)
Lemma flatten_app_l : forall a b, flatten_args (a ++ b) = (flatten_args a ++ flatten_args b)%list.
Proof. intros. unfold flatten_args. apply flat_map_app. Qed.
Lemma flatten_plain_l : forall es, flatten_args (map APlain es) = es.
Proof. induction es as [|e es IH]; [reflexivity|]. cbn. unfold flatten_args in IH. rewrite IH. reflexivity. Qed.
Lemma flatten_spread_anywhere_l : forall pre xs post,
  flatten_args (map APlain pre ++ ASpread (EArr xs) :: map APlain post) = (pre ++ xs ++ post)%list.
Proof.
  intros. rewrite flatten_app_l, flatten_plain_l. f_equal.
  change (ASpread (EArr xs) :: map APlain post) with ([ASpread (EArr xs)] ++ map APlain post)%list.
  rewrite flatten_app_l, flatten_plain_l. cbn. rewrite app_nil_r. reflexivity.
Qed.
