(* C15 — executable model of the built-in array methods of /repo (data/value_array*.go) behind
   the argument binder of node/call_object_method.go (callMethodParams, the branch for built-in
   methods whose parameters are data.ParameterTODO / data.ParametersTODO), and of the string
   methods (data/value_string*.go), as the code is written after the C15 fix commits.
   A method call = bind the supplied arguments to the method's slots (an omitted argument is a
   slot holding null; variadic items are collected into one array slot), then run the body,
   which reads its slots with GetIndexValue(i).  The result is (returned value, receiver after).
   No proofs here. *)
From Coq Require Export ZArith List Bool String Ascii DecimalString.
Export ListNotations.
Open Scope Z_scope.

(* ------------------------------------------------------------------ values *)
Inductive elem :=
| ENull | EBool (b : bool) | EInt (z : Z) | EStr (s : string) | EArr (l : list elem)
| EAtom (id : nat) (text : string) (t : bool).
(* EAtom: a float or an object element.  The methods use only three things of such an element:
   its identity/value for indexOf/includes (id: equal floats get equal ids, an object keeps its id),
   its AsString text for join and sort (text), its truthiness when a callback returns it (t).
   Atoms in index-argument positions are not modelled (a float there would be truncated). *)

Definition itoa (z : Z) : string := NilZero.string_of_int (Z.to_int z).
Definition sjoin (sep : string) (l : list string) : string :=
  match l with
  | [] => ""
  | x :: r => fold_left (fun acc y => (acc ++ sep ++ y)%string) r x
  end.
(* Value.AsString: null "", bools true/false, ints decimal, arrays "[a, b]" *)
Fixpoint estr (e : elem) : string :=
  match e with
  | ENull => ""
  | EBool b => if b then "true" else "false"
  | EInt z => itoa z
  | EStr s => s
  | EArr l => ("[" ++ sjoin ", " (map estr l) ++ "]")%string
  | EAtom _ text _ => text
  end.
(* v.(AsInt): null (0) and ints; strings, bools, arrays do not implement data.AsInt *)
Definition as_int (e : elem) : option Z :=
  match e with ENull => Some 0 | EInt z => Some z | _ => None end.
(* AsBool of a callback result *)
Definition truthy (e : elem) : bool :=
  match e with
  | ENull => false | EBool b => b | EInt z => negb (z =? 0) | EStr s => negb (String.eqb s "")
  | EArr l => match l with [] => false | _ => true end
  | EAtom _ _ t => t
  end.
Definition is_null (e : elem) : bool := match e with ENull => true | _ => false end.

(* ------------------------------------------------------------------ argument binding *)
Inductive pkind := PSingle | PVariadic.
(* callMethodParams: for index < len(args) the slot gets the argument (a variadic parameter gets
   the array of all remaining arguments); for index >= len(args) a single slot keeps its initial
   null and a variadic slot gets the empty array; arguments beyond the parameters are dropped *)
Fixpoint bind (sig : list pkind) (args : list elem) : list elem :=
  match sig with
  | [] => []
  | PSingle :: sig' =>
      match args with
      | [] => ENull :: bind sig' []
      | a :: args' => a :: bind sig' args'
      end
  | PVariadic :: sig' => EArr args :: bind sig' []
  end.
Definition slot (i : nat) (slots : list elem) : elem := nth i slots ENull.

(* the argument list as WRITTEN: plain arguments and ...spreads in any order (callMethodParams
   flattens them first: a spread of an array contributes its elements in order, in place; a
   spread of anything else that is not an object contributes nothing).  The binder then sees the
   flattened list. *)
Inductive arg := APlain (e : elem) | ASpread (e : elem).
Definition arg_items (a : arg) : list elem :=
  match a with
  | APlain e => [e]
  | ASpread (EArr xs) => xs
  | ASpread _ => []
  end.
Definition flatten_args (l : list arg) : list elem := flat_map arg_items l.

(* named arguments (callMethodParams, the NamedArgument branch): after the positional arguments
   each  name: v  goes to the single parameter of that name.  An unknown name, the name of a
   variadic parameter, and a parameter that already has an argument (positional, or an earlier
   name) are an Error (None).  A parameter between them that receives nothing keeps null.  The
   result is the argument list that the positional binder then sees. *)
Fixpoint pindex (pn : list (string * pkind)) (n : string) (i : nat) : option nat :=
  match pn with
  | [] => None
  | (x, k) :: r =>
      if match k with PSingle => String.eqb x n | PVariadic => false end then Some i else pindex r n (S i)
  end.
Fixpoint set_slot (i : nat) (v : elem) (l : list elem) : list elem :=
  match i, l with
  | O, [] => [v]
  | O, _ :: r => v :: r
  | S j, [] => ENull :: set_slot j v []
  | S j, x :: r => x :: set_slot j v r
  end.
Fixpoint place_named (pn : list (string * pkind)) (npos : nat) (used : list nat) (acc : list elem)
         (named : list (string * elem)) : option (list elem) :=
  match named with
  | [] => Some acc
  | (n, v) :: r =>
      match pindex pn n 0 with
      | None => None
      | Some i => if (i <? npos)%nat || existsb (Nat.eqb i) used then None
                  else place_named pn npos (i :: used) (set_slot i v acc) r
      end
  end.
Definition bind_named (pn : list (string * pkind)) (pos : list elem) (named : list (string * elem)) : option (list elem) :=
  place_named pn (List.length pos) [] pos named.

(* ------------------------------------------------------------------ list helpers on Z indexes *)
Definition zlen {A} (l : list A) : Z := Z.of_nat (List.length l).
(* l[a:b] for 0 <= a <= b <= len *)
Definition sub_list {A} (a b : Z) (l : list A) : list A :=
  firstn (Z.to_nat (b - a)) (skipn (Z.to_nat a) l).

(* ------------------------------------------------------------------ the methods *)
Inductive meth :=
| MPush | MPop | MShift | MUnshift | MSlice | MSplice | MConcat | MJoin | MReverse | MSort
| MIndexOf | MIncludes | MFlat
| MMap | MFilter | MFind | MFindIndex | MForEach | MEvery | MSome | MReduce | MFlatMap.

Definition sig_of (m : meth) : list pkind :=
  match m with
  | MPush | MUnshift | MConcat => [PVariadic]
  | MPop | MShift | MReverse | MSort => []
  | MSlice | MIndexOf | MIncludes | MReduce => [PSingle; PSingle]
  | MSplice => [PSingle; PSingle; PVariadic]
  | MJoin | MFlat | MMap | MFilter | MFind | MFindIndex | MForEach | MEvery | MSome | MFlatMap => [PSingle]
  end.
(* captured by pointer (mutating) or by value; regenerated table: coq/C15/MethodTable.v *)
Definition by_pointer (m : meth) : bool :=
  match m with MPush | MPop | MShift | MUnshift | MSplice | MSort => true | _ => false end.

Definition items_of (e : elem) : list elem := match e with EArr l => l | _ => [] end.

Definition m_push (l slots : list elem) : elem * list elem :=
  let l' := (l ++ items_of (slot 0 slots))%list in (EInt (zlen l'), l').
Definition m_unshift (l slots : list elem) : elem * list elem :=
  let l' := (items_of (slot 0 slots) ++ l)%list in (EInt (zlen l'), l').
Definition m_pop (l : list elem) : elem * list elem :=
  match l with [] => (ENull, []) | _ => (last l ENull, removelast l) end.
Definition m_shift (l : list elem) : elem * list elem :=
  match l with [] => (ENull, []) | x :: r => (x, r) end.

Definition m_slice (l slots : list elem) : elem :=
  let n := zlen l in
  let start0 := match as_int (slot 0 slots) with Some s => s | None => 0 end in
  let end0 := if is_null (slot 1 slots) then n
              else match as_int (slot 1 slots) with Some e => e | None => n end in
  let start1 := if start0 <? 0 then n + start0 else start0 in
  let end1 := if end0 <? 0 then n + end0 else end0 in
  let start2 := if start1 <? 0 then 0 else start1 in
  let end2 := if end1 >? n then n else end1 in
  let start3 := if start2 >? end2 then end2 else start2 in
  EArr (sub_list start3 end2 l).

Definition m_splice (l slots : list elem) : elem * list elem :=
  let n := zlen l in
  let start0 := match as_int (slot 0 slots) with Some s => s | None => 0 end in
  let dc0 := if is_null (slot 1 slots) then n
             else match as_int (slot 1 slots) with Some d => d | None => n end in
  let start1 := if start0 <? 0 then n + start0 else start0 in
  let start2 := if start1 <? 0 then 0 else start1 in
  let start3 := if start2 >? n then n else start2 in
  let dc1 := if dc0 <? 0 then 0 else dc0 in
  let dc2 := if start3 + dc1 >? n then n - start3 else dc1 in
  let deleted := sub_list start3 (start3 + dc2) l in
  let items := items_of (slot 2 slots) in
  (EArr deleted, (firstn (Z.to_nat start3) l ++ items ++ skipn (Z.to_nat (start3 + dc2)) l)%list).

Definition spread1 (e : elem) : list elem := match e with EArr x => x | _ => [e] end.
Definition m_concat (l slots : list elem) : elem :=
  EArr (l ++ flat_map spread1 (items_of (slot 0 slots)))%list.

(* joinElementString: nested arrays are joined with "," recursively *)
Fixpoint join_str (e : elem) : string :=
  match e with
  | EArr l => sjoin "," (map join_str l)
  | _ => estr e
  end.
Definition m_join (l slots : list elem) : elem :=
  let sep := if is_null (slot 0 slots) then ","%string else estr (slot 0 slots) in
  EStr (sjoin sep (map join_str l)).

(* reverse swaps in place in the shared backing array: the receiver is reversed too *)
Definition m_reverse (l : list elem) : elem * list elem := (EArr (rev l), rev l).

(* sort.SliceStable by AsString order (ASSUMED stable): modelled as a stable insertion sort;
   elements are inserted from the right, an element goes before the first one that is not smaller *)
Fixpoint insert_sorted (e : elem) (l : list elem) : list elem :=
  match l with
  | [] => [e]
  | x :: r => if String.leb (estr e) (estr x) then e :: x :: r else x :: insert_sorted e r
  end.
Definition ssort (l : list elem) : list elem := fold_right insert_sorted [] l.
Definition m_sort (l : list elem) : elem * list elem := (EArr (ssort l), ssort l).

(* indexOf / includes: arrayElementEquals (same type and value for scalars; arrays by identity:
   the argument is never the same instance as an element), from a relative start index *)
Definition elem_equals (a b : elem) : bool :=
  match a, b with
  | EInt x, EInt y => x =? y
  | EStr x, EStr y => String.eqb x y
  | EBool x, EBool y => Bool.eqb x y
  | ENull, ENull => true
  | EAtom a _ _, EAtom b _ _ => Nat.eqb a b
  | _, _ => false
  end.
Fixpoint find_elem (s : elem) (i : Z) (l : list elem) : Z :=
  match l with
  | [] => -1
  | x :: r => if elem_equals x s then i else find_elem s (i + 1) r
  end.
Definition index_of (l slots : list elem) : Z :=
  let n := zlen l in
  let from0 := match as_int (slot 1 slots) with Some f => f | None => 0 end in
  let from1 := if from0 <? 0 then n + from0 else from0 in
  let from2 := if from1 <? 0 then 0 else from1 in
  if from2 >=? n then -1
  else find_elem (slot 0 slots) from2 (skipn (Z.to_nat from2) l).
Definition m_index_of (l slots : list elem) : elem := EInt (index_of l slots).
Definition m_includes (l slots : list elem) : elem := EBool (0 <=? index_of l slots).

(* flat: contribution of one element at remaining depth d > 0 *)
Fixpoint flatten_e (d : Z) (e : elem) {struct e} : list elem :=
  match e with
  | EArr l' => if d - 1 <=? 0 then l' else flat_map (flatten_e (d - 1)) l'
  | _ => [e]
  end.
Definition flatten (d : Z) (l : list elem) : list elem :=
  if d <=? 0 then l else flat_map (flatten_e d) l.
Definition m_flat (l slots : list elem) : elem :=
  let depth := if is_null (slot 0 slots) then 1
               else match as_int (slot 0 slots) with Some d => d | None => 1 end in
  EArr (flatten depth l).

(* ---- callback methods: the callback receives (element, index, whole array) *)
Definition callback := elem -> Z -> list elem -> elem.
Fixpoint map_loop (f : callback) (all : list elem) (i : Z) (l : list elem) : list elem :=
  match l with [] => [] | x :: r => f x i all :: map_loop f all (i + 1) r end.
Fixpoint filter_loop (f : callback) (all : list elem) (i : Z) (l : list elem) : list elem :=
  match l with
  | [] => []
  | x :: r => if truthy (f x i all) then x :: filter_loop f all (i + 1) r else filter_loop f all (i + 1) r
  end.
Fixpoint find_loop (f : callback) (all : list elem) (i : Z) (l : list elem) : option (Z * elem) :=
  match l with
  | [] => None
  | x :: r => if truthy (f x i all) then Some (i, x) else find_loop f all (i + 1) r
  end.
Fixpoint every_loop (f : callback) (all : list elem) (i : Z) (l : list elem) : bool :=
  match l with
  | [] => true
  | x :: r => if truthy (f x i all) then every_loop f all (i + 1) r else false
  end.
Fixpoint flatmap_loop (f : callback) (all : list elem) (i : Z) (l : list elem) : list elem :=
  match l with
  | [] => []
  | x :: r => (spread1 (f x i all) ++ flatmap_loop f all (i + 1) r)%list
  end.
Definition rcallback := elem -> elem -> Z -> list elem -> elem.
Fixpoint reduce_loop (f : rcallback) (all : list elem) (acc : elem) (i : Z) (l : list elem) : elem :=
  match l with [] => acc | x :: r => reduce_loop f all (f acc x i all) (i + 1) r end.
(* reduce(cb, initial?) : initial omitted (null) -> start from the first element; empty -> null *)
Definition m_reduce (f : rcallback) (l : list elem) (slots : list elem) : elem :=
  if is_null (slot 1 slots) then
    match l with [] => ENull | x :: r => reduce_loop f l x 1 r end
  else reduce_loop f l (slot 1 slots) 0 l.

(* one call of a callback-free method through the binder *)
Definition call (m : meth) (l args : list elem) : elem * list elem :=
  let slots := bind (sig_of m) args in
  match m with
  | MPush => m_push l slots
  | MUnshift => m_unshift l slots
  | MPop => m_pop l
  | MShift => m_shift l
  | MSlice => (m_slice l slots, l)
  | MSplice => m_splice l slots
  | MConcat => (m_concat l slots, l)
  | MJoin => (m_join l slots, l)
  | MReverse => m_reverse l
  | MSort => m_sort l
  | MIndexOf => (m_index_of l slots, l)
  | MIncludes => (m_includes l slots, l)
  | MFlat => (m_flat l slots, l)
  | _ => (ENull, l)        (* callback methods: call_cb *)
  end.
Definition call_cb (m : meth) (f : callback) (l : list elem) : elem * list elem :=
  match m with
  | MMap => (EArr (map_loop f l 0 l), l)
  | MFilter => (EArr (filter_loop f l 0 l), l)
  | MFind => (match find_loop f l 0 l with Some (_, x) => x | None => ENull end, l)
  | MFindIndex => (match find_loop f l 0 l with Some (i, _) => EInt i | None => EInt (-1) end, l)
  | MForEach => (ENull, l)
  | MEvery => (EBool (every_loop f l 0 l), l)
  | MSome => (EBool (match find_loop f l 0 l with Some _ => true | None => false end), l)
  | MFlatMap => (EArr (flatmap_loop f l 0 l), l)
  | _ => (ENull, l)
  end.
Definition call_reduce (f : rcallback) (l : list elem) (init : list elem) : elem * list elem :=
  (m_reduce f l (ENull :: bind [PSingle] init), l).

(* ------------------------------------------------------------------ callbacks that throw *)
(* a callback either returns a value or throws (None); every callback loop returns the throw at
   once (`if ctl != nil { return nil, ctl }`), the methods hold the slot list by value and have
   written nothing: result None = the throw propagates, receiver unchanged *)
Definition callbackT := elem -> Z -> list elem -> option elem.
Fixpoint map_loopT (f : callbackT) (all : list elem) (i : Z) (l : list elem) : option (list elem) :=
  match l with
  | [] => Some []
  | x :: r => match f x i all with
              | None => None
              | Some y => match map_loopT f all (i + 1) r with None => None | Some ys => Some (y :: ys) end
              end
  end.
Fixpoint filter_loopT (f : callbackT) (all : list elem) (i : Z) (l : list elem) : option (list elem) :=
  match l with
  | [] => Some []
  | x :: r => match f x i all with
              | None => None
              | Some y => match filter_loopT f all (i + 1) r with
                          | None => None
                          | Some ys => Some (if truthy y then x :: ys else ys)
                          end
              end
  end.
Fixpoint find_loopT (f : callbackT) (all : list elem) (i : Z) (l : list elem) : option (option (Z * elem)) :=
  match l with
  | [] => Some None
  | x :: r => match f x i all with
              | None => None
              | Some y => if truthy y then Some (Some (i, x)) else find_loopT f all (i + 1) r
              end
  end.
Fixpoint every_loopT (f : callbackT) (all : list elem) (i : Z) (l : list elem) : option bool :=
  match l with
  | [] => Some true
  | x :: r => match f x i all with
              | None => None
              | Some y => if truthy y then every_loopT f all (i + 1) r else Some false
              end
  end.
Fixpoint foreach_loopT (f : callbackT) (all : list elem) (i : Z) (l : list elem) : option unit :=
  match l with
  | [] => Some tt
  | x :: r => match f x i all with None => None | Some _ => foreach_loopT f all (i + 1) r end
  end.
Fixpoint flatmap_loopT (f : callbackT) (all : list elem) (i : Z) (l : list elem) : option (list elem) :=
  match l with
  | [] => Some []
  | x :: r => match f x i all with
              | None => None
              | Some y => match flatmap_loopT f all (i + 1) r with None => None | Some ys => Some (spread1 y ++ ys)%list end
              end
  end.
(* result None = the callback's throw came out of the method *)
Definition call_cbT (m : meth) (f : callbackT) (l : list elem) : option elem * list elem :=
  match m with
  | MMap => (option_map EArr (map_loopT f l 0 l), l)
  | MFilter => (option_map EArr (filter_loopT f l 0 l), l)
  | MFind => (option_map (fun r => match r with Some (_, x) => x | None => ENull end) (find_loopT f l 0 l), l)
  | MFindIndex => (option_map (fun r => match r with Some (i, _) => EInt i | None => EInt (-1) end) (find_loopT f l 0 l), l)
  | MForEach => (option_map (fun _ => ENull) (foreach_loopT f l 0 l), l)
  | MEvery => (option_map EBool (every_loopT f l 0 l), l)
  | MSome => (option_map (fun r => EBool (match r with Some _ => true | None => false end)) (find_loopT f l 0 l), l)
  | MFlatMap => (option_map EArr (flatmap_loopT f l 0 l), l)
  | _ => (Some ENull, l)
  end.
(* how many times the callback is invoked (short-circuit methods stop early) *)
Fixpoint visits_until (stop : elem -> bool) (f : callback) (all : list elem) (i : Z) (l : list elem) : nat :=
  match l with
  | [] => O
  | x :: r => if stop (f x i all) then 1%nat else S (visits_until stop f all (i + 1) r)
  end.
Definition visits (m : meth) (f : callback) (l : list elem) : nat :=
  match m with
  | MFind | MFindIndex | MSome => visits_until truthy f l 0 l
  | MEvery => visits_until (fun y => negb (truthy y)) f l 0 l
  | MMap | MFilter | MForEach | MFlatMap => List.length l
  | _ => O
  end.

(* ------------------------------------------------------------------ sequences of calls on one receiver *)
(* one step of a sequence: a callback-free method with its arguments, a callback method with its
   callback, or reduce *)
Inductive step :=
| StCall (m : meth) (args : list elem)
| StCb (m : meth) (f : callback)
| StRed (f : rcallback) (init : list elem).
Definition do_step (l : list elem) (s : step) : elem * list elem :=
  match s with
  | StCall m args => call m l args
  | StCb m f => call_cb m f l
  | StRed f init => call_reduce f l init
  end.
(* a chained call  $a->m1(..)->m2(..)  (no variable in between): m2 runs on the VALUE m1 returned;
   the receiver $a sees m1 only — whatever m2 does to that value must not reach it *)
Definition run_chain (l : list elem) (s1 s2 : step) : option (elem * list elem) :=
  let p1 := do_step l s1 in
  match fst p1 with
  | EArr l1 => Some (fst (do_step l1 s2), snd p1)
  | _ => None
  end.
(* the receiver object carries its contents from one call to the next; whatever else the Go slice
   carries (spare capacity, backing array) must not be observable *)
Fixpoint run_seq (l : list elem) (ss : list step) : list (elem * list elem) :=
  match ss with
  | [] => []
  | s :: r => let p := do_step l s in p :: run_seq (snd p) r
  end.
