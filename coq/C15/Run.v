(* C15 — correspondence: evaluate model (tie) and spec (property oracle) on the calls the
   implementation ran. *)
From V.C15 Require Import Model Spec.
Open Scope Z_scope.

(* a string given by its bytes (results that are not valid UTF-8, e.g. a substring cut inside a
   multi-byte character) *)
Fixpoint bytes_str (l : list nat) : string :=
  match l with [] => EmptyString | b :: r => String (Ascii.ascii_of_nat b) (bytes_str r) end.

Fixpoint elem_eqb (a b : elem) {struct a} : bool :=
  match a, b with
  | ENull, ENull => true
  | EBool x, EBool y => Bool.eqb x y
  | EInt x, EInt y => x =? y
  | EStr x, EStr y => String.eqb x y
  | EAtom a _ _, EAtom b _ _ => Nat.eqb a b
  | EArr x, EArr y =>
      (fix go (p q : list elem) : bool :=
         match p, q with
         | [], [] => true
         | e :: p', f :: q' => elem_eqb e f && go p' q'
         | _, _ => false
         end) x y
  | _, _ => false
  end.
Definition list_eqb (a b : list elem) : bool := elem_eqb (EArr a) (EArr b).

(* named callbacks: the closures the engine defines in its setup script *)
(* CbLocal / CbLocalAcc use a LOCAL variable of the closure (every invocation starts with it unset);
   CbDefault declares four parameters with defaults (the method supplies three arguments) *)
Inductive cbk := CbPair | CbIdx | CbIdxEven | CbEq2 | CbGe1 | CbDup | CbSelf | CbLen | CbFalse | CbTrue
               | CbLocal | CbLocalAcc | CbDefault
               (* callbacks that read the CONTENT of their third argument (the array snapshot) *)
               | CbSnap | CbNotFirst.
Definition cb_fun (c : cbk) : callback := fun e i all =>
  match c with
  | CbPair => EArr [e; EInt i]
  | CbIdx => EInt i
  | CbIdxEven => EBool (Z.rem i 2 =? 0)
  | CbEq2 => EBool (match e with EInt 2 => true | _ => false end)
  | CbGe1 => EBool (i >=? 1)
  | CbDup => EArr [e; e]
  | CbSelf => e
  | CbLen => EInt (zlen all)
  | CbFalse => EBool false
  | CbTrue => EBool true
  | CbLocal => EInt 1
  | CbLocalAcc => EInt (10 + i)
  | CbDefault => EArr [EInt i; EInt 5]
  | CbSnap => EArr [EInt i; EArr all]
  | CbNotFirst => EBool (negb (js_index_of all e None =? 0))
  end.
(* closures that throw at a given index *)
Inductive tcbk := TcAt1 | TcAt2Zero | TcAt2Pair.
Definition tcb_fun (c : tcbk) : callbackT := fun e i all =>
  match c with
  | TcAt1 => if i =? 1 then None else Some (EBool (i >=? 2))
  | TcAt2Zero => if i =? 2 then None else Some (EBool (i =? 0))
  | TcAt2Pair => if i =? 2 then None else Some (EArr [e; EInt i])
  end.
(* closures that push 99 onto the receiver (through its real push method) on every invocation *)
Inductive mcbk := McPush | McPushEq1.
Definition mcb_fun (c : mcbk) : callback := fun e i all =>
  match c with McPush => EInt i | McPushEq1 => EBool (i =? 1) end.
Inductive rcbk := RcAcc | RcAccLen | RcAccDef.
Definition rc_fun (c : rcbk) : rcallback := fun acc e i all =>
  match c with
  | RcAcc => EArr [acc; e; EInt i]
  | RcAccLen => EArr [acc; EInt (zlen all)]
  | RcAccDef => EArr [acc; e; EInt 5; EInt 1]
  end.

Inductive obs := OVal (res : elem) (after : list elem) | OThrow | OThrowA (after : list elem) | OPanic | OOther.
(* a step as the engine ran it: named callbacks *)
Inductive sstep := SsCall (m : meth) (args : list elem) | SsCb (m : meth) (c : cbk) | SsRed (c : rcbk) (init : list elem).
Definition step_of (s : sstep) : step :=
  match s with
  | SsCall m args => StCall m args
  | SsCb m c => StCb m (cb_fun c)
  | SsRed c init => StRed (rc_fun c) init
  end.
Definition step_meth (s : sstep) : meth :=
  match s with SsCall m _ => m | SsCb m _ => m | SsRed _ _ => MReduce end.
Inductive case :=
| CCall (m : meth) (recv args : list elem) (o : obs)
| CCb (m : meth) (c : cbk) (recv : list elem) (o : obs)
| CRed (c : rcbk) (recv init : list elem) (o : obs)
| CLen (recv : list elem) (o : obs)
| CCbT (m : meth) (c : tcbk) (recv : list elem) (o : obs)      (* throwing callback *)
| CCbM (m : meth) (c : mcbk) (recv : list elem) (o : obs)      (* callback mutating the receiver *)
| CSeq (recv : list elem) (steps : list (sstep * obs))
(* a call whose argument list mixes plain arguments and ...spreads, as written *)
| CMix (m : meth) (recv : list elem) (items : list arg) (o : obs)
(* $a->m1(..)->m2(..) as script text; o = (result of the chain, $a afterwards) *)
| CChain (recv : list elem) (s1 s2 : sstep) (o : obs)
(* a call written with named arguments; pn = the parameter names and kinds of the real method
   object (measured by the engine), pos = the positional arguments, named = the name: value pairs *)
| CNamed (m : meth) (pn : list (string * pkind)) (recv pos : list elem) (named : list (string * elem)) (o : obs).

Definition pair_agree (p : elem * list elem) (o : obs) : bool :=
  match o with OVal r a => elem_eqb (fst p) r && list_eqb (snd p) a | _ => false end.

(* a stable ascending sort by text of l: sorted, and for every element its equal-text class
   appears in the original order *)
Fixpoint sorted_b (l : list elem) : bool :=
  match l with
  | [] => true
  | x :: r => match r with [] => true | y :: _ => String.leb (estr x) (estr y) && sorted_b r end
  end.
Definition same_text (x : elem) (y : elem) : bool := String.eqb (estr x) (estr y).
Definition stable_sort_of (l res : list elem) : bool :=
  sorted_b res && Nat.eqb (List.length l) (List.length res) &&
  forallb (fun x => list_eqb (filter (same_text x) l) (filter (same_text x) res)) l.

(* failing clauses: 1 model/implementation disagree (tie); 2 implementation differs from the
   documented result; 3 a method not documented as mutating changed the receiver;
   4 the call crashed (Go panic) *)
Definition frame_ok (m : meth) (recv : list elem) (o : obs) : bool :=
  match o with
  | OVal _ a => documented_mutating m || list_eqb recv a
  | _ => true
  end.
Definition not_panic (o : obs) : bool := match o with OPanic => false | _ => true end.

(* sequences: failing clause numbers are 10*(step index + 1) + clause *)
Fixpoint check_seq (i : nat) (l : list elem) (steps : list (sstep * obs)) : list nat :=
  match steps with
  | [] => []
  | (s, o) :: r =>
      let p := do_step l (step_of s) in
      let base := (10 * (i + 1))%nat in
      (if pair_agree p o then [] else [(base + 1)%nat]) ++
      (match s with
       | SsCall MSort _ => match o with
                           | OVal (EArr res) a => if stable_sort_of l res && list_eqb res a then [] else [(base + 2)%nat]
                           | _ => [(base + 2)%nat]
                           end
       | _ => match spec_step l (step_of s) with
              | Some q => if pair_agree q o then [] else [(base + 2)%nat]
              | None => []
              end
       end) ++
      (if frame_ok (step_meth s) l o then [] else [(base + 3)%nat]) ++
      (if not_panic o then [] else [(base + 4)%nat]) ++
      check_seq (S i) (snd p) r
  end.

Definition pkind_eqb (a b : pkind) : bool :=
  match a, b with PSingle, PSingle | PVariadic, PVariadic => true | _, _ => false end.
Fixpoint sig_eqb (a b : list pkind) : bool :=
  match a, b with
  | [], [] => true
  | x :: a', y :: b' => pkind_eqb x y && sig_eqb a' b'
  | _, _ => false
  end.

Definition check_call (m : meth) (recv args : list elem) (o : obs) : list nat :=
      (if pair_agree (call m recv args) o then [] else [1%nat]) ++
      (match m with
       | MSort => match o with
                  | OVal (EArr r) a => if stable_sort_of recv r && list_eqb r a then [] else [2%nat]
                  | _ => [2%nat]
                  end
       | _ => match spec_call m recv args with
              | Some p => if pair_agree p o then [] else [2%nat]
              | None => []
              end
       end) ++
      (if frame_ok m recv o then [] else [3%nat]) ++
      (if not_panic o then [] else [4%nat]).

Definition check_case (c : case) : list nat :=
  match c with
  | CCall m recv args o => check_call m recv args o
  | CMix m recv items o => check_call m recv (flatten_args items) o
  | CNamed m pn recv pos named o =>
      (* the measured parameter kinds are the model's signature; a rejected binding is a catchable
         error that leaves the receiver alone; an accepted one is the positional call *)
      (if sig_eqb (map snd pn) (sig_of m) then [] else [1%nat]) ++
      match bind_named pn pos named with
      | Some args => check_call m recv args o
      | None => (match o with OThrowA a => if list_eqb recv a then [] else [1%nat] | _ => [1%nat] end) ++
                (if not_panic o then [] else [4%nat])
      end
  | CCb m c recv o =>
      (if pair_agree (call_cb m (cb_fun c) recv) o then [] else [1%nat]) ++
      (match spec_cb m (cb_fun c) recv with
       | Some p => if pair_agree p o then [] else [2%nat]
       | None => []
       end) ++
      (if frame_ok m recv o then [] else [3%nat]) ++
      (if not_panic o then [] else [4%nat])
  | CRed c recv init o =>
      (if pair_agree (call_reduce (rc_fun c) recv init) o then [] else [1%nat]) ++
      (if pair_agree (js_reduce (rc_fun c) recv (match init with x :: _ => if is_null x then None else Some x | [] => None end), recv) o
       then [] else [2%nat]) ++
      (if not_panic o then [] else [4%nat])
  | CLen recv o =>
      (if pair_agree (EInt (zlen recv), recv) o then [] else [1%nat; 2%nat])
  | CCbT m c recv o =>
      (* clause 1: model; clause 2: a throw that is reached comes out and the receiver is untouched,
         a callback that does not throw in reach gives the documented result *)
      let p := call_cbT m (tcb_fun c) recv in
      (match fst p, o with
       | Some v, OVal r a => if elem_eqb v r && list_eqb (snd p) a then [] else [1%nat]
       | None, OThrowA a => if list_eqb (snd p) a then [] else [1%nat]
       | _, _ => [1%nat]
       end) ++
      (match o with
       | OThrowA a => if list_eqb recv a then [] else [3%nat]
       | OVal _ a => if list_eqb recv a then [] else [3%nat]
       | _ => []
       end) ++
      (if not_panic o then [] else [4%nat])
  | CCbM m c recv o =>
      (* the method visits exactly the elements the receiver had when the call started; the pushes
         made by the callback stay in the receiver *)
      let expected := (fst (call_cb m (mcb_fun c) recv),
                       (recv ++ repeat (EInt 99) (visits m (mcb_fun c) recv))%list) in
      (if pair_agree expected o then [] else [1%nat; 2%nat]) ++
      (if not_panic o then [] else [4%nat])
  | CSeq recv steps => check_seq 0 recv steps
  | CChain recv s1 s2 o =>
      (match run_chain recv (step_of s1) (step_of s2) with
       | Some p => if pair_agree p o then [] else [1%nat]
       | None => [1%nat]
       end) ++
      (match spec_chain recv (step_of s1) (step_of s2) with
       | Some q => if pair_agree q o then [] else [2%nat]
       | None => []
       end) ++
      (if frame_ok (step_meth s1) recv o then [] else [3%nat]) ++
      (if not_panic o then [] else [4%nat])
  end.
