(* C15 — non-vacuity and the documentation's own examples evaluated on the model. *)
From Coq Require Import ZArith List Bool String.
From V.C15 Require Import Model Spec Run StrModel.
Open Scope Z_scope.
Open Scope string_scope.

Definition a5 := [EInt 1; EInt 2; EInt 3; EInt 4; EInt 5].
(* docs/array_methods.md *)
Example ex_slice : call MSlice a5 [EInt 2] = (EArr [EInt 3; EInt 4; EInt 5], a5)
                /\ call MSlice a5 [EInt (-2)] = (EArr [EInt 4; EInt 5], a5)
                /\ call MSlice a5 [EInt 1; EInt 3] = (EArr [EInt 2; EInt 3], a5).
Proof. repeat split; vm_compute; reflexivity. Qed.
Example ex_splice : call MSplice a5 [EInt 1; EInt 2; EStr "a"; EStr "b"] =
  (EArr [EInt 2; EInt 3], [EInt 1; EStr "a"; EStr "b"; EInt 4; EInt 5]).
Proof. vm_compute. reflexivity. Qed.
Example ex_concat : call MConcat [EInt 1; EInt 2] [EArr [EInt 3; EInt 4]; EArr [EInt 5; EInt 6]] =
  (EArr [EInt 1; EInt 2; EInt 3; EInt 4; EInt 5; EInt 6], [EInt 1; EInt 2]).
Proof. vm_compute. reflexivity. Qed.
Example ex_push : call MPush [EInt 1; EInt 2; EInt 3] [EInt 4; EInt 5] = (EInt 5, a5).
Proof. vm_compute. reflexivity. Qed.
Example ex_join : call MJoin [EStr "apple"; EStr "banana"] [] = (EStr "apple,banana", [EStr "apple"; EStr "banana"]).
Proof. vm_compute. reflexivity. Qed.
Example ex_flat : call MFlat [EInt 1; EArr [EInt 2; EArr [EInt 3]]] [] =
  (EArr [EInt 1; EInt 2; EArr [EInt 3]], [EInt 1; EArr [EInt 2; EArr [EInt 3]]]).
Proof. vm_compute. reflexivity. Qed.
Example ex_index_of : call MIndexOf [EInt 1; EStr "1"] [EStr "1"] = (EInt 1, [EInt 1; EStr "1"]).
Proof. vm_compute. reflexivity. Qed.
(* hypotheses of call_is_spec are satisfiable with out-of-range and omitted arguments *)
Example ex_spec_dom : spec_call MSlice a5 [EInt (-9); ENull] <> None /\ spec_call MSplice a5 [EInt 7] <> None
                   /\ spec_call MFlat a5 [] <> None /\ spec_call MIndexOf a5 [EInt 3; EInt (-1)] <> None.
Proof. repeat split; discriminate. Qed.
Example ex_cb : call_cb MMap (cb_fun CbPair) [EStr "x"; ENull] = (EArr [EArr [EStr "x"; EInt 0]; EArr [ENull; EInt 1]], [EStr "x"; ENull]).
Proof. vm_compute. reflexivity. Qed.
Example ex_sort : ssort [EInt 10; EInt 9; EStr "1"; EInt 1] = [EStr "1"; EInt 1; EInt 10; EInt 9].
Proof. vm_compute. reflexivity. Qed.
(* docs/strings.md *)
Example ex_substring : scall SSubstring "Hello World" [EInt 0; EInt 5] = Some (EStr "Hello")
                    /\ scall SSubstring "Hello World" [EInt 6] = Some (EStr "World")
                    /\ scall SSubstring "hello" [EInt 7; EInt 2] = Some (EStr "llo").
Proof. repeat split; vm_compute; reflexivity. Qed.
Example ex_replace : scall SReplace "Hello World" [EStr "o"; EStr "0"] = Some (EStr "Hell0 W0rld").
Proof. vm_compute. reflexivity. Qed.
Example ex_split : scall SSplit "Hello World" [EStr "o"] = Some (EArr [EStr "Hell"; EStr " W"; EStr "rld"])
                /\ scall SSplit "Hello World" [] = Some (EArr [EStr "Hello"; EStr "World"]).
Proof. split; vm_compute; reflexivity. Qed.
Example ex_sspec_dom : sspec SSubstring "hello" [EInt (-3); EInt 99] <> None.
Proof. discriminate. Qed.

(* cb_throw_propagates: hypotheses hold for a callback throwing at index 1 of a 3-element receiver *)
Example ex_throw : passes MMap (tcb_fun TcAt1) [EInt 5; EInt 6; EInt 7] 0 [EInt 5] = true
                /\ tcb_fun TcAt1 (EInt 6) 1 [EInt 5; EInt 6; EInt 7] = None
                /\ call_cbT MMap (tcb_fun TcAt1) [EInt 5; EInt 6; EInt 7] = (None, [EInt 5; EInt 6; EInt 7])
                /\ call_cbT MFind (tcb_fun TcAt2Zero) [EInt 5; EInt 6; EInt 7] = (Some (EInt 5), [EInt 5; EInt 6; EInt 7]).
Proof. repeat split; vm_compute; reflexivity. Qed.
Example ex_seq : run_seq [EInt 1; EInt 2; EInt 3]
                   [StCall MPush [EInt 4]; StCall MSplice [EInt 1; EInt 0; EStr "x"; EStr "y"]] =
  [(EInt 4, [EInt 1; EInt 2; EInt 3; EInt 4]);
   (EArr [], [EInt 1; EStr "x"; EStr "y"; EInt 2; EInt 3; EInt 4])].
Proof. vm_compute. reflexivity. Qed.

(* named arguments: slice(end: 2) is slice(null, 2); an unknown name, a name given twice and a
   name that collides with a positional argument are rejected *)
Definition slice_pn : list (string * pkind) := [("start"%string, PSingle); ("end"%string, PSingle)].
Example ex_named_end : bind_named slice_pn [] [("end"%string, EInt 2)] = Some [ENull; EInt 2].
Proof. reflexivity. Qed.
Example ex_named_swapped : bind_named slice_pn [] [("end"%string, EInt 3); ("start"%string, EInt 1)] = Some [EInt 1; EInt 3].
Proof. reflexivity. Qed.
Example ex_named_unknown : bind_named slice_pn [] [("stop"%string, EInt 3)] = None.
Proof. reflexivity. Qed.
Example ex_named_collides : bind_named slice_pn [EInt 1] [("start"%string, EInt 3)] = None.
Proof. reflexivity. Qed.
Example ex_named_twice : bind_named slice_pn [] [("end"%string, EInt 3); ("end"%string, EInt 4)] = None.
Proof. reflexivity. Qed.
Example ex_named_variadic : bind_named [("start"%string, PSingle); ("deleteCount"%string, PSingle); ("items"%string, PVariadic)] [EInt 0] [("items"%string, EInt 3)] = None.
Proof. reflexivity. Qed.
