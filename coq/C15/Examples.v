From V.C15 Require Import Model Spec.
