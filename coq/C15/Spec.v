(* C15 — the documented (JavaScript Array.prototype) semantics as list functions, written
   independently of the slots/binding of the implementation.  An optional argument is an
   `option`: None = not supplied.  origami has no `undefined`: a supplied null for an optional
   index argument counts as "not supplied" (stated deviation from JavaScript, where null -> 0). *)
From V.C15 Require Import Model.
Open Scope Z_scope.

(* relative index clamping, written once: negative counts from the end, result within [0, n] *)
Definition rel_index (i n : Z) : Z := if i <? 0 then Z.max (n + i) 0 else Z.min i n.

Definition take_from {A} (k cnt : Z) (l : list A) : list A :=
  firstn (Z.to_nat cnt) (skipn (Z.to_nat k) l).

(* arguments as the caller wrote them: how an optional integer argument is read *)
Definition opt_int (args : list elem) (i : nat) : option Z :=
  match nth_error args i with
  | Some (EInt z) => Some z
  | _ => None                       (* missing or null *)
  end.
(* the argument shapes the specification covers for an index position: missing, null or int *)
Definition index_arg_ok (args : list elem) (i : nat) : bool :=
  match nth_error args i with
  | None | Some ENull | Some (EInt _) => true
  | _ => false
  end.

Definition js_slice (l : list elem) (start end_ : option Z) : list elem :=
  let n := zlen l in
  let k := rel_index (match start with Some s => s | None => 0 end) n in
  let f := rel_index (match end_ with Some e => e | None => n end) n in
  take_from k (Z.max (f - k) 0) l.

(* splice(start, deleteCount?, ...items) -> (removed, receiver after) *)
Definition js_splice (l : list elem) (start : Z) (dc : option Z) (items : list elem) : list elem * list elem :=
  let n := zlen l in
  let k := rel_index start n in
  let d := match dc with None => n - k | Some c => Z.min (Z.max c 0) (n - k) end in
  (take_from k d l, (firstn (Z.to_nat k) l ++ items ++ skipn (Z.to_nat (k + d)) l)%list).

Definition js_concat (l : list elem) (items : list elem) : list elem :=
  (l ++ flat_map (fun it => match it with EArr x => x | _ => [it] end) items)%list.

(* flat(depth = 1) *)
Fixpoint js_flat_e (d : Z) (e : elem) {struct e} : list elem :=
  match e with
  | EArr l' => if 0 <? d then flat_map (js_flat_e (d - 1)) l' else [e]
  | _ => [e]
  end.
Definition js_flat (l : list elem) (depth : option Z) : list elem :=
  flat_map (js_flat_e (match depth with Some d => d | None => 1 end)) l.

(* join(separator = ","): null -> "", scalars by their text; nested arrays are joined with ","
   recursively in JavaScript *)
Fixpoint js_str (e : elem) : string :=
  match e with
  | ENull => ""
  | EBool b => if b then "true" else "false"
  | EInt z => itoa z
  | EStr s => s
  | EArr l => sjoin "," (map js_str l)
  | EAtom _ text _ => text       (* floats and objects: their text (origami's AsString) *)
  end.
Definition js_join (l : list elem) (sep : option string) : string :=
  sjoin (match sep with Some s => s | None => ","%string end) (map js_str l).

(* strict equality of scalars (arrays compare by identity: a fresh argument is never found) *)
Definition strict_eqb (a b : elem) : bool :=
  match a, b with
  | ENull, ENull => true
  | EBool x, EBool y => Bool.eqb x y
  | EInt x, EInt y => x =? y
  | EStr x, EStr y => String.eqb x y
  | EAtom a _ _, EAtom b _ _ => Nat.eqb a b     (* equal floats / the same object *)
  | _, _ => false
  end.
Fixpoint js_find_from (x : elem) (i : Z) (l : list elem) : Z :=
  match l with
  | [] => -1
  | y :: r => if strict_eqb y x then i else js_find_from x (i + 1) r
  end.
Definition js_index_of (l : list elem) (x : elem) (from : option Z) : Z :=
  let n := zlen l in
  let k := rel_index (match from with Some f => f | None => 0 end) n in
  js_find_from x k (skipn (Z.to_nat k) l).

(* callbacks see (element, index, array) *)
Fixpoint mapi (f : callback) (all : list elem) (i : Z) (l : list elem) : list elem :=
  match l with [] => [] | x :: r => f x i all :: mapi f all (i + 1) r end.
Fixpoint indexed (i : Z) (l : list elem) : list (Z * elem) :=
  match l with [] => [] | x :: r => (i, x) :: indexed (i + 1) r end.
Definition js_map (f : callback) (l : list elem) : list elem := map (fun p => f (snd p) (fst p) l) (indexed 0 l).
Definition js_filter (f : callback) (l : list elem) : list elem :=
  map snd (filter (fun p => truthy (f (snd p) (fst p) l)) (indexed 0 l)).
Definition js_find (f : callback) (l : list elem) : option (Z * elem) :=
  List.find (fun p => truthy (f (snd p) (fst p) l)) (indexed 0 l).
Definition js_every (f : callback) (l : list elem) : bool :=
  forallb (fun p => truthy (f (snd p) (fst p) l)) (indexed 0 l).
Definition js_some (f : callback) (l : list elem) : bool :=
  existsb (fun p => truthy (f (snd p) (fst p) l)) (indexed 0 l).
Definition js_flat_map (f : callback) (l : list elem) : list elem :=
  flat_map (fun p => match f (snd p) (fst p) l with EArr x => x | y => [y] end) (indexed 0 l).
Definition js_reduce (f : rcallback) (l : list elem) (init : option elem) : elem :=
  match init with
  | Some a => fold_left (fun acc p => f acc (snd p) (fst p) l) (indexed 0 l) a
  | None => match l with
            | [] => ENull                      (* JavaScript throws a TypeError; the docs return null *)
            | x :: r => fold_left (fun acc p => f acc (snd p) (fst p) l) (indexed 1 r) x
            end
  end.

(* sort(): ascending by text, stable *)
Fixpoint sorted_by_text (l : list elem) : Prop :=
  match l with
  | [] => True
  | x :: r => (forall y, In y r -> String.ltb (estr y) (estr x) = false) /\ sorted_by_text r
  end.

(* which methods the documentation lists as mutating *)
Definition documented_mutating (m : meth) : bool :=
  match m with MPush | MPop | MShift | MUnshift | MSplice | MReverse | MSort => true | _ => false end.

(* ---- one documented call: (result, receiver after); None = outside the specified argument
   shapes (index positions take an int, null or nothing; join takes a string separator) *)
Definition spec_call (m : meth) (l args : list elem) : option (elem * list elem) :=
  match m with
  | MPush => Some (EInt (zlen l + zlen args), (l ++ args)%list)
  | MUnshift => Some (EInt (zlen args + zlen l), (args ++ l)%list)
  | MPop => Some (match rev l with [] => (ENull, []) | x :: r => (x, rev r) end)
  | MShift => Some (match l with [] => (ENull, []) | x :: r => (x, r) end)
  | MSlice =>
      if index_arg_ok args 0 && index_arg_ok args 1
      then Some (EArr (js_slice l (opt_int args 0) (opt_int args 1)), l) else None
  | MSplice =>
      match nth_error args 0 with
      | Some (EInt s) =>
          if index_arg_ok args 1
          then let (del, aft) := js_splice l s (opt_int args 1) (skipn 2 args) in Some (EArr del, aft)
          else None
      | _ => None
      end
  | MConcat => Some (EArr (js_concat l args), l)
  | MJoin =>
      match args with
      | [] | ENull :: _ => Some (EStr (js_join l None), l)
      | EStr s :: _ => Some (EStr (js_join l (Some s)), l)
      | _ => None
      end
  | MReverse => Some (EArr (rev l), rev l)
  | MIndexOf =>
      match args with
      | x :: _ => if index_arg_ok args 1 then Some (EInt (js_index_of l x (opt_int args 1)), l) else None
      | [] => None
      end
  | MIncludes =>
      match args with
      | x :: _ => if index_arg_ok args 1 then Some (EBool (0 <=? js_index_of l x (opt_int args 1)), l) else None
      | [] => None
      end
  | MFlat => if index_arg_ok args 0 then Some (EArr (js_flat l (opt_int args 0)), l) else None
  | _ => None                (* sort: relational spec below; callback methods: spec_cb *)
  end.
Definition spec_cb (m : meth) (f : callback) (l : list elem) : option (elem * list elem) :=
  match m with
  | MMap => Some (EArr (js_map f l), l)
  | MFilter => Some (EArr (js_filter f l), l)
  | MFind => Some (match js_find f l with Some p => snd p | None => ENull end, l)
  | MFindIndex => Some (match js_find f l with Some p => EInt (fst p) | None => EInt (-1) end, l)
  | MForEach => Some (ENull, l)
  | MEvery => Some (EBool (js_every f l), l)
  | MSome => Some (EBool (js_some f l), l)
  | MFlatMap => Some (EArr (js_flat_map f l), l)
  | _ => None
  end.


(* ---- a sequence of documented calls on one receiver: each call sees exactly the receiver the
   previous one left.  (sort steps have a relational specification, see sorted_by_text, and are
   not part of spec_seq.) *)
Definition spec_step (l : list elem) (s : step) : option (elem * list elem) :=
  match s with
  | StCall m args => spec_call m l args
  | StCb m f => spec_cb m f l
  | StRed f init =>
      Some (js_reduce f l (match init with x :: _ => if is_null x then None else Some x | [] => None end), l)
  end.
(* a chain of two documented calls: the second applies to the array the first returned; the
   receiver is left as the first call alone leaves it *)
Definition spec_chain (l : list elem) (s1 s2 : step) : option (elem * list elem) :=
  match spec_step l s1 with
  | Some (EArr l1, a1) => match spec_step l1 s2 with Some (r2, _) => Some (r2, a1) | None => None end
  | _ => None
  end.
Fixpoint spec_seq (l : list elem) (ss : list step) : option (list (elem * list elem)) :=
  match ss with
  | [] => Some []
  | s :: r =>
      match spec_step l s with
      | Some p => match spec_seq (snd p) r with Some ps => Some (p :: ps) | None => None end
      | None => None
      end
  end.

(* ---- callbacks that throw: the throw of the first callback invocation that is actually reached
   comes out of the method, and the receiver is as before.  `stops m y`: result y makes method m
   stop iterating (find / findIndex / some at the first truthy result, every at the first falsy) *)
Definition stops (m : meth) (y : elem) : bool :=
  match m with
  | MFind | MFindIndex | MSome => truthy y
  | MEvery => negb (truthy y)
  | _ => false
  end.
Definition is_cb_method (m : meth) : bool :=
  match m with MMap | MFilter | MFind | MFindIndex | MForEach | MEvery | MSome | MFlatMap => true | _ => false end.
(* the callback returned, without stopping the method, on every element of `pre` (starting at index i) *)
Fixpoint passes (m : meth) (f : callbackT) (all : list elem) (i : Z) (pre : list elem) : bool :=
  match pre with
  | [] => true
  | x :: r => match f x i all with
              | Some y => negb (stops m y) && passes m f all (i + 1) r
              | None => false
              end
  end.
