(* C15 — string methods: the modelled bodies (argument coercion, clamping, swap) compute the
   documented results on the specified argument shapes. *)
From Coq Require Import ZArith List Bool String Lia.
From V.C15 Require Import Model Spec Run StrModel.
Open Scope Z_scope.

Lemma slen_nonneg : forall s, 0 <= slen s.
Proof. intro s; unfold slen; lia. Qed.

Lemma substring_core : forall s (a : Z) (e : option Z),
  let n := slen s in
  let end0 := match e with Some b => b | None => n end in
  let start1 := if a <? 0 then 0 else a in
  let start2 := if start1 >? n then n else start1 in
  let end1 := if end0 <? 0 then 0 else end0 in
  let end2 := if end1 >? n then n else end1 in
  (let (x, y) := if start2 >? end2 then (end2, start2) else (start2, end2) in
   stake (Z.to_nat (y - x)) (sdrop (Z.to_nat x) s)) = js_substring s a e.
Proof.
  intros s a e n end0 start1 start2 end1 end2.
  pose proof (slen_nonneg s) as Hn. fold n in Hn.
  unfold js_substring, clamp. fold n. fold end0.
  assert (H2 : start2 = Z.max 0 (Z.min a n)).
  { subst start2 start1.
    repeat match goal with
    | |- context [if ?p <? ?q then _ else _] => destruct (Z.ltb_spec p q); cbv iota
    | |- context [if ?p >? ?q then _ else _] => rewrite (Z.gtb_ltb p q); destruct (Z.ltb_spec q p); cbv iota
    end.
    all: lia. }
  assert (H3 : end2 = Z.max 0 (Z.min end0 n)).
  { subst end2 end1.
    repeat match goal with
    | |- context [if ?p <? ?q then _ else _] => destruct (Z.ltb_spec p q); cbv iota
    | |- context [if ?p >? ?q then _ else _] => rewrite (Z.gtb_ltb p q); destruct (Z.ltb_spec q p); cbv iota
    end.
    all: lia. }
  rewrite <- H2, <- H3.
  rewrite (Z.gtb_ltb start2 end2). destruct (Z.ltb_spec end2 start2).
  - replace (Z.max start2 end2) with start2 by lia. replace (Z.min start2 end2) with end2 by lia. reflexivity.
  - replace (Z.max start2 end2) with end2 by lia. replace (Z.min start2 end2) with start2 by lia. reflexivity.
Qed.

Lemma m_substring_spec : forall s a e slots,
  slot 0 slots = EInt a ->
  slot 1 slots = match e with Some b => EInt b | None => ENull end ->
  m_substring s slots = Some (js_substring s a e).
Proof.
  intros s a e slots H0 H1. unfold m_substring. rewrite H0, H1.
  pose proof (substring_core s a e) as Hc. cbn zeta in Hc.
  destruct e as [b|]; cbn [sub_index]; rewrite <- Hc;
    match goal with |- (let (_, _) := if ?c then _ else _ in _) = _ => destruct c; reflexivity end.
Qed.

Lemma scall_is_spec_l : forall m s args r, sspec m s args = Some r -> scall m s args = Some r.
Proof.
  intros m s args r H. destruct m; cbn [sspec] in H.
  - (* length *) exact H.
  - (* indexOf *) destruct args as [|[| | |x| |] t]; try discriminate. exact H.
  - (* substring *)
    destruct args as [|[| |a| | |] [|[| |b| | |] [|? ?]]]; try discriminate;
      injection H as <-; unfold scall.
    + rewrite (m_substring_spec s a None) by reflexivity. reflexivity.
    + rewrite (m_substring_spec s a None) by reflexivity. reflexivity.
    + rewrite (m_substring_spec s a (Some b)) by reflexivity. reflexivity.
  - (* replace *)
    destruct args as [|[| | |x| |] [|[| | |y| |] t]]; try discriminate.
    destruct x as [|c x']; [discriminate|]. exact H.
  - (* split *)
    destruct args as [|[| | |x| |] t]; try discriminate.
    + exact H.
    + destruct t; [exact H|discriminate].
    + destruct x as [|c x']; [discriminate|]. exact H.
  - (* trim *) exact H.
  - (* upper *) exact H.
  - (* lower *) exact H.
  - destruct args as [|[| | |x| |] t]; try discriminate. exact H.
  - destruct args as [|[| | |x| |] t]; try discriminate. exact H.
Qed.

(* the string receiver is immutable: the model never returns a changed receiver (the methods
   hold the Go string by value); stated for completeness of the frame clause *)
Lemma prefixb_refl : forall s, prefixb s s = true.
Proof. induction s as [|a s IH]; [reflexivity|]. cbn. rewrite Ascii.eqb_refl. exact IH. Qed.
Lemma index_of_empty : forall s, sindex EmptyString s = 0.
Proof. intro s; unfold sindex; destruct s; reflexivity. Qed.

(* ------------------------------------------------------------------ declarative characterisations
   (sspec uses the same byte-string functions as scall; these lemmas say what those functions
   compute without mentioning how) *)
Lemma prefixb_iff : forall p s, prefixb p s = true <-> exists r, s = (p ++ r)%string.
Proof.
  induction p as [|a p IH]; intros s.
  - cbn. destruct s; (split; [intros _; eexists; reflexivity | reflexivity]).
  - destruct s as [|b s]; cbn.
    + split; [discriminate | intros [r H]; discriminate].
    + rewrite andb_true_iff, Ascii.eqb_eq, IH. split.
      * intros [E [r H]]; subst. exists r; reflexivity.
      * intros [r H]. inversion H; subst. split; [reflexivity | exists r; reflexivity].
Qed.

Lemma slen_cons : forall a s, slen (String a s) = 1 + slen s.
Proof. intros. unfold slen. cbn [String.length]. lia. Qed.

Lemma index_from_found : forall sub s i k,
  index_from sub s i = k -> k <> -1 -> 0 <= i ->
  exists pre post, s = (pre ++ sub ++ post)%string /\ k = i + slen pre /\
    (forall pre' post', s = (pre' ++ sub ++ post')%string -> slen pre <= slen pre').
Proof.
  intros sub s; induction s as [|a s IH]; intros i k H Hk Hi; cbn [index_from] in H.
  - destruct (prefixb sub EmptyString) eqn:P; [|congruence].
    apply prefixb_iff in P. destruct P as [r P]. exists EmptyString, r. repeat split.
    + exact P.
    + cbn. lia.
    + intros. apply slen_nonneg.
  - destruct (prefixb sub (String a s)) eqn:P.
    + apply prefixb_iff in P. destruct P as [r P]. exists EmptyString, r. repeat split.
      * exact P.
      * cbn. lia.
      * intros. apply slen_nonneg.
    + destruct (IH (i + 1) k H Hk ltac:(lia)) as [pre [post [E [K L]]]].
      exists (String a pre), post. repeat split.
      * cbn. rewrite E. reflexivity.
      * rewrite slen_cons. lia.
      * intros pre' post' E'. destruct pre' as [|b pre'].
        -- exfalso. cbn in E'. assert (prefixb sub (String a s) = true) by (apply prefixb_iff; exists post'; exact E'). congruence.
        -- cbn in E'. inversion E'; subst b. rewrite !slen_cons. specialize (L pre' post' H2). lia.
Qed.
Lemma index_from_ge : forall sub s i, 0 <= i -> index_from sub s i = -1 \/ i <= index_from sub s i.
Proof.
  intros sub s; induction s as [|a s IH]; intros i Hi; cbn [index_from].
  - destruct (prefixb sub EmptyString); [right; lia | left; reflexivity].
  - destruct (prefixb sub (String a s)); [right; lia|]. destruct (IH (i + 1) ltac:(lia)); [left; assumption | right; lia].
Qed.
Lemma index_from_absent : forall sub s i, 0 <= i -> index_from sub s i = -1 ->
  forall pre post, s <> (pre ++ sub ++ post)%string.
Proof.
  intros sub s; induction s as [|a s IH]; intros i Hi H pre post E; cbn [index_from] in H.
  - destruct (prefixb sub EmptyString) eqn:P; [lia|].
    destruct pre; [|discriminate]. cbn in E.
    assert (prefixb sub EmptyString = true) by (apply prefixb_iff; exists post; exact E). congruence.
  - destruct (prefixb sub (String a s)) eqn:P; [lia|].
    destruct pre as [|b pre].
    + cbn in E. assert (prefixb sub (String a s) = true) by (apply prefixb_iff; exists post; exact E). congruence.
    + cbn in E. inversion E; subst. exact (IH (i + 1) ltac:(lia) H pre post eq_refl).
Qed.

(* indexOf: the byte offset of the LEFTMOST occurrence, -1 exactly when there is none *)
Lemma sindex_leftmost_l : forall sub s,
  (sindex sub s = -1 /\ forall pre post, s <> (pre ++ sub ++ post)%string) \/
  (exists pre post, s = (pre ++ sub ++ post)%string /\ sindex sub s = slen pre /\
     forall pre' post', s = (pre' ++ sub ++ post')%string -> slen pre <= slen pre').
Proof.
  intros sub s. unfold sindex. destruct (Z.eq_dec (index_from sub s 0) (-1)) as [E|N].
  - left. split; [exact E|]. apply (index_from_absent sub s 0); [lia | exact E].
  - right. destruct (index_from_found sub s 0 _ eq_refl N ltac:(lia)) as [pre [post [A [B C]]]].
    exists pre, post. repeat split; [exact A | lia | exact C].
Qed.

Lemma sdrop_app : forall r p, sdrop (String.length r) (r ++ p)%string = p.
Proof. induction r; intros; cbn; auto. Qed.
Lemma length_app : forall a b, String.length (a ++ b)%string = (String.length a + String.length b)%nat.
Proof. induction a; intros; cbn; auto. Qed.
Lemma stake_sdrop : forall n s, (stake n s ++ sdrop n s)%string = s.
Proof. induction n; intros [|a s]; cbn; auto. rewrite IHn. reflexivity. Qed.
Lemma suffixb_iff : forall p s, suffixb p s = true <-> exists r, s = (r ++ p)%string.
Proof.
  intros p s. unfold suffixb. rewrite andb_true_iff, Nat.leb_le, String.eqb_eq. split.
  - intros [L E]. exists (stake (String.length s - String.length p) s).
    pose proof (stake_sdrop (String.length s - String.length p) s) as K. rewrite E in K. symmetry. exact K.
  - intros [r E]. subst s. rewrite length_app. split; [lia|].
    replace (String.length r + String.length p - String.length p)%nat with (String.length r) by lia.
    apply sdrop_app.
Qed.

(* split on a non-empty separator loses nothing: joining the pieces with the separator gives the
   receiver back (only this inverse is stated; that no piece contains the separator is not) *)
Definition sjoin_tail (sep : string) (r : list string) : string :=
  fold_right (fun y acc => (sep ++ y ++ acc)%string) EmptyString r.
Definition sjoin (sep : string) (l : list string) : string :=
  match l with [] => EmptyString | x :: r => (x ++ sjoin_tail sep r)%string end.
Lemma sapp_assoc : forall a b c : string, ((a ++ b) ++ c = a ++ (b ++ c))%string.
Proof. induction a; intros; cbn; [reflexivity | rewrite IHa; reflexivity]. Qed.
Lemma sapp_nil_r : forall a : string, (a ++ EmptyString)%string = a.
Proof. induction a; cbn; [reflexivity | rewrite IHa; reflexivity]. Qed.
Lemma split_fuel_nonempty : forall fuel sep cur s, split_fuel fuel sep cur s <> [].
Proof.
  induction fuel as [|f IH]; intros sep cur s; cbn [split_fuel]; [discriminate|].
  destruct s as [|a s']; [discriminate|]. destruct (prefixb sep (String a s')); [discriminate | apply IH].
Qed.
Lemma split_fuel_join : forall fuel sep cur s,
  sep <> EmptyString -> (String.length s < fuel)%nat ->
  sjoin sep (split_fuel fuel sep cur s) = (cur ++ s)%string.
Proof.
  induction fuel as [|f IH]; intros sep cur s Hs Hf; [lia|].
  cbn [split_fuel]. destruct s as [|a s'].
  - cbn. rewrite !sapp_nil_r. reflexivity.
  - destruct (prefixb sep (String a s')) eqn:P.
    + apply prefixb_iff in P. destruct P as [r P]. rewrite P, sdrop_app.
      assert (L : (String.length r < f)%nat).
      { assert (String.length (String a s') = String.length (sep ++ r)%string) by (rewrite P; reflexivity).
        rewrite length_app in H. destruct sep; [congruence|]. cbn [String.length] in *. lia. }
      specialize (IH sep EmptyString r Hs L). cbn [sjoin].
      destruct (split_fuel f sep EmptyString r) as [|x t] eqn:S.
      * exfalso. exact (split_fuel_nonempty _ _ _ _ S).
      * cbn [sjoin] in IH. cbn [sjoin_tail fold_right]. fold (sjoin_tail sep t). rewrite IH. reflexivity.
    + cbn [String.length] in Hf. rewrite (IH sep (cur ++ String a EmptyString)%string s' Hs ltac:(lia)).
      rewrite sapp_assoc. reflexivity.
Qed.
Lemma split_join_l : forall sep s, sep <> EmptyString -> sjoin sep (split_by sep s) = s.
Proof.
  intros sep s H. unfold split_by. destruct sep; [congruence|].
  rewrite split_fuel_join; [reflexivity | discriminate | lia].
Qed.

(* ------------------------------------------------------------------ case mapping *)
Lemma lead_width_ascii : forall a, Nat.ltb (nat_of_ascii a) 128 = true -> lead_width a = 1%nat.
Proof.
  intros a H. unfold lead_width. apply Nat.ltb_lt in H.
  destruct (Nat.ltb (nat_of_ascii a) 192) eqn:E; [reflexivity|]. apply Nat.ltb_ge in E. lia.
Qed.
Lemma is_ascii_cons : forall a s, is_ascii_str (String a s) = true ->
  Nat.ltb (nat_of_ascii a) 128 = true /\ is_ascii_str s = true.
Proof. intros a s H. cbn in H. apply andb_true_iff in H. exact H. Qed.
Lemma utf8_chars_ascii : forall s fuel, is_ascii_str s = true -> (String.length s <= fuel)%nat ->
  utf8_chars_fuel fuel s = chars s.
Proof.
  induction s as [|a s IH]; intros fuel H L.
  - destruct fuel; reflexivity.
  - destruct fuel as [|f]; [cbn in L; lia|]. destruct (is_ascii_cons _ _ H) as [Ha Hs].
    cbn [utf8_chars_fuel chars]. rewrite (lead_width_ascii a Ha). cbn [stake sdrop].
    rewrite IH; [reflexivity | exact Hs | cbn in L; lia].
Qed.
(* on an ASCII receiver the table is irrelevant and the mapping is the byte-wise ASCII one *)
Lemma case_map_ascii_l : forall f tbl s, is_ascii_str s = true -> case_map f tbl s = Some (smap f s).
Proof.
  intros f tbl s H. unfold case_map, utf8_chars. rewrite utf8_chars_ascii by (auto; lia).
  induction s as [|a s IH]; [reflexivity|]. destruct (is_ascii_cons _ _ H) as [Ha Hs].
  cbn [chars map concat_opt map_char smap]. rewrite Ha. rewrite (IH Hs). reflexivity.
Qed.
(* the computed mapping satisfies the character-wise statement *)
Lemma case_map_chars_l : forall f tbl cs r,
  concat_opt (map (map_char f tbl) cs) = Some r ->
  exists ds, chars_mapped f tbl cs ds = true /\ r = String.concat "" ds.
Proof.
  induction cs as [|c cs IH]; intros r H; cbn in H.
  - inversion H. exists []. split; reflexivity.
  - destruct (map_char f tbl c) as [x|] eqn:E; [|discriminate].
    destruct (concat_opt (map (map_char f tbl) cs)) as [y|] eqn:E2; [|discriminate].
    inversion H; subst. destruct (IH y eq_refl) as [ds [A B]]. exists (x :: ds). split.
    + cbn. rewrite E, String.eqb_refl. exact A.
    + subst y. destruct ds; cbn; [rewrite sapp_nil_r|]; reflexivity.
Qed.

(* ------------------------------------------------------------------ trim and replace, declaratively *)
Fixpoint all_space (s : string) : bool :=
  match s with EmptyString => true | String a s' => is_space a && all_space s' end.
Definition no_lead_space (s : string) : bool :=
  match s with EmptyString => true | String a _ => negb (is_space a) end.

Lemma trim_left_dec : forall s, exists l, s = (l ++ trim_left s)%string /\ all_space l = true /\ no_lead_space (trim_left s) = true.
Proof.
  induction s as [|a s IH]; cbn.
  - exists EmptyString. repeat split.
  - destruct (is_space a) eqn:E.
    + destruct IH as [l [A [B C]]]. exists (String a l). cbn. rewrite E, B. rewrite <- A. repeat split. exact C.
    + exists EmptyString. cbn. rewrite E. repeat split.
Qed.
Lemma trim_left_fix : forall s, no_lead_space s = true -> trim_left s = s.
Proof. intros [|a s] H; cbn in *; [reflexivity|]. destruct (is_space a); [discriminate | reflexivity]. Qed.
Lemma srev_app : forall a b, srev (a ++ b) = (srev b ++ srev a)%string.
Proof.
  induction a as [|x a IH]; intros b; cbn.
  - rewrite sapp_nil_r. reflexivity.
  - rewrite IH, sapp_assoc. reflexivity.
Qed.
Lemma srev_invol : forall s, srev (srev s) = s.
Proof. induction s as [|a s IH]; cbn; [reflexivity|]. rewrite srev_app, IH. reflexivity. Qed.
Lemma all_space_app : forall a b, all_space (a ++ b) = all_space a && all_space b.
Proof. induction a as [|x a IH]; intros b; cbn; [reflexivity|]. rewrite IH, andb_assoc. reflexivity. Qed.
Lemma all_space_srev : forall s, all_space (srev s) = all_space s.
Proof.
  induction s as [|a s IH]; cbn; [reflexivity|]. rewrite all_space_app, IH. cbn. rewrite andb_true_r, andb_comm. reflexivity.
Qed.
Lemma no_lead_prefix : forall a b, no_lead_space (a ++ b) = true -> a <> EmptyString -> no_lead_space a = true.
Proof. intros [|x a] b H N; [congruence|]. exact H. Qed.

(* trim(): the receiver is  l ++ trim ++ r  with l and r made of white space only, and the
   result neither begins nor ends with white space *)
Lemma trim_space_spec_l : forall s, exists l r,
  s = (l ++ trim_space s ++ r)%string /\ all_space l = true /\ all_space r = true /\
  no_lead_space (trim_space s) = true /\ no_lead_space (srev (trim_space s)) = true.
Proof.
  intro s. unfold trim_space.
  destruct (trim_left_dec s) as [l [A [B C]]].
  destruct (trim_left_dec (srev (trim_left s))) as [r' [A' [B' C']]].
  set (t1 := trim_left s) in *. set (t2 := trim_left (srev t1)) in *.
  assert (T1 : t1 = (srev t2 ++ srev r')%string).
  { rewrite <- (srev_invol t1). rewrite A'. apply srev_app. }
  exists l, (srev r'). repeat split.
  - rewrite A at 1. rewrite T1. reflexivity.
  - exact B.
  - rewrite all_space_srev. exact B'.
  - destruct (srev t2) as [|x u] eqn:E; [reflexivity|]. rewrite T1 in C. exact C.
  - rewrite srev_invol. exact C'.
Qed.

(* replace(): a pattern that does not occur leaves the receiver unchanged *)
Lemma replace_fuel_absent : forall f old new s,
  (forall pre post, s <> (pre ++ old ++ post)%string) -> replace_fuel f old new s = s.
Proof.
  induction f as [|f IH]; intros old new s H; [reflexivity|]. cbn [replace_fuel].
  destruct (prefixb old s) eqn:P.
  - apply prefixb_iff in P. destruct P as [r P]. exfalso. apply (H EmptyString r). exact P.
  - destruct s as [|a s']; [reflexivity|]. f_equal. apply IH.
    intros pre post E. apply (H (String a pre) post). cbn. rewrite E. reflexivity.
Qed.
Lemma replace_absent_l : forall old new s, old <> EmptyString ->
  (forall pre post, s <> (pre ++ old ++ post)%string) -> replace_all old new s = s.
Proof.
  intros old new s N H. unfold replace_all. destruct old; [congruence|]. apply replace_fuel_absent. exact H.
Qed.

(* ------------------------------------------------------------------ split() on white space, declaratively *)
Fixpoint no_space (s : string) : bool :=
  match s with EmptyString => true | String a s' => negb (is_space a) && no_space s' end.
Fixpoint drop_spaces (s : string) : string :=
  match s with EmptyString => EmptyString | String a s' => if is_space a then drop_spaces s' else String a (drop_spaces s') end.
Definition sconcat (l : list string) : string := fold_right append EmptyString l.
Definition good_field (f : string) : bool := negb (String.eqb f "") && no_space f.

Lemma no_space_app : forall a b, no_space (a ++ b) = no_space a && no_space b.
Proof. induction a as [|x a IH]; intros b; cbn; [reflexivity|]. rewrite IH, andb_assoc. reflexivity. Qed.
Lemma app_nonempty : forall a x, String.eqb (a ++ String x EmptyString) "" = false.
Proof. intros [|y a] x; reflexivity. Qed.

Lemma fields_go_spec : forall s cur, no_space cur = true ->
  sconcat (fields_go cur s) = (cur ++ drop_spaces s)%string /\
  forallb good_field (fields_go cur s) = true.
Proof.
  induction s as [|a s IH]; intros cur Hc; cbn [fields_go drop_spaces].
  - destruct cur as [|c cur']; cbn.
    + split; reflexivity.
    + split; [rewrite !sapp_nil_r; reflexivity|]. unfold good_field. cbn. cbn in Hc. rewrite Hc. reflexivity.
  - destruct (is_space a) eqn:E.
    + destruct cur as [|c cur'].
      * apply (IH EmptyString). reflexivity.
      * destruct (IH EmptyString eq_refl) as [A B]. split.
        -- cbn [sconcat fold_right]. fold (sconcat (fields_go "" s)). rewrite A. reflexivity.
        -- cbn [forallb]. rewrite B. unfold good_field. cbn. cbn in Hc. rewrite Hc. reflexivity.
    + assert (Hc' : no_space (cur ++ String a "") = true).
      { rewrite no_space_app, Hc. cbn. rewrite E. reflexivity. }
      destruct (IH _ Hc') as [A B]. split; [|exact B].
      rewrite A, sapp_assoc. reflexivity.
Qed.

Lemma fields_spec_l : forall s,
  sconcat (fields s) = drop_spaces s /\ forallb good_field (fields s) = true.
Proof. intro s. exact (fields_go_spec s EmptyString eq_refl). Qed.
