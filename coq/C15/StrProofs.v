(* C15 — string methods: the modelled bodies (argument coercion, clamping, swap) compute the
   documented results on the specified argument shapes. *)
From Coq Require Import ZArith List Bool String Lia.
From V.C15 Require Import Model Spec Run StrModel.
Open Scope Z_scope.

Lemma slen_nonneg : forall s, 0 <= slen s.
Proof. intro s; unfold slen; lia. Qed.

Lemma substring_core : forall s (a : Z) (e : option Z),
  let n := slen s in
  let end0 := match e with Some b => b | None => n end in
  let start1 := if a <? 0 then 0 else a in
  let start2 := if start1 >? n then n else start1 in
  let end1 := if end0 <? 0 then 0 else end0 in
  let end2 := if end1 >? n then n else end1 in
  (let (x, y) := if start2 >? end2 then (end2, start2) else (start2, end2) in
   stake (Z.to_nat (y - x)) (sdrop (Z.to_nat x) s)) = js_substring s a e.
Proof.
  intros s a e n end0 start1 start2 end1 end2.
  pose proof (slen_nonneg s) as Hn. fold n in Hn.
  unfold js_substring, clamp. fold n. fold end0.
  assert (H2 : start2 = Z.max 0 (Z.min a n)).
  { subst start2 start1.
    repeat match goal with
    | |- context [if ?p <? ?q then _ else _] => destruct (Z.ltb_spec p q); cbv iota
    | |- context [if ?p >? ?q then _ else _] => rewrite (Z.gtb_ltb p q); destruct (Z.ltb_spec q p); cbv iota
    end.
    all: lia. }
  assert (H3 : end2 = Z.max 0 (Z.min end0 n)).
  { subst end2 end1.
    repeat match goal with
    | |- context [if ?p <? ?q then _ else _] => destruct (Z.ltb_spec p q); cbv iota
    | |- context [if ?p >? ?q then _ else _] => rewrite (Z.gtb_ltb p q); destruct (Z.ltb_spec q p); cbv iota
    end.
    all: lia. }
  rewrite <- H2, <- H3.
  rewrite (Z.gtb_ltb start2 end2). destruct (Z.ltb_spec end2 start2).
  - replace (Z.max start2 end2) with start2 by lia. replace (Z.min start2 end2) with end2 by lia. reflexivity.
  - replace (Z.max start2 end2) with end2 by lia. replace (Z.min start2 end2) with start2 by lia. reflexivity.
Qed.

Lemma m_substring_spec : forall s a e slots,
  slot 0 slots = EInt a ->
  slot 1 slots = match e with Some b => EInt b | None => ENull end ->
  m_substring s slots = Some (js_substring s a e).
Proof.
  intros s a e slots H0 H1. unfold m_substring. rewrite H0, H1.
  pose proof (substring_core s a e) as Hc. cbn zeta in Hc.
  destruct e as [b|]; cbn [sub_index]; rewrite <- Hc;
    match goal with |- (let (_, _) := if ?c then _ else _ in _) = _ => destruct c; reflexivity end.
Qed.

Lemma scall_is_spec_l : forall m s args r, sspec m s args = Some r -> scall m s args = Some r.
Proof.
  intros m s args r H. destruct m; cbn [sspec] in H.
  - (* length *) exact H.
  - (* indexOf *) destruct args as [|[| | |x| |] t]; try discriminate. exact H.
  - (* substring *)
    destruct args as [|[| |a| | |] [|[| |b| | |] [|? ?]]]; try discriminate;
      injection H as <-; unfold scall.
    + rewrite (m_substring_spec s a None) by reflexivity. reflexivity.
    + rewrite (m_substring_spec s a None) by reflexivity. reflexivity.
    + rewrite (m_substring_spec s a (Some b)) by reflexivity. reflexivity.
  - (* replace *)
    destruct args as [|[| | |x| |] [|[| | |y| |] t]]; try discriminate.
    destruct x as [|c x']; [discriminate|]. exact H.
  - (* split *)
    destruct args as [|[| | |x| |] t]; try discriminate.
    + exact H.
    + destruct t; [exact H|discriminate].
    + destruct x as [|c x']; [discriminate|]. exact H.
  - (* trim *) exact H.
  - (* upper *) exact H.
  - (* lower *) exact H.
  - destruct args as [|[| | |x| |] t]; try discriminate. exact H.
  - destruct args as [|[| | |x| |] t]; try discriminate. exact H.
Qed.

(* the string receiver is immutable: the model never returns a changed receiver (the methods
   hold the Go string by value); stated for completeness of the frame clause *)
Lemma prefixb_refl : forall s, prefixb s s = true.
Proof. induction s as [|a s IH]; [reflexivity|]. cbn. rewrite Ascii.eqb_refl. exact IH. Qed.
Lemma index_of_empty : forall s, sindex EmptyString s = 0.
Proof. intro s; unfold sindex; destruct s; reflexivity. Qed.
