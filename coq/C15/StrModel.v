(* C15 — string methods (data/value_string*.go).  Strings are byte strings, as in the
   implementation (len, indexes and substring count bytes).
   Model: argument coercion + body, mirroring the code.  Spec: docs/strings.md read as the
   JavaScript String methods on byte strings with the documented differences (replace replaces
   every occurrence, split() without separator splits on white space).
   The Go library functions strings.Index / ReplaceAll / Split / Fields / TrimSpace / ToUpper /
   ToLower / HasPrefix / HasSuffix are given by the Coq definitions below.  White space = the six
   ASCII white-space bytes (strings containing other Unicode spaces are not generated); case mapping
   is modelled on ASCII strings only; an empty search/separator works per UTF-8 sequence.
   Byte semantics is the specified behaviour: /repo/tests/strings/length.php asserts
   "你好世界"->length() == 12 and tests/strings/substring.php asserts substring(0, 6) == "你好". *)
From V.C15 Require Import Model Spec Run.
Open Scope Z_scope.

(* ------------------------------------------------------------------ byte-string library *)
Fixpoint prefixb (p s : string) : bool :=
  match p, s with
  | EmptyString, _ => true
  | String a p', String b s' => Ascii.eqb a b && prefixb p' s'
  | _, EmptyString => false
  end.
Fixpoint sdrop (n : nat) (s : string) : string :=
  match n, s with O, _ => s | S n', String _ s' => sdrop n' s' | _, EmptyString => EmptyString end.
Fixpoint stake (n : nat) (s : string) : string :=
  match n, s with S n', String a s' => String a (stake n' s') | _, _ => EmptyString end.
Definition slen (s : string) : Z := Z.of_nat (String.length s).
(* strings.Index *)
Fixpoint index_from (sub s : string) (i : Z) : Z :=
  if prefixb sub s then i else
  match s with EmptyString => -1 | String _ s' => index_from sub s' (i + 1) end.
Definition sindex (sub s : string) : Z := index_from sub s 0.
Definition suffixb (p s : string) : bool :=
  Nat.leb (String.length p) (String.length s) && String.eqb (sdrop (String.length s - String.length p) s) p.
(* strings.ReplaceAll / Split for a non-empty pattern; fuel = length of the remaining input *)
Fixpoint replace_fuel (fuel : nat) (old new s : string) : string :=
  match fuel with
  | O => s
  | S f =>
      if prefixb old s then (new ++ replace_fuel f old new (sdrop (String.length old) s))%string
      else match s with EmptyString => EmptyString | String a s' => String a (replace_fuel f old new s') end
  end.
Fixpoint interleave (sep s : string) : string :=     (* ReplaceAll(s, "", sep) on ASCII *)
  match s with EmptyString => sep | String a s' => (sep ++ String a (interleave sep s'))%string end.
(* the UTF-8 sequences of a (valid) string: Go's strings.Split(s, "") and ReplaceAll(s, "", x)
   work per rune; the width of a sequence is read off its first byte *)
Definition lead_width (a : ascii) : nat :=
  let n := nat_of_ascii a in
  if Nat.ltb n 192 then 1 else if Nat.ltb n 224 then 2 else if Nat.ltb n 240 then 3 else 4.
Fixpoint utf8_chars_fuel (fuel : nat) (s : string) : list string :=
  match fuel, s with
  | S f, String a _ => stake (lead_width a) s :: utf8_chars_fuel f (sdrop (lead_width a) s)
  | _, _ => []
  end.
Definition utf8_chars (s : string) : list string := utf8_chars_fuel (String.length s) s.
Definition interleave_chars (sep : string) (cs : list string) : string :=
  fold_right (fun c acc => (sep ++ c ++ acc)%string) sep cs.
Definition replace_all (old new s : string) : string :=
  match old with
  | EmptyString => interleave_chars new (utf8_chars s)
  | _ => replace_fuel (S (String.length s)) old new s
  end.
Fixpoint split_fuel (fuel : nat) (sep cur s : string) : list string :=
  match fuel with
  | O => [cur]
  | S f =>
      match s with
      | EmptyString => [cur]
      | String a s' =>
          if prefixb sep s then cur :: split_fuel f sep EmptyString (sdrop (String.length sep) s)
          else split_fuel f sep (cur ++ String a EmptyString)%string s'
      end
  end.
Fixpoint chars (s : string) : list string :=
  match s with EmptyString => [] | String a s' => String a EmptyString :: chars s' end.
Definition split_by (sep s : string) : list string :=
  match sep with
  | EmptyString => utf8_chars s                  (* strings.Split(s, ""): one string per UTF-8 sequence *)
  | _ => split_fuel (S (String.length s)) sep EmptyString s
  end.
Definition is_space (a : ascii) : bool :=
  let n := nat_of_ascii a in (Nat.eqb n 32) || (Nat.leb 9 n && Nat.leb n 13).
Fixpoint fields_go (cur : string) (s : string) : list string :=
  match s with
  | EmptyString => match cur with EmptyString => [] | _ => [cur] end
  | String a s' =>
      if is_space a then match cur with EmptyString => fields_go EmptyString s' | _ => cur :: fields_go EmptyString s' end
      else fields_go (cur ++ String a EmptyString)%string s'
  end.
Definition fields (s : string) : list string := fields_go EmptyString s.
Fixpoint trim_left (s : string) : string :=
  match s with String a s' => if is_space a then trim_left s' else s | EmptyString => EmptyString end.
Fixpoint srev (s : string) : string :=
  match s with EmptyString => EmptyString | String a s' => (srev s' ++ String a EmptyString)%string end.
Definition trim_space (s : string) : string := srev (trim_left (srev (trim_left s))).
Definition upper_ascii (a : ascii) : ascii :=
  let n := nat_of_ascii a in if Nat.leb 97 n && Nat.leb n 122 then ascii_of_nat (n - 32) else a.
Definition lower_ascii (a : ascii) : ascii :=
  let n := nat_of_ascii a in if Nat.leb 65 n && Nat.leb n 90 then ascii_of_nat (n + 32) else a.
Fixpoint smap (f : ascii -> ascii) (s : string) : string :=
  match s with EmptyString => EmptyString | String a s' => String (f a) (smap f s') end.
Definition is_ascii_str (s : string) : bool :=
  (fix go s := match s with EmptyString => true | String a s' => Nat.ltb (nat_of_ascii a) 128 && go s' end) s.

(* case mapping of a valid UTF-8 string (Go: strings.ToUpper / ToLower = unicode.ToUpper / ToLower
   applied to every code point, Unicode SIMPLE case mapping).  ASCII bytes follow the ASCII rule;
   the image of every other UTF-8 sequence is a PARAMETER: the table `tbl` (sequence -> image),
   measured by the engine by calling unicode.ToUpper / ToLower on each code point of the receiver.
   A non-ASCII sequence missing from the table: None. *)
Fixpoint lookup_char (tbl : list (string * string)) (c : string) : option string :=
  match tbl with
  | [] => None
  | (k, v) :: r => if String.eqb k c then Some v else lookup_char r c
  end.
Definition map_char (f : ascii -> ascii) (tbl : list (string * string)) (c : string) : option string :=
  match c with
  | String a EmptyString =>
      if Nat.ltb (nat_of_ascii a) 128 then Some (String (f a) EmptyString) else lookup_char tbl c
  | _ => lookup_char tbl c
  end.
Fixpoint concat_opt (l : list (option string)) : option string :=
  match l with
  | [] => Some EmptyString
  | Some x :: r => match concat_opt r with Some y => Some (x ++ y)%string | None => None end
  | None :: _ => None
  end.
Definition case_map (f : ascii -> ascii) (tbl : list (string * string)) (s : string) : option string :=
  concat_opt (map (map_char f tbl) (utf8_chars s)).
(* the documented result, stated on the characters: r is a case mapping of s when both split into
   the same number of characters and each character of r is the image of the one of s *)
Fixpoint chars_mapped (f : ascii -> ascii) (tbl : list (string * string)) (cs ds : list string) : bool :=
  match cs, ds with
  | [], [] => true
  | c :: cs', d :: ds' =>
      match map_char f tbl c with Some x => String.eqb x d | None => false end && chars_mapped f tbl cs' ds'
  | _, _ => false
  end.

(* ------------------------------------------------------------------ the methods *)
Inductive smeth := SLength | SIndexOf | SSubstring | SReplace | SSplit | STrim | SUpper | SLower | SStartsWith | SEndsWith.

(* search/replace argument -> string (null becomes the text "null") *)
Definition search_str (e : elem) : string :=
  match e with ENull => "null"%string | _ => estr e end.
(* substring index coercion: ints; numeric strings are not modelled (None) *)
Definition sub_index (e : elem) (dflt : Z) : option Z :=
  match e with
  | EInt z => Some z
  | EBool b => Some (if b then 1 else 0)
  | ENull => Some dflt
  | _ => None
  end.
Definition m_substring (s : string) (slots : list elem) : option string :=
  let n := slen s in
  match sub_index (slot 0 slots) 0, sub_index (slot 1 slots) n with
  | Some start0, Some end0 =>
      let start1 := if start0 <? 0 then 0 else start0 in
      let start2 := if start1 >? n then n else start1 in
      let end1 := if end0 <? 0 then 0 else end0 in
      let end2 := if end1 >? n then n else end1 in
      let (a, b) := if start2 >? end2 then (end2, start2) else (start2, end2) in
      Some (stake (Z.to_nat (b - a)) (sdrop (Z.to_nat a) s))
  | _, _ => None
  end.

(* result of a call (None = outside the modelled argument shapes / non-ASCII corner) *)
Definition scall (m : smeth) (s : string) (args : list elem) : option elem :=
  let slots := (args ++ [ENull; ENull])%list in
  match m with
  | SLength => Some (EInt (slen s))
  | SIndexOf => Some (EInt (sindex (search_str (slot 0 slots)) s))
  | SSubstring => match m_substring s slots with Some r => Some (EStr r) | None => None end
  | SReplace =>
      let old := search_str (slot 0 slots) in
      Some (EStr (replace_all old (search_str (slot 1 slots)) s))
  | SSplit =>
      match slot 0 slots with
      | ENull => Some (EArr (map EStr (fields s)))
      | e => Some (EArr (map EStr (split_by (estr e) s)))
      end
  | STrim => Some (EStr (trim_space s))
  | SUpper => if is_ascii_str s then Some (EStr (smap upper_ascii s)) else None
  | SLower => if is_ascii_str s then Some (EStr (smap lower_ascii s)) else None
  | SStartsWith => Some (EBool (prefixb (search_str (slot 0 slots)) s))
  | SEndsWith => Some (EBool (suffixb (search_str (slot 0 slots)) s))
  end.

(* ------------------------------------------------------------------ spec: the documented results *)
(* substring(start, end?) on bytes: clamp both into [0, len], swap if start > end *)
Definition clamp (i n : Z) : Z := Z.max 0 (Z.min i n).
Definition js_substring (s : string) (start : Z) (end_ : option Z) : string :=
  let n := slen s in
  let a := clamp start n in
  let b := clamp (match end_ with Some e => e | None => n end) n in
  stake (Z.to_nat (Z.max a b - Z.min a b)) (sdrop (Z.to_nat (Z.min a b)) s).

Definition sspec (m : smeth) (s : string) (args : list elem) : option elem :=
  match m, args with
  | SLength, _ => Some (EInt (slen s))
  | SIndexOf, EStr x :: _ => Some (EInt (sindex x s))
  | SSubstring, [EInt a] => Some (EStr (js_substring s a None))
  | SSubstring, [EInt a; ENull] => Some (EStr (js_substring s a None))
  | SSubstring, [EInt a; EInt b] => Some (EStr (js_substring s a (Some b)))
  | SReplace, EStr x :: EStr y :: _ =>
      match x with
      | EmptyString => None
      | _ => Some (EStr (replace_all x y s))
      end
  | SSplit, EStr x :: _ => match x with EmptyString => None | _ => Some (EArr (map EStr (split_by x s))) end
  | SSplit, [] | SSplit, [ENull] => Some (EArr (map EStr (fields s)))
  | STrim, _ => Some (EStr (trim_space s))
  | SUpper, _ => if is_ascii_str s then Some (EStr (smap upper_ascii s)) else None
  | SLower, _ => if is_ascii_str s then Some (EStr (smap lower_ascii s)) else None
  | SStartsWith, EStr x :: _ => Some (EBool (prefixb x s))
  | SEndsWith, EStr x :: _ => Some (EBool (suffixb x s))
  | _, _ => None
  end.

(* ------------------------------------------------------------------ correspondence *)
Inductive sobs := SOVal (res : elem) (after : string) | SOThrow | SOPanic | SOOther.
Inductive anycase :=
| CA (c : case)
| CS (m : smeth) (s : string) (args : list elem) (o : sobs)
(* toUpperCase (up = true) / toLowerCase on any valid UTF-8 receiver; tbl = measured images *)
| CSU (up : bool) (tbl : list (string * string)) (s : string) (o : sobs)
(* a call observed together with an ALIAS of the receiver (a copy made before the call): the copy
   must still hold the receiver's contents from before the call *)
| CAl (c : case) (recv alias : list elem).
Definition sagree (r : elem) (s : string) (o : sobs) : bool :=
  match o with SOVal r' s' => elem_eqb r r' && String.eqb s s' | _ => false end.
(* informational codes (not failures): 9 = the property oracle (spec) says nothing about this call
   (outside the documented argument shapes), 8 = neither does the model (string cases only) *)
Definition spec_silent (c : case) : list nat :=
  match c with
  | CCall MSort _ _ _ => []
  | CCall m recv args _ => match spec_call m recv args with None => [9%nat] | Some _ => [] end
  | CMix MSort _ _ _ => []
  | CMix m recv items _ => match spec_call m recv (flatten_args items) with None => [9%nat] | Some _ => [] end
  | CNamed m pn recv pos named _ =>
      match bind_named pn pos named with
      | Some args => match m with MSort => [] | _ => match spec_call m recv args with None => [9%nat] | Some _ => [] end end
      | None => []
      end
  | _ => []
  end.
Definition check_any (c : anycase) : list nat :=
  match c with
  | CA c' => (check_case c' ++ spec_silent c')%list
  | CAl c' recv alias => (check_case c' ++ (if list_eqb recv alias then [] else [5%nat]) ++ spec_silent c')%list
  | CSU up tbl s o =>
      let f := if up then upper_ascii else lower_ascii in
      (match case_map f tbl s with
       | Some r => if sagree (EStr r) s o then [] else [1%nat]
       | None => [1%nat]
       end) ++
      (match o with
       | SOVal (EStr r) _ =>
           if chars_mapped f tbl (utf8_chars s) (utf8_chars r) && Nat.eqb (String.length (String.concat "" (utf8_chars r))) (String.length r)
           then [] else [2%nat]
       | _ => [2%nat]
       end) ++
      (match o with SOVal _ s' => if String.eqb s s' then [] else [3%nat] | SOPanic => [4%nat] | _ => [] end)
  | CS m s args o =>
      (match scall m s args with Some r => if sagree r s o then [] else [1%nat] | None => [8%nat] end) ++
      (match sspec m s args with Some r => if sagree r s o then [] else [2%nat] | None => [9%nat] end) ++
      (match o with SOVal _ s' => if String.eqb s s' then [] else [3%nat] | SOPanic => [4%nat] | _ => [] end)
  end.
