(* C14 (3) — PHP serialize()/unserialize() text format: executable model of
   /repo/std/php/serialize.go (phpSerializeValue) and /repo/std/php/unserialize.go
   (UnserializeFunction.Call, parsePhpSerializedValue, parsePhpValue, parsePhpArray), on the value
   kinds null / bool / int / float / string / ArrayValue (list) / ObjectValue (string-keyed map).
   No proofs in this file. *)
From Coq Require Import List NArith ZArith Bool.
Import ListNotations.
Open Scope N_scope.

Definition bytes := list N.

(* data.Value, projected: ints are Go int (64-bit), floats are carried by their bit pattern, an
   ArrayValue is its value list (ToValueList: element names are ignored by serialize), an
   ObjectValue is its ordered property list *)
Inductive value :=
| VNull | VBool (b : bool) | VInt (z : Z) | VFloat (bits : N) | VStr (s : bytes)
| VList (l : list value)
| VMap (l : list (bytes * value)).

(* ------------------------------------------------------------------ decimal text *)
(* strconv.Itoa / fmt %d *)
Fixpoint dec_rev (fuel : nat) (n : N) : bytes :=          (* least significant digit first *)
  match fuel with
  | O => []
  | S f => (48 + n mod 10) :: (if n <? 10 then [] else dec_rev f (n / 10))
  end.
Definition dec_N (n : N) : bytes := rev (dec_rev (S (N.to_nat (N.size n))) n).
Definition dec_Z (z : Z) : bytes :=
  if (z <? 0)%Z then 45 :: dec_N (Z.abs_N z) else dec_N (Z.to_N z).

Definition is_digit (c : N) : bool := (48 <=? c) && (c <=? 57).
(* the scanning loop `for j < len(s) && s[j] >= '0' && s[j] <= '9' { j++ }` *)
Fixpoint span_digits (s : bytes) : bytes * bytes :=
  match s with
  | c :: r => if is_digit c then let (a, b) := span_digits r in (c :: a, b) else ([], s)
  | [] => ([], [])
  end.
Definition val_digits (ds : bytes) : N := fold_left (fun acc d => acc * 10 + (d - 48)) ds 0.

Definition max_int : N := 9223372036854775807.

(* ------------------------------------------------------------------ serialize.go *)
Definition str_lit (s : bytes) : bytes :=       (* makeSerializedString: s:<byte length>:"<bytes>"; *)
  [115; 58] ++ dec_N (N.of_nat (length s)) ++ [58; 34] ++ s ++ [34; 59].

Definition opt_concat (l : list (option bytes)) : option bytes :=
  fold_right (fun x acc => match x, acc with Some a, Some b => Some (a ++ b) | _, _ => None end)
             (Some []) l.

(* phpSerializeValue: (text, ok) *)
Fixpoint ser (v : value) : option bytes :=
  match v with
  | VNull => Some [78; 59]
  | VBool true => Some [98; 58; 49; 59]
  | VBool false => Some [98; 58; 48; 59]
  | VInt z => Some ([105; 58] ++ dec_Z z ++ [59])
  | VStr s => Some (str_lit s)
  | VFloat _ => None                                    (* default: return "", false *)
  | VList l =>
      let items := (fix go (i : N) (l : list value) : list (option bytes) :=
                      match l with
                      | [] => []
                      | x :: r => match ser x with
                                  | Some t => Some ([105; 58] ++ dec_N i ++ [59] ++ t)
                                  | None => None end :: go (i + 1) r
                      end) 0 l in
      match opt_concat items with
      | Some body => Some ([97; 58] ++ dec_N (N.of_nat (length l)) ++ [58; 123] ++ body ++ [125])
      | None => None end
  | VMap l =>
      let items := (fix go (l : list (bytes * value)) : list (option bytes) :=
                      match l with
                      | [] => []
                      | (k, x) :: r => match ser x with
                                       | Some t => Some (str_lit k ++ t)
                                       | None => None end :: go r
                      end) l in
      match opt_concat items with
      | Some body => Some ([97; 58] ++ dec_N (N.of_nat (length l)) ++ [58; 123] ++ body ++ [125])
      | None => None end
  end.

(* serialize(): string, or false when some part is not supported *)
Definition serialize (v : value) : option bytes := ser v.

(* ------------------------------------------------------------------ unserialize.go *)
Inductive pres (A : Type) := POk (a : A) | PFail | POutOfFuel | PUnmodelled.
Arguments POk {A} a. Arguments PFail {A}. Arguments POutOfFuel {A}. Arguments PUnmodelled {A}.

(* ObjectValue.SetProperty on an ordered map: an existing key keeps its position *)
Fixpoint bytes_eqb (a b : bytes) : bool :=
  match a, b with
  | [], [] => true
  | x :: a', y :: b' => (x =? y) && bytes_eqb a' b'
  | _, _ => false
  end.
Fixpoint map_set (m : list (bytes * value)) (k : bytes) (v : value) : list (bytes * value) :=
  match m with
  | [] => [(k, v)]
  | (k', v') :: r => if bytes_eqb k k' then (k, v) :: r else (k', v') :: map_set r k v
  end.

(* key -> property name: string as is, int through strconv.Itoa, otherwise Value.AsString()
   (null "", bool "true"/"false"; arrays as keys are outside the model) *)
Definition key_name (k : value) : option bytes :=
  match k with
  | VStr s => Some s
  | VInt z => Some (dec_Z z)
  | VNull => Some []
  | VBool true => Some [116; 114; 117; 101]
  | VBool false => Some [102; 97; 108; 115; 101]
  | _ => None
  end.

(* `isSequential`: every key is the IntValue equal to its position *)
Fixpoint sequential (i : Z) (kvs : list (value * value)) : bool :=
  match kvs with
  | [] => true
  | (VInt z, _) :: r => (z =? i)%Z && sequential (i + 1) r
  | _ => false
  end.

Fixpoint build_map (kvs : list (value * value)) (acc : list (bytes * value))
  : option (list (bytes * value)) :=
  match kvs with
  | [] => Some acc
  | (k, v) :: r => match key_name k with
                   | Some nm => build_map r (map_set acc nm v)
                   | None => None end
  end.

Definition int_of_text (neg : bool) (ds : bytes) : option Z :=   (* strconv.ParseInt(sign+digits, 10, 64) *)
  let m := val_digits ds in
  if neg then (if m <=? max_int + 1 then Some (- Z.of_N m)%Z else None)
  else (if m <=? max_int then Some (Z.of_N m) else None).

(* `s[i] == c` on the not-yet-consumed suffix *)
Definition expect (c : N) (s : bytes) : option bytes :=
  match s with x :: r => if x =? c then Some r else None | [] => None end.

(* the optional sign of i: *)
Definition take_sign (s : bytes) : bool * bytes :=
  match s with
  | x :: t => if x =? 45 then (true, t) else if x =? 43 then (false, t) else (false, s)
  | [] => (false, s)
  end.

(* parsePhpValue / parsePhpArray over the not-yet-consumed suffix (the code's s[*idx:]).
   [parse_pairs] is the `for i := 0; i < n; i++` loop.  Characters: N 78, b 98, i 105, s 115,
   a 97, colon 58, semicolon 59, double quote 34, { 123, } 125, digits 48... *)
Fixpoint parse_value (fuel : nat) (s : bytes) {struct fuel} : pres (value * bytes) :=
  match fuel with O => POutOfFuel | S f =>
  match s with
  | [] => PFail
  | c :: r =>
    if c =? 78 then                                               (* N; *)
      match expect 59 r with Some r' => POk (VNull, r') | None => PFail end
    else if c =? 98 then                                          (* b:0; b:1; *)
      match expect 58 r with
      | Some (x :: r2) =>
        match expect 59 r2 with
        | Some r' => if x =? 48 then POk (VBool false, r')
                     else if x =? 49 then POk (VBool true, r') else PFail
        | None => PFail end
      | _ => PFail end
    else if c =? 105 then                                         (* i:[+-]digits; *)
      match expect 58 r with
      | Some r1 =>
        let (neg, r2) := take_sign r1 in
        let (ds, r3) := span_digits r2 in
        match ds, expect 59 r3 with
        | _ :: _, Some r4 => match int_of_text neg ds with
                             | Some z => POk (VInt z, r4)
                             | None => PFail end
        | _, _ => PFail end
      | None => PFail end
    else if c =? 115 then                                         (* s:len:"bytes"; *)
      match expect 58 r with
      | Some r1 =>
        let (ds, r2) := span_digits r1 in
        match ds, expect 58 r2 with
        | _ :: _, Some r2' =>
          match expect 34 r2' with
          | Some r3 =>
            let n := val_digits ds in
            if max_int <? n then PFail                                  (* Atoi error *)
            else if N.of_nat (length r3) <? n + 2 then PFail             (* n > len(s)-j-2 *)
            else match expect 34 (skipn (N.to_nat n) r3) with
                 | Some r3' => match expect 59 r3' with
                               | Some r4 => POk (VStr (firstn (N.to_nat n) r3), r4)
                               | None => PFail end
                 | None => PFail end
          | None => PFail end
        | _, _ => PFail end
      | None => PFail end
    else if c =? 97 then                                          (* parsePhpArray: a:n:{...} *)
      match expect 58 r with
      | Some r1 =>
        let (ds, r2) := span_digits r1 in
        match ds, expect 58 r2 with
        | _ :: _, Some r2' =>
          match expect 123 r2' with
          | Some r3 =>
            let n := val_digits ds in
            if max_int <? n then PFail
            else if N.of_nat (length r3) / 4 <? n then PFail             (* n > (len(s)-j)/4 *)
            else match parse_pairs f n r3 with
                 | POk (kvs, r4) =>
                   match expect 125 r4 with
                   | Some r5 =>
                     if sequential 0 kvs then POk (VList (map snd kvs), r5)
                     else match build_map kvs [] with
                          | Some m => POk (VMap m, r5)
                          | None => PUnmodelled end
                   | None => PFail end
                 | PFail => PFail
                 | POutOfFuel => POutOfFuel
                 | PUnmodelled => PUnmodelled end
          | None => PFail end
        | _, _ => PFail end
      | None => PFail end
    else PFail
  end end
with parse_pairs (fuel : nat) (n : N) (s : bytes) {struct fuel} : pres (list (value * value) * bytes) :=
  match fuel with O => POutOfFuel | S f =>
  if n =? 0 then POk ([], s)
  else match parse_value f s with
       | POk (k, s1) =>
         match parse_value f s1 with
         | POk (v, s2) =>
           match parse_pairs f (n - 1) s2 with
           | POk (kvs, s3) => POk ((k, v) :: kvs, s3)
           | PFail => PFail | POutOfFuel => POutOfFuel | PUnmodelled => PUnmodelled end
         | PFail => PFail | POutOfFuel => POutOfFuel | PUnmodelled => PUnmodelled end
       | PFail => PFail | POutOfFuel => POutOfFuel | PUnmodelled => PUnmodelled end
  end.

Definition fuel_for (s : bytes) : nat := 2 * length s + 2.

(* parsePhpSerializedValue: the whole string must be consumed *)
Definition parse_strict (s : bytes) : pres value :=
  match parse_value (fuel_for s) s with
  | POk (v, []) => POk v
  | POk _ => PFail
  | PFail => PFail | POutOfFuel => POutOfFuel | PUnmodelled => PUnmodelled
  end.

(* strings.TrimSpace: ASCII \t \n \v \f \r and space, and the Unicode White_Space code points
   written in UTF-8: U+0085, U+00A0, U+1680, U+2000..U+200A, U+2028, U+2029, U+202F, U+205F, U+3000 *)
Definition ascii_space (c : N) : bool := ((9 <=? c) && (c <=? 13)) || (c =? 32).
Definition sp_e280 (c : N) : bool :=       (* third byte of U+2000..200A, 2028, 2029, 202F *)
  ((128 <=? c) && (c <=? 138)) || (c =? 168) || (c =? 169) || (c =? 175).
Definition strip_space_prefix (s : bytes) : option bytes :=
  match s with
  | [] => None
  | c :: r =>
    if ascii_space c then Some r
    else if c =? 194 then
      match r with c1 :: r' => if (c1 =? 133) || (c1 =? 160) then Some r' else None | _ => None end
    else if c =? 225 then
      match r with c1 :: c2 :: r' => if (c1 =? 154) && (c2 =? 128) then Some r' else None | _ => None end
    else if c =? 226 then
      match r with
      | c1 :: c2 :: r' => if (c1 =? 128) && sp_e280 c2 then Some r'
                          else if (c1 =? 129) && (c2 =? 159) then Some r' else None
      | _ => None end
    else if c =? 227 then
      match r with c1 :: c2 :: r' => if (c1 =? 128) && (c2 =? 128) then Some r' else None | _ => None end
    else None
  end.
Fixpoint trim_left (fuel : nat) (s : bytes) : bytes :=
  match fuel with O => s | S f =>
  match strip_space_prefix s with Some r => trim_left f r | None => s end end.
(* the same set read backwards (utf8.DecodeLastRune) on the reversed string *)
Definition strip_space_suffix_rev (s : bytes) : option bytes :=
  match s with
  | [] => None
  | c :: r =>                                  (* c = last byte of the string *)
    if ascii_space c then Some r
    else match r with
         | p1 :: r1 =>
           if ((c =? 133) || (c =? 160)) && (p1 =? 194) then Some r1
           else match r1 with
                | p2 :: r2 =>
                  if (c =? 128) && (p1 =? 154) && (p2 =? 225) then Some r2
                  else if sp_e280 c && (p1 =? 128) && (p2 =? 226) then Some r2
                  else if (c =? 159) && (p1 =? 129) && (p2 =? 226) then Some r2
                  else if (c =? 128) && (p1 =? 128) && (p2 =? 227) then Some r2
                  else None
                | [] => None end
         | [] => None end
  end.
Fixpoint trim_right_rev (fuel : nat) (s : bytes) : bytes :=
  match fuel with O => s | S f =>
  match strip_space_suffix_rev s with Some r => trim_right_rev f r | None => s end end.
Definition trim_space (s : bytes) : bytes :=
  let l := trim_left (length s) s in rev (trim_right_rev (length l) (rev l)).

Fixpoint index_byte (c : N) (s : bytes) : option nat :=
  match s with [] => None | x :: r => if x =? c then Some O else option_map S (index_byte c r) end.
Definition has_prefix (p s : bytes) : bool := bytes_eqb p (firstn (length p) s).

Definition origami_a : bytes := [95;95;111;114;105;103;97;109;105;95;97;58].   (* "__origami_a:" *)
Definition origami_o : bytes := [95;95;111;114;105;103;97;109;105;95;111;58].  (* "__origami_o:" *)

(* UnserializeFunction.Call: value, or false (PFail) *)
Definition unserialize (raw0 : bytes) : pres value :=
  let raw := trim_space raw0 in
  match raw with
  | [] => PFail
  | _ =>
    let strict :=
      if has_prefix [78; 59] raw || has_prefix [98; 58] raw || has_prefix [105; 58] raw
         || has_prefix [115; 58] raw || has_prefix [97; 58] raw
      then parse_strict raw else PFail in
    match strict with
    | POk v => POk v
    | POutOfFuel => POutOfFuel
    | PUnmodelled => PUnmodelled
    | PFail =>
      if has_prefix [115; 58] raw then
        (* legacy "__origami_*" wrapper path: content between the first and the last quote *)
        match index_byte 34 raw with
        | None => PFail
        | Some fq =>
          match index_byte 34 (rev raw) with
          | None => PFail
          | Some lq_rev =>
            let lq := (length raw - 1 - lq_rev)%nat in
            if Nat.leb lq fq then PFail
            else let content := firstn (lq - fq - 1) (skipn (fq + 1) raw) in
                 if has_prefix origami_a content || has_prefix origami_o content then PUnmodelled
                 else PFail
          end
        end
      else PFail
    end
  end.
