(* C14 (3) — PHP serialize()/unserialize() text format: executable model of
   /repo/std/php/serialize.go (phpSerializeValue) and /repo/std/php/unserialize.go
   (UnserializeFunction.Call, parsePhpSerializedValue, parsePhpValue, parsePhpArray), on the value
   kinds null / bool / int / float / string / ArrayValue (list) / ObjectValue (string-keyed map).
   No proofs in this file. *)
From Coq Require Import List NArith ZArith Bool.
Import ListNotations.
Open Scope N_scope.

Definition bytes := list N.

Fixpoint bytes_eqb (a b : bytes) : bool :=
  match a, b with
  | [], [] => true
  | x :: a', y :: b' => (x =? y) && bytes_eqb a' b'
  | _, _ => false
  end.

(* data.Value, projected: ints are Go int (64-bit), a float is carried by its text (the shortest
   decimal text strconv prints for it, or INF / -INF / NAN; strconv's float <-> text is assumed), an
   ArrayValue is its value list (ToValueList: element names are ignored by serialize), an
   ObjectValue is its ordered property list *)
Inductive value :=
| VNull | VBool (b : bool) | VInt (z : Z) | VFloat (txt : bytes) | VStr (s : bytes)
| VList (l : list value)
| VMap (l : list (bytes * value))
| VArr (l : list (bytes * value)).   (* ArrayValue whose slots may carry a name (ZVal.Name); [] = no name *)

(* ------------------------------------------------------------------ decimal text *)
(* strconv.Itoa / fmt %d *)
Fixpoint dec_rev (fuel : nat) (n : N) : bytes :=          (* least significant digit first *)
  match fuel with
  | O => []
  | S f => (48 + n mod 10) :: (if n <? 10 then [] else dec_rev f (n / 10))
  end.
Definition dec_N (n : N) : bytes := rev (dec_rev (S (N.to_nat (N.size n))) n).
Definition dec_Z (z : Z) : bytes :=
  if (z <? 0)%Z then 45 :: dec_N (Z.abs_N z) else dec_N (Z.to_N z).

Definition is_digit (c : N) : bool := (48 <=? c) && (c <=? 57).
(* the scanning loop `for j < len(s) && s[j] >= '0' && s[j] <= '9' { j++ }` *)
Fixpoint span_digits (s : bytes) : bytes * bytes :=
  match s with
  | c :: r => if is_digit c then let (a, b) := span_digits r in (c :: a, b) else ([], s)
  | [] => ([], [])
  end.
Definition val_digits (ds : bytes) : N := fold_left (fun acc d => acc * 10 + (d - 48)) ds 0.

Definition max_int : N := 9223372036854775807.

(* ------------------------------------------------------------------ serialize.go *)
(* data.ParseIntArrayKeyName: strconv.Atoi succeeds and strconv.Itoa gives the name back *)
Definition take_sign0 (s : bytes) : bool * bytes :=
  match s with
  | x :: t => if x =? 45 then (true, t) else if x =? 43 then (false, t) else (false, s)
  | [] => (false, s)
  end.
Definition atoi (name : bytes) : option Z :=
  let (neg, r) := take_sign0 name in
  let (ds, rest) := span_digits r in
  match ds, rest with
  | _ :: _, [] => let m := val_digits ds in
                  if neg then (if m <=? max_int + 1 then Some (- Z.of_N m)%Z else None)
                  else (if m <=? max_int then Some (Z.of_N m) else None)
  | _, _ => None
  end.
Definition int_name (name : bytes) : option Z :=
  match atoi name with
  | Some z => if bytes_eqb (dec_Z z) name then Some z else None
  | None => None
  end.
(* the key serialize() writes for slot number idx *)
Definition slot_key (idx : N) (name : bytes) : value :=
  match int_name name with
  | Some z => VInt z
  | None => match name with [] => VInt (Z.of_N idx) | _ => VStr name end
  end.

Definition str_lit (s : bytes) : bytes :=       (* makeSerializedString: s:<byte length>:"<bytes>"; *)
  [115; 58] ++ dec_N (N.of_nat (length s)) ++ [58; 34] ++ s ++ [34; 59].

Definition opt_concat (l : list (option bytes)) : option bytes :=
  fold_right (fun x acc => match x, acc with Some a, Some b => Some (a ++ b) | _, _ => None end)
             (Some []) l.

(* the text of a slot key: i:<n>; or s:<len>:"<name>"; *)
Definition key_text (k : value) : bytes :=
  match k with
  | VInt z => [105; 58] ++ dec_Z z ++ [59]
  | VStr s => str_lit s
  | _ => []
  end.

(* phpSerializeValue: (text, ok) *)
Fixpoint ser (v : value) : option bytes :=
  match v with
  | VNull => Some [78; 59]
  | VBool true => Some [98; 58; 49; 59]
  | VBool false => Some [98; 58; 48; 59]
  | VInt z => Some ([105; 58] ++ dec_Z z ++ [59])
  | VStr s => Some (str_lit s)
  | VFloat t => Some ([100; 58] ++ t ++ [59])           (* "d:" + phpFloatText(f) + ";" *)
  | VList l =>
      let items := (fix go (i : N) (l : list value) : list (option bytes) :=
                      match l with
                      | [] => []
                      | x :: r => match ser x with
                                  | Some t => Some ([105; 58] ++ dec_N i ++ [59] ++ t)
                                  | None => None end :: go (i + 1) r
                      end) 0 l in
      match opt_concat items with
      | Some body => Some ([97; 58] ++ dec_N (N.of_nat (length l)) ++ [58; 123] ++ body ++ [125])
      | None => None end
  | VMap l =>
      let items := (fix go (l : list (bytes * value)) : list (option bytes) :=
                      match l with
                      | [] => []
                      | (k, x) :: r => match ser x with
                                       | Some t => Some (str_lit k ++ t)
                                       | None => None end :: go r
                      end) l in
      match opt_concat items with
      | Some body => Some ([97; 58] ++ dec_N (N.of_nat (length l)) ++ [58; 123] ++ body ++ [125])
      | None => None end
  | VArr l =>
      (* the ArrayValue case with slot names: a named slot writes its own key, an unnamed one its position *)
      let items := (fix go (i : N) (l : list (bytes * value)) : list (option bytes) :=
                      match l with
                      | [] => []
                      | (nm, x) :: r => match ser x with
                                        | Some t => Some (key_text (slot_key i nm) ++ t)
                                        | None => None end :: go (i + 1) r
                      end) 0 l in
      match opt_concat items with
      | Some body => Some ([97; 58] ++ dec_N (N.of_nat (length l)) ++ [58; 123] ++ body ++ [125])
      | None => None end
  end.

(* serialize(): string, or false when some part is not supported *)
Definition serialize (v : value) : option bytes := ser v.

(* ------------------------------------------------------------------ unserialize.go *)
Inductive pres (A : Type) := POk (a : A) | PFail | POutOfFuel | PUnmodelled.
Arguments POk {A} a. Arguments PFail {A}. Arguments POutOfFuel {A}. Arguments PUnmodelled {A}.

(* ObjectValue.SetProperty on an ordered map: an existing key keeps its position *)
Fixpoint map_set (m : list (bytes * value)) (k : bytes) (v : value) : list (bytes * value) :=
  match m with
  | [] => [(k, v)]
  | (k', v') :: r => if bytes_eqb k k' then (k, v) :: r else (k', v') :: map_set r k v
  end.

(* key -> property name: string as is, int through strconv.Itoa, otherwise Value.AsString()
   (null "", bool "true"/"false"; arrays as keys are outside the model) *)
Definition key_name (k : value) : option bytes :=
  match k with
  | VStr s => Some s
  | VInt z => Some (dec_Z z)
  | VNull => Some []
  | VBool true => Some [116; 114; 117; 101]
  | VBool false => Some [102; 97; 108; 115; 101]
  | _ => None
  end.

(* `isSequential`: every key is the IntValue equal to its position *)
Fixpoint sequential (i : Z) (kvs : list (value * value)) : bool :=
  match kvs with
  | [] => true
  | (VInt z, _) :: r => (z =? i)%Z && sequential (i + 1) r
  | _ => false
  end.

Fixpoint build_map (kvs : list (value * value)) (acc : list (bytes * value))
  : option (list (bytes * value)) :=
  match kvs with
  | [] => Some acc
  | (k, v) :: r => match key_name k with
                   | Some nm => build_map r (map_set acc nm v)
                   | None => None end
  end.

Definition int_of_text (neg : bool) (ds : bytes) : option Z :=   (* strconv.ParseInt(sign+digits, 10, 64) *)
  let m := val_digits ds in
  if neg then (if m <=? max_int + 1 then Some (- Z.of_N m)%Z else None)
  else (if m <=? max_int then Some (Z.of_N m) else None).

(* strings.IndexByte(s, ';'): the text before the first ';' and what follows it *)
Fixpoint split_semi (s : bytes) : option (bytes * bytes) :=
  match s with
  | [] => None
  | c :: r => if c =? 59 then Some ([], r)
              else match split_semi r with Some (a, b) => Some (c :: a, b) | None => None end
  end.

(* isFloatText: [+-]? ( digits [ "." digits* ] | "." digits ) ( [eE] [+-]? digits )? *)
Definition skip_sign (s : bytes) : bytes :=
  match s with c :: t => if (c =? 43) || (c =? 45) then t else s | [] => s end.
Definition is_nil {A} (l : list A) : bool := match l with [] => true | _ => false end.
Definition exp_ok (r : bytes) : bool :=
  match r with
  | [] => true
  | c :: r' => if (c =? 101) || (c =? 69)
               then let (d3, r5) := span_digits (skip_sign r') in negb (is_nil d3) && is_nil r5
               else false
  end.
Definition is_float_text (s : bytes) : bool :=
  let (d1, r1) := span_digits (skip_sign s) in
  match r1 with
  | c :: r2 => if c =? 46 then let (d2, r3) := span_digits r2 in
                               negb (is_nil d1 && is_nil d2) && exp_ok r3
               else negb (is_nil d1) && exp_ok r1
  | [] => negb (is_nil d1)
  end.
Definition float_text_ok (t : bytes) : bool :=
  bytes_eqb t [73; 78; 70] || bytes_eqb t [45; 73; 78; 70] || bytes_eqb t [78; 65; 78] || is_float_text t.

(* `s[i] == c` on the not-yet-consumed suffix *)
Definition expect (c : N) (s : bytes) : option bytes :=
  match s with x :: r => if x =? c then Some r else None | [] => None end.

(* the optional sign of i: *)
Definition take_sign (s : bytes) : bool * bytes :=
  match s with
  | x :: t => if x =? 45 then (true, t) else if x =? 43 then (false, t) else (false, s)
  | [] => (false, s)
  end.

(* parsePhpValue / parsePhpArray over the not-yet-consumed suffix (the code's s[*idx:]).
   [parse_pairs] is the `for i := 0; i < n; i++` loop.  Characters: N 78, b 98, i 105, d 100, s 115,
   a 97, colon 58, semicolon 59, double quote 34, { 123, } 125, digits 48... *)
Fixpoint parse_value (fuel : nat) (s : bytes) {struct fuel} : pres (value * bytes) :=
  match fuel with O => POutOfFuel | S f =>
  match s with
  | [] => PFail
  | c :: r =>
    if c =? 78 then                                               (* N; *)
      match expect 59 r with Some r' => POk (VNull, r') | None => PFail end
    else if c =? 98 then                                          (* b:0; b:1; *)
      match expect 58 r with
      | Some (x :: r2) =>
        match expect 59 r2 with
        | Some r' => if x =? 48 then POk (VBool false, r')
                     else if x =? 49 then POk (VBool true, r') else PFail
        | None => PFail end
      | _ => PFail end
    else if c =? 105 then                                         (* i:[+-]digits; *)
      match expect 58 r with
      | Some r1 =>
        let (neg, r2) := take_sign r1 in
        let (ds, r3) := span_digits r2 in
        match ds, expect 59 r3 with
        | _ :: _, Some r4 => match int_of_text neg ds with
                             | Some z => POk (VInt z, r4)
                             | None => PFail end
        | _, _ => PFail end
      | None => PFail end
    else if c =? 100 then                                         (* d:text; *)
      match expect 58 r with
      | Some r1 => match split_semi r1 with
                   | Some (txt, r2) => if float_text_ok txt then POk (VFloat txt, r2) else PFail
                   | None => PFail end
      | None => PFail end
    else if c =? 115 then                                         (* s:len:"bytes"; *)
      match expect 58 r with
      | Some r1 =>
        let (ds, r2) := span_digits r1 in
        match ds, expect 58 r2 with
        | _ :: _, Some r2' =>
          match expect 34 r2' with
          | Some r3 =>
            let n := val_digits ds in
            if max_int <? n then PFail                                  (* Atoi error *)
            else if N.of_nat (length r3) <? n + 2 then PFail             (* n > len(s)-j-2 *)
            else match expect 34 (skipn (N.to_nat n) r3) with
                 | Some r3' => match expect 59 r3' with
                               | Some r4 => POk (VStr (firstn (N.to_nat n) r3), r4)
                               | None => PFail end
                 | None => PFail end
          | None => PFail end
        | _, _ => PFail end
      | None => PFail end
    else if c =? 97 then                                          (* parsePhpArray: a:n:{...} *)
      match expect 58 r with
      | Some r1 =>
        let (ds, r2) := span_digits r1 in
        match ds, expect 58 r2 with
        | _ :: _, Some r2' =>
          match expect 123 r2' with
          | Some r3 =>
            let n := val_digits ds in
            if max_int <? n then PFail
            else if N.of_nat (length r3) / 4 <? n then PFail             (* n > (len(s)-j)/4 *)
            else match parse_pairs f n r3 with
                 | POk (kvs, r4) =>
                   match expect 125 r4 with
                   | Some r5 =>
                     if sequential 0 kvs then POk (VList (map snd kvs), r5)
                     else match build_map kvs [] with
                          | Some m => POk (VMap m, r5)
                          | None => PUnmodelled end
                   | None => PFail end
                 | PFail => PFail
                 | POutOfFuel => POutOfFuel
                 | PUnmodelled => PUnmodelled end
          | None => PFail end
        | _, _ => PFail end
      | None => PFail end
    else PFail
  end end
with parse_pairs (fuel : nat) (n : N) (s : bytes) {struct fuel} : pres (list (value * value) * bytes) :=
  match fuel with O => POutOfFuel | S f =>
  if n =? 0 then POk ([], s)
  else match parse_value f s with
       | POk (k, s1) =>
         match parse_value f s1 with
         | POk (v, s2) =>
           match parse_pairs f (n - 1) s2 with
           | POk (kvs, s3) => POk ((k, v) :: kvs, s3)
           | PFail => PFail | POutOfFuel => POutOfFuel | PUnmodelled => PUnmodelled end
         | PFail => PFail | POutOfFuel => POutOfFuel | PUnmodelled => PUnmodelled end
       | PFail => PFail | POutOfFuel => POutOfFuel | PUnmodelled => PUnmodelled end
  end.

Definition fuel_for (s : bytes) : nat := 2 * length s + 2.

(* parsePhpSerializedValue: the whole string must be consumed *)
Definition parse_strict (s : bytes) : pres value :=
  match parse_value (fuel_for s) s with
  | POk (v, []) => POk v
  | POk _ => PFail
  | PFail => PFail | POutOfFuel => POutOfFuel | PUnmodelled => PUnmodelled
  end.

Fixpoint index_byte (c : N) (s : bytes) : option nat :=
  match s with [] => None | x :: r => if x =? c then Some O else option_map S (index_byte c r) end.
Definition has_prefix (p s : bytes) : bool := bytes_eqb p (firstn (length p) s).

Definition origami_a : bytes := [95;95;111;114;105;103;97;109;105;95;97;58].   (* "__origami_a:" *)
Definition origami_o : bytes := [95;95;111;114;105;103;97;109;105;95;111;58].  (* "__origami_o:" *)

(* UnserializeFunction.Call: value, or false (PFail) *)
Definition unserialize (raw : bytes) : pres value :=
  match raw with
  | [] => PFail
  | _ =>
    let strict :=
      if has_prefix [78; 59] raw || has_prefix [98; 58] raw || has_prefix [105; 58] raw
         || has_prefix [100; 58] raw || has_prefix [115; 58] raw || has_prefix [97; 58] raw
      then parse_strict raw else PFail in
    match strict with
    | POk v => POk v
    | POutOfFuel => POutOfFuel
    | PUnmodelled => PUnmodelled
    | PFail =>
      if has_prefix [115; 58] raw then
        (* legacy "__origami_*" wrapper path: content between the first and the last quote *)
        match index_byte 34 raw with
        | None => PFail
        | Some fq =>
          match index_byte 34 (rev raw) with
          | None => PFail
          | Some lq_rev =>
            let lq := (length raw - 1 - lq_rev)%nat in
            if Nat.leb lq fq then PFail
            else let content := firstn (lq - fq - 1) (skipn (fq + 1) raw) in
                 if has_prefix origami_a content || has_prefix origami_o content then PUnmodelled
                 else PFail
          end
        end
      else PFail
    end
  end.
