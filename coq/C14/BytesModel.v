(* C14 (2) — byte-string codecs of std/php: base64_encode / base64_decode (encoding/base64
   StdEncoding), bin2hex (encoding/hex), urlencode / urldecode (net/url QueryEscape /
   QueryUnescape), rawurlencode (own loop, RFC 3986) / rawurldecode (net/url PathUnescape).
   Each function = the wrapper in std/php/<name>.go + the library algorithm it delegates to
   (assumed; validated against the library on every run).  No proofs in this file. *)
From Coq Require Import List NArith Bool.
Import ListNotations.
Open Scope N_scope.

Definition bytes := list N.

(* ------------------------------------------------------------------ hex *)
(* hextable "0123456789abcdef" / upperhex "0123456789ABCDEF" *)
Definition hex_lower (d : N) : N := if d <? 10 then 48 + d else 87 + d.
Definition hex_upper (d : N) : N := if d <? 10 then 48 + d else 55 + d.

(* bin2hex = hex.EncodeToString *)
Definition bin2hex (s : bytes) : bytes :=
  flat_map (fun c => [hex_lower (c / 16); hex_lower (c mod 16)]) s.

(* net/url ishex + unhex: 0-9 a-f A-F *)
Definition unhex (c : N) : option N :=
  if (48 <=? c) && (c <=? 57) then Some (c - 48)
  else if (97 <=? c) && (c <=? 102) then Some (c - 87)
  else if (65 <=? c) && (c <=? 70) then Some (c - 55)
  else None.

(* ------------------------------------------------------------------ base64 *)
(* encodeStd "ABCDEFGHIJKLMNOPQRSTUVWXYZabcdefghijklmnopqrstuvwxyz0123456789+/" *)
Definition b64_char (v : N) : N :=
  if v <? 26 then 65 + v
  else if v <? 52 then 71 + v
  else if v <? 62 then v - 4
  else if v =? 62 then 43 else 47.
(* decodeMap *)
Definition b64_val (c : N) : option N :=
  if (65 <=? c) && (c <=? 90) then Some (c - 65)
  else if (97 <=? c) && (c <=? 122) then Some (c - 71)
  else if (48 <=? c) && (c <=? 57) then Some (c + 4)
  else if c =? 43 then Some 62
  else if c =? 47 then Some 63
  else None.

(* base64_encode = StdEncoding.EncodeToString: 3 bytes -> 4 characters, '=' padding *)
Fixpoint base64_encode (s : bytes) : bytes :=
  match s with
  | a :: b :: c :: r =>
      b64_char (a / 4) :: b64_char ((a mod 4) * 16 + b / 16) ::
      b64_char ((b mod 16) * 4 + c / 64) :: b64_char (c mod 64) :: base64_encode r
  | [a; b] => [b64_char (a / 4); b64_char ((a mod 4) * 16 + b / 16); b64_char ((b mod 16) * 4); 61]
  | [a] => [b64_char (a / 4); b64_char ((a mod 4) * 16); 61; 61]
  | [] => []
  end.

(* StdEncoding.DecodeString (non-strict, padded): '\r' and '\n' are skipped wherever they occur
   (decodeQuantum: `j--; continue`, and the newline-skipping loops around the padding), so the
   decoder is: drop CR/LF, then read 4-character quanta; only the last quantum may be "xx==" or
   "xxx=" and nothing may follow it; anything else is CorruptInputError.  Trailing bits of a
   padded quantum are not checked (enc.strict is false). *)
Definition is_nl (c : N) : bool := (c =? 10) || (c =? 13).
Definition is_nil {A} (l : list A) : bool := match l with [] => true | _ => false end.

Fixpoint b64_quanta (s : bytes) : option bytes :=
  match s with
  | [] => Some []
  | c0 :: c1 :: c2 :: c3 :: r =>
    match b64_val c0, b64_val c1 with
    | Some v0, Some v1 =>
      let b0 := v0 * 4 + v1 / 16 in
      match b64_val c2 with
      | Some v2 =>
        let b1 := (v1 mod 16) * 16 + v2 / 4 in
        match b64_val c3 with
        | Some v3 => match b64_quanta r with
                     | Some t => Some (b0 :: b1 :: ((v2 mod 4) * 64 + v3) :: t)
                     | None => None end
        | None => if (c3 =? 61) && is_nil r then Some [b0; b1] else None
        end
      | None => if (c2 =? 61) && (c3 =? 61) && is_nil r then Some [b0] else None
      end
    | _, _ => None
    end
  | _ => None
  end.

(* base64_decode: string on success, false (None) on any decoding error; the $strict argument is
   read and ignored *)
Definition base64_decode (s : bytes) : option bytes :=
  b64_quanta (filter (fun c => negb (is_nl c)) s).

(* ------------------------------------------------------------------ URL escaping *)
(* RFC 3986 section 2.3 unreserved: ALPHA / DIGIT / "-" / "." / "_" / "~" *)
Definition unreserved (c : N) : bool :=
  ((97 <=? c) && (c <=? 122)) || ((65 <=? c) && (c <=? 90)) || ((48 <=? c) && (c <=? 57))
  || (c =? 45) || (c =? 46) || (c =? 95) || (c =? 126).

Definition pct (c : N) : bytes := [37; hex_upper (c / 16); hex_upper (c mod 16)].

(* urlencode = url.QueryEscape: shouldEscape(c, encodeQueryComponent) is false exactly on the
   unreserved set; ' ' becomes '+' *)
Definition urlencode (s : bytes) : bytes :=
  flat_map (fun c => if unreserved c then [c] else if c =? 32 then [43] else pct c) s.

(* rawurlencode (std/php/rawurlencode.go rawURLEncode) *)
Definition rawurlencode (s : bytes) : bytes :=
  flat_map (fun c => if unreserved c then [c] else pct c) s.

(* url.unescape(s, mode): a '%' must be followed by two hex digits (EscapeError otherwise);
   '+' is a space in query-component mode only *)
Fixpoint unescape (plus : bool) (s : bytes) : option bytes :=
  match s with
  | [] => Some []
  | c :: r =>
    if c =? 37 then
      match r with
      | h :: l :: r' =>
        match unhex h, unhex l with
        | Some a, Some b => match unescape plus r' with
                            | Some t => Some ((a * 16 + b) :: t)
                            | None => None end
        | _, _ => None
        end
      | _ => None
      end
    else match unescape plus r with
         | Some t => Some ((if plus && (c =? 43) then 32 else c) :: t)
         | None => None end
  end.

(* urldecode / rawurldecode: on an unescape error the input is returned unchanged *)
Definition urldecode (s : bytes) : bytes :=
  match unescape true s with Some t => t | None => s end.
Definition rawurldecode (s : bytes) : bytes :=
  match unescape false s with Some t => t | None => s end.
