(* C14 (1) — protobuf wire format: the specification, independent of the parser's control flow.
   (a) the grammar of well-formed inputs as a relation between byte strings and field trees, in
       which every byte of the input belongs to exactly one piece of exactly one field;
   (b) the canonical encoder of a field tree;
   (c) the nesting measure the depth limit talks about.
   No proofs in this file. *)
From Coq Require Import List NArith ZArith Bool.
From V.C14 Require Import WireModel.
Import ListNotations.
Open Scope N_scope.

(* A varint: 1..10 bytes; every byte but the last has bit 7 set; the value is little-endian
   base 128; a 10th byte can only be 0 or 1 (the value fits 64 bits).
   [is_varint k bs v]: bs encodes v and at most k more bytes may follow the first one. *)
Inductive is_varint : nat -> bytes -> N -> Prop :=
| iv_last : forall k b, b < 128 -> (k = 0%nat -> b < 2) -> is_varint k [b] b
| iv_more : forall k b r v, 128 <= b -> is_varint k r v ->
            is_varint (S k) (b :: r) ((b - 128) + 128 * v).
Definition varint_repr (bs : bytes) (v : N) : Prop := is_varint 9 bs v.

(* a tag: varint of number*8 + wire type, number in 1 .. 2^31-1 *)
Definition num_ok (num : N) : Prop := 1 <= num /\ num <= 2147483647.
Definition tag_repr (bs : bytes) (num wt : N) : Prop :=
  num_ok num /\ wt < 8 /\ varint_repr bs (num * 8 + wt).

Definition fixed_repr (n : nat) (bs : bytes) (v : N) : Prop := length bs = n /\ v = le_val bs.

(* one packed element *)
Definition elem_repr (et : N) (bs : bytes) (v : N) : Prop :=
  match et with
  | 0 => varint_repr bs v
  | 5 => fixed_repr 4 bs v
  | 1 => fixed_repr 8 bs v
  | _ => False
  end.
Definition et_ok (et : N) : Prop := et = 0 \/ et = 5 \/ et = 1.

(* a byte string that is the concatenation of representations of the list's elements *)
Definition list_repr {A} (R : A -> bytes -> Prop) : list A -> bytes -> Prop :=
  fix go (l : list A) (d : bytes) : Prop :=
    match l with
    | [] => d = []
    | x :: r => exists a b, d = a ++ b /\ R x a /\ go r b
    end.

Definition fnum (f : field) : N :=
  match f with FVarint n _ | FFixed64 n _ | FFixed32 n _ | FBytes n _ | FMsg n _
             | FPacked n _ _ | FGroup n _ => n end.
Definition fwt (f : field) : N :=
  match f with FVarint _ _ => 0 | FFixed64 _ _ => 1 | FFixed32 _ _ => 5
             | FBytes _ _ | FMsg _ _ | FPacked _ _ _ => 2 | FGroup _ _ => 3 end.

Section Grammar.
  Variable o : opts.

  (* [value_repr lvl f a]: a is the value part (everything after the tag) of field f, which sits
     at nesting level lvl (0 = a field of the top-level message).  A nested message or a group
     opens level lvl+1, which must stay below MaxDepth (MaxDepth = number of levels, top level
     included).  How a length-delimited field is read is fixed by the options. *)
  Fixpoint value_repr (lvl : N) (f : field) (a : bytes) {struct f} : Prop :=
    match f with
    | FVarint _ v => varint_repr a v
    | FFixed64 _ v => fixed_repr 8 a v
    | FFixed32 _ v => fixed_repr 4 a v
    | FBytes num p =>
        memN num (o_packed o) = false /\ memN num (o_msg o) = false /\
        exists l, a = l ++ p /\ varint_repr l (N.of_nat (length p))
    | FMsg num fs =>
        memN num (o_packed o) = false /\ memN num (o_msg o) = true /\ lvl + 1 < o_max o /\
        exists l p, a = l ++ p /\ varint_repr l (N.of_nat (length p)) /\
          list_repr (fun g d => exists t x, d = t ++ x /\ tag_repr t (fnum g) (fwt g) /\
                                            value_repr (lvl + 1) g x) fs p
    | FPacked num et vs =>
        memN num (o_packed o) = true /\ lookupN num (o_pelem o) = Some et /\ et_ok et /\
        exists l p, a = l ++ p /\ varint_repr l (N.of_nat (length p)) /\
          list_repr (fun v d => elem_repr et d v) vs p
    | FGroup num fs =>
        lvl + 1 < o_max o /\
        exists body e, a = body ++ e /\ tag_repr e num 4 /\
          list_repr (fun g d => exists t x, d = t ++ x /\ tag_repr t (fnum g) (fwt g) /\
                                            value_repr (lvl + 1) g x) fs body
    end.

  Definition field_repr (lvl : N) (f : field) (d : bytes) : Prop :=
    exists t x, d = t ++ x /\ tag_repr t (fnum f) (fwt f) /\ value_repr lvl f x.

  Definition fields_repr (lvl : N) : list field -> bytes -> Prop := list_repr (field_repr lvl).

  (* the well-formed inputs of ParseRawFields under options o, and what each denotes *)
  Definition well_formed (d : bytes) (fs : list field) : Prop :=
    0 < o_max o /\ fields_repr 0 fs d.
End Grammar.

(* ------------------------------------------------------------------ canonical encoder *)
Definition encode_elem (et v : N) : bytes :=
  match et with 0 => append_varint v | 5 => append_fixed32 v | _ => append_fixed64 v end.

Fixpoint encode_field (f : field) : bytes :=
  match f with
  | FVarint num v => append_tag num 0 ++ append_varint v
  | FFixed64 num v => append_tag num 1 ++ append_fixed64 v
  | FFixed32 num v => append_tag num 5 ++ append_fixed32 v
  | FBytes num p => append_tag num 2 ++ append_bytes p
  | FMsg num fs => append_tag num 2 ++ append_bytes (flat_map encode_field fs)
  | FPacked num et vs => append_tag num 2 ++ append_bytes (flat_map (encode_elem et) vs)
  | FGroup num fs => append_tag num 3 ++ flat_map encode_field fs ++ append_tag num 4
  end.
Definition encode_fields (fs : list field) : bytes := flat_map encode_field fs.

(* ------------------------------------------------------------------ encodable trees *)
Definition num_okb (num : N) : bool := (1 <=? num) && (num <=? 2147483647).
Definition len_okb (p : bytes) : bool := N.of_nat (length p) <? 2 ^ 64.
Definition et_okb (et : N) : bool := (et =? 0) || (et =? 5) || (et =? 1).
Definition elem_okb (et v : N) : bool := if et =? 5 then v <? 2 ^ 32 else v <? 2 ^ 64.

Fixpoint wf_field (o : opts) (lvl : N) (f : field) : bool :=
  match f with
  | FVarint num v => num_okb num && (v <? 2 ^ 64)
  | FFixed64 num v => num_okb num && (v <? 2 ^ 64)
  | FFixed32 num v => num_okb num && (v <? 2 ^ 32)
  | FBytes num p => num_okb num && negb (memN num (o_packed o)) && negb (memN num (o_msg o))
                    && len_okb p
  | FMsg num fs => num_okb num && negb (memN num (o_packed o)) && memN num (o_msg o)
                   && (lvl + 1 <? o_max o) && forallb (wf_field o (lvl + 1)) fs
                   && len_okb (flat_map encode_field fs)
  | FPacked num et vs => num_okb num && memN num (o_packed o)
                   && match lookupN num (o_pelem o) with Some e => e =? et | None => false end
                   && et_okb et && forallb (elem_okb et) vs
                   && len_okb (flat_map (encode_elem et) vs)
  | FGroup num fs => num_okb num && (lvl + 1 <? o_max o) && forallb (wf_field o (lvl + 1)) fs
  end.
Definition wf_fields (o : opts) (fs : list field) : bool :=
  (0 <? o_max o) && forallb (wf_field o 0) fs.

(* ------------------------------------------------------------------ nesting *)
(* number of message/group levels below a field list (0 = flat) *)
Fixpoint nest_field (f : field) : N :=
  match f with
  | FMsg _ fs | FGroup _ fs => 1 + fold_right (fun g m => N.max (nest_field g) m) 0 fs
  | _ => 0
  end.
Definition nest (fs : list field) : N := fold_right (fun g m => N.max (nest_field g) m) 0 fs.

(* ------------------------------------------------------------------ field trees as encoder input *)
(* the plan Protowire::serialize works from for a field (packed fields are varint-packed only) *)
Fixpoint plan_of (f : field) : plan :=
  match f with
  | FVarint n v => PlScalar n 0 v
  | FFixed64 n v => PlScalar n 1 v
  | FFixed32 n v => PlScalar n 5 v
  | FBytes n p => PlString n p
  | FMsg n fs => PlMessage n (map plan_of fs)
  | FPacked n _ vs => PlPacked n vs
  | FGroup n fs => PlGroup n (map plan_of fs)
  end.
Fixpoint packed_varint_only (f : field) : bool :=
  match f with
  | FPacked _ et _ => et =? 0
  | FMsg _ fs | FGroup _ fs => forallb packed_varint_only fs
  | _ => true
  end.
Fixpoint fixed32_small (f : field) : bool :=
  match f with
  | FFixed32 _ v => v <? 2 ^ 32
  | FMsg _ fs | FGroup _ fs => forallb fixed32_small fs
  | _ => true
  end.
