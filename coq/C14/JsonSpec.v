(* C14 (4) — the reference reading of the JSON layer (what PHP's json_encode / json_decode do on
   the same trees), written independently of the Go control flow.  No proofs in this file. *)
From Coq Require Import List NArith ZArith Bool.
From V.C14 Require Import JsonModel.
Import ListNotations.
Open Scope N_scope.

(* encoder: a list is an array, a keyed array and an object are JSON objects with their keys in
   order, an int is an integer token, a finite float is a fraction/exponent token (it stays a
   float when read back), NaN and the infinities cannot be encoded *)
Fixpoint spec_to_json (int_bits : Z -> N) (v : pval) : option jtree :=
  match v with
  | PNull => Some JNull
  | PBool b => Some (JBool b)
  | PInt z => Some (JNum true z (int_bits z))
  | PFloat b => if f_finite b then Some (JNum false 0 b) else None
  | PStr s => Some (JStr s)
  | PList l => match opt_map_all (spec_to_json int_bits) l with Some ts => Some (JArr ts) | None => None end
  | PMap l | PArr l =>
      match opt_map_all (fun kv => match spec_to_json int_bits (snd kv) with
                                   | Some t => Some (fst kv, t) | None => None end) l with
      | Some ts => Some (JObj ts) | None => None end
  end.

(* a PHP array with no entries is the empty list, whatever it was decoded from *)
Definition mk_arr (kvs : list (bytes * pval)) : pval :=
  match kvs with [] => PList [] | _ => PArr kvs end.

(* decoder: any JSON value at top level; an integer token is an int when it fits 64 bits and the
   float nearest to it otherwise; a fraction/exponent token is a float; an object is an object
   (assoc = false) or a keyed array (assoc = true), a repeated key keeping its last value *)
Fixpoint spec_of_json (assoc : bool) (t : jtree) : pval :=
  match t with
  | JNull => PNull
  | JBool b => PBool b
  | JStr s => PStr s
  | JNum true z b => if int64_ok z then PInt z else PFloat b
  | JNum false _ b => PFloat b
  | JArr l => PList (map (spec_of_json assoc) l)
  | JObj l => let kvs := dedupe (map (fun kv => (fst kv, spec_of_json assoc (snd kv))) l) in
              if assoc then mk_arr kvs else PMap kvs
  end.

(* the same value seen through json_decode's two modes *)
Fixpoint view (assoc : bool) (v : pval) : pval :=
  match v with
  | PList l => PList (map (view assoc) l)
  | PMap l | PArr l => let kvs := map (fun kv => (fst kv, view assoc (snd kv))) l in
                       if assoc then mk_arr kvs else PMap kvs
  | _ => v
  end.

(* ------------------------------------------------------------------ the classes the theorems quantify over *)
Definition key_in {A} (k : bytes) (l : list (bytes * A)) : bool :=
  existsb (fun kv => bytes_eqb k (fst kv)) l.
Fixpoint nodup_keys {A} (l : list (bytes * A)) : bool :=
  match l with [] => true | (k, _) :: r => negb (key_in k r) && nodup_keys r end.

(* values the format can carry: 64-bit ints, finite floats, no duplicate keys *)
Fixpoint spec_ok (v : pval) : bool :=
  match v with
  | PInt z => int64_ok z
  | PFloat b => f_finite b
  | PList l => forallb spec_ok l
  | PMap l | PArr l => nodup_keys l && forallb (fun kv => spec_ok (snd kv)) l
  | _ => true
  end.

(* values on which today's encoder is right: no keyed array (its keys are dropped) and no float
   that is printed like an integer (it would come back as an int) *)
Definition float_enc_ok (b : N) : bool :=
  match f_integral b with
  | Some z => negb (f_finite b) || negb (Z.abs z <? 1000000000000000000000)%Z
  | None => true
  end.
Fixpoint enc_ok (v : pval) : bool :=
  match v with
  | PFloat b => float_enc_ok b
  | PList l => forallb enc_ok l
  | PMap l => forallb (fun kv => enc_ok (snd kv)) l
  | PArr _ => false
  | _ => true
  end.

(* trees on which today's default-mode decoder is right below the top level: every integer token
   fits 64 bits and every other number fits binary64 (otherwise the whole decode fails) *)
Fixpoint ints_ok (t : jtree) : bool :=
  match t with
  | JNum true z _ => int64_ok z
  | JNum false _ b => f_finite b
  | JArr l => forallb ints_ok l
  | JObj l => forallb (fun kv => ints_ok (snd kv)) l
  | _ => true
  end.
Definition is_obj (t : jtree) : bool := match t with JObj _ => true | _ => false end.

(* trees on which today's assoc-mode decoder is right: the float reading of every integer token
   is exact (true up to 2^53 in magnitude), and no fraction/exponent token has an integral value
   inside the int64 range (it would be turned into an int) *)
Definition token_exact (isint : bool) (z : Z) (b : N) : bool :=
  f_finite b &&
  if isint then int64_ok z && match f_integral b with Some z' => (z' =? z)%Z | None => false end
  else match f_integral b with
       | Some z' => negb ((-9223372036854775808 <=? z')%Z && (z' <? 9223372036854775808)%Z)
       | None => true end.
Fixpoint exact_tokens (t : jtree) : bool :=
  match t with
  | JNum i z b => token_exact i z b
  | JArr l => forallb exact_tokens l
  | JObj l => forallb (fun kv => exact_tokens (snd kv)) l
  | _ => true
  end.

(* ... and no object has the empty string as a key (the assoc-mode decoder stores keys as slot
   names, and the empty name means "no name") *)
Fixpoint keys_ok (t : jtree) : bool :=
  match t with
  | JArr l => forallb keys_ok l
  | JObj l => forallb (fun kv => negb (is_nil (fst kv)) && keys_ok (snd kv)) l
  | _ => true
  end.

(* what has to hold of the ints and floats of a value for the assoc-mode reading of its tree to be
   exact: the double nearest to every int is that int, and no float has an integral value in
   the int64 range *)
Fixpoint assoc_ok (ib : Z -> N) (v : pval) : bool :=
  match v with
  | PInt z => match f_integral (ib z) with Some z' => (z' =? z)%Z | None => false end
  | PFloat b => token_exact false 0 b
  | PList l => forallb (assoc_ok ib) l
  | PMap l | PArr l => forallb (fun kv => negb (is_nil (fst kv)) && assoc_ok ib (snd kv)) l
  | _ => true
  end.

