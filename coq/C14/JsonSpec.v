(* C14 (4) — the reference READER of the JSON layer (what a JSON tree denotes as a PHP value, in both
   json_decode modes) and the classes of values / trees the theorems quantify over.  The encoder has no
   separate reference: its faithfulness is stated as "the reference reader reads its output back as
   the value" (Properties.json_encode_denotes).  Shared with the model, hence not independent:
   nesting, int64_ok, f_finite.  NOT shared: the treatment of repeated keys (sp_dedupe below vs the model's
   insertion loop) and UTF-8 (utf8_text below vs the model's validator table utf8_valid, which the boolean
   class predicates use because it computes).  No proofs in this file. *)
From Coq Require Import List NArith ZArith Bool.
From V.C14 Require Import JsonModel.
Import ListNotations.
Open Scope N_scope.

(* RFC 3629, independently of the validator table the model uses (utf8.ValidString): a byte string is
   UTF-8 text iff it is the concatenation of the encodings of Unicode scalar values
   (JsonProofs.utf8_valid_iff_text_l relates the two) *)
Definition scalar (cp : N) : Prop := cp < 1114112 /\ ~ (55296 <= cp /\ cp <= 57343).
Definition utf8_enc (cp : N) : bytes :=
  if cp <? 128 then [cp]
  else if cp <? 2048 then [192 + cp / 64; 128 + cp mod 64]
  else if cp <? 65536 then [224 + cp / 4096; 128 + (cp / 64) mod 64; 128 + cp mod 64]
  else [240 + cp / 262144; 128 + (cp / 4096) mod 64; 128 + (cp / 64) mod 64; 128 + cp mod 64].
Definition utf8_text (s : bytes) : Prop := exists cps, Forall scalar cps /\ s = flat_map utf8_enc cps.


(* which values have a JSON encoding at all: every float is finite, every string and key is UTF-8.
   (json_encode must answer false exactly on the others.) *)
Fixpoint encodable (v : pval) : bool :=
  match v with
  | PFloat b => f_finite b
  | PStr s => utf8_valid s
  | PList l => forallb encodable l
  | PMap l | PArr l => forallb (fun kv => utf8_valid (fst kv) && encodable (snd kv)) l
  | _ => true
  end.

(* an object text with a repeated key denotes the object in which that key stands where it first
   appeared and carries the value of its LAST appearance; later appearances are dropped.
   (Written independently of the model's insertion loop; JsonProofs.sp_dedupe_eq relates the two.) *)
Definition last_or {A} (k : bytes) (r : list (bytes * A)) (v : A) : A :=
  fold_left (fun cur kv => if bytes_eqb (fst kv) k then snd kv else cur) r v.
Fixpoint sp_dedupe_f {A} (fuel : nat) (l : list (bytes * A)) : list (bytes * A) :=
  match fuel, l with
  | S f, (k, v) :: r => (k, last_or k r v) :: sp_dedupe_f f (filter (fun kv => negb (bytes_eqb (fst kv) k)) r)
  | _, _ => []
  end.
Definition sp_dedupe {A} (l : list (bytes * A)) : list (bytes * A) := sp_dedupe_f (length l) l.

(* a PHP array with no entries is the empty list, whatever it was decoded from *)
Definition mk_arr (kvs : list (bytes * pval)) : pval :=
  match kvs with [] => PList [] | _ => PArr kvs end.

(* decoder: any JSON value at top level; an integer token is an int when it fits 64 bits and the
   float nearest to it otherwise; a fraction/exponent token is a float; an object is an object
   (assoc = false) or a keyed array (assoc = true), a repeated key keeping its last value *)
Fixpoint spec_of_json (assoc : bool) (t : jtree) : pval :=
  match t with
  | JNull => PNull
  | JBool b => PBool b
  | JStr s => PStr s
  | JNum true z b => if int64_ok z then PInt z else PFloat b
  | JNum false _ b => PFloat b
  | JArr l => PList (map (spec_of_json assoc) l)
  | JObj l => let kvs := sp_dedupe (map (fun kv => (fst kv, spec_of_json assoc (snd kv))) l) in
              if assoc then mk_arr kvs else PMap kvs
  end.

(* the nesting limit: the decoded structure may have at most [depth] levels *)
Definition spec_decode (assoc : bool) (depth : Z) (t : jtree) : option pval :=
  let v := spec_of_json assoc t in if (depth <? nesting v)%Z then None else Some v.

(* the same value seen through json_decode's two modes *)
Fixpoint view (assoc : bool) (v : pval) : pval :=
  match v with
  | PList l => PList (map (view assoc) l)
  | PMap l | PArr l => let kvs := map (fun kv => (fst kv, view assoc (snd kv))) l in
                       if assoc then mk_arr kvs else PMap kvs
  | _ => v
  end.

(* ------------------------------------------------------------------ the classes the theorems quantify over *)
Definition key_in {A} (k : bytes) (l : list (bytes * A)) : bool :=
  existsb (fun kv => bytes_eqb k (fst kv)) l.
Fixpoint nodup_keys {A} (l : list (bytes * A)) : bool :=
  match l with [] => true | (k, _) :: r => negb (key_in k r) && nodup_keys r end.

(* values the format can carry: 64-bit ints, finite floats, UTF-8 strings and keys, no duplicate keys *)
Fixpoint spec_ok (v : pval) : bool :=
  match v with
  | PInt z => int64_ok z
  | PFloat b => f_finite b
  | PStr s => utf8_valid s
  | PList l => forallb spec_ok l
  | PMap l | PArr l => nodup_keys l && forallb (fun kv => utf8_valid (fst kv) && spec_ok (snd kv)) l
  | _ => true
  end.

Definition is_obj (t : jtree) : bool := match t with JObj _ => true | _ => false end.

(* trees on which today's assoc-mode decoder is right: no object has the empty string as a key
   (the decoder stores keys as slot names, and the empty name means "no name") *)
Fixpoint keys_ok (t : jtree) : bool :=
  match t with
  | JArr l => forallb keys_ok l
  | JObj l => forallb (fun kv => negb (is_nil (fst kv)) && keys_ok (snd kv)) l
  | _ => true
  end.
(* the same condition on values *)
Fixpoint vkeys_ok (v : pval) : bool :=
  match v with
  | PList l => forallb vkeys_ok l
  | PMap l | PArr l => forallb (fun kv => negb (is_nil (fst kv)) && vkeys_ok (snd kv)) l
  | _ => true
  end.
