(* C14 (4) — JSON value <-> tree layer: executable model of json_encode (std/php/json_encode.go +
   std/serializer/json Marshal functions) and json_decode (std/php/json_decode.go: default mode through
   ObjectValue.Unmarshal / UnmarshalObject / unmarshalValue, assoc mode through goJsonDecode /
   convertGoValue).  JSON *text* (string escapes, number spelling, syntax) is encoding/json's and
   is assumed: the model works on JSON trees whose number tokens carry both readings of their
   text.  No proofs in this file. *)
From Coq Require Import List NArith ZArith Bool.
Import ListNotations.
Open Scope N_scope.

Definition bytes := list N.

(* data.Value as json_encode / json_decode see it *)
Inductive pval :=
| PNull | PBool (b : bool) | PInt (z : Z) | PFloat (bits : N) | PStr (s : bytes)
| PList (l : list pval)                    (* ArrayValue without slot names *)
| PMap (l : list (bytes * pval))           (* ObjectValue: ordered string keys *)
| PArr (l : list (bytes * pval)).          (* ArrayValue whose slots all carry a name (keyed array) *)

(* a JSON number token: [isint] = the text has no '.', 'e', 'E'; [z] = its value when isint;
   [fbits] = the binary64 nearest to the text (strconv.ParseFloat), as a bit pattern *)
Inductive jtree :=
| JNull | JBool (b : bool) | JNum (isint : bool) (z : Z) (fbits : N) | JStr (s : bytes)
| JArr (l : list jtree) | JObj (l : list (bytes * jtree)).

(* ------------------------------------------------------------------ binary64 bit patterns *)
Definition f_exp (b : N) : N := (b / 2 ^ 52) mod 2048.
Definition f_finite (b : N) : bool := negb (f_exp b =? 2047).

Definition int64_ok (z : Z) : bool := (-9223372036854775808 <=? z)%Z && (z <=? 9223372036854775807)%Z.

(* ------------------------------------------------------------------ json_encode *)
(* utf8.ValidString (RFC 3629: no overlong forms, no surrogates, nothing above U+10FFFF) *)
Definition cont (c : N) : bool := (128 <=? c) && (c <=? 191).
Fixpoint utf8_valid (s : bytes) : bool :=
  match s with
  | [] => true
  | b :: r =>
    if b <? 128 then utf8_valid r
    else if (194 <=? b) && (b <=? 223) then
      match r with c1 :: r1 => cont c1 && utf8_valid r1 | _ => false end
    else if (224 <=? b) && (b <=? 239) then
      match r with
      | c1 :: c2 :: r2 =>
        (if b =? 224 then (160 <=? c1) && (c1 <=? 191)
         else if b =? 237 then (128 <=? c1) && (c1 <=? 159) else cont c1)
        && cont c2 && utf8_valid r2
      | _ => false end
    else if (240 <=? b) && (b <=? 244) then
      match r with
      | c1 :: c2 :: c3 :: r3 =>
        (if b =? 240 then (144 <=? c1) && (c1 <=? 191)
         else if b =? 244 then (128 <=? c1) && (c1 <=? 143) else cont c1)
        && cont c2 && cont c3 && utf8_valid r3
      | _ => false end
    else false
  end.

Definition opt_map_all {A B} (f : A -> option B) : list A -> option (list B) :=
  fix go (l : list A) : option (list B) :=
    match l with
    | [] => Some []
    | x :: r => match f x, go r with Some y, Some ys => Some (y :: ys) | _, _ => None end
    end.

(* Marshal functions of std/serializer/json.  A float keeps a fraction or exponent in its text
   (MarshalFloat appends ".0" to an integer-looking spelling), NaN and the infinities make Marshal
   fail, a string or key that is not valid UTF-8 makes it fail, an ArrayValue with named slots is
   written as an object.  [int_bits] fills in the float reading of an int's token, which the
   encoder does not produce (JsonRun takes it from the implementation's output). *)
Fixpoint to_json (int_bits : Z -> N) (v : pval) : option jtree :=
  match v with
  | PNull => Some JNull
  | PBool b => Some (JBool b)
  | PInt z => Some (JNum true z (int_bits z))
  | PFloat b => if f_finite b then Some (JNum false 0 b) else None
  | PStr s => if utf8_valid s then Some (JStr s) else None
  | PList l => match opt_map_all (to_json int_bits) l with Some ts => Some (JArr ts) | None => None end
  | PMap l | PArr l =>
      match opt_map_all (fun kv => if utf8_valid (fst kv)
                                   then match to_json int_bits (snd kv) with
                                        | Some t => Some (fst kv, t) | None => None end
                                   else None) l with
      | Some ts => Some (JObj ts) | None => None end
  end.
(* json_encode: the text, or false (None) when the value cannot be encoded *)
Definition json_encode (int_bits : Z -> N) (v : pval) : option jtree := to_json int_bits v.

(* ------------------------------------------------------------------ json_decode *)
Fixpoint bytes_eqb (a b : bytes) : bool :=
  match a, b with
  | [], [] => true
  | x :: a', y :: b' => (x =? y) && bytes_eqb a' b'
  | _, _ => false
  end.
(* a Go map keyed by the property name: a repeated key keeps the last value.  The iteration order
   of the map is random in the implementation; the model lists keys in order of first appearance
   and the comparison with the implementation ignores the order. *)
Fixpoint map_put {A} (m : list (bytes * A)) (k : bytes) (v : A) : list (bytes * A) :=
  match m with
  | [] => [(k, v)]
  | (k', v') :: r => if bytes_eqb k k' then (k, v) :: r else (k', v') :: map_put r k v
  end.
Definition dedupe {A} (l : list (bytes * A)) : list (bytes * A) :=
  fold_left (fun m kv => map_put m (fst kv) (snd kv)) l [].

Definition is_nil {A} (l : list A) : bool := match l with [] => true | _ => false end.

(* unmarshalValue, by the first character of the raw text.  An integer literal that does not fit
   int64 falls back to its float reading; a number outside binary64 reads as +-Inf. *)
Fixpoint unmarshal_value (t : jtree) : pval :=
  match t with
  | JNull => PNull
  | JBool b => PBool b
  | JStr s => PStr s
  | JNum true z b => if int64_ok z then PInt z else PFloat b
  | JNum false _ b => PFloat b
  | JArr l => PList (map unmarshal_value l)
  | JObj l => (* orderedObject: members in source order, a repeated key keeps its first place and last value *)
              PMap (dedupe (map (fun kv => (fst kv, unmarshal_value (snd kv))) l))
  end.

(* default mode entry: `value := NewObjectValue(); value.Unmarshal(text)`: only an object (or the
   literal null, which leaves the object empty) is accepted at top level *)
Definition decode_default (t : jtree) : option pval :=
  match t with
  | JObj _ => Some (unmarshal_value t)
  | JNull => Some (PMap [])
  | _ => None
  end.

(* assoc mode: the same decoder on any top-level value, then assocValue turns every object into an
   ArrayValue whose slots are named by the keys; a slot named "" is an unnamed (positional) slot,
   so an object whose only key is "" becomes a plain list *)
Fixpoint assoc_value (v : pval) : pval :=
  match v with
  | PList l => PList (map assoc_value l)
  | PMap l | PArr l =>
      let kvs := map (fun kv => (fst kv, assoc_value (snd kv))) l in
      if forallb (fun kv : bytes * pval => is_nil (fst kv)) kvs then PList (map snd kvs) else PArr kvs
  | _ => v
  end.
Definition decode_assoc (t : jtree) : option pval := Some (assoc_value (unmarshal_value t)).

(* nestingDepth: scalars 0, containers 1 + the deepest member *)
Fixpoint nesting (v : pval) : Z :=
  match v with
  | PList l => (1 + fold_right (fun x m => Z.max (nesting x) m) 0 l)%Z
  | PMap l | PArr l => (1 + fold_right (fun kv m => Z.max (nesting (snd kv)) m) 0 l)%Z
  | _ => 0%Z
  end.

(* json_decode(text, assoc, depth): the value, or None for PHP NULL (syntax error, unsupported top
   level, structure deeper than depth).  A literal "null" in assoc mode also gives NULL, as the value. *)
Definition json_decode (assoc : bool) (depth : Z) (t : jtree) : option pval :=
  match (if assoc then decode_assoc t else decode_default t) with
  | Some v => if (depth <? nesting v)%Z then None else Some v
  | None => None
  end.
