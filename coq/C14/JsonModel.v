(* C14 (4) — JSON value <-> tree layer: executable model of json_encode (std/php/json_encode.go +
   std/serializer/json Marshal functions) and json_decode (std/php/json_decode.go: default mode through
   ObjectValue.Unmarshal / UnmarshalObject / unmarshalValue, assoc mode through goJsonDecode /
   convertGoValue).  JSON *text* (string escapes, number spelling, syntax) is encoding/json's and
   is assumed: the model works on JSON trees whose number tokens carry both readings of their
   text.  No proofs in this file. *)
From Coq Require Import List NArith ZArith Bool.
Import ListNotations.
Open Scope N_scope.

Definition bytes := list N.

(* data.Value as json_encode / json_decode see it *)
Inductive pval :=
| PNull | PBool (b : bool) | PInt (z : Z) | PFloat (bits : N) | PStr (s : bytes)
| PList (l : list pval)                    (* ArrayValue without slot names *)
| PMap (l : list (bytes * pval))           (* ObjectValue: ordered string keys *)
| PArr (l : list (bytes * pval)).          (* ArrayValue whose slots all carry a name (keyed array) *)

(* a JSON number token: [isint] = the text has no '.', 'e', 'E'; [z] = its value when isint;
   [fbits] = the binary64 nearest to the text (strconv.ParseFloat), as a bit pattern *)
Inductive jtree :=
| JNull | JBool (b : bool) | JNum (isint : bool) (z : Z) (fbits : N) | JStr (s : bytes)
| JArr (l : list jtree) | JObj (l : list (bytes * jtree)).

(* ------------------------------------------------------------------ binary64 bit patterns *)
Definition f_sign (b : N) : bool := 2 ^ 63 <=? b.
Definition f_exp (b : N) : N := (b / 2 ^ 52) mod 2048.
Definition f_man (b : N) : N := b mod 2 ^ 52.
Definition f_finite (b : N) : bool := negb (f_exp b =? 2047).

(* the integer a finite double is equal to, if it is integral (-0.0 is 0) *)
Definition f_integral (b : N) : option Z :=
  let e := f_exp b in let m := f_man b in
  let sg := fun (n : N) => if f_sign b then (- Z.of_N n)%Z else Z.of_N n in
  if e =? 2047 then None
  else if e =? 0 then (if m =? 0 then Some 0%Z else None)
  else let mant := 2 ^ 52 + m in
       if 1075 <=? e then Some (sg (mant * 2 ^ (e - 1075)))
       else let k := 1075 - e in
            if 52 <? k then None
            else if mant mod 2 ^ k =? 0 then Some (sg (mant / 2 ^ k)) else None.

Definition int64_ok (z : Z) : bool := (-9223372036854775808 <=? z)%Z && (z <=? 9223372036854775807)%Z.

(* ------------------------------------------------------------------ json_encode *)
(* encoding/json prints a float64 with strconv 'f' (or 'e' outside [1e-6, 1e21)) and the shortest
   digits: an integral value below 1e21 is printed without '.' or exponent, so its token reads as
   an integer.  NaN and the infinities make Marshal fail. *)
Definition float_token (b : N) : option jtree :=
  if negb (f_finite b) then None
  else match f_integral b with
       | Some z => if (Z.abs z <? 1000000000000000000000)%Z then Some (JNum true z b)
                   else Some (JNum false 0 b)
       | None => Some (JNum false 0 b)
       end.

Definition opt_map_all {A B} (f : A -> option B) : list A -> option (list B) :=
  fix go (l : list A) : option (list B) :=
    match l with
    | [] => Some []
    | x :: r => match f x, go r with Some y, Some ys => Some (y :: ys) | _, _ => None end
    end.

(* the number token of an int: its float reading is not used by the encoder; [int_bits] is filled
   in by whoever reads the text back (see JsonRun: taken from the implementation's output) *)
Fixpoint to_json (int_bits : Z -> N) (v : pval) : option jtree :=
  match v with
  | PNull => Some JNull
  | PBool b => Some (JBool b)
  | PInt z => Some (JNum true z (int_bits z))
  | PFloat b => float_token b
  | PStr s => Some (JStr s)
  | PList l => match opt_map_all (to_json int_bits) l with Some ts => Some (JArr ts) | None => None end
  | PMap l => match opt_map_all (fun kv => match to_json int_bits (snd kv) with
                                           | Some t => Some (fst kv, t) | None => None end) l with
              | Some ts => Some (JObj ts) | None => None end
  | PArr l => (* MarshalArray goes through ToValueList: the slot names are dropped *)
              match opt_map_all (fun kv => to_json int_bits (snd kv)) l with
              | Some ts => Some (JArr ts) | None => None end
  end.
(* json_encode: on a Marshal error the function returns the string "null" *)
Definition json_encode (int_bits : Z -> N) (v : pval) : jtree :=
  match to_json int_bits v with Some t => t | None => JNull end.

(* ------------------------------------------------------------------ json_decode *)
Fixpoint bytes_eqb (a b : bytes) : bool :=
  match a, b with
  | [], [] => true
  | x :: a', y :: b' => (x =? y) && bytes_eqb a' b'
  | _, _ => false
  end.
(* a Go map keyed by the property name: a repeated key keeps the last value.  The iteration order
   of the map is random in the implementation; the model lists keys in order of first appearance
   and the comparison with the implementation ignores the order. *)
Fixpoint map_put {A} (m : list (bytes * A)) (k : bytes) (v : A) : list (bytes * A) :=
  match m with
  | [] => [(k, v)]
  | (k', v') :: r => if bytes_eqb k k' then (k, v) :: r else (k', v') :: map_put r k v
  end.
Definition dedupe {A} (l : list (bytes * A)) : list (bytes * A) :=
  fold_left (fun m kv => map_put m (fst kv) (snd kv)) l [].

Definition is_nil {A} (l : list A) : bool := match l with [] => true | _ => false end.

(* default mode: unmarshalValue, by the first character of the raw text *)
Fixpoint unmarshal_value (t : jtree) : option pval :=
  match t with
  | JNull => Some PNull
  | JBool b => Some (PBool b)
  | JStr s => Some (PStr s)
  | JNum true z _ => if int64_ok z then Some (PInt z) else None   (* json.Unmarshal into int fails *)
  | JNum false _ b => if f_finite b then Some (PFloat b) else None    (* json.Unmarshal into float64: out of range *)
  | JArr l => match opt_map_all unmarshal_value l with Some vs => Some (PList vs) | None => None end
  | JObj l =>
      (* only the values the Go map kept are unmarshalled: map first (structurally), drop the
         overwritten duplicates, then fail if a kept value failed *)
      match opt_map_all (fun kv : bytes * option pval =>
                           match snd kv with Some v => Some (fst kv, v) | None => None end)
                        (dedupe (map (fun kv => (fst kv, unmarshal_value (snd kv))) l)) with
      | Some vs => Some (PMap vs) | None => None end
  end.

(* default mode entry: `value := NewObjectValue(); value.Unmarshal(text)` — the text is unmarshalled
   into a Go map first: only an object (or the literal null, which leaves the map empty) is accepted *)
Definition decode_default (t : jtree) : option pval :=
  match t with
  | JObj _ => unmarshal_value t
  | JNull => Some (PMap [])
  | _ => None
  end.

(* assoc mode: json.Unmarshal into interface{} (every number is a float64), then convertGoValue:
   `val == float64(int64(val))` decides int or float; on amd64 an out-of-range conversion yields
   MinInt64, so only values in [-2^63, 2^63) can compare equal *)
Definition number_of_float (b : N) : pval :=
  match f_integral b with
  | Some z => if (-9223372036854775808 <=? z)%Z && (z <? 9223372036854775808)%Z then PInt z else PFloat b
  | None => PFloat b
  end.
Fixpoint convert_go (t : jtree) : pval :=
  match t with
  | JNull => PNull
  | JBool b => PBool b
  | JStr s => PStr s
  | JNum _ _ b => number_of_float b
  | JArr l => PList (map convert_go l)
  | JObj l =>
      (* &data.ArrayValue{List: [...ZVal{Name: k, Value: ...}]}: a slot whose name is "" is an
         unnamed (positional) slot, so an object whose only key is "" becomes a plain list *)
      let kvs := dedupe (map (fun kv => (fst kv, convert_go (snd kv))) l) in
      if forallb (fun kv : bytes * pval => is_nil (fst kv)) kvs then PList (map snd kvs) else PArr kvs
  end.
(* every number of the text goes through strconv.ParseFloat, duplicates included: one number
   outside binary64 fails the whole Unmarshal *)
Fixpoint all_finite (t : jtree) : bool :=
  match t with
  | JNum _ _ b => f_finite b
  | JArr l => forallb all_finite l
  | JObj l => forallb (fun kv => all_finite (snd kv)) l
  | _ => true
  end.
Definition decode_assoc (t : jtree) : option pval :=
  if all_finite t then Some (convert_go t) else None.

(* json_decode(text, assoc): the value, or None for PHP NULL-on-error.  (A literal "null" text
   in assoc mode also gives NULL, as the value.) *)
Definition json_decode (assoc : bool) (t : jtree) : option pval :=
  if assoc then decode_assoc t else decode_default t.
