(* C14 — compact transport of byte strings into Coq terms for the correspondence files: a byte
   string is written as a list of primitive 63-bit integers holding 7 bytes each (big-endian);
   [hb last l]: every element of l carries 7 bytes except the final one, which carries [last].
   (A long list of small N numerals, a long hexadecimal N literal or a string literal are all
   5-40 times slower to parse.)  Not used by any theorem. *)
From Coq Require Import List NArith ZArith Uint63.
Import ListNotations.

Definition byte_at (x : int) (k : int) : N :=
  Z.to_N (Uint63.to_Z (Uint63.land (Uint63.lsr x k) 255%uint63)).
Definition unpack7 (x : int) : list N :=
  [byte_at x 48%uint63; byte_at x 40%uint63; byte_at x 32%uint63; byte_at x 24%uint63;
   byte_at x 16%uint63; byte_at x 8%uint63; byte_at x 0%uint63].
Fixpoint hb (last : nat) (l : list int) : list N :=
  match l with
  | [] => []
  | x :: r => match r with
              | [] => skipn (7 - last) (unpack7 x)
              | _ => unpack7 x ++ hb last r
              end
  end.

Example hb_ex : hb 2 [0x00ff1020304050; 0x0607]%uint63 = [0; 255; 16; 32; 48; 64; 80; 6; 7]%N.
Proof. vm_compute. reflexivity. Qed.
Example hb_empty : hb 0 [] = [].
Proof. reflexivity. Qed.

(* 64-bit numbers as two 32-bit halves (decimal N literals above ~10 digits are slow to parse) *)
Definition n64 (hi lo : int) : N := Z.to_N (Uint63.to_Z hi * 4294967296 + Uint63.to_Z lo).
Example n64_ex : n64 0xffffffff 0xffffffff = (2 ^ 64 - 1)%N.
Proof. vm_compute. reflexivity. Qed.

Definition z64 (neg : bool) (hi lo : int) : Z :=
  let m := (Uint63.to_Z hi * 4294967296 + Uint63.to_Z lo)%Z in if neg then (- m)%Z else m.
