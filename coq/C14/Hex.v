(* C14 — compact transport of byte strings into Coq terms: the hexadecimal literal 0x01<bytes>
   (a leading 01 sentinel keeps leading zero bytes) denotes the byte list.  Used only by the
   correspondence files (a long list of small numerals is slow to parse). *)
From Coq Require Import List NArith.
Import ListNotations.
Open Scope N_scope.

Fixpoint hx_go (p : positive) (k : nat) (w cur : N) (acc : list N) : list N :=
  match p with
  | xH => acc
  | xO q => match k with
            | 7%nat => hx_go q 0%nat 1 0 (cur :: acc)
            | _ => hx_go q (S k) (2 * w) cur acc end
  | xI q => match k with
            | 7%nat => hx_go q 0%nat 1 0 ((cur + w) :: acc)
            | _ => hx_go q (S k) (2 * w) (cur + w) acc end
  end.
Definition hx (n : N) : list N := match n with N0 => [] | Npos p => hx_go p 0%nat 1 0 [] end.

Example hx_ex : hx 0x0100ff10 = [0; 255; 16].
Proof. vm_compute. reflexivity. Qed.
Example hx_empty : hx 0x01 = [].
Proof. reflexivity. Qed.
