(* C14 (2) — round trips and output alphabets of the byte-string codecs, for all byte strings. *)
From Coq Require Import List NArith ZArith Bool Lia.
From Coq Require Import ZifyN ZifyNat ZifyBool.
From V.C14 Require Import BytesModel BytesSpec.
Import ListNotations.
Open Scope N_scope.
Ltac Zify.zify_post_hook ::= Z.div_mod_to_equations.

Ltac split_ifs :=
  repeat match goal with |- context [if ?b then _ else _] => destruct b eqn:? end.

Lemma list_ind3 : forall (P : bytes -> Prop),
  P [] -> (forall a, P [a]) -> (forall a b, P [a; b]) ->
  (forall a b c r, P r -> P (a :: b :: c :: r)) -> forall l, P l.
Proof.
  intros P H0 H1 H2 H3. fix IH 1. intros l.
  destruct l as [|a [|b [|c r]]]; [exact H0|apply H1|apply H2|apply H3; apply IH].
Qed.

Lemma bytes_ok_cons : forall c s, bytes_ok (c :: s) <-> c < 256 /\ bytes_ok s.
Proof. intros. unfold bytes_ok. split; intros H; [inversion H; auto|destruct H; constructor; auto]. Qed.

(* ------------------------------------------------------------------ hex *)
Lemma unhex_lower : forall d, d < 16 -> unhex (hex_lower d) = Some d.
Proof. intros d H. unfold hex_lower. split_ifs; unfold unhex; split_ifs; try (f_equal; lia); lia. Qed.
Lemma unhex_upper : forall d, d < 16 -> unhex (hex_upper d) = Some d.
Proof. intros d H. unfold hex_upper. split_ifs; unfold unhex; split_ifs; try (f_equal; lia); lia. Qed.
Lemma hex_lower_digit_ok : forall d, d < 16 -> hex_lower_digit (hex_lower d).
Proof. intros d H. unfold hex_lower_digit, hex_lower. split_ifs; lia. Qed.
Lemma hex_upper_digit_ok : forall d, d < 16 -> upper_hexdig (hex_upper d).
Proof. intros d H. unfold upper_hexdig, hex_upper. split_ifs; lia. Qed.

Lemma bin2hex_roundtrip_l : forall s, bytes_ok s -> hex_decode (bin2hex s) = Some s.
Proof.
  induction s as [|c s IH]; intros H; [reflexivity|].
  apply bytes_ok_cons in H. destruct H as [Hc Hs].
  cbn [bin2hex flat_map app hex_decode]. fold (bin2hex s).
  rewrite unhex_lower by lia. rewrite unhex_lower by lia. rewrite (IH Hs). f_equal. f_equal. lia.
Qed.

Lemma bin2hex_alphabet_l : forall s, bytes_ok s ->
  Forall hex_lower_digit (bin2hex s) /\ length (bin2hex s) = (2 * length s)%nat.
Proof.
  induction s as [|c s IH]; intros H; [split; [constructor|reflexivity]|].
  apply bytes_ok_cons in H. destruct H as [Hc Hs]. destruct (IH Hs) as [IH1 IH2].
  cbn [bin2hex flat_map app]. fold (bin2hex s). split.
  - constructor; [apply hex_lower_digit_ok; lia|]. constructor; [apply hex_lower_digit_ok; lia|exact IH1].
  - simpl. rewrite IH2. lia.
Qed.

(* ------------------------------------------------------------------ base64 *)
Lemma b64_val_char : forall v, v < 64 -> b64_val (b64_char v) = Some v.
Proof. intros v H. unfold b64_char. split_ifs; unfold b64_val; split_ifs; try (f_equal; lia); lia. Qed.
Lemma b64_char_alpha : forall v, v < 64 -> b64_alpha (b64_char v).
Proof. intros v H. unfold b64_alpha, b64_char. split_ifs; lia. Qed.
Lemma b64_alpha_not_nl : forall c, b64_alpha c -> negb (is_nl c) = true.
Proof. intros c H. unfold b64_alpha in H. unfold is_nl. lia. Qed.
Lemma b64_val_pad : b64_val 61 = None.
Proof. reflexivity. Qed.

Lemma base64_text_l : forall s, bytes_ok s -> b64_text (base64_encode s).
Proof.
  induction s as [| a | a b | a b c r IH] using list_ind3; intros H.
  - constructor.
  - apply bytes_ok_cons in H. destruct H as [Ha _]. cbn [base64_encode].
    apply bt_pad2; apply b64_char_alpha; lia.
  - apply bytes_ok_cons in H. destruct H as [Ha H]. apply bytes_ok_cons in H. destruct H as [Hb _].
    cbn [base64_encode]. apply bt_pad1; apply b64_char_alpha; lia.
  - apply bytes_ok_cons in H. destruct H as [Ha H]. apply bytes_ok_cons in H. destruct H as [Hb H].
    apply bytes_ok_cons in H. destruct H as [Hc Hr].
    cbn [base64_encode]. apply bt_full; try (apply b64_char_alpha; lia). apply IH. exact Hr.
Qed.

Lemma b64_text_no_nl : forall t, b64_text t -> filter (fun c => negb (is_nl c)) t = t.
Proof.
  induction 1; cbn [filter].
  - reflexivity.
  - repeat rewrite b64_alpha_not_nl by assumption. rewrite IHb64_text. reflexivity.
  - repeat rewrite b64_alpha_not_nl by assumption. reflexivity.
  - repeat rewrite b64_alpha_not_nl by assumption. reflexivity.
Qed.

Lemma b64_quanta_encode : forall s, bytes_ok s -> b64_quanta (base64_encode s) = Some s.
Proof.
  induction s as [| a | a b | a b c r IH] using list_ind3; intros H.
  - reflexivity.
  - apply bytes_ok_cons in H. destruct H as [Ha _]. cbn [base64_encode b64_quanta].
    rewrite b64_val_char by lia. rewrite b64_val_char by lia. rewrite b64_val_pad.
    cbn. f_equal. f_equal. lia.
  - apply bytes_ok_cons in H. destruct H as [Ha H]. apply bytes_ok_cons in H. destruct H as [Hb _].
    cbn [base64_encode b64_quanta].
    rewrite b64_val_char by lia. rewrite b64_val_char by lia. rewrite b64_val_char by lia.
    rewrite b64_val_pad. cbn. f_equal. f_equal; [lia|]. f_equal. lia.
  - apply bytes_ok_cons in H. destruct H as [Ha H]. apply bytes_ok_cons in H. destruct H as [Hb H].
    apply bytes_ok_cons in H. destruct H as [Hc Hr].
    cbn [base64_encode b64_quanta].
    rewrite b64_val_char by lia. rewrite b64_val_char by lia. rewrite b64_val_char by lia.
    rewrite b64_val_char by lia. rewrite (IH Hr). f_equal. f_equal; [lia|]. f_equal; [lia|].
    f_equal. lia.
Qed.

Lemma base64_roundtrip_l : forall s, bytes_ok s -> base64_decode (base64_encode s) = Some s.
Proof.
  intros s H. unfold base64_decode. rewrite b64_text_no_nl by (apply base64_text_l; exact H).
  apply b64_quanta_encode. exact H.
Qed.

Lemma base64_length_l : forall s, length (base64_encode s) = (4 * ((length s + 2) / 3))%nat.
Proof.
  induction s as [| a | a b | a b c r IH] using list_ind3; try reflexivity.
  cbn [base64_encode length]. rewrite IH.
  replace (S (S (S (length r))) + 2)%nat with (length r + 2 + 1 * 3)%nat by lia.
  rewrite Nat.div_add by lia. lia.
Qed.

(* ------------------------------------------------------------------ URL *)
Lemma unreserved_rfc : forall c, unreserved c = true <-> rfc_unreserved c.
Proof. intros c. unfold unreserved, rfc_unreserved. lia. Qed.

Lemma unescape_unreserved : forall plus c r, unreserved c = true ->
  unescape plus (c :: r) = match unescape plus r with Some t => Some (c :: t) | None => None end.
Proof.
  intros plus c r H. cbn [unescape]. unfold unreserved in H.
  replace (c =? 37) with false by lia. replace (plus && (c =? 43)) with false by lia. reflexivity.
Qed.

Lemma unescape_pct : forall plus c r, c < 256 ->
  unescape plus (pct c ++ r) = match unescape plus r with Some t => Some (c :: t) | None => None end.
Proof.
  intros plus c r H. unfold pct. cbn [app unescape]. change (37 =? 37) with true. cbv iota.
  rewrite unhex_upper by lia. rewrite unhex_upper by lia.
  destruct (unescape plus r); [|reflexivity]. f_equal. f_equal. lia.
Qed.

Lemma unescape_plus : forall r,
  unescape true (43 :: r) = match unescape true r with Some t => Some (32 :: t) | None => None end.
Proof. intros r. reflexivity. Qed.

Lemma unescape_urlencode : forall s, bytes_ok s -> unescape true (urlencode s) = Some s.
Proof.
  induction s as [|c s IH]; intros H; [reflexivity|].
  apply bytes_ok_cons in H. destruct H as [Hc Hs].
  cbn [urlencode flat_map]. fold (urlencode s).
  destruct (unreserved c) eqn:U.
  - cbn [app]. rewrite unescape_unreserved by exact U. rewrite (IH Hs). reflexivity.
  - destruct (c =? 32) eqn:E.
    + cbn [app]. rewrite unescape_plus. rewrite (IH Hs). f_equal. f_equal. lia.
    + rewrite unescape_pct by exact Hc. rewrite (IH Hs). reflexivity.
Qed.

Lemma unescape_rawurlencode : forall s, bytes_ok s -> unescape false (rawurlencode s) = Some s.
Proof.
  induction s as [|c s IH]; intros H; [reflexivity|].
  apply bytes_ok_cons in H. destruct H as [Hc Hs].
  cbn [rawurlencode flat_map]. fold (rawurlencode s).
  destruct (unreserved c) eqn:U.
  - cbn [app]. rewrite unescape_unreserved by exact U. rewrite (IH Hs). reflexivity.
  - rewrite unescape_pct by exact Hc. rewrite (IH Hs). reflexivity.
Qed.

Lemma urlencode_roundtrip_l : forall s, bytes_ok s -> urldecode (urlencode s) = s.
Proof. intros s H. unfold urldecode. rewrite unescape_urlencode by exact H. reflexivity. Qed.
Lemma rawurlencode_roundtrip_l : forall s, bytes_ok s -> rawurldecode (rawurlencode s) = s.
Proof. intros s H. unfold rawurldecode. rewrite unescape_rawurlencode by exact H. reflexivity. Qed.

Lemma pct_is_text : forall plus c r, c < 256 -> pct_text plus r -> pct_text plus (pct c ++ r).
Proof.
  intros plus c r H Hr. unfold pct. cbn [app].
  apply pt_pct; [apply hex_upper_digit_ok; lia|apply hex_upper_digit_ok; lia|exact Hr].
Qed.

Lemma rawurlencode_rfc3986_l : forall s, bytes_ok s -> pct_text false (rawurlencode s).
Proof.
  induction s as [|c s IH]; intros H; [constructor|].
  apply bytes_ok_cons in H. destruct H as [Hc Hs].
  cbn [rawurlencode flat_map]. fold (rawurlencode s).
  destruct (unreserved c) eqn:U.
  - cbn [app]. apply pt_unres; [apply unreserved_rfc; exact U|apply IH; exact Hs].
  - apply pct_is_text; [exact Hc|apply IH; exact Hs].
Qed.

Lemma urlencode_form_text_l : forall s, bytes_ok s -> pct_text true (urlencode s).
Proof.
  induction s as [|c s IH]; intros H; [constructor|].
  apply bytes_ok_cons in H. destruct H as [Hc Hs].
  cbn [urlencode flat_map]. fold (urlencode s).
  destruct (unreserved c) eqn:U.
  - cbn [app]. apply pt_unres; [apply unreserved_rfc; exact U|apply IH; exact Hs].
  - destruct (c =? 32).
    + cbn [app]. apply pt_plus; [reflexivity|apply IH; exact Hs].
    + apply pct_is_text; [exact Hc|apply IH; exact Hs].
Qed.

(* a decoder that accepts gives back something that re-encodes to an equivalent text: every
   percent-encoded text in the RFC 3986 sense is read by rawurldecode without the fallback *)
Lemma pct_text_decodes_l : forall plus t, pct_text plus t -> exists s, unescape plus t = Some s.
Proof.
  induction 1 as [|c r Hc Hr [s IH]|h l r Hh Hl Hr [s IH]|r Hp Hr [s IH]].
  - exists []. reflexivity.
  - exists (c :: s). rewrite unescape_unreserved by (apply unreserved_rfc; exact Hc). rewrite IH. reflexivity.
  - assert (exists a, unhex h = Some a) as [a Ha].
    { unfold upper_hexdig in Hh. unfold unhex. split_ifs; eauto; lia. }
    assert (exists b, unhex l = Some b) as [b Hb].
    { unfold upper_hexdig in Hl. unfold unhex. split_ifs; eauto; lia. }
    exists ((a * 16 + b) :: s). cbn [unescape]. change (37 =? 37) with true. cbv iota.
    rewrite Ha, Hb, IH. reflexivity.
  - subst plus. exists (32 :: s). rewrite unescape_plus, IH. reflexivity.
Qed.

Lemma base64_text_len_l : forall s, bytes_ok s ->
  b64_text (base64_encode s) /\ length (base64_encode s) = (4 * ((length s + 2) / 3))%nat.
Proof. intros s H. split; [apply base64_text_l; exact H|apply base64_length_l]. Qed.

(* ------------------------------------------------------------------ base64_decode accepts exactly the base64 texts *)
Lemma list_ind4 : forall (P : bytes -> Prop),
  P [] -> (forall a, P [a]) -> (forall a b, P [a; b]) -> (forall a b c, P [a; b; c]) ->
  (forall a b c d r, P r -> P (a :: b :: c :: d :: r)) -> forall l, P l.
Proof.
  intros P H0 H1 H2 H3 H4. fix IH 1. intros l.
  destruct l as [|a [|b [|c [|d r]]]]; [exact H0|apply H1|apply H2|apply H3|apply H4; apply IH].
Qed.

Lemma b64_val_alpha : forall c, (exists v, b64_val c = Some v) <-> b64_alpha c.
Proof.
  intros c. unfold b64_val, b64_alpha. split.
  - intros (v & H).
    repeat match type of H with context [if ?b then _ else _] => destruct b eqn:? end; try discriminate; lia.
  - intros H. split_ifs; eauto; lia.
Qed.
Lemma b64_val_none : forall c, b64_val c = None -> ~ b64_alpha c.
Proof. intros c H Ha. apply b64_val_alpha in Ha. destruct Ha as (v & Hv). congruence. Qed.

Lemma b64_quanta_sound : forall t s, b64_quanta t = Some s -> b64_text t.
Proof.
  induction t as [| a | a b | a b c | a b c d r IH] using list_ind4; intros s H; cbn [b64_quanta] in H;
    try discriminate; [constructor|].
  destruct (b64_val a) as [v0|] eqn:E0; [|discriminate].
  destruct (b64_val b) as [v1|] eqn:E1; [|discriminate].
  assert (Ha : b64_alpha a) by (apply b64_val_alpha; eauto).
  assert (Hb : b64_alpha b) by (apply b64_val_alpha; eauto).
  destruct (b64_val c) as [v2|] eqn:E2.
  - assert (Hc : b64_alpha c) by (apply b64_val_alpha; eauto).
    destruct (b64_val d) as [v3|] eqn:E3.
    + assert (Hd : b64_alpha d) by (apply b64_val_alpha; eauto).
      destruct (b64_quanta r) as [t'|] eqn:ER; [|discriminate].
      apply bt_full; try assumption. eapply IH; reflexivity.
    + destruct ((d =? 61) && is_nil r) eqn:EP; [|discriminate].
      apply andb_prop in EP. destruct EP as [Ed Er]. destruct r; [|discriminate].
      assert (d = 61) by lia. subst. apply bt_pad1; assumption.
  - destruct ((c =? 61) && (d =? 61) && is_nil r) eqn:EP; [|discriminate].
    apply andb_prop in EP. destruct EP as [EP Er]. apply andb_prop in EP. destruct EP as [Ec Ed].
    destruct r; [|discriminate]. assert (c = 61) by lia. assert (d = 61) by lia. subst.
    apply bt_pad2; assumption.
Qed.

Lemma b64_quanta_complete : forall t, b64_text t -> exists s, b64_quanta t = Some s.
Proof.
  induction 1 as [|c0 c1 c2 c3 r H0 H1 H2 H3 Hr [s IH]|c0 c1 c2 H0 H1 H2|c0 c1 H0 H1].
  - exists []. reflexivity.
  - apply b64_val_alpha in H0, H1, H2, H3.
    destruct H0 as (v0 & E0), H1 as (v1 & E1), H2 as (v2 & E2), H3 as (v3 & E3).
    cbn [b64_quanta]. rewrite E0, E1, E2, E3, IH. eauto.
  - apply b64_val_alpha in H0, H1, H2.
    destruct H0 as (v0 & E0), H1 as (v1 & E1), H2 as (v2 & E2).
    cbn [b64_quanta]. rewrite E0, E1, E2, b64_val_pad. cbn. eauto.
  - apply b64_val_alpha in H0, H1. destruct H0 as (v0 & E0), H1 as (v1 & E1).
    cbn [b64_quanta]. rewrite E0, E1, b64_val_pad. cbn. eauto.
Qed.

Lemma base64_accepts_iff_l : forall d,
  (exists s, base64_decode d = Some s) <-> b64_text (filter (fun c => negb (is_nl c)) d).
Proof.
  intros d. unfold base64_decode. split.
  - intros (s & H). eapply b64_quanta_sound; eauto.
  - apply b64_quanta_complete.
Qed.

(* ------------------------------------------------------------------ urldecode / rawurldecode: when the fallback is taken *)
Lemma unescape_accepts_iff_l : forall plus s, (exists t, unescape plus s = Some t) <-> pct_escaped s.
Proof.
  intros plus s. split.
  - assert (G : forall n s, (length s <= n)%nat -> (exists t, unescape plus s = Some t) -> pct_escaped s).
    { induction n as [|n IH]; intros s0 Hl (t & H); destruct s0 as [|c r]; [apply pe_nil|cbn [length] in Hl; lia|apply pe_nil|]; cbn [length] in Hl.
      cbn [unescape] in H. destruct (c =? 37) eqn:E.
      - assert (c = 37) by lia. subst. destruct r as [|h [|l r']]; try discriminate.
        destruct (unhex h) as [a|] eqn:Eh; [|discriminate]. destruct (unhex l) as [b|] eqn:El; [|discriminate].
        destruct (unescape plus r') as [t'|] eqn:Er; [|discriminate].
        apply (pe_pct h l r' a b Eh El). apply IH; [cbn [length] in Hl; lia|eauto].
      - destruct (unescape plus r) as [t'|] eqn:Er; [|discriminate].
        apply pe_other; [lia|]. apply IH; [lia|eauto]. }
    apply (G (length s) s). lia.
  - induction 1 as [|h l r a b Hh Hl Hr [t IH]|c r Hc Hr [t IH]].
    + exists []. reflexivity.
    + exists ((a * 16 + b) :: t). cbn [unescape]. change (37 =? 37) with true. cbv iota. rewrite Hh, Hl, IH. reflexivity.
    + eexists. cbn [unescape]. replace (c =? 37) with false by lia. rewrite IH. reflexivity.
Qed.
