(* C14 — non-vacuity: concrete inhabitants of the theorems' hypotheses, and the witnesses of the
   defects that were repaired in /repo (they now evaluate to the corrected behaviour). *)
From Coq Require Import List NArith ZArith Bool.
From V.C14 Require Import WireModel WireSpec BytesModel BytesSpec SerModel SerSpec.
From V.C14 Require Import JsonModel JsonSpec.
Import ListNotations.
Open Scope N_scope.

(* ---------------------------------------------------------------------- (1) wire *)
Definition ex_opts : opts :=
  {| o_msg := [3]; o_packed := [4; 6]; o_pelem := [(4, 0); (6, 5)]; o_max := 3 |}.
Definition ex_tree : list field :=
  [ FVarint 1 300; FBytes 2 [104; 105]; FFixed32 7 4294967295; FFixed64 8 (2 ^ 64 - 1);
    FMsg 3 [ FVarint 1 (2 ^ 64 - 1); FGroup 9 [ FPacked 4 0 [1; 128; 16384] ] ];
    FPacked 6 5 [7; 8]; FGroup 536870911 [] ].

(* parse_encode's hypothesis holds for a tree using every constructor, depth = the limit *)
Example ex_wf : wf_fields ex_opts ex_tree = true.
Proof. vm_compute. reflexivity. Qed.
Example ex_nest : nest ex_tree + 1 = o_max ex_opts.
Proof. vm_compute. reflexivity. Qed.
Example ex_roundtrip : parse_fields ex_opts 0 (encode_fields ex_tree) = Ok ex_tree.
Proof. vm_compute. reflexivity. Qed.
(* one level less in the options: the same bytes are refused with the depth error *)
Example ex_too_deep :
  parse_fields {| o_msg := [3]; o_packed := [4; 6]; o_pelem := [(4, 0); (6, 5)]; o_max := 2 |} 0
               (encode_fields ex_tree) = Err EMaxDepth.
Proof. vm_compute. reflexivity. Qed.

(* parse_serialize's hypotheses hold for a tree with every construct serialize can emit *)
Definition ex_ser_tree : list field :=
  [ FVarint 1 300; FBytes 2 [104; 105]; FFixed32 7 4294967295;
    FMsg 3 [ FGroup 9 [ FPacked 4 0 [1; 128; 16384] ] ] ].
Example ex_ser_ok : wf_fields ex_opts ex_ser_tree = true /\ forallb packed_varint_only ex_ser_tree = true.
Proof. vm_compute. split; reflexivity. Qed.
Example ex_ser_unsupported : enc_plans [PlOther 1 6] = None.
Proof. reflexivity. Qed.

(* a non-canonical (overlong) varint is well-formed input: acceptance is wider than the encoder's image *)
Example ex_overlong : parse_fields ex_opts 0 [8; 128; 0] = Ok [FVarint 1 0].
Proof. vm_compute. reflexivity. Qed.

(* repaired defects (fix: commits c8a6dcc, c86ec27): before the repairs these were
   Ok [] / Ok [FMsg 3 []] / Ok [FGroup 10 [FGroup 11 [..]]] *)
Example ex_stray_endgroup : parse_fields ex_opts 0 [12; 8; 1] = Err EUnexpectedEndGroup.
Proof. vm_compute. reflexivity. Qed.
Example ex_stray_endgroup_nested : parse_fields ex_opts 0 [26; 2; 12; 8] = Err EUnexpectedEndGroup.
Proof. vm_compute. reflexivity. Qed.
Example ex_group_depth :
  parse_fields {| o_msg := []; o_packed := []; o_pelem := []; o_max := 2 |} 0
               [83; 91; 8; 1; 92; 84] = Err EMaxDepth.
Proof. vm_compute. reflexivity. Qed.

(* ---------------------------------------------------------------------- (2) byte codecs *)
Definition ex_bytes : BytesModel.bytes := [0; 255; 38; 61; 43; 32; 126; 37; 10; 228; 184; 173].
Example ex_bytes_ok : bytes_ok ex_bytes.
Proof. repeat constructor. Qed.
Example ex_b64 : base64_encode ex_bytes = [65;80;56;109;80;83;115;103;102;105;85;75;53;76;105;116].
Proof. vm_compute. reflexivity. Qed.
(* repaired defect (fix: commit 5f95786): "&=+" used to pass through rawurlencode unescaped *)
Example ex_rawurl : rawurlencode [38; 61; 43; 32; 126] = [37;50;54; 37;51;68; 37;50;66; 37;50;48; 126].
Proof. vm_compute. reflexivity. Qed.
(* decoders on malformed input: base64 false, urldecode returns its input *)
Example ex_b64_bad : base64_decode [65; 65; 45; 61] = None.
Proof. vm_compute. reflexivity. Qed.
Example ex_b64_newlines : base64_decode [81; 10; 85; 13; 61; 10; 61; 10] = Some [65].
Proof. vm_compute. reflexivity. Qed.
Example ex_url_bad : urldecode [37; 52; 71] = [37; 52; 71].
Proof. vm_compute. reflexivity. Qed.

(* ---------------------------------------------------------------------- (3) serialize *)
Definition ex_value : value :=
  VList [ VInt (-9223372036854775808); VStr [97; 34; 59; 0; 255]; VStr [98]; VNull; VBool true; VFloat [48; 46; 49];
          VMap [ ([120], VInt 1); ([53], VList []); ([], VMap []) ];
          VList [ VList [ VMap [ ([107], VStr []) ] ] ] ].
Example ex_serializable : serializable ex_value = true.
Proof. vm_compute. reflexivity. Qed.
Example ex_ser_roundtrip :
  match serialize ex_value with Some t => unserialize t | None => PFail end = POk (canon ex_value).
Proof. vm_compute. reflexivity. Qed.
Example ex_canon_differs : canon ex_value <> ex_value.
Proof. vm_compute. discriminate. Qed.

(* floats (fix: 213b73f) and white space (fix: 8f25e10) *)
Example ex_float_roundtrip :
  match serialize (VList [VFloat [49; 46; 53]; VFloat [45; 73; 78; 70]]) with Some t => unserialize t | None => PFail end
  = POk (VList [VFloat [49; 46; 53]; VFloat [45; 73; 78; 70]]).
Proof. vm_compute. reflexivity. Qed.
Example ex_float_syntax : float_text_ok [49; 69; 43; 50; 53] = true /\ float_text_ok [46] = false
                          /\ float_text_ok [49; 101] = false /\ float_text_ok [48; 120; 49] = false.
Proof. vm_compute. repeat split. Qed.
Example ex_no_trim : unserialize [32; 78; 59] = PFail /\ unserialize [78; 59; 10] = PFail.
Proof. split; vm_compute; reflexivity. Qed.

(* repaired defects (fix: 62d4051, 56c7d26, 4093a1a, eb236fa) *)
Example ex_two_strings :          (* a:2:{i:0;s:1:"a";i:1;s:1:"b";} used to be false *)
  unserialize [97;58;50;58;123; 105;58;48;59; 115;58;49;58;34;97;34;59; 105;58;49;59; 115;58;49;58;34;98;34;59; 125]
  = POk (VList [VStr [97]; VStr [98]]).
Proof. vm_compute. reflexivity. Qed.
Example ex_huge_count :           (* a:99999999999:{} used to exhaust memory *)
  unserialize [97;58;57;57;57;57;57;57;57;57;57;57;57;58;123;125] = PFail.
Proof. vm_compute. reflexivity. Qed.
Example ex_wrong_length :         (* s:5:"abc"; used to give "abc" *)
  unserialize [115;58;53;58;34;97;98;99;34;59] = PFail.
Proof. vm_compute. reflexivity. Qed.

(* ---------------------------------------------------------------------- (4) JSON *)
Definition ib0 (_ : Z) : N := 0.
Definition ex_pval : pval :=
  PMap [ ([97], PInt 9007199254740993); ([98], PList [PStr [120; 34]; PNull; PBool true; PFloat 4607182418800017408]);
         ([99], PArr [ ([100], PInt (-2)) ]); ([101], PMap []) ].
Example ex_json_classes : JsonSpec.spec_ok ex_pval = true /\ vkeys_ok ex_pval = true.
Proof. vm_compute. repeat split. Qed.
Example ex_json_default :
  match json_encode ib0 ex_pval with Some t => json_decode false 2 t | None => None end = Some (view false ex_pval).
Proof. vm_compute. reflexivity. Qed.
Example ex_json_assoc :
  match json_encode ib0 ex_pval with Some t => json_decode true 2 t | None => None end = Some (view true ex_pval).
Proof. vm_compute. reflexivity. Qed.
Example ex_json_depth :     (* one level less: NULL *)
  match json_encode ib0 ex_pval with Some t => json_decode true 1 t | None => None end = None.
Proof. vm_compute. reflexivity. Qed.

(* repaired defects (fix: 5e7a67e 678f9e3 c7a4539 8a43225 533d0f3 6cb91a5 be185a3 b365e34) *)
Example ex_json_keyed_array : json_encode ib0 (PArr [([97], PInt 1)]) = Some (JObj [([97], JNum true 1 0)]).
Proof. reflexivity. Qed.
Example ex_json_float_stays_float : json_decode true 512 (JNum false 0 4607182418800017408) = Some (PFloat 4607182418800017408).
Proof. reflexivity. Qed.
Example ex_json_nan : json_encode ib0 (PList [PFloat 9221120237041090560]) = None.
Proof. reflexivity. Qed.
Example ex_json_bad_utf8 : json_encode ib0 (PStr [255]) = None.
Proof. reflexivity. Qed.
Example ex_json_bigint : json_decode true 512 (JNum true 9007199254740993 4845873199050653696) = Some (PInt 9007199254740993).
Proof. reflexivity. Qed.
Example ex_json_int_overflow :
  json_decode false 512 (JObj [([110], JNum true 9223372036854775808 4890909195324358656)])
  = Some (PMap [([110], PFloat 4890909195324358656)]).
Proof. reflexivity. Qed.

(* refuted clauses that remain (known findings json:dec:default:toplevel-..., json:dec:assoc:empty-key) *)
Example json_toplevel_refuted :                         (* json_decode('[1]') = NULL, json_decode('null') = {} *)
  json_decode false 512 (JArr [JNum true 1 4607182418800017408]) = None
  /\ json_decode false 512 JNull = Some (PMap []).
Proof. split; reflexivity. Qed.
Example json_empty_key_refuted :                        (* {"":7} in assoc mode is the list [7] *)
  json_decode true 512 (JObj [([], JNum true 7 4619567317775286272)]) = Some (PList [PInt 7])
  /\ spec_decode true 512 (JObj [([], JNum true 7 4619567317775286272)]) = Some (PArr [([], PInt 7)]).
Proof. split; reflexivity. Qed.

(* the grammar (and the parser) take any scalar as an array key: a:1:{N;N;} is the map {"" => null} *)
Example ex_lenient_key : unserialize [97;58;49;58;123; 78;59; 78;59; 125] = POk (VMap [([], VNull)]).
Proof. vm_compute. reflexivity. Qed.

(* ArrayValue slots with names (fix: 33b6ee5): [5 => 1, 2] keeps its keys; names that only look like ints stay strings *)
Example ex_keyed_slots :
  match serialize (VArr [([53], VInt 1); ([], VInt 2)]) with Some t => unserialize t | None => PFail end
  = POk (VMap [([53], VInt 1); ([49], VInt 2)]).
Proof. vm_compute. reflexivity. Qed.
Example ex_slot_keys : slot_key 0 [53] = VInt 5 /\ slot_key 0 [43; 53] = VStr [43; 53] /\ slot_key 0 [48; 55] = VStr [48; 55]
                       /\ slot_key 3 [] = VInt 3.
Proof. vm_compute. repeat split. Qed.
