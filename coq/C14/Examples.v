(* C14 — non-vacuity: concrete inhabitants of the theorems' hypotheses, and the witnesses of the
   defects that were repaired in /repo (they now evaluate to the corrected behaviour). *)
From Coq Require Import List NArith ZArith Bool.
From V.C14 Require Import WireModel WireSpec BytesModel BytesSpec SerModel SerSpec.
From V.C14 Require Import JsonModel JsonSpec.
Import ListNotations.
Open Scope N_scope.

(* ---------------------------------------------------------------------- (1) wire *)
Definition ex_opts : opts :=
  {| o_msg := [3]; o_packed := [4; 6]; o_pelem := [(4, 0); (6, 5)]; o_max := 3 |}.
Definition ex_tree : list field :=
  [ FVarint 1 300; FBytes 2 [104; 105]; FFixed32 7 4294967295; FFixed64 8 (2 ^ 64 - 1);
    FMsg 3 [ FVarint 1 (2 ^ 64 - 1); FGroup 9 [ FPacked 4 0 [1; 128; 16384] ] ];
    FPacked 6 5 [7; 8]; FGroup 536870911 [] ].

(* parse_encode's hypothesis holds for a tree using every constructor, depth = the limit *)
Example ex_wf : wf_fields ex_opts ex_tree = true.
Proof. vm_compute. reflexivity. Qed.
Example ex_nest : nest ex_tree + 1 = o_max ex_opts.
Proof. vm_compute. reflexivity. Qed.
Example ex_roundtrip : parse_fields ex_opts 0 (encode_fields ex_tree) = Ok ex_tree.
Proof. vm_compute. reflexivity. Qed.
(* one level less in the options: the same bytes are refused with the depth error *)
Example ex_too_deep :
  parse_fields {| o_msg := [3]; o_packed := [4; 6]; o_pelem := [(4, 0); (6, 5)]; o_max := 2 |} 0
               (encode_fields ex_tree) = Err EMaxDepth.
Proof. vm_compute. reflexivity. Qed.

(* a non-canonical (overlong) varint is well-formed input: acceptance is wider than the encoder's image *)
Example ex_overlong : parse_fields ex_opts 0 [8; 128; 0] = Ok [FVarint 1 0].
Proof. vm_compute. reflexivity. Qed.

(* repaired defects (fix: commits c8a6dcc, c86ec27): before the repairs these were
   Ok [] / Ok [FMsg 3 []] / Ok [FGroup 10 [FGroup 11 [..]]] *)
Example ex_stray_endgroup : parse_fields ex_opts 0 [12; 8; 1] = Err EUnexpectedEndGroup.
Proof. vm_compute. reflexivity. Qed.
Example ex_stray_endgroup_nested : parse_fields ex_opts 0 [26; 2; 12; 8] = Err EUnexpectedEndGroup.
Proof. vm_compute. reflexivity. Qed.
Example ex_group_depth :
  parse_fields {| o_msg := []; o_packed := []; o_pelem := []; o_max := 2 |} 0
               [83; 91; 8; 1; 92; 84] = Err EMaxDepth.
Proof. vm_compute. reflexivity. Qed.

(* ---------------------------------------------------------------------- (2) byte codecs *)
Definition ex_bytes : BytesModel.bytes := [0; 255; 38; 61; 43; 32; 126; 37; 10; 228; 184; 173].
Example ex_bytes_ok : bytes_ok ex_bytes.
Proof. repeat constructor. Qed.
Example ex_b64 : base64_encode ex_bytes = [65;80;56;109;80;83;115;103;102;105;85;75;53;76;105;116].
Proof. vm_compute. reflexivity. Qed.
(* repaired defect (fix: commit 5f95786): "&=+" used to pass through rawurlencode unescaped *)
Example ex_rawurl : rawurlencode [38; 61; 43; 32; 126] = [37;50;54; 37;51;68; 37;50;66; 37;50;48; 126].
Proof. vm_compute. reflexivity. Qed.
(* decoders on malformed input: base64 false, urldecode returns its input *)
Example ex_b64_bad : base64_decode [65; 65; 45; 61] = None.
Proof. vm_compute. reflexivity. Qed.
Example ex_b64_newlines : base64_decode [81; 10; 85; 13; 61; 10; 61; 10] = Some [65].
Proof. vm_compute. reflexivity. Qed.
Example ex_url_bad : urldecode [37; 52; 71] = [37; 52; 71].
Proof. vm_compute. reflexivity. Qed.

(* ---------------------------------------------------------------------- (3) serialize *)
Definition ex_value : value :=
  VList [ VInt (-9223372036854775808); VStr [97; 34; 59; 0; 255]; VStr [98]; VNull; VBool true;
          VMap [ ([120], VInt 1); ([53], VList []); ([], VMap []) ];
          VList [ VList [ VMap [ ([107], VStr []) ] ] ] ].
Example ex_serializable : serializable ex_value = true.
Proof. vm_compute. reflexivity. Qed.
Example ex_ser_roundtrip :
  match serialize ex_value with Some t => unserialize t | None => PFail end = POk (canon ex_value).
Proof. vm_compute. reflexivity. Qed.
Example ex_canon_differs : canon ex_value <> ex_value.
Proof. vm_compute. discriminate. Qed.

(* refuted clauses (known findings, demonstrated on the implementation by the check) *)
Example serialize_float_refuted : exists v, serialize v = None.
Proof. exists (VList [VFloat 4609434218613702656]). reflexivity. Qed.
Example unserialize_whitespace_refuted :
  exists s, unserialize s = POk VNull /\ parse_strict s = PFail.
Proof. exists [32; 78; 59; 10]. split; vm_compute; reflexivity. Qed.

(* repaired defects (fix: 62d4051, 56c7d26, 4093a1a, eb236fa) *)
Example ex_two_strings :          (* a:2:{i:0;s:1:"a";i:1;s:1:"b";} used to be false *)
  unserialize [97;58;50;58;123; 105;58;48;59; 115;58;49;58;34;97;34;59; 105;58;49;59; 115;58;49;58;34;98;34;59; 125]
  = POk (VList [VStr [97]; VStr [98]]).
Proof. vm_compute. reflexivity. Qed.
Example ex_huge_count :           (* a:99999999999:{} used to exhaust memory *)
  unserialize [97;58;57;57;57;57;57;57;57;57;57;57;57;58;123;125] = PFail.
Proof. vm_compute. reflexivity. Qed.
Example ex_wrong_length :         (* s:5:"abc"; used to give "abc" *)
  unserialize [115;58;53;58;34;97;98;99;34;59] = PFail.
Proof. vm_compute. reflexivity. Qed.

(* ---------------------------------------------------------------------- (4) JSON *)
Definition ib0 (_ : Z) : N := 0.
(* 2^52 = 0x4330000000000000 as a double; ib maps the ints of the example to their doubles *)
Definition ex_ib (z : Z) : N :=
  if (z =? 1)%Z then 4607182418800017408 else if (z =? -2)%Z then 13835058055282163712 else 0.
Definition ex_pval : pval :=
  PMap [ ([97], PInt 1); ([98], PList [PStr [120; 34]; PNull; PBool true; PFloat 4609434218613702656]);
         ([99], PMap [ ([100], PInt (-2)) ]); ([101], PMap []) ].
Example ex_json_classes : enc_ok ex_pval = true /\ JsonSpec.spec_ok ex_pval = true /\ assoc_ok ex_ib ex_pval = true.
Proof. vm_compute. repeat split. Qed.
Example ex_json_default : json_decode false (json_encode ex_ib ex_pval) = Some ex_pval.
Proof. vm_compute. reflexivity. Qed.
Example ex_json_assoc : json_decode true (json_encode ex_ib ex_pval) = Some (view true ex_pval).
Proof. vm_compute. reflexivity. Qed.
Example ex_tokens : exact_tokens (JNum true 9007199254740992 4845873199050653696) = true
                 /\ exact_tokens (JNum true 9007199254740993 4845873199050653696) = false.
Proof. vm_compute. split; reflexivity. Qed.

(* refuted clauses: witnesses (known findings with keys json:enc:... and json:dec:...) *)
Example json_keyed_array_refuted :                      (* json_encode(json_decode('{"a":1}', true)) = [1] *)
  json_encode ib0 (PArr [([97], PInt 1)]) = JArr [JNum true 1 0]
  /\ spec_to_json ib0 (PArr [([97], PInt 1)]) = Some (JObj [([97], JNum true 1 0)]).
Proof. split; reflexivity. Qed.
Example json_integral_float_refuted :                   (* 1.0 is written 1 and comes back as int 1 *)
  json_decode true (json_encode ib0 (PFloat 4607182418800017408)) = Some (PInt 1).
Proof. vm_compute. reflexivity. Qed.
Example json_toplevel_refuted :                         (* json_decode('[1]') = NULL, json_decode('null') = {} *)
  decode_default (JArr [JNum true 1 4607182418800017408]) = None /\ decode_default JNull = Some (PMap []).
Proof. split; reflexivity. Qed.
Example json_bigint_refuted :                           (* 2^53+1 read through float64 *)
  decode_assoc (JNum true 9007199254740993 4845873199050653696) = Some (PInt 9007199254740992).
Proof. vm_compute. reflexivity. Qed.
Example json_int_overflow_refuted :                     (* {"n":2^63}: whole decode fails; reference: a float *)
  decode_default (JObj [([110], JNum true 9223372036854775808 4890909195324358656)]) = None
  /\ spec_of_json false (JObj [([110], JNum true 9223372036854775808 4890909195324358656)])
     = PMap [([110], PFloat 4890909195324358656)].
Proof. split; vm_compute; reflexivity. Qed.
Example json_empty_key_refuted :                        (* {"":7} in assoc mode is the list [7] *)
  decode_assoc (JObj [([], JNum true 7 4619567317775286272)]) = Some (PList [PInt 7]).
Proof. vm_compute. reflexivity. Qed.

(* the grammar (and the parser) take any scalar as an array key: a:1:{N;N;} is the map {"" => null} *)
Example ex_lenient_key : unserialize [97;58;49;58;123; 78;59; 78;59; 125] = POk (VMap [([], VNull)]).
Proof. vm_compute. reflexivity. Qed.
