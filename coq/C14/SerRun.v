(* C14 (3) — correspondence for serialize / unserialize. *)
From Coq Require Import List NArith ZArith Bool.
From V.C14 Require Import Exh WireModel SerModel SerSpec.
Import ListNotations.
Open Scope N_scope.

Definition list_eqb {A} (e : A -> A -> bool) : list A -> list A -> bool :=
  fix go (a b : list A) : bool :=
    match a, b with
    | [], [] => true
    | x :: a', y :: b' => e x y && go a' b'
    | _, _ => false
    end.
(* a float is carried by its text; [tab] maps a float text of the input to the canonical text of
   the float it denotes (computed by the driver with strconv: assumed), the implementation's
   floats arrive as canonical texts *)
Fixpoint lookup_text (x : bytes) (tab : list (bytes * bytes)) : bytes :=
  match tab with [] => x | (k, v) :: r => if SerModel.bytes_eqb x k then v else lookup_text x r end.
Fixpoint value_eqb_tab (tab : list (bytes * bytes)) (a b : value) {struct a} : bool :=
  match a, b with
  | VNull, VNull => true
  | VBool x, VBool y => Bool.eqb x y
  | VInt x, VInt y => (x =? y)%Z
  | VFloat x, VFloat y => SerModel.bytes_eqb (lookup_text x tab) y
  | VStr x, VStr y => SerModel.bytes_eqb x y
  | VList x, VList y => list_eqb (value_eqb_tab tab) x y
  | VMap x, VMap y => list_eqb (fun p q => SerModel.bytes_eqb (fst p) (fst q) && value_eqb_tab tab (snd p) (snd q)) x y
  | _, _ => false
  end.
Fixpoint value_eqb (a b : value) {struct a} : bool :=
  match a, b with
  | VNull, VNull => true
  | VBool x, VBool y => Bool.eqb x y
  | VInt x, VInt y => (x =? y)%Z
  | VFloat x, VFloat y => SerModel.bytes_eqb x y
  | VStr x, VStr y => SerModel.bytes_eqb x y
  | VList x, VList y => list_eqb value_eqb x y
  | VMap x, VMap y => list_eqb (fun p q => SerModel.bytes_eqb (fst p) (fst q) && value_eqb (snd p) (snd q)) x y
  | _, _ => false
  end.

(* unserialize result as the implementation shows it: a value; failure is the value false *)
Definition pres_value (r : pres value) : option value :=
  match r with POk v => Some v | PFail => Some (VBool false) | _ => None end.

(* serialize case: value, serialize() result (None = false), unserialize(that text) result *)
Record scase := { s_v : value; s_out : option bytes; s_back : option value }.
(* failing clauses:
   1 model serialize <> implementation
   2 model unserialize(text) <> implementation
   3 unserialize(serialize v) is not v (as a PHP value)            [decoder inverts encoder]
   4 serialize refuses the value (returns false)                    [every value has an encoding]
   9 outside the model (legacy __origami_ payload / array used as key): not compared *)
Definition check_ser (c : scase) : list nat :=
  (match serialize (s_v c), s_out c with
   | Some a, Some b => if SerModel.bytes_eqb a b then [] else [1%nat]
   | None, None => []
   | _, _ => [1%nat] end) ++
  (match s_out c with
   | None => [4%nat]
   | Some t =>
     (match pres_value (unserialize t), s_back c with
      | Some a, Some b => if value_eqb a b then [] else [2%nat]
      | None, _ => [9%nat]
      | _, None => [2%nat] end) ++
     (match s_back c with
      | Some b => if value_eqb b (canon (s_v c)) then [] else [3%nat]
      | None => [3%nat] end)
   end).

(* the format proper: no surrounding white space, no legacy fallback, keys are ints or strings *)

(* unserialize case on arbitrary bytes.
   1 model <> implementation
   9 outside the model *)
Record ucase := { u_in : bytes; u_ftab : list (bytes * bytes); u_obs : value }.
Definition check_unser (c : ucase) : list nat :=
  match unserialize (u_in c) with
  | POutOfFuel => [1%nat]
  | PUnmodelled => [9%nat]
  | r => match pres_value r with
         | Some a => if value_eqb_tab (u_ftab c) a (u_obs c) then [] else [1%nat]
         | None => [1%nat] end
  end.

(* observation codes for the exhaustive short-input run *)
Fixpoint value_code (v : value) : bytes :=
  match v with
  | VNull => [0]
  | VBool false => [1]
  | VBool true => [2]
  | VInt z => [3; if (z <? 0)%Z then 1 else 0] ++ WireModel.le_bytes 8 (Z.abs_N z)
  | VFloat t => [4] ++ WireModel.le_bytes 2 (N.of_nat (length t)) ++ t
  | VStr s => [5] ++ WireModel.le_bytes 2 (N.of_nat (length s)) ++ s
  | VList l => [6] ++ WireModel.le_bytes 2 (N.of_nat (length l)) ++ flat_map value_code l
  | VArr l => [8] ++ WireModel.le_bytes 2 (N.of_nat (length l)) ++
              flat_map (fun kv => WireModel.le_bytes 2 (N.of_nat (length (fst kv))) ++ fst kv ++ value_code (snd kv)) l
  | VMap l => [7] ++ WireModel.le_bytes 2 (N.of_nat (length l)) ++
              flat_map (fun kv => WireModel.le_bytes 2 (N.of_nat (length (fst kv))) ++ fst kv ++ value_code (snd kv)) l
  end.
Definition unser_exh (lo hi : N) (stream : bytes) : list nat :=
  exh_check (fun x => match pres_value (unserialize x) with Some v => value_code v | None => [255] end) lo hi stream.
