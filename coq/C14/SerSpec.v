(* C14 (3) — serialize/unserialize: which values the format can carry, and when two Origami
   values are the same PHP value.  No proofs in this file. *)
From Coq Require Import List NArith ZArith Bool.
From V.C14 Require Import SerModel.
Import ListNotations.
Open Scope N_scope.

(* the PHP value an Origami value stands for: an empty ObjectValue and an empty ArrayValue are
   both the empty array (unserialize returns the latter) *)
Fixpoint canon (v : value) : value :=
  match v with
  | VList l => VList (map canon l)
  | VMap [] => VList []
  | VMap l => VMap (map (fun kv => (fst kv, canon (snd kv))) l)
  | _ => v
  end.

Definition int64_ok (z : Z) : bool := (-9223372036854775808 <=? z)%Z && (z <=? 9223372036854775807)%Z.
Definition len_ok {A} (l : list A) : bool := N.of_nat (length l) <=? max_int.
Definition key_in (k : bytes) (l : list (bytes * value)) : bool :=
  existsb (fun kv => bytes_eqb k (fst kv)) l.
Fixpoint nodup_keys (l : list (bytes * value)) : bool :=
  match l with [] => true | (k, _) :: r => negb (key_in k r) && nodup_keys r end.

(* values of the kinds the codec claims (null, bool, int, string, list, string-keyed map): ints
   are 64-bit, an ObjectValue has no duplicate keys, lengths fit an int.  Floats are excluded:
   serialize() refuses them (known finding ser:enc:unsupported:float). *)
Fixpoint serializable (v : value) : bool :=
  match v with
  | VNull | VBool _ => true
  | VInt z => int64_ok z
  | VFloat _ => false
  | VStr s => len_ok s
  | VList l => len_ok l && forallb serializable l
  | VMap l => len_ok l && nodup_keys l && forallb (fun kv => len_ok (fst kv) && serializable (snd kv)) l
  end.
