(* C14 (3) — serialize/unserialize: which values the format can carry, and when two Origami
   values are the same PHP value.  No proofs in this file. *)
From Coq Require Import List NArith ZArith Bool.
From V.C14 Require Import SerModel.
Import ListNotations.
Open Scope N_scope.

(* 0..n-1 integer keys in order: a list; otherwise a map keyed by the keys' names (a key that is
   itself an array has no name: outside the model) *)
Definition arr_value (kvs : list (value * value)) : option value :=
  if sequential 0 kvs then Some (VList (map snd kvs))
  else match build_map kvs [] with Some m => Some (VMap m) | None => None end.

(* the (key, value) pairs an ArrayValue with named slots stands for *)
Definition slot_pairs {A} (f : value -> A) : N -> list (bytes * value) -> list (value * A) :=
  fix go (i : N) (l : list (bytes * value)) : list (value * A) :=
    match l with [] => [] | (nm, x) :: r => (slot_key i nm, f x) :: go (i + 1) r end.

(* the PHP value an Origami value stands for: an empty ObjectValue and an empty ArrayValue are
   both the empty array (unserialize returns the latter) *)
Fixpoint canon (v : value) : value :=
  match v with
  | VList l => VList (map canon l)
  | VMap [] => VList []
  | VMap l => VMap (map (fun kv => (fst kv, canon (snd kv))) l)
  | VArr l => (* the array with the slots' keys: a list when they are 0..n-1 in order, a map otherwise *)
              match arr_value (slot_pairs canon 0 l) with Some v' => v' | None => VNull end
  | _ => v
  end.

Definition int64_ok (z : Z) : bool := (-9223372036854775808 <=? z)%Z && (z <=? 9223372036854775807)%Z.
Definition len_ok {A} (l : list A) : bool := N.of_nat (length l) <=? max_int.
Definition key_in (k : bytes) (l : list (bytes * value)) : bool :=
  existsb (fun kv => bytes_eqb k (fst kv)) l.
Fixpoint nodup_keys (l : list (bytes * value)) : bool :=
  match l with [] => true | (k, _) :: r => negb (key_in k r) && nodup_keys r end.

Definition no_semi (t : bytes) : bool := forallb (fun c => negb (c =? 59)) t.

(* values of the kinds the codec claims (null, bool, int, string, list, string-keyed map): ints
   are 64-bit, an ObjectValue has no duplicate keys, lengths fit an int; a float is identified with
   its text, which must be a float text (what strconv prints always is). *)
Fixpoint serializable (v : value) : bool :=
  match v with
  | VNull | VBool _ => true
  | VInt z => int64_ok z
  | VFloat t => float_text_ok t && no_semi t
  | VStr s => len_ok s
  | VList l => len_ok l && forallb serializable l
  | VMap l => len_ok l && nodup_keys l && forallb (fun kv => len_ok (fst kv) && serializable (snd kv)) l
  | VArr l => len_ok l && forallb (fun kv => len_ok (fst kv) && serializable (snd kv)) l
  end.

(* ------------------------------------------------------------------ the grammar of serialize texts *)
(* Byte-exact: a text is the concatenation of its pieces, nothing else.  Numbers are one or more
   decimal digits (leading zeros allowed, as strconv accepts them); an integer may carry one sign;
   a string's declared length is its byte length; an array's declared count is its number of
   key/value pairs.  What value an array denotes is decided by its keys ([arr_value]). *)
Definition digits (ds : bytes) : Prop := ds <> [] /\ Forall (fun c => is_digit c = true) ds.
Definition sign_text (sg : bytes) (neg : bool) : Prop :=
  (sg = [] /\ neg = false) \/ (sg = [45] /\ neg = true) \/ (sg = [43] /\ neg = false).

Inductive ser_text : bytes -> value -> Prop :=
| st_null : ser_text [78; 59] VNull
| st_false : ser_text [98; 58; 48; 59] (VBool false)
| st_true : ser_text [98; 58; 49; 59] (VBool true)
| st_int : forall sg neg ds z, sign_text sg neg -> digits ds -> int_of_text neg ds = Some z ->
           ser_text ([105; 58] ++ sg ++ ds ++ [59]) (VInt z)
| st_float : forall c, float_text_ok c = true -> no_semi c = true ->
             ser_text ([100; 58] ++ c ++ [59]) (VFloat c)
| st_str : forall ds s, digits ds -> val_digits ds = N.of_nat (length s) -> val_digits ds <= max_int ->
           ser_text ([115; 58] ++ ds ++ [58; 34] ++ s ++ [34; 59]) (VStr s)
| st_arr : forall ds body kvs v, digits ds -> val_digits ds = N.of_nat (length kvs) ->
           val_digits ds <= max_int -> pairs_text body kvs -> arr_value kvs = Some v ->
           ser_text ([97; 58] ++ ds ++ [58; 123] ++ body ++ [125]) v
with pairs_text : bytes -> list (value * value) -> Prop :=
| pt_nil : pairs_text [] []
| pt_cons : forall a b c k v r, ser_text a k -> ser_text b v -> pairs_text c r ->
            pairs_text (a ++ b ++ c) ((k, v) :: r).
