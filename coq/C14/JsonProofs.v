(* C14 (4) — JSON layer: today's encoder and decoders agree with the reference reading on the
   complement of the recorded defect classes; the reference reading round-trips every value. *)
From Coq Require Import List NArith ZArith Bool Lia.
From Coq Require Import ZifyN ZifyNat ZifyBool.
Ltac Zify.zify_post_hook ::= Z.div_mod_to_equations.
From V.C14 Require Import JsonModel JsonSpec.
Import ListNotations.
Open Scope N_scope.

(* ------------------------------------------------------------------ induction principles *)
Section PvalInd.
  Variable P : pval -> Prop.
  Hypothesis HNull : P PNull.
  Hypothesis HBool : forall b, P (PBool b).
  Hypothesis HInt : forall z, P (PInt z).
  Hypothesis HFloat : forall b, P (PFloat b).
  Hypothesis HStr : forall s, P (PStr s).
  Hypothesis HList : forall l, Forall P l -> P (PList l).
  Hypothesis HMap : forall l, Forall (fun kv => P (snd kv)) l -> P (PMap l).
  Hypothesis HArr : forall l, Forall (fun kv => P (snd kv)) l -> P (PArr l).
  Fixpoint pval_ind2 (v : pval) : P v :=
    let gol := fix gol (l : list pval) : Forall P l :=
      match l with [] => Forall_nil P | x :: r => Forall_cons x (pval_ind2 x) (gol r) end in
    let gom := fix gom (l : list (bytes * pval)) : Forall (fun kv => P (snd kv)) l :=
      match l with [] => Forall_nil _ | kv :: r => Forall_cons kv (pval_ind2 (snd kv)) (gom r) end in
    match v with
    | PNull => HNull | PBool b => HBool b | PInt z => HInt z | PFloat b => HFloat b | PStr s => HStr s
    | PList l => HList l (gol l)
    | PMap l => HMap l (gom l)
    | PArr l => HArr l (gom l)
    end.
End PvalInd.

Section JtreeInd.
  Variable P : jtree -> Prop.
  Hypothesis HNull : P JNull.
  Hypothesis HBool : forall b, P (JBool b).
  Hypothesis HNum : forall i z b, P (JNum i z b).
  Hypothesis HStr : forall s, P (JStr s).
  Hypothesis HArr : forall l, Forall P l -> P (JArr l).
  Hypothesis HObj : forall l, Forall (fun kv => P (snd kv)) l -> P (JObj l).
  Fixpoint jtree_ind2 (t : jtree) : P t :=
    match t with
    | JNull => HNull | JBool b => HBool b | JNum i z b => HNum i z b | JStr s => HStr s
    | JArr l => HArr l ((fix go (l : list jtree) : Forall P l :=
                           match l with [] => Forall_nil P | x :: r => Forall_cons x (jtree_ind2 x) (go r) end) l)
    | JObj l => HObj l ((fix go (l : list (bytes * jtree)) : Forall (fun kv => P (snd kv)) l :=
                           match l with [] => Forall_nil _ | kv :: r => Forall_cons kv (jtree_ind2 (snd kv)) (go r) end) l)
    end.
End JtreeInd.

(* ------------------------------------------------------------------ list helpers *)
Lemma opt_map_all_ext : forall {A B} (f g : A -> option B) l,
  Forall (fun x => f x = g x) l -> opt_map_all f l = opt_map_all g l.
Proof. intros A B f g l H. induction H; cbn; [reflexivity|]. rewrite H, IHForall. reflexivity. Qed.

Lemma opt_map_all_some : forall {A B} (f : A -> option B) (g : A -> B) l,
  Forall (fun x => f x = Some (g x)) l -> opt_map_all f l = Some (map g l).
Proof. intros A B f g l H. induction H; cbn; [reflexivity|]. rewrite H, IHForall. reflexivity. Qed.

Definition on_snd {A B} (h : A -> B) (kv : bytes * A) : bytes * B := (fst kv, h (snd kv)).

Lemma map_put_map : forall {A B} (h : A -> B) m k v,
  map_put (map (on_snd h) m) k (h v) = map (on_snd h) (map_put m k v).
Proof.
  intros A B h m k v. induction m as [|[k' v'] m IH]; cbn; [reflexivity|].
  destruct (bytes_eqb k k'); cbn; [reflexivity|]. rewrite IH. reflexivity.
Qed.

Lemma dedupe_map_gen : forall {A B} (h : A -> B) l acc,
  fold_left (fun m kv => map_put m (fst kv) (snd kv)) (map (on_snd h) l) (map (on_snd h) acc) =
  map (on_snd h) (fold_left (fun m kv => map_put m (fst kv) (snd kv)) l acc).
Proof.
  intros A B h l. induction l as [|[k v] l IH]; intros acc; cbn; [reflexivity|].
  rewrite map_put_map. apply IH.
Qed.

Lemma dedupe_map : forall {A B} (h : A -> B) l, dedupe (map (on_snd h) l) = map (on_snd h) (dedupe l).
Proof. intros. unfold dedupe. apply (dedupe_map_gen h l []). Qed.

Lemma bytes_eqb_sym : forall a b, bytes_eqb a b = bytes_eqb b a.
Proof.
  induction a as [|x a IH]; destruct b as [|y b]; simpl; try reflexivity.
  rewrite (N.eqb_sym x y), IH. reflexivity.
Qed.

Lemma map_put_fresh : forall {A} (acc : list (bytes * A)) k v, key_in k acc = false -> map_put acc k v = acc ++ [(k, v)].
Proof.
  intros A. induction acc as [|[k' v'] acc IH]; intros k v H; [reflexivity|].
  cbn [key_in existsb fst] in H. apply orb_false_elim in H. destruct H as [H1 H2].
  cbn [map_put]. rewrite H1. cbn [app]. f_equal. apply IH. exact H2.
Qed.

Lemma dedupe_nodup_gen : forall {A} (l acc : list (bytes * A)),
  nodup_keys l = true -> (forall kv, In kv l -> key_in (fst kv) acc = false) ->
  fold_left (fun m kv => map_put m (fst kv) (snd kv)) l acc = acc ++ l.
Proof.
  intros A. induction l as [|[k v] l IH]; intros acc Hn Ha.
  - cbn. rewrite app_nil_r. reflexivity.
  - cbn [nodup_keys] in Hn. apply andb_prop in Hn. destruct Hn as [Hk Hn].
    cbn [fold_left fst snd]. rewrite map_put_fresh by (apply (Ha (k, v)); left; reflexivity).
    rewrite IH; [rewrite <- app_assoc; reflexivity|exact Hn|].
    intros kv Hin. unfold key_in. rewrite existsb_app. fold (key_in (fst kv) acc).
    rewrite (Ha kv) by (right; exact Hin). cbn [orb existsb fst]. rewrite orb_false_r.
    destruct (bytes_eqb (fst kv) k) eqn:E; [|reflexivity].
    exfalso. apply negb_true_iff in Hk. unfold key_in in Hk.
    assert (existsb (fun kv0 => bytes_eqb k (fst kv0)) l = true).
    { apply existsb_exists. exists kv. split; [exact Hin|]. rewrite bytes_eqb_sym. exact E. }
    congruence.
Qed.

Lemma dedupe_nodup : forall {A} (l : list (bytes * A)), nodup_keys l = true -> dedupe l = l.
Proof. intros A l H. unfold dedupe. rewrite dedupe_nodup_gen; [reflexivity|exact H|reflexivity]. Qed.

Lemma key_in_map : forall {A B} (h : A -> B) k l, key_in k (map (on_snd h) l) = key_in k l.
Proof. intros. unfold key_in. induction l as [|[k' v'] l IH]; cbn; [reflexivity|]. rewrite IH. reflexivity. Qed.

Lemma nodup_map : forall {A B} (h : A -> B) l, nodup_keys (map (on_snd h) l) = nodup_keys l.
Proof.
  intros A B h l. induction l as [|[k v] l IH]; [reflexivity|].
  cbn [map on_snd fst snd nodup_keys]. rewrite key_in_map, IH. reflexivity.
Qed.

(* proof-internal restatement of the encoder (it coincides with to_json after the repairs):
   a list is an array, a keyed array and an object are JSON objects with their keys in
   order, an int is an integer token, a finite float is a fraction/exponent token (it stays a
   float when read back); NaN, the infinities and text that is not UTF-8 cannot be encoded *)
Fixpoint spec_to_json (int_bits : Z -> N) (v : pval) : option jtree :=
  match v with
  | PNull => Some JNull
  | PBool b => Some (JBool b)
  | PInt z => Some (JNum true z (int_bits z))
  | PFloat b => if f_finite b then Some (JNum false 0 b) else None
  | PStr s => if utf8_valid s then Some (JStr s) else None
  | PList l => match opt_map_all (spec_to_json int_bits) l with Some ts => Some (JArr ts) | None => None end
  | PMap l | PArr l =>
      match opt_map_all (fun kv => match (if utf8_valid (fst kv) then spec_to_json int_bits (snd kv) else None) with
                                   | Some t => Some (fst kv, t) | None => None end) l with
      | Some ts => Some (JObj ts) | None => None end
  end.


(* ------------------------------------------------------------------ the reader's repeated-key rule = the model's insertion loop *)
Lemma bytes_eqb_eq : forall a b, bytes_eqb a b = true -> a = b.
Proof.
  induction a as [|x a IH]; destruct b as [|y b]; simpl; intros H; try discriminate; [reflexivity|].
  apply andb_prop in H. destruct H as [H1 H2]. f_equal; [lia|apply IH; exact H2].
Qed.

Lemma fold_put_cons : forall {A} (r : list (bytes * A)) k v acc,
  fold_left (fun m kv => map_put m (fst kv) (snd kv)) r ((k, v) :: acc) =
  (k, last_or k r v) :: fold_left (fun m kv => map_put m (fst kv) (snd kv))
                                  (filter (fun kv => negb (bytes_eqb (fst kv) k)) r) acc.
Proof.
  intros A. induction r as [|[k1 v1] r IH]; intros k v acc; [reflexivity|].
  cbn [fold_left fst snd map_put filter last_or]. destruct (bytes_eqb k1 k) eqn:E.
  - apply bytes_eqb_eq in E. subst k1. cbn [negb]. rewrite IH. reflexivity.
  - cbn [negb fold_left fst snd]. rewrite IH. reflexivity.
Qed.

Lemma filter_length_le : forall {A} (p : A -> bool) l, (length (filter p l) <= length l)%nat.
Proof. intros A p l. induction l as [|x l IH]; simpl; [lia|]. destruct (p x); simpl; lia. Qed.

Lemma sp_dedupe_f_eq : forall {A} fuel (l : list (bytes * A)), (length l <= fuel)%nat ->
  sp_dedupe_f fuel l = dedupe l.
Proof.
  intros A. induction fuel as [|f IH]; intros l H.
  - destruct l; [reflexivity|simpl in H; lia].
  - destruct l as [|[k v] r]; [reflexivity|]. cbn [sp_dedupe_f]. unfold dedupe. cbn [fold_left fst snd map_put].
    rewrite fold_put_cons. f_equal. rewrite IH; [reflexivity|].
    pose proof (filter_length_le (fun kv : bytes * A => negb (bytes_eqb (fst kv) k)) r). simpl in H. lia.
Qed.

Lemma sp_dedupe_eq : forall {A} (l : list (bytes * A)), sp_dedupe l = dedupe l.
Proof. intros A l. apply sp_dedupe_f_eq. lia. Qed.

(* ------------------------------------------------------------------ J1: the encoder *)
Lemma encoder_agrees_l : forall ib v, to_json ib v = spec_to_json ib v.
Proof.
  intros ib v. induction v as [| b | z | b | s | l IH | l IH | l IH] using pval_ind2; try reflexivity.
  - cbn [to_json spec_to_json].
    rewrite (opt_map_all_ext (to_json ib) (spec_to_json ib) l); [reflexivity|exact IH].
  - cbn [to_json spec_to_json].
    rewrite (opt_map_all_ext _ (fun kv => match (if utf8_valid (fst kv) then spec_to_json ib (snd kv) else None) with
                                          | Some t => Some (fst kv, t) | None => None end) l); [reflexivity|].
    rewrite Forall_forall in *. intros x Hx. destruct (utf8_valid (fst x)); [rewrite (IH x Hx)|]; reflexivity.
  - cbn [to_json spec_to_json].
    rewrite (opt_map_all_ext _ (fun kv => match (if utf8_valid (fst kv) then spec_to_json ib (snd kv) else None) with
                                          | Some t => Some (fst kv, t) | None => None end) l); [reflexivity|].
    rewrite Forall_forall in *. intros x Hx. destruct (utf8_valid (fst x)); [rewrite (IH x Hx)|]; reflexivity.
Qed.

(* ------------------------------------------------------------------ J2: default-mode decoder *)
Lemma unmarshal_agrees : forall t, unmarshal_value t = spec_of_json false t.
Proof.
  induction t as [| b | i z b | s | l IH | l IH] using jtree_ind2; try reflexivity.
  - cbn [unmarshal_value spec_of_json]. f_equal. apply map_ext_in. intros x Hx.
    rewrite Forall_forall in IH. apply IH. exact Hx.
  - cbn [unmarshal_value spec_of_json]. rewrite sp_dedupe_eq. f_equal. f_equal. apply map_ext_in. intros kv Hin.
    rewrite Forall_forall in IH. rewrite (IH kv Hin). reflexivity.
Qed.

Lemma decode_default_agrees_l : forall t, is_obj t = true -> decode_default t = Some (spec_of_json false t).
Proof. intros t Ho. destruct t; try discriminate. cbn [decode_default]. rewrite unmarshal_agrees. reflexivity. Qed.

(* ------------------------------------------------------------------ J3: assoc-mode decoder *)
Lemma bytes_eqb_nil : forall a b, bytes_eqb a b = true -> is_nil a = is_nil b.
Proof. intros a b H. destruct a, b; simpl in *; try reflexivity; discriminate. Qed.

Lemma fold_put_head : forall {A} (r : list (bytes * A)) k v acc,
  exists k' v' rest, fold_left (fun m kv => map_put m (fst kv) (snd kv)) r ((k, v) :: acc) = (k', v') :: rest
                     /\ is_nil k' = is_nil k.
Proof.
  intros A. induction r as [|[k1 v1] r IH]; intros k v acc.
  - exists k, v, acc. split; reflexivity.
  - cbn [fold_left fst snd map_put]. destruct (bytes_eqb k1 k) eqn:E.
    + destruct (IH k1 v1 acc) as (k' & v' & rest & E1 & E2). exists k', v', rest.
      split; [exact E1|]. rewrite E2. apply bytes_eqb_nil. exact E.
    + apply IH.
Qed.

Lemma dedupe_head_key : forall {A} k (v : A) r, is_nil k = false ->
  forallb (fun kv : bytes * A => is_nil (fst kv)) (dedupe ((k, v) :: r)) = false.
Proof.
  intros A k v r H. unfold dedupe. cbn [fold_left fst snd map_put].
  destruct (fold_put_head r k v []) as (k' & v' & rest & E1 & E2). rewrite E1.
  cbn [forallb fst]. rewrite E2, H. reflexivity.
Qed.

Lemma assoc_agrees : forall t, keys_ok t = true -> assoc_value (unmarshal_value t) = spec_of_json true t.
Proof.
  induction t as [| b | i z b | s | l IH | l IH] using jtree_ind2; intros K; try reflexivity.
  - cbn [unmarshal_value spec_of_json]. destruct i; [destruct (int64_ok z)|]; reflexivity.
  - cbn [keys_ok] in K. cbn [unmarshal_value assoc_value spec_of_json]. f_equal. rewrite map_map.
    apply map_ext_in. intros x Hx. rewrite Forall_forall in IH. apply IH; [exact Hx|].
    rewrite forallb_forall in K. apply K. exact Hx.
  - cbn [keys_ok] in K. cbn [unmarshal_value assoc_value spec_of_json]. rewrite sp_dedupe_eq.
    assert (E : map (fun kv : bytes * pval => (fst kv, assoc_value (snd kv)))
                    (dedupe (map (fun kv : bytes * jtree => (fst kv, unmarshal_value (snd kv))) l)) =
                dedupe (map (fun kv : bytes * jtree => (fst kv, spec_of_json true (snd kv))) l)).
    { change (fun kv : bytes * pval => (fst kv, assoc_value (snd kv))) with (@on_snd pval pval assoc_value).
      rewrite <- dedupe_map. f_equal. rewrite map_map. apply map_ext_in. intros kv Hin.
      unfold on_snd. cbn [fst snd]. rewrite Forall_forall in IH. rewrite (IH kv Hin); [reflexivity|].
      rewrite forallb_forall in K. specialize (K kv Hin). apply andb_prop in K. apply K. }
    cbv zeta. rewrite E. clear E.
    destruct l as [|[k0 t0] l']; [reflexivity|].
    cbn [map fst snd]. rewrite dedupe_head_key.
    + match goal with |- _ = mk_arr ?X => destruct X eqn:D end; [|reflexivity].
      unfold dedupe in D. cbn [fold_left fst snd map_put] in D.
      destruct (fold_put_head (map (fun kv : bytes * jtree => (fst kv, spec_of_json true (snd kv))) l') k0
                              (spec_of_json true t0) []) as (k' & v' & rest & E1 & _).
      rewrite E1 in D. discriminate.
    + cbn [forallb fst] in K. apply andb_prop in K. destruct K as [K0 _].
      apply andb_prop in K0. destruct K0 as [K0 _]. apply negb_true_iff in K0. exact K0.
Qed.

Lemma decode_assoc_agrees_l : forall t, keys_ok t = true -> decode_assoc t = Some (spec_of_json true t).
Proof. intros t K. unfold decode_assoc. rewrite assoc_agrees by exact K. reflexivity. Qed.

(* with the nesting limit *)
Lemma json_decode_default_agrees_l : forall depth t, is_obj t = true ->
  json_decode false depth t = spec_decode false depth t.
Proof. intros depth t H. unfold json_decode, spec_decode. rewrite decode_default_agrees_l by exact H. reflexivity. Qed.
Lemma json_decode_assoc_agrees_l : forall depth t, keys_ok t = true ->
  json_decode true depth t = spec_decode true depth t.
Proof. intros depth t H. unfold json_decode, spec_decode. rewrite decode_assoc_agrees_l by exact H. reflexivity. Qed.

(* ------------------------------------------------------------------ J4: the reference reading round-trips *)
Lemma spec_roundtrip_l : forall ib assoc v, spec_ok v = true ->
  exists t, spec_to_json ib v = Some t /\ spec_of_json assoc t = view assoc v.
Proof.
  intros ib assoc v. induction v as [| b | z | b | s | l IH | l IH | l IH] using pval_ind2; intros H.
  - exists JNull. split; reflexivity.
  - exists (JBool b). split; reflexivity.
  - cbn [spec_ok] in H. exists (JNum true z (ib z)). split; [reflexivity|]. cbn [spec_of_json]. rewrite H. reflexivity.
  - cbn [spec_ok] in H. exists (JNum false 0 b). split; [cbn [spec_to_json]; rewrite H; reflexivity|reflexivity].
  - cbn [spec_ok] in H. exists (JStr s). split; [cbn [spec_to_json]; rewrite H; reflexivity|reflexivity].
  - cbn [spec_ok] in H.
    assert (exists ts, opt_map_all (spec_to_json ib) l = Some ts /\ map (spec_of_json assoc) ts = map (view assoc) l)
      as (ts & E1 & E2).
    { induction IH as [|x l Hx Hl IHl]; [exists []; split; reflexivity|].
      cbn [forallb] in H. apply andb_prop in H. destruct H as [H1 H2].
      destruct (Hx H1) as (t & Et & Ev). destruct (IHl H2) as (ts & E1 & E2).
      exists (t :: ts). split; [cbn; rewrite Et, E1; reflexivity|cbn; rewrite Ev, E2; reflexivity]. }
    exists (JArr ts). split; [cbn [spec_to_json]; rewrite E1; reflexivity|cbn [spec_of_json view]; rewrite E2; reflexivity].
  - cbn [spec_ok] in H. apply andb_prop in H. destruct H as [Hn H].
    assert (exists ts, opt_map_all (fun kv => match (if utf8_valid (fst kv) then spec_to_json ib (snd kv) else None) with
                                              | Some t => Some (fst kv, t) | None => None end) l = Some ts /\
                       map (on_snd (spec_of_json assoc)) ts = map (on_snd (view assoc)) l)
      as (ts & E1 & E2).
    { clear Hn. induction IH as [|[k x] l Hx Hl IHl]; [exists []; split; reflexivity|].
      cbn [forallb fst snd] in H. apply andb_prop in H. destruct H as [H1 H2]. cbn [snd] in Hx.
      apply andb_prop in H1. destruct H1 as [U1 H1].
      destruct (Hx H1) as (t & Et & Ev). destruct (IHl H2) as (ts & E1 & E2).
      exists ((k, t) :: ts). split; [cbn; rewrite U1, Et, E1; reflexivity|].
      cbn [map]. unfold on_snd at 1 3. cbn [fst snd]. rewrite Ev, E2. reflexivity. }
    exists (JObj ts). split; [cbn [spec_to_json]; rewrite E1; reflexivity|].
    cbn [spec_of_json view]. rewrite sp_dedupe_eq. fold (@on_snd jtree pval (spec_of_json assoc)). rewrite E2.
    rewrite dedupe_nodup by (rewrite nodup_map; exact Hn). reflexivity.
  - cbn [spec_ok] in H. apply andb_prop in H. destruct H as [Hn H].
    assert (exists ts, opt_map_all (fun kv => match (if utf8_valid (fst kv) then spec_to_json ib (snd kv) else None) with
                                              | Some t => Some (fst kv, t) | None => None end) l = Some ts /\
                       map (on_snd (spec_of_json assoc)) ts = map (on_snd (view assoc)) l)
      as (ts & E1 & E2).
    { clear Hn. induction IH as [|[k x] l Hx Hl IHl]; [exists []; split; reflexivity|].
      cbn [forallb fst snd] in H. apply andb_prop in H. destruct H as [H1 H2]. cbn [snd] in Hx.
      apply andb_prop in H1. destruct H1 as [U1 H1].
      destruct (Hx H1) as (t & Et & Ev). destruct (IHl H2) as (ts & E1 & E2).
      exists ((k, t) :: ts). split; [cbn; rewrite U1, Et, E1; reflexivity|].
      cbn [map]. unfold on_snd at 1 3. cbn [fst snd]. rewrite Ev, E2. reflexivity. }
    exists (JObj ts). split; [cbn [spec_to_json]; rewrite E1; reflexivity|].
    cbn [spec_of_json view]. rewrite sp_dedupe_eq. fold (@on_snd jtree pval (spec_of_json assoc)). rewrite E2.
    rewrite dedupe_nodup by (rewrite nodup_map; exact Hn). reflexivity.
Qed.

(* ------------------------------------------------------------------ J5: round trips of today's code *)
Lemma opt_map_all_inv : forall {A B} (f : A -> option B) l ts,
  opt_map_all f l = Some ts -> Forall2 (fun x y => f x = Some y) l ts.
Proof.
  intros A B f. induction l as [|x l IH]; intros ts H; cbn in H.
  - inversion H. constructor.
  - destruct (f x) eqn:E; [|discriminate]. destruct (opt_map_all f l) eqn:E2; [|discriminate].
    inversion H; subst. constructor; [exact E|apply IH; reflexivity].
Qed.

Lemma spec_tree_keys : forall ib v t, vkeys_ok v = true -> spec_to_json ib v = Some t -> keys_ok t = true.
Proof.
  intros ib v. induction v as [| b | z | b | s | l IH | l IH | l IH] using pval_ind2; intros t Ha Ht;
    cbn [spec_to_json] in Ht.
  - inversion Ht; reflexivity.
  - inversion Ht; reflexivity.
  - inversion Ht; reflexivity.
  - destruct (f_finite b); inversion Ht; reflexivity.
  - destruct (utf8_valid s); inversion Ht; reflexivity.
  - destruct (opt_map_all (spec_to_json ib) l) as [ts|] eqn:E; [|discriminate]. inversion Ht; subst.
    apply opt_map_all_inv in E. cbn [vkeys_ok] in Ha. cbn [keys_ok].
    induction E as [|x y l ts Hxy E IHE]; [reflexivity|].
    inversion IH as [|x0 l0 P1 P2]; subst. cbn [forallb] in *.
    apply andb_prop in Ha. destruct Ha as [A1 A2].
    rewrite (P1 y A1 Hxy). cbn [andb]. apply IHE; auto.
  - destruct (opt_map_all _ l) as [ts|] eqn:E; [|discriminate]. inversion Ht; subst.
    apply opt_map_all_inv in E. cbn [vkeys_ok] in Ha. cbn [keys_ok].
    induction E as [|[k x] [k' y] l ts Hxy E IHE]; [reflexivity|].
    inversion IH as [|x0 l0 P1 P2]; subst. cbn [forallb fst snd] in *.
    apply andb_prop in Ha. destruct Ha as [A1 A2]. apply andb_prop in A1. destruct A1 as [A0 A1].
    destruct (utf8_valid k); [|discriminate].
    destruct (spec_to_json ib x) as [t0|] eqn:Ex; [|discriminate]. inversion Hxy; subst.
    rewrite (P1 y A1 eq_refl), A0. cbn [andb]. apply IHE; auto.
  - destruct (opt_map_all _ l) as [ts|] eqn:E; [|discriminate]. inversion Ht; subst.
    apply opt_map_all_inv in E. cbn [vkeys_ok] in Ha. cbn [keys_ok].
    induction E as [|[k x] [k' y] l ts Hxy E IHE]; [reflexivity|].
    inversion IH as [|x0 l0 P1 P2]; subst. cbn [forallb fst snd] in *.
    apply andb_prop in Ha. destruct Ha as [A1 A2]. apply andb_prop in A1. destruct A1 as [A0 A1].
    destruct (utf8_valid k); [|discriminate].
    destruct (spec_to_json ib x) as [t0|] eqn:Ex; [|discriminate]. inversion Hxy; subst.
    rewrite (P1 y A1 eq_refl), A0. cbn [andb]. apply IHE; auto.
Qed.

Lemma json_roundtrip_default_l : forall ib depth l, let v := PMap l in
  spec_ok v = true -> (nesting (view false v) <= depth)%Z ->
  exists t, json_encode ib v = Some t /\ json_decode false depth t = Some (view false v).
Proof.
  intros ib depth l v Hs Hd. unfold json_encode. rewrite encoder_agrees_l.
  destruct (spec_roundtrip_l ib false v Hs) as (t & Et & Ev). exists t. split; [exact Et|].
  assert (Ho : is_obj t = true).
  { unfold v in Et. cbn [spec_to_json] in Et. destruct (opt_map_all _ l); inversion Et; reflexivity. }
  rewrite json_decode_default_agrees_l by exact Ho. unfold spec_decode. rewrite Ev.
  replace (depth <? nesting (view false v))%Z with false by lia. reflexivity.
Qed.

Lemma json_roundtrip_assoc_l : forall ib depth v,
  spec_ok v = true -> vkeys_ok v = true -> (nesting (view true v) <= depth)%Z ->
  exists t, json_encode ib v = Some t /\ json_decode true depth t = Some (view true v).
Proof.
  intros ib depth v Hs Hk Hd. unfold json_encode. rewrite encoder_agrees_l.
  destruct (spec_roundtrip_l ib true v Hs) as (t & Et & Ev). exists t. split; [exact Et|].
  rewrite json_decode_assoc_agrees_l by (eapply spec_tree_keys; eauto). unfold spec_decode. rewrite Ev.
  replace (depth <? nesting (view true v))%Z with false by lia. reflexivity.
Qed.

(* ------------------------------------------------------------------ the encoder, stated against the reader *)
Lemma json_encode_denotes_l : forall ib assoc v, spec_ok v = true ->
  exists t, json_encode ib v = Some t /\ spec_of_json assoc t = view assoc v.
Proof.
  intros ib assoc v H. unfold json_encode. rewrite encoder_agrees_l. apply spec_roundtrip_l. exact H.
Qed.

Lemma opt_map_all_none : forall {A B} (f : A -> option B) l,
  opt_map_all f l = None <-> exists x, In x l /\ f x = None.
Proof.
  intros A B f. induction l as [|x l IH]; cbn.
  - split; [discriminate|intros (x & [] & _)].
  - destruct (f x) eqn:E.
    + destruct (opt_map_all f l) eqn:E2.
      * split; [discriminate|]. intros (y & [<-|Hy] & Hn); [congruence|].
        assert (@None (list B) = None) as _ by reflexivity.
        destruct IH as [_ IH]. discriminate IH. exists y. auto.
      * split; [|reflexivity]. intros _. destruct IH as [IH _]. destruct (IH eq_refl) as (y & Hy & Hn).
        exists y. auto.
    + split; [|reflexivity]. intros _. exists x. auto.
Qed.

Lemma json_encode_refuses_l : forall ib v, json_encode ib v = None <-> encodable v = false.
Proof.
  intros ib v. unfold json_encode.
  induction v as [| b | z | b | s | l IH | l IH | l IH] using pval_ind2; cbn [to_json encodable].
  - split; discriminate.
  - split; discriminate.
  - split; discriminate.
  - destruct (f_finite b); split; congruence.
  - destruct (utf8_valid s); split; congruence.
  - destruct (opt_map_all (to_json ib) l) eqn:E.
    + split; [discriminate|]. intros Hf. exfalso.
      assert (exists x, In x l /\ encodable x = false) as (x & Hx & Hn).
      { clear -Hf. induction l as [|y l IHl]; [discriminate|]. cbn [forallb] in Hf.
        destruct (encodable y) eqn:Ey; [|exists y; split; [left; reflexivity|exact Ey]].
        destruct (IHl Hf) as (x & Hx & Hn). exists x. split; [right; exact Hx|exact Hn]. }
      rewrite Forall_forall in IH. apply (IH x Hx) in Hn.
      assert (opt_map_all (to_json ib) l = None) by (apply opt_map_all_none; exists x; auto). congruence.
    + split; [|reflexivity]. intros _. apply opt_map_all_none in E. destruct E as (x & Hx & Hn).
      rewrite Forall_forall in IH. apply (IH x Hx) in Hn.
      clear -Hx Hn. induction l as [|y l IHl]; [destruct Hx|]. cbn [forallb]. destruct Hx as [<-|Hx].
      * rewrite Hn. reflexivity.
      * rewrite (IHl Hx). apply andb_false_r.
  - match goal with |- context [opt_map_all ?f l] => set (g := f) end.
    assert (Hg : forall kv, In kv l -> (g kv = None <-> (utf8_valid (fst kv) && encodable (snd kv)) = false)).
    { intros kv Hin. unfold g. rewrite Forall_forall in IH. specialize (IH kv Hin).
      destruct (utf8_valid (fst kv)); cbn [andb]; [|split; reflexivity].
      destruct (to_json ib (snd kv)) eqn:E; split; intros H; try discriminate; try reflexivity.
      - apply IH in H. discriminate.
      - apply IH. reflexivity. }
    destruct (opt_map_all g l) eqn:E.
    + split; [discriminate|]. intros Hf. exfalso.
      assert (exists x, In x l /\ (utf8_valid (fst x) && encodable (snd x)) = false) as (x & Hx & Hn).
      { clear -Hf. induction l as [|y l IHl]; [discriminate|]. cbn [forallb] in Hf.
        destruct (utf8_valid (fst y) && encodable (snd y)) eqn:Ey; [|exists y; split; [left; reflexivity|exact Ey]].
        destruct (IHl Hf) as (x & Hx & Hn). exists x. split; [right; exact Hx|exact Hn]. }
      apply (Hg x Hx) in Hn.
      assert (opt_map_all g l = None) by (apply opt_map_all_none; exists x; auto). congruence.
    + split; [|reflexivity]. intros _. apply opt_map_all_none in E. destruct E as (x & Hx & Hn).
      apply (Hg x Hx) in Hn.
      clear -Hx Hn. induction l as [|y l IHl]; [destruct Hx|]. cbn [forallb]. destruct Hx as [<-|Hx].
      * rewrite Hn. reflexivity.
      * rewrite (IHl Hx). apply andb_false_r.
  - match goal with |- context [opt_map_all ?f l] => set (g := f) end.
    assert (Hg : forall kv, In kv l -> (g kv = None <-> (utf8_valid (fst kv) && encodable (snd kv)) = false)).
    { intros kv Hin. unfold g. rewrite Forall_forall in IH. specialize (IH kv Hin).
      destruct (utf8_valid (fst kv)); cbn [andb]; [|split; reflexivity].
      destruct (to_json ib (snd kv)) eqn:E; split; intros H; try discriminate; try reflexivity.
      - apply IH in H. discriminate.
      - apply IH. reflexivity. }
    destruct (opt_map_all g l) eqn:E.
    + split; [discriminate|]. intros Hf. exfalso.
      assert (exists x, In x l /\ (utf8_valid (fst x) && encodable (snd x)) = false) as (x & Hx & Hn).
      { clear -Hf. induction l as [|y l IHl]; [discriminate|]. cbn [forallb] in Hf.
        destruct (utf8_valid (fst y) && encodable (snd y)) eqn:Ey; [|exists y; split; [left; reflexivity|exact Ey]].
        destruct (IHl Hf) as (x & Hx & Hn). exists x. split; [right; exact Hx|exact Hn]. }
      apply (Hg x Hx) in Hn.
      assert (opt_map_all g l = None) by (apply opt_map_all_none; exists x; auto). congruence.
    + split; [|reflexivity]. intros _. apply opt_map_all_none in E. destruct E as (x & Hx & Hn).
      apply (Hg x Hx) in Hn.
      clear -Hx Hn. induction l as [|y l IHl]; [destruct Hx|]. cbn [forallb]. destruct Hx as [<-|Hx].
      * rewrite Hn. reflexivity.
      * rewrite (IHl Hx). apply andb_false_r.
Qed.

(* ------------------------------------------------------------------ the validator table = RFC 3629 *)
Lemma utf8_valid_enc : forall cp r, scalar cp -> utf8_valid (utf8_enc cp ++ r) = utf8_valid r.
Proof.
  intros cp r [H1 H2]. unfold utf8_enc.
  destruct (cp <? 128) eqn:E1.
  { cbn [app utf8_valid]. rewrite E1. reflexivity. }
  destruct (cp <? 2048) eqn:E2.
  { cbn [app utf8_valid].
    replace (192 + cp / 64 <? 128) with false by lia.
    replace ((194 <=? 192 + cp / 64) && (192 + cp / 64 <=? 223)) with true by lia.
    unfold cont. replace ((128 <=? 128 + cp mod 64) && (128 + cp mod 64 <=? 191)) with true by lia. reflexivity. }
  destruct (cp <? 65536) eqn:E3.
  { cbn [app utf8_valid].
    replace (224 + cp / 4096 <? 128) with false by lia.
    replace ((194 <=? 224 + cp / 4096) && (224 + cp / 4096 <=? 223)) with false by lia.
    replace ((224 <=? 224 + cp / 4096) && (224 + cp / 4096 <=? 239)) with true by lia.
    unfold cont.
    replace ((128 <=? 128 + cp mod 64) && (128 + cp mod 64 <=? 191)) with true by lia.
    destruct (224 + cp / 4096 =? 224) eqn:EA.
    - replace ((160 <=? 128 + (cp / 64) mod 64) && (128 + (cp / 64) mod 64 <=? 191)) with true by lia. reflexivity.
    - destruct (224 + cp / 4096 =? 237) eqn:EB.
      + replace ((128 <=? 128 + (cp / 64) mod 64) && (128 + (cp / 64) mod 64 <=? 159)) with true by lia. reflexivity.
      + replace ((128 <=? 128 + (cp / 64) mod 64) && (128 + (cp / 64) mod 64 <=? 191)) with true by lia. reflexivity. }
  cbn [app utf8_valid].
  replace (240 + cp / 262144 <? 128) with false by lia.
  replace ((194 <=? 240 + cp / 262144) && (240 + cp / 262144 <=? 223)) with false by lia.
  replace ((224 <=? 240 + cp / 262144) && (240 + cp / 262144 <=? 239)) with false by lia.
  replace ((240 <=? 240 + cp / 262144) && (240 + cp / 262144 <=? 244)) with true by lia.
  unfold cont.
  replace ((128 <=? 128 + cp mod 64) && (128 + cp mod 64 <=? 191)) with true by lia.
  replace ((128 <=? 128 + (cp / 64) mod 64) && (128 + (cp / 64) mod 64 <=? 191)) with true by lia.
  destruct (240 + cp / 262144 =? 240) eqn:EA.
  - replace ((144 <=? 128 + (cp / 4096) mod 64) && (128 + (cp / 4096) mod 64 <=? 191)) with true by lia. reflexivity.
  - destruct (240 + cp / 262144 =? 244) eqn:EB.
    + replace ((128 <=? 128 + (cp / 4096) mod 64) && (128 + (cp / 4096) mod 64 <=? 143)) with true by lia. reflexivity.
    + replace ((128 <=? 128 + (cp / 4096) mod 64) && (128 + (cp / 4096) mod 64 <=? 191)) with true by lia. reflexivity.
Qed.

Lemma utf8_text_cons : forall cp r, scalar cp -> utf8_text r -> utf8_text (utf8_enc cp ++ r).
Proof. intros cp r Hc (cps & Hs & ->). exists (cp :: cps). split; [constructor; assumption|reflexivity]. Qed.

Lemma utf8_valid_text_n : forall n s, (length s <= n)%nat -> utf8_valid s = true -> utf8_text s.
Proof.
  induction n as [|n IH]; intros s Hl H.
  { destruct s; [exists []; split; [constructor|reflexivity]|simpl in Hl; lia]. }
  destruct s as [|b r]; [exists []; split; [constructor|reflexivity]|].
  cbn [length] in Hl. cbn [utf8_valid] in H.
  destruct (b <? 128) eqn:E1.
  { assert (Hs : scalar b) by (unfold scalar; lia).
    pose proof (utf8_text_cons b r Hs (IH r ltac:(lia) H)) as T. unfold utf8_enc in T. rewrite E1 in T. exact T. }
  destruct ((194 <=? b) && (b <=? 223)) eqn:E2.
  { destruct r as [|c1 r1]; [discriminate|]. apply andb_prop in H. destruct H as [Hc1 Hr]. unfold cont in Hc1.
    cbn [length] in Hl.
    set (cp := (b - 192) * 64 + (c1 - 128)).
    assert (Hs : scalar cp) by (unfold scalar, cp; lia).
    pose proof (utf8_text_cons cp r1 Hs (IH r1 ltac:(lia) Hr)) as T. unfold utf8_enc in T.
    replace (cp <? 128) with false in T by (unfold cp; lia). replace (cp <? 2048) with true in T by (unfold cp; lia).
    replace (192 + cp / 64) with b in T by (unfold cp; lia). replace (128 + cp mod 64) with c1 in T by (unfold cp; lia).
    exact T. }
  destruct ((224 <=? b) && (b <=? 239)) eqn:E3.
  { destruct r as [|c1 [|c2 r2]]; try discriminate.
    apply andb_prop in H. destruct H as [H Hr]. apply andb_prop in H. destruct H as [Hc1 Hc2]. unfold cont in *.
    cbn [length] in Hl.
    set (cp := (b - 224) * 4096 + (c1 - 128) * 64 + (c2 - 128)).
    assert (Hb1 : 128 <= c1 /\ c1 <= 191 /\ (b = 224 -> 160 <= c1) /\ (b = 237 -> c1 <= 159)).
    { destruct (b =? 224) eqn:EA; [lia|]. destruct (b =? 237) eqn:EB; lia. }
    assert (Hs : scalar cp) by (unfold scalar, cp; lia).
    pose proof (utf8_text_cons cp r2 Hs (IH r2 ltac:(lia) Hr)) as T. unfold utf8_enc in T.
    replace (cp <? 128) with false in T by (unfold cp; lia). replace (cp <? 2048) with false in T by (unfold cp; lia).
    replace (cp <? 65536) with true in T by (unfold cp; lia).
    replace (224 + cp / 4096) with b in T by (unfold cp; lia).
    replace (128 + (cp / 64) mod 64) with c1 in T by (unfold cp; lia).
    replace (128 + cp mod 64) with c2 in T by (unfold cp; lia).
    exact T. }
  destruct ((240 <=? b) && (b <=? 244)) eqn:E4; [|discriminate].
  destruct r as [|c1 [|c2 [|c3 r3]]]; try discriminate.
  apply andb_prop in H. destruct H as [H Hr]. apply andb_prop in H. destruct H as [H Hc3].
  apply andb_prop in H. destruct H as [Hc1 Hc2]. unfold cont in *.
  cbn [length] in Hl.
  set (cp := (b - 240) * 262144 + (c1 - 128) * 4096 + (c2 - 128) * 64 + (c3 - 128)).
  assert (Hb1 : 128 <= c1 /\ c1 <= 191 /\ (b = 240 -> 144 <= c1) /\ (b = 244 -> c1 <= 143)).
  { destruct (b =? 240) eqn:EA; [lia|]. destruct (b =? 244) eqn:EB; lia. }
  assert (Hs : scalar cp) by (unfold scalar, cp; lia).
  pose proof (utf8_text_cons cp r3 Hs (IH r3 ltac:(lia) Hr)) as T. unfold utf8_enc in T.
  replace (cp <? 128) with false in T by (unfold cp; lia). replace (cp <? 2048) with false in T by (unfold cp; lia).
  replace (cp <? 65536) with false in T by (unfold cp; lia).
  replace (240 + cp / 262144) with b in T by (unfold cp; lia).
  replace (128 + (cp / 4096) mod 64) with c1 in T by (unfold cp; lia).
  replace (128 + (cp / 64) mod 64) with c2 in T by (unfold cp; lia).
  replace (128 + cp mod 64) with c3 in T by (unfold cp; lia).
  exact T.
Qed.

Lemma utf8_valid_iff_text_l : forall s, utf8_valid s = true <-> utf8_text s.
Proof.
  intros s. split.
  - apply (utf8_valid_text_n (length s)). lia.
  - intros (cps & Hs & ->). induction Hs as [|cp cps Hc Hcs IH]; [reflexivity|].
    cbn [flat_map]. rewrite utf8_valid_enc by exact Hc. exact IH.
Qed.
