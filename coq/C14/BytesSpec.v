(* C14 (2) — what the formats are (RFC 4648 base64 text, hexadecimal text, RFC 3986
   percent-encoded text) and the reference hex decoder.  No proofs in this file. *)
From Coq Require Import List NArith Bool.
From V.C14 Require Import BytesModel.
Import ListNotations.
Open Scope N_scope.

Definition bytes_ok (s : bytes) : Prop := Forall (fun c => c < 256) s.

(* RFC 4648 section 4: the base64 alphabet, and a base64 text: 4-character groups, the last of
   which may end in one or two '=' *)
Definition b64_alpha (c : N) : Prop :=
  (65 <= c /\ c <= 90) \/ (97 <= c /\ c <= 122) \/ (48 <= c /\ c <= 57) \/ c = 43 \/ c = 47.
Inductive b64_text : bytes -> Prop :=
| bt_nil : b64_text []
| bt_full : forall c0 c1 c2 c3 r, b64_alpha c0 -> b64_alpha c1 -> b64_alpha c2 -> b64_alpha c3 ->
            b64_text r -> b64_text (c0 :: c1 :: c2 :: c3 :: r)
| bt_pad1 : forall c0 c1 c2, b64_alpha c0 -> b64_alpha c1 -> b64_alpha c2 -> b64_text [c0; c1; c2; 61]
| bt_pad2 : forall c0 c1, b64_alpha c0 -> b64_alpha c1 -> b64_text [c0; c1; 61; 61].

(* lower-case hexadecimal text and its decoder (what encoding/hex.DecodeString computes) *)
Definition hex_lower_digit (c : N) : Prop := (48 <= c /\ c <= 57) \/ (97 <= c /\ c <= 102).
Fixpoint hex_decode (s : bytes) : option bytes :=
  match s with
  | [] => Some []
  | h :: l :: r => match unhex h, unhex l with
                   | Some a, Some b => match hex_decode r with
                                       | Some t => Some ((a * 16 + b) :: t) | None => None end
                   | _, _ => None end
  | _ => None
  end.

(* RFC 3986: unreserved = ALPHA / DIGIT / "-" / "." / "_" / "~"; pct-encoded = "%" HEXDIG HEXDIG
   (upper case, section 2.1).  A percent-encoded text consists of these only; a form-encoded
   (application/x-www-form-urlencoded) text may additionally use '+' for a space. *)
Definition rfc_unreserved (c : N) : Prop :=
  (65 <= c /\ c <= 90) \/ (97 <= c /\ c <= 122) \/ (48 <= c /\ c <= 57)
  \/ c = 45 \/ c = 46 \/ c = 95 \/ c = 126.
Definition upper_hexdig (c : N) : Prop := (48 <= c /\ c <= 57) \/ (65 <= c /\ c <= 70).
Inductive pct_text (plus : bool) : bytes -> Prop :=
| pt_nil : pct_text plus []
| pt_unres : forall c r, rfc_unreserved c -> pct_text plus r -> pct_text plus (c :: r)
| pt_pct : forall h l r, upper_hexdig h -> upper_hexdig l -> pct_text plus r ->
           pct_text plus (37 :: h :: l :: r)
| pt_plus : forall r, plus = true -> pct_text plus r -> pct_text plus (43 :: r).

(* the inputs the URL decoders decode (rather than return unchanged) *)
Inductive pct_escaped : bytes -> Prop :=     (* every '%' is followed by two hex digits *)
| pe_nil : pct_escaped []
| pe_pct : forall h l r a b, unhex h = Some a -> unhex l = Some b -> pct_escaped r -> pct_escaped (37 :: h :: l :: r)
| pe_other : forall c r, c <> 37 -> pct_escaped r -> pct_escaped (c :: r).

