(* C14 (1) — the parser of std/protowire/parser.go against the wire grammar:
   soundness (accepted => well-formed, every byte accounted for), fuel sufficiency (totality),
   completeness (well-formed => accepted with that very tree), decode(encode t) = t, depth limit. *)
From Coq Require Import List NArith ZArith Bool Lia.
From Coq Require Import ZifyN ZifyNat ZifyBool.
From V.C14 Require Import WireModel WireSpec WireLemmas.
Import ListNotations.
Open Scope N_scope.
Ltac Zify.zify_post_hook ::= Z.div_mod_to_equations.

(* ------------------------------------------------------------------ unfolding equations *)
Lemma pf_loop_S : forall f o depth d, pf_loop (S f) o depth d =
  match d with
  | [] => Ok []
  | _ => match consume_tag d with
         | TErr => Err EInvalidTag
         | Tag num wt r =>
           if wt =? 4 then Err EUnexpectedEndGroup
           else match consume_value f o depth num wt r with
                | Ok (fld, r') => match pf_loop f o depth r' with Ok fs => Ok (fld :: fs) | e => e end
                | Err e => Err e
                | OutOfFuel => OutOfFuel
                end
         end
  end.
Proof. reflexivity. Qed.

Lemma cg_loop_S : forall f o depth gnum d, cg_loop (S f) o depth gnum d =
  match d with
  | [] => Err EUnexpectedEnd
  | _ => match consume_tag d with
         | TErr => Err EInvalidTag
         | Tag num wt r =>
           if wt =? 4 then (if num =? gnum then Ok ([], r) else Err EOther)
           else match consume_value f o depth num wt r with
                | Ok (fld, r') => match cg_loop f o depth gnum r' with
                                  | Ok (fs, r'') => Ok (fld :: fs, r'')
                                  | e => e end
                | Err e => Err e
                | OutOfFuel => OutOfFuel
                end
         end
  end.
Proof. reflexivity. Qed.

Lemma consume_value_S : forall f o depth num wt d, consume_value (S f) o depth num wt d =
  match wt with
  | 0 => match consume_varint d with Val v r => Ok (FVarint num v, r) | _ => Err EInvalidVarint end
  | 1 => match consume_fixed64 d with Some (v, r) => Ok (FFixed64 num v, r) | None => Err EInvalidFixed64 end
  | 2 => match consume_bytes d with
         | None => Err EInvalidLength
         | Some (payload, r) =>
           if memN num (o_packed o) then
             match lookupN num (o_pelem o) with
             | None => Err EOther
             | Some et => match unpack_packed et payload with
                          | Ok vs => Ok (FPacked num et vs, r) | Err e => Err e | OutOfFuel => OutOfFuel end
             end
           else if memN num (o_msg o) then
             if o_max o <=? depth + 1 then Err EMaxDepth
             else match pf_loop f o (depth + 1) payload with
                  | Ok fs => Ok (FMsg num fs, r) | Err e => Err e | OutOfFuel => OutOfFuel end
           else Ok (FBytes num payload, r)
         end
  | 3 => if o_max o <=? depth + 1 then Err EMaxDepth
         else match cg_loop f o (depth + 1) num d with
              | Ok (fs, r) => Ok (FGroup num fs, r) | Err e => Err e | OutOfFuel => OutOfFuel end
  | 4 => Err EUnexpectedEndGroup
  | 5 => match consume_fixed32 d with Some (v, r) => Ok (FFixed32 num v, r) | None => Err EInvalidFixed32 end
  | _ => Err EOther
  end.
Proof. reflexivity. Qed.

(* all wire types: 0..5 and "anything else" *)
Ltac case_wt wt :=
  destruct wt as [|[[[?p|?p|]|[?p|?p|]|]|[[?p|?p|]|[?p|?p|]|]|]].

(* the grammar's nested clauses, folded *)
Lemma value_repr_msg : forall o lvl num fs a, value_repr o lvl (FMsg num fs) a <->
  memN num (o_packed o) = false /\ memN num (o_msg o) = true /\ lvl + 1 < o_max o /\
  exists l p, a = l ++ p /\ varint_repr l (N.of_nat (length p)) /\ fields_repr o (lvl + 1) fs p.
Proof. intros. reflexivity. Qed.
Lemma value_repr_group : forall o lvl num fs a, value_repr o lvl (FGroup num fs) a <->
  lvl + 1 < o_max o /\
  exists body e, a = body ++ e /\ tag_repr e num 4 /\ fields_repr o (lvl + 1) fs body.
Proof. intros. reflexivity. Qed.

Lemma fields_repr_cons : forall o lvl f fs d, fields_repr o lvl (f :: fs) d <->
  exists a b, d = a ++ b /\ field_repr o lvl f a /\ fields_repr o lvl fs b.
Proof. intros. reflexivity. Qed.

Lemma fwt_not_4 : forall f, (fwt f =? 4) = false.
Proof. destruct f; reflexivity. Qed.

Section WithOpts.
Variable o : opts.

(* ------------------------------------------------------------------ soundness *)
Definition S_pf (fuel : nat) := forall depth d fs,
  pf_loop fuel o depth d = Ok fs -> fields_repr o depth fs d.
Definition S_cv (fuel : nat) := forall depth num wt d f r,
  consume_value fuel o depth num wt d = Ok (f, r) ->
  fnum f = num /\ fwt f = wt /\ exists a, d = a ++ r /\ value_repr o depth f a.
Definition S_cg (fuel : nat) := forall depth gnum d fs r,
  cg_loop fuel o depth gnum d = Ok (fs, r) ->
  exists body e, d = body ++ e ++ r /\ tag_repr e gnum 4 /\ fields_repr o depth fs body.

Lemma sound_all : forall fuel, S_pf fuel /\ S_cv fuel /\ S_cg fuel.
Proof.
  induction fuel as [|fuel (IHpf & IHcv & IHcg)].
  { split; [|split]; red; intros; discriminate. }
  split; [|split].
  - (* parseFields loop *)
    intros depth d fs H. rewrite pf_loop_S in H.
    destruct d as [|y d']; [inversion H; reflexivity|].
    destruct (consume_tag (y :: d')) as [num wt r|] eqn:ET; try discriminate.
    destruct (wt =? 4) eqn:E4; try discriminate.
    destruct (consume_value fuel o depth num wt r) as [[fld r']| |] eqn:EV; try discriminate.
    destruct (pf_loop fuel o depth r') as [fs'| |] eqn:EP; try discriminate.
    inversion H; subst fs. clear H.
    apply consume_tag_inv in ET. destruct ET as (t & ET & Ht).
    apply IHcv in EV. destruct EV as (Hn & Hw & a & -> & Hv).
    apply IHpf in EP. rewrite ET.
    apply fields_repr_cons. exists (t ++ a), r'. split; [rewrite app_assoc; reflexivity|].
    split; [|exact EP]. exists t, a. split; [reflexivity|]. rewrite Hn, Hw. split; assumption.
  - (* consumeFieldValue *)
    intros depth num wt d f r H. rewrite consume_value_S in H.
    case_wt wt; try discriminate.
    + (* 0 varint *)
      destruct (consume_varint d) as [v r0| |] eqn:E; try discriminate. inversion H; subst.
      apply consume_varint_inv in E. destruct E as (bs & -> & Hv).
      repeat split. exists bs. split; [reflexivity|exact Hv].
    + (* 5 fixed32 *)
      destruct (consume_fixed32 d) as [[v r0]|] eqn:E; try discriminate. inversion H; subst.
      apply consume_fixed_inv in E. destruct E as (bs & -> & Hv).
      repeat split. exists bs. split; [reflexivity|exact Hv].
    + (* 3 group *)
      destruct (o_max o <=? depth + 1) eqn:EM; try discriminate.
      destruct (cg_loop fuel o (depth + 1) num d) as [[fs r0]| |] eqn:EG; try discriminate.
      inversion H; subst. apply IHcg in EG. destruct EG as (body & e & -> & He & Hb).
      repeat split. exists (body ++ e). split; [rewrite app_assoc; reflexivity|].
      apply value_repr_group. split; [lia|]. exists body, e. split; [reflexivity|]. split; [exact He|exact Hb].
    + (* 2 length-delimited *)
      destruct (consume_bytes d) as [[payload r0]|] eqn:EB; try discriminate.
      apply consume_bytes_inv in EB. destruct EB as (l & -> & Hl).
      destruct (memN num (o_packed o)) eqn:EPk.
      * destruct (lookupN num (o_pelem o)) as [et|] eqn:EL; try discriminate.
        destruct (unpack_packed et payload) as [vs| |] eqn:EU; try discriminate.
        inversion H; subst. apply unpack_packed_sound in EU. destruct EU as (Het & Hvs).
        repeat split. exists (l ++ payload). split; [rewrite app_assoc; reflexivity|].
        cbn [value_repr]. repeat split; try assumption. exists l, payload. repeat split; assumption.
      * destruct (memN num (o_msg o)) eqn:EMs.
        -- destruct (o_max o <=? depth + 1) eqn:EM; try discriminate.
           destruct (pf_loop fuel o (depth + 1) payload) as [fs| |] eqn:EP; try discriminate.
           inversion H; subst. apply IHpf in EP.
           repeat split. exists (l ++ payload). split; [rewrite app_assoc; reflexivity|].
           apply value_repr_msg. repeat split; try assumption; try lia.
           exists l, payload. repeat split; assumption.
        -- inversion H; subst. repeat split. exists (l ++ payload).
           split; [rewrite app_assoc; reflexivity|].
           cbn [value_repr]. repeat split; try assumption. exists l. split; [reflexivity|assumption].
    + (* 1 fixed64 *)
      destruct (consume_fixed64 d) as [[v r0]|] eqn:E; try discriminate. inversion H; subst.
      apply consume_fixed_inv in E. destruct E as (bs & -> & Hv).
      repeat split. exists bs. split; [reflexivity|exact Hv].
  - (* consumeGroup loop *)
    intros depth gnum d fs r H. rewrite cg_loop_S in H.
    destruct d as [|y d']; [discriminate|].
    destruct (consume_tag (y :: d')) as [num wt r0|] eqn:ET; try discriminate.
    apply consume_tag_inv in ET. destruct ET as (t & ET & Ht). rewrite ET.
    destruct (wt =? 4) eqn:E4.
    + destruct (num =? gnum) eqn:EN; try discriminate. inversion H; subst.
      assert (wt = 4) by lia. assert (num = gnum) by lia. subst.
      exists [], t. split; [reflexivity|]. split; [exact Ht|reflexivity].
    + destruct (consume_value fuel o depth num wt r0) as [[fld r']| |] eqn:EV; try discriminate.
      destruct (cg_loop fuel o depth gnum r') as [[fs' r'']| |] eqn:EG; try discriminate.
      inversion H; subst. clear H.
      apply IHcv in EV. destruct EV as (Hn & Hw & a & -> & Hv).
      apply IHcg in EG. destruct EG as (body & e & -> & He & Hb).
      exists ((t ++ a) ++ body), e. split; [repeat rewrite <- app_assoc; reflexivity|].
      split; [exact He|]. apply fields_repr_cons. exists (t ++ a), body.
      split; [reflexivity|]. split; [|exact Hb]. exists t, a. split; [reflexivity|].
      rewrite Hn, Hw. split; assumption.
Qed.

(* ------------------------------------------------------------------ fuel always suffices *)
Definition T_pf (fuel : nat) := forall depth d,
  (2 * length d + 1 <= fuel)%nat -> pf_loop fuel o depth d <> OutOfFuel.
Definition T_cv (fuel : nat) := forall depth num wt d,
  (2 * length d + 2 <= fuel)%nat -> consume_value fuel o depth num wt d <> OutOfFuel.
Definition T_cg (fuel : nat) := forall depth gnum d,
  (2 * length d + 1 <= fuel)%nat -> cg_loop fuel o depth gnum d <> OutOfFuel.

Lemma app_len_eq : forall (d a b : bytes), d = a ++ b -> length d = (length a + length b)%nat.
Proof. intros; subst; apply app_length. Qed.

Lemma total_all : forall fuel, T_pf fuel /\ T_cv fuel /\ T_cg fuel.
Proof.
  induction fuel as [|fuel (IHpf & IHcv & IHcg)].
  { split; [|split]; red; intros; simpl in *; lia. }
  destruct (sound_all fuel) as (Spf & Scv & Scg).
  split; [|split].
  - intros depth d Hf. rewrite pf_loop_S.
    destruct d as [|y d']; [discriminate|].
    destruct (consume_tag (y :: d')) as [num wt r|] eqn:ET; try discriminate.
    destruct (wt =? 4); try discriminate.
    apply consume_tag_inv in ET. destruct ET as (t & ET & Ht).
    apply app_len_eq in ET. pose proof (tag_repr_nonempty _ _ _ Ht).
    destruct (consume_value fuel o depth num wt r) as [[fld r']| |] eqn:EV; try discriminate.
    + apply Scv in EV. destruct EV as (_ & _ & a & EV & _). apply app_len_eq in EV.
      assert (Hr : (2 * length r' + 1 <= fuel)%nat) by lia.
      specialize (IHpf depth r' Hr). destruct (pf_loop fuel o depth r'); try discriminate. congruence.
    + exfalso. eapply IHcv; [|exact EV]. lia.
  - intros depth num wt d Hf. rewrite consume_value_S.
    case_wt wt; try discriminate.
    + destruct (consume_varint d); discriminate.
    + destruct (consume_fixed32 d) as [[? ?]|]; discriminate.
    + destruct (o_max o <=? depth + 1); try discriminate.
      assert (Hr : (2 * length d + 1 <= fuel)%nat) by lia.
      specialize (IHcg (depth + 1) num d Hr).
      destruct (cg_loop fuel o (depth + 1) num d) as [[? ?]| |]; try discriminate. congruence.
    + destruct (consume_bytes d) as [[payload r0]|] eqn:EB; try discriminate.
      apply consume_bytes_inv in EB. destruct EB as (l & EB & Hl).
      apply app_len_eq in EB. rewrite app_length in EB. pose proof (is_varint_nonempty _ _ _ Hl).
      destruct (memN num (o_packed o)).
      * destruct (lookupN num (o_pelem o)) as [et|]; try discriminate.
        pose proof (unpack_packed_fuel et payload).
        destruct (unpack_packed et payload); try discriminate. congruence.
      * destruct (memN num (o_msg o)); try discriminate.
        destruct (o_max o <=? depth + 1); try discriminate.
        assert (Hr : (2 * length payload + 1 <= fuel)%nat) by lia.
        specialize (IHpf (depth + 1) payload Hr).
        destruct (pf_loop fuel o (depth + 1) payload); try discriminate. congruence.
    + destruct (consume_fixed64 d) as [[? ?]|]; discriminate.
  - intros depth gnum d Hf. rewrite cg_loop_S.
    destruct d as [|y d']; [discriminate|].
    destruct (consume_tag (y :: d')) as [num wt r|] eqn:ET; try discriminate.
    apply consume_tag_inv in ET. destruct ET as (t & ET & Ht).
    apply app_len_eq in ET. pose proof (tag_repr_nonempty _ _ _ Ht).
    destruct (wt =? 4). { destruct (num =? gnum); discriminate. }
    destruct (consume_value fuel o depth num wt r) as [[fld r']| |] eqn:EV; try discriminate.
    + apply Scv in EV. destruct EV as (_ & _ & a & EV & _). apply app_len_eq in EV.
      assert (Hr : (2 * length r' + 1 <= fuel)%nat) by lia.
      specialize (IHcg depth gnum r' Hr).
      destruct (cg_loop fuel o depth gnum r') as [[? ?]| |]; try discriminate. congruence.
    + exfalso. eapply IHcv; [|exact EV]. lia.
Qed.

(* ------------------------------------------------------------------ completeness *)
Lemma pf_loop_step : forall f depth t rest num wt, tag_repr t num wt ->
  pf_loop (S f) o depth (t ++ rest) =
  if wt =? 4 then Err EUnexpectedEndGroup
  else match consume_value f o depth num wt rest with
       | Ok (fld, r') => match pf_loop f o depth r' with Ok fs => Ok (fld :: fs) | e => e end
       | Err e => Err e
       | OutOfFuel => OutOfFuel
       end.
Proof.
  intros f depth t rest num wt Ht. rewrite pf_loop_S.
  pose proof (tag_repr_nonempty _ _ _ Ht) as Hn.
  destruct t as [|t0 t']; [simpl in Hn; lia|].
  change ((t0 :: t') ++ rest) with (t0 :: (t' ++ rest)). cbv iota.
  change (t0 :: (t' ++ rest)) with ((t0 :: t') ++ rest).
  rewrite (consume_tag_repr _ _ _ rest Ht). reflexivity.
Qed.

Lemma cg_loop_step : forall f depth gnum t rest num wt, tag_repr t num wt ->
  cg_loop (S f) o depth gnum (t ++ rest) =
  if wt =? 4 then (if num =? gnum then Ok ([], rest) else Err EOther)
  else match consume_value f o depth num wt rest with
       | Ok (fld, r') => match cg_loop f o depth gnum r' with
                         | Ok (fs, r'') => Ok (fld :: fs, r'')
                         | e => e end
       | Err e => Err e
       | OutOfFuel => OutOfFuel
       end.
Proof.
  intros f depth gnum t rest num wt Ht. rewrite cg_loop_S.
  pose proof (tag_repr_nonempty _ _ _ Ht) as Hn.
  destruct t as [|t0 t']; [simpl in Hn; lia|].
  change ((t0 :: t') ++ rest) with (t0 :: (t' ++ rest)). cbv iota.
  change (t0 :: (t' ++ rest)) with ((t0 :: t') ++ rest).
  rewrite (consume_tag_repr _ _ _ rest Ht). reflexivity.
Qed.

Definition C_pf (fuel : nat) := forall depth fs d,
  fields_repr o depth fs d -> (2 * length d + 1 <= fuel)%nat -> pf_loop fuel o depth d = Ok fs.
Definition C_cv (fuel : nat) := forall depth f a r,
  value_repr o depth f a -> (2 * length (a ++ r) + 2 <= fuel)%nat ->
  consume_value fuel o depth (fnum f) (fwt f) (a ++ r) = Ok (f, r).
Definition C_cg (fuel : nat) := forall depth gnum fs body e r,
  fields_repr o depth fs body -> tag_repr e gnum 4 ->
  (2 * length (body ++ e ++ r) + 1 <= fuel)%nat ->
  cg_loop fuel o depth gnum (body ++ e ++ r) = Ok (fs, r).

Lemma complete_all : forall fuel, C_pf fuel /\ C_cv fuel /\ C_cg fuel.
Proof.
  induction fuel as [|fuel (IHpf & IHcv & IHcg)].
  { split; [|split]; red; intros; simpl in *; lia. }
  split; [|split].
  - intros depth fs d H Hf. destruct fs as [|g fs].
    + simpl in H. subst. reflexivity.
    + apply fields_repr_cons in H. destruct H as (a & b & -> & (t & x & -> & Ht & Hx) & Hb).
      rewrite <- app_assoc. rewrite (pf_loop_step _ _ _ _ _ _ Ht). rewrite fwt_not_4.
      pose proof (tag_repr_nonempty _ _ _ Ht) as Hn.
      repeat rewrite app_length in Hf.
      rewrite (IHcv depth g x b Hx) by (rewrite app_length; lia).
      rewrite (IHpf depth fs b Hb) by lia. reflexivity.
  - intros depth f a r H Hf. rewrite consume_value_S.
    destruct f as [num v|num v|num v|num p|num fs|num et vs|num fs]; cbn [fnum fwt].
    + cbn [value_repr] in H. rewrite (consume_varint_repr _ _ r H). reflexivity.
    + cbn [value_repr] in H. unfold consume_fixed64. rewrite (consume_fixed_repr _ _ _ r H). reflexivity.
    + cbn [value_repr] in H. unfold consume_fixed32. rewrite (consume_fixed_repr _ _ _ r H). reflexivity.
    + cbn [value_repr] in H. destruct H as (Hp & Hm & l & -> & Hl).
      rewrite <- app_assoc. rewrite (consume_bytes_repr _ _ r Hl). rewrite Hp, Hm. reflexivity.
    + apply value_repr_msg in H. destruct H as (Hp & Hm & Hd & l & p & -> & Hl & Hfs).
      rewrite <- app_assoc. rewrite (consume_bytes_repr _ _ r Hl). rewrite Hp, Hm.
      replace (o_max o <=? depth + 1) with false by lia.
      pose proof (is_varint_nonempty _ _ _ Hl) as Hn. repeat rewrite app_length in Hf.
      rewrite (IHpf (depth + 1) fs p Hfs) by lia. reflexivity.
    + cbn [value_repr] in H. destruct H as (Hp & Hl' & Het & l & p & -> & Hl & Hvs).
      rewrite <- app_assoc. rewrite (consume_bytes_repr _ _ r Hl). rewrite Hp, Hl'.
      rewrite (unpack_packed_complete _ _ _ Het Hvs). reflexivity.
    + apply value_repr_group in H. destruct H as (Hd & body & e & -> & He & Hfs).
      replace (o_max o <=? depth + 1) with false by lia.
      rewrite <- app_assoc. rewrite <- app_assoc in Hf.
      rewrite (IHcg (depth + 1) num fs body e r Hfs He) by lia. reflexivity.
  - intros depth gnum fs body e r H He Hf. destruct fs as [|g fs].
    + simpl in H. subst body. cbn [app].
      rewrite (cg_loop_step _ _ _ _ _ _ _ He). cbn. rewrite N.eqb_refl. reflexivity.
    + apply fields_repr_cons in H. destruct H as (a & b & -> & (t & x & -> & Ht & Hx) & Hb).
      replace (((t ++ x) ++ b) ++ e ++ r) with (t ++ x ++ (b ++ e ++ r))
        by (repeat rewrite <- app_assoc; reflexivity).
      replace (((t ++ x) ++ b) ++ e ++ r) with (t ++ x ++ (b ++ e ++ r)) in Hf
        by (repeat rewrite <- app_assoc; reflexivity).
      rewrite (cg_loop_step _ _ _ _ _ _ _ Ht). rewrite fwt_not_4.
      pose proof (tag_repr_nonempty _ _ _ Ht) as Hn.
      rewrite app_length in Hf. rewrite (app_length x) in Hf.
      rewrite (IHcv depth g x (b ++ e ++ r) Hx) by (rewrite app_length; lia).
      rewrite (IHcg depth gnum fs b e r Hb He) by lia. reflexivity.
Qed.

(* ------------------------------------------------------------------ top-level statements *)
Lemma parse_sound_l : forall d fs, parse_fields o 0 d = Ok fs -> well_formed o d fs.
Proof.
  intros d fs H. unfold parse_fields in H. destruct (o_max o <=? 0) eqn:E; try discriminate.
  split; [lia|]. destruct (sound_all (fuel_for d)) as (S & _ & _). apply S. exact H.
Qed.

Lemma parse_complete_l : forall d fs, well_formed o d fs -> parse_fields o 0 d = Ok fs.
Proof.
  intros d fs (Hm & H). unfold parse_fields. replace (o_max o <=? 0) with false by lia.
  destruct (complete_all (fuel_for d)) as (C & _ & _). apply C; [exact H|]. unfold fuel_for. lia.
Qed.

Lemma parse_total_l : forall depth d, parse_fields o depth d <> OutOfFuel.
Proof.
  intros depth d. unfold parse_fields. destruct (o_max o <=? depth); try discriminate.
  destruct (total_all (fuel_for d)) as (T & _ & _). apply T. unfold fuel_for. lia.
Qed.

End WithOpts.

(* ------------------------------------------------------------------ induction on field trees *)
Section FieldInd.
  Variable P : field -> Prop.
  Hypothesis HVarint : forall n v, P (FVarint n v).
  Hypothesis HFixed64 : forall n v, P (FFixed64 n v).
  Hypothesis HFixed32 : forall n v, P (FFixed32 n v).
  Hypothesis HBytes : forall n p, P (FBytes n p).
  Hypothesis HMsg : forall n fs, Forall P fs -> P (FMsg n fs).
  Hypothesis HPacked : forall n et vs, P (FPacked n et vs).
  Hypothesis HGroup : forall n fs, Forall P fs -> P (FGroup n fs).
  Fixpoint field_ind2 (f : field) : P f :=
    let go := fix go (l : list field) : Forall P l :=
      match l with [] => Forall_nil P | x :: r => Forall_cons x (field_ind2 x) (go r) end in
    match f with
    | FVarint n v => HVarint n v
    | FFixed64 n v => HFixed64 n v
    | FFixed32 n v => HFixed32 n v
    | FBytes n p => HBytes n p
    | FMsg n fs => HMsg n fs (go fs)
    | FPacked n et vs => HPacked n et vs
    | FGroup n fs => HGroup n fs (go fs)
    end.
End FieldInd.

(* ------------------------------------------------------------------ the encoder produces the grammar *)
Lemma list_repr_flat_map : forall {A} (R : A -> bytes -> Prop) (enc : A -> bytes) (l : list A),
  Forall (fun x => R x (enc x)) l -> list_repr R l (flat_map enc l).
Proof.
  intros A R enc l H. induction H; [reflexivity|].
  simpl. exists (enc x), (flat_map enc l). repeat split; assumption.
Qed.

Lemma elem_repr_encode : forall et v, et_okb et = true -> elem_okb et v = true ->
  elem_repr et (encode_elem et v) v.
Proof.
  intros et v He Hv. unfold et_okb in He. unfold elem_okb in Hv.
  assert (et = 0 \/ et = 5 \/ et = 1) as [ -> | [ -> | -> ] ] by lia.
  - change (0 =? 5) with false in Hv. cbv iota in Hv.
    change (varint_repr (append_varint v) v). apply append_varint_repr. lia.
  - change (5 =? 5) with true in Hv. cbv iota in Hv.
    change (fixed_repr 4 (append_fixed32 v) v). apply append_fixed32_repr. lia.
  - change (1 =? 5) with false in Hv. cbv iota in Hv.
    change (fixed_repr 8 (append_fixed64 v) v). apply append_fixed64_repr. lia.
Qed.

Ltac split_andb :=
  repeat match goal with H : _ && _ = true |- _ => apply andb_prop in H; destruct H end.

Lemma negb_true_false : forall b, negb b = true -> b = false.
Proof. destruct b; simpl; congruence. Qed.

Lemma encode_field_repr : forall o f lvl, wf_field o lvl f = true -> field_repr o lvl f (encode_field f).
Proof.
  intros o f. induction f as [n v|n v|n v|n p|n fs IH|n et vs|n fs IH] using field_ind2;
    intros lvl Hwf; cbn [wf_field] in Hwf; split_andb;
    repeat match goal with H : negb _ = true |- _ => apply negb_true_false in H end.
  - exists (append_tag n 0), (append_varint v). split; [reflexivity|]. cbn [fwt fnum].
    split; [apply append_tag_repr; [assumption|lia]|]. cbn [value_repr]. apply append_varint_repr. lia.
  - exists (append_tag n 1), (append_fixed64 v). split; [reflexivity|]. cbn [fwt fnum].
    split; [apply append_tag_repr; [assumption|lia]|]. cbn [value_repr]. apply append_fixed64_repr. lia.
  - exists (append_tag n 5), (append_fixed32 v). split; [reflexivity|]. cbn [fwt fnum].
    split; [apply append_tag_repr; [assumption|lia]|]. cbn [value_repr]. apply append_fixed32_repr. lia.
  - exists (append_tag n 2), (append_bytes p). split; [reflexivity|]. cbn [fwt fnum].
    split; [apply append_tag_repr; [assumption|lia]|]. cbn [value_repr].
    destruct (append_bytes_split p ltac:(assumption)) as (l & -> & Hl).
    split; [assumption|]. split; [assumption|].
    exists l. split; [reflexivity|exact Hl].
  - exists (append_tag n 2), (append_bytes (flat_map encode_field fs)). split; [reflexivity|]. cbn [fwt fnum].
    split; [apply append_tag_repr; [assumption|cbn; lia]|]. apply value_repr_msg.
    destruct (append_bytes_split (flat_map encode_field fs) ltac:(assumption)) as (l & -> & Hl).
    split; [assumption|]. split; [assumption|]. split; [lia|].
    exists l, (flat_map encode_field fs). split; [reflexivity|]. split; [exact Hl|].
    apply list_repr_flat_map. rewrite Forall_forall in *. intros x Hx.
    apply IH; [exact Hx|].
    match goal with Hf : forallb _ fs = true |- _ => rewrite forallb_forall in Hf; apply Hf; exact Hx end.
  - exists (append_tag n 2), (append_bytes (flat_map (encode_elem et) vs)). split; [reflexivity|]. cbn [fwt fnum].
    split; [apply append_tag_repr; [assumption|lia]|]. cbn [value_repr].
    destruct (append_bytes_split (flat_map (encode_elem et) vs) ltac:(assumption)) as (l & -> & Hl).
    split; [assumption|].
    split; [destruct (lookupN n (o_pelem o)) as [e|]; [f_equal; lia|discriminate]|].
    split; [unfold et_okb in *; unfold et_ok; lia|].
    exists l, (flat_map (encode_elem et) vs). split; [reflexivity|]. split; [exact Hl|].
    apply (list_repr_flat_map (fun v d => elem_repr et d v)). rewrite Forall_forall. intros x Hx.
    apply elem_repr_encode; [assumption|].
    match goal with Hf : forallb _ vs = true |- _ => rewrite forallb_forall in Hf; apply Hf; exact Hx end.
  - exists (append_tag n 3), (flat_map encode_field fs ++ append_tag n 4). split; [reflexivity|]. cbn [fwt fnum].
    split; [apply append_tag_repr; [assumption|cbn; lia]|]. apply value_repr_group.
    split; [lia|]. exists (flat_map encode_field fs), (append_tag n 4). split; [reflexivity|]. cbn [fwt fnum].
    split; [apply append_tag_repr; [assumption|lia]|].
    apply list_repr_flat_map. rewrite Forall_forall in *. intros x Hx.
    apply IH; [exact Hx|].
    match goal with Hf : forallb _ fs = true |- _ => rewrite forallb_forall in Hf; apply Hf; exact Hx end.
Qed.

Lemma encode_fields_repr : forall o fs, wf_fields o fs = true -> well_formed o (encode_fields fs) fs.
Proof.
  intros o fs H0. unfold wf_fields in H0. apply andb_prop in H0. destruct H0 as [Hm H].
  split; [lia|]. apply list_repr_flat_map. rewrite Forall_forall. intros x Hx.
  apply encode_field_repr. rewrite forallb_forall in H. apply H. exact Hx.
Qed.

Lemma parse_encode_l : forall o fs, wf_fields o fs = true -> parse_fields o 0 (encode_fields fs) = Ok fs.
Proof. intros o fs H. apply parse_complete_l. apply encode_fields_repr. exact H. Qed.

(* ------------------------------------------------------------------ depth limit *)
Lemma nest_cons : forall f fs, nest (f :: fs) = N.max (nest_field f) (nest fs).
Proof. reflexivity. Qed.

Definition depth_ok (o : opts) (f : field) : Prop :=
  forall lvl a, value_repr o lvl f a -> lvl + nest_field f < o_max o \/ nest_field f = 0.

Lemma fields_depth_gen : forall o fs, Forall (depth_ok o) fs ->
  forall lvl d, lvl < o_max o -> fields_repr o lvl fs d -> lvl + nest fs < o_max o.
Proof.
  intros o fs HF. induction HF as [|g fs Hg HF IH]; intros lvl d Hl H; [cbn; lia|].
  apply fields_repr_cons in H. destruct H as (x & y & _ & (t & z & _ & _ & Hz) & Hy).
  rewrite nest_cons. specialize (IH lvl y Hl Hy). apply Hg in Hz. lia.
Qed.

Lemma field_depth : forall o f, depth_ok o f.
Proof.
  intros o f. induction f as [n v|n v|n v|n p|n fs IHf|n et vs|n fs IHf] using field_ind2;
    intros lvl a Hr; try (right; reflexivity).
  - left. apply value_repr_msg in Hr. destruct Hr as (_ & _ & Hd & l & p & _ & _ & Hfs).
    cbn [nest_field]. fold (nest fs).
    pose proof (fields_depth_gen o fs IHf (lvl + 1) p Hd Hfs). lia.
  - left. apply value_repr_group in Hr. destruct Hr as (Hd & body & e & _ & _ & Hfs).
    cbn [nest_field]. fold (nest fs).
    pose proof (fields_depth_gen o fs IHf (lvl + 1) body Hd Hfs). lia.
Qed.

Lemma fields_depth : forall o fs lvl d, lvl < o_max o -> fields_repr o lvl fs d -> lvl + nest fs < o_max o.
Proof.
  intros o fs. apply fields_depth_gen. rewrite Forall_forall. intros f _. apply field_depth.
Qed.

Lemma depth_honoured_l : forall o d fs, parse_fields o 0 d = Ok fs -> nest fs + 1 <= o_max o.
Proof.
  intros o d fs H. apply parse_sound_l in H. destruct H as (Hm & H).
  apply fields_depth in H; lia.
Qed.

(* ------------------------------------------------------------------ statements used by Properties.v *)
Lemma varint_roundtrip_l : forall v rest, v < 2 ^ 64 ->
  consume_varint (append_varint v ++ rest) = Val v rest.
Proof. intros v rest H. apply consume_varint_repr, append_varint_repr, H. Qed.

Lemma tag_roundtrip_l : forall num wt rest, 1 <= num <= 2147483647 -> wt < 8 ->
  consume_tag (append_tag num wt ++ rest) = Tag num wt rest.
Proof.
  intros num wt rest [H1 H2] Hw. apply consume_tag_repr, append_tag_repr; [|exact Hw].
  unfold num_okb. apply andb_true_intro. split; [apply N.leb_le; exact H1|apply N.leb_le; exact H2].
Qed.

Lemma accepts_iff_wellformed_l : forall o d fs, parse_fields o 0 d = Ok fs <-> well_formed o d fs.
Proof. intros o d fs. split; [apply parse_sound_l|apply parse_complete_l]. Qed.

Lemma consumes_all_l : forall o d fs, parse_fields o 0 d = Ok fs -> fields_repr o 0 fs d.
Proof. intros o d fs H. apply parse_sound_l in H. exact (proj2 H). Qed.

(* ------------------------------------------------------------------ a tree that is too deep is refused with ErrMaxDepth *)
(* [o'] = the same options with a MaxDepth large enough for the tree; the input is read under [o] *)
Definition same_but_max (o o' : opts) : Prop :=
  o_msg o = o_msg o' /\ o_packed o = o_packed o' /\ o_pelem o = o_pelem o'.

Definition fits (o : opts) (lvl : N) (n : N) : bool := lvl + n <? o_max o.

Lemma fits_cons : forall o lvl f fs,
  fits o lvl (nest (f :: fs)) = fits o lvl (nest_field f) && fits o lvl (nest fs).
Proof. intros. unfold fits. rewrite nest_cons. lia. Qed.

Section TooDeep.
Variables o o' : opts.
Hypothesis Hsame : same_but_max o o'.

Definition D_pf (fuel : nat) := forall depth fs d,
  fields_repr o' depth fs d -> (2 * length d + 1 <= fuel)%nat -> depth < o_max o ->
  pf_loop fuel o depth d = if fits o depth (nest fs) then Ok fs else Err EMaxDepth.
Definition D_cv (fuel : nat) := forall depth f a r,
  value_repr o' depth f a -> (2 * length (a ++ r) + 2 <= fuel)%nat -> depth < o_max o ->
  consume_value fuel o depth (fnum f) (fwt f) (a ++ r) =
    if fits o depth (nest_field f) then Ok (f, r) else Err EMaxDepth.
Definition D_cg (fuel : nat) := forall depth gnum fs body e r,
  fields_repr o' depth fs body -> tag_repr e gnum 4 ->
  (2 * length (body ++ e ++ r) + 1 <= fuel)%nat -> depth < o_max o ->
  cg_loop fuel o depth gnum (body ++ e ++ r) = if fits o depth (nest fs) then Ok (fs, r) else Err EMaxDepth.

Lemma fits_zero : forall depth, depth < o_max o -> fits o depth 0 = true.
Proof. intros. unfold fits. lia. Qed.

Lemma deep_all : forall fuel, D_pf fuel /\ D_cv fuel /\ D_cg fuel.
Proof.
  destruct Hsame as (Hm & Hp & He).
  induction fuel as [|fuel (IHpf & IHcv & IHcg)].
  { split; [|split]; red; intros; simpl in *; lia. }
  split; [|split].
  - intros depth fs d H Hf Hd. destruct fs as [|g fs].
    + simpl in H. subst. cbn [nest fold_right]. rewrite fits_zero by exact Hd. reflexivity.
    + apply fields_repr_cons in H. destruct H as (a & b & -> & (t & x & -> & Ht & Hx) & Hb).
      rewrite <- app_assoc. rewrite (pf_loop_step _ _ _ _ _ _ _ Ht). rewrite fwt_not_4.
      pose proof (tag_repr_nonempty _ _ _ Ht) as Hn.
      repeat rewrite app_length in Hf.
      rewrite (IHcv depth g x b Hx) by (try rewrite app_length; lia).
      rewrite fits_cons. destruct (fits o depth (nest_field g)); [|reflexivity].
      rewrite (IHpf depth fs b Hb) by lia. cbn [andb]. destruct (fits o depth (nest fs)); reflexivity.
  - intros depth f a r H Hf Hd. rewrite consume_value_S.
    destruct f as [num v|num v|num v|num p|num fs|num et vs|num fs]; cbn [fnum fwt nest_field];
      try rewrite (fits_zero depth Hd).
    + cbn [value_repr] in H. rewrite (consume_varint_repr _ _ r H). reflexivity.
    + cbn [value_repr] in H. unfold consume_fixed64. rewrite (consume_fixed_repr _ _ _ r H). reflexivity.
    + cbn [value_repr] in H. unfold consume_fixed32. rewrite (consume_fixed_repr _ _ _ r H). reflexivity.
    + cbn [value_repr] in H. destruct H as (Hpk & Hms & l & -> & Hl).
      rewrite <- app_assoc. rewrite (consume_bytes_repr _ _ r Hl). rewrite Hp, Hm, Hpk, Hms. reflexivity.
    + apply value_repr_msg in H. destruct H as (Hpk & Hms & _ & l & p & -> & Hl & Hfs).
      rewrite <- app_assoc. rewrite (consume_bytes_repr _ _ r Hl). rewrite Hp, Hm, Hpk, Hms.
      fold (nest fs). unfold fits at 1.
      destruct (o_max o <=? depth + 1) eqn:EM.
      * replace (depth + (1 + nest fs) <? o_max o) with false by lia. reflexivity.
      * pose proof (is_varint_nonempty _ _ _ Hl) as Hn. repeat rewrite app_length in Hf.
        rewrite (IHpf (depth + 1) fs p Hfs) by lia. unfold fits.
        replace (depth + 1 + nest fs <? o_max o) with (depth + (1 + nest fs) <? o_max o) by lia.
        destruct (depth + (1 + nest fs) <? o_max o); reflexivity.
    + cbn [value_repr] in H. destruct H as (Hpk & Hl' & Het & l & p & -> & Hl & Hvs).
      rewrite <- app_assoc. rewrite (consume_bytes_repr _ _ r Hl). rewrite Hp, He, Hpk, Hl'.
      rewrite (unpack_packed_complete _ _ _ Het Hvs). reflexivity.
    + apply value_repr_group in H. destruct H as (_ & body & e & -> & Hte & Hfs).
      fold (nest fs). unfold fits at 1.
      destruct (o_max o <=? depth + 1) eqn:EM.
      * replace (depth + (1 + nest fs) <? o_max o) with false by lia. reflexivity.
      * rewrite <- app_assoc. rewrite <- app_assoc in Hf.
        rewrite (IHcg (depth + 1) num fs body e r Hfs Hte) by lia. unfold fits.
        replace (depth + 1 + nest fs <? o_max o) with (depth + (1 + nest fs) <? o_max o) by lia.
        destruct (depth + (1 + nest fs) <? o_max o); reflexivity.
  - intros depth gnum fs body e r H Hte Hf Hd. destruct fs as [|g fs].
    + simpl in H. subst body. cbn [app nest fold_right]. rewrite fits_zero by exact Hd.
      rewrite (cg_loop_step _ _ _ _ _ _ _ _ Hte). cbn. rewrite N.eqb_refl. reflexivity.
    + apply fields_repr_cons in H. destruct H as (a & b & -> & (t & x & -> & Ht & Hx) & Hb).
      replace (((t ++ x) ++ b) ++ e ++ r) with (t ++ x ++ (b ++ e ++ r))
        by (repeat rewrite <- app_assoc; reflexivity).
      replace (((t ++ x) ++ b) ++ e ++ r) with (t ++ x ++ (b ++ e ++ r)) in Hf
        by (repeat rewrite <- app_assoc; reflexivity).
      rewrite (cg_loop_step _ _ _ _ _ _ _ _ Ht). rewrite fwt_not_4.
      pose proof (tag_repr_nonempty _ _ _ Ht) as Hn.
      rewrite app_length in Hf. rewrite (app_length x) in Hf.
      rewrite (IHcv depth g x (b ++ e ++ r) Hx) by (try rewrite app_length; lia).
      rewrite fits_cons. destruct (fits o depth (nest_field g)); [|reflexivity].
      rewrite (IHcg depth gnum fs b e r Hb Hte) by lia. cbn [andb]. destruct (fits o depth (nest fs)); reflexivity.
Qed.
End TooDeep.

Lemma too_deep_rejected_l : forall o o' fs,
  same_but_max o o' -> wf_fields o' fs = true -> 0 < o_max o -> o_max o <= nest fs ->
  parse_fields o 0 (encode_fields fs) = Err EMaxDepth.
Proof.
  intros o o' fs Hs Hw Hm Hd. apply encode_fields_repr in Hw. destruct Hw as [_ Hr].
  unfold parse_fields. replace (o_max o <=? 0) with false by lia.
  destruct (deep_all o o' Hs (fuel_for (encode_fields fs))) as (D & _ & _).
  rewrite (D 0 fs (encode_fields fs) Hr); [|unfold fuel_for; lia|exact Hm].
  unfold fits. replace (0 + nest fs <? o_max o) with false by lia. reflexivity.
Qed.

(* ------------------------------------------------------------------ Protowire::serialize's encoder = the canonical encoder *)
Lemma enc_plan_message : forall num ps, enc_plan (PlMessage num ps) =
  match enc_plans ps with Some inner => Some (append_tag num 2 ++ append_bytes inner) | None => None end.
Proof.
  intros num ps. cbn [enc_plan].
  assert (E : (fix go (ps0 : list plan) : option bytes :=
                 match ps0 with [] => Some [] | q :: r => opt_app (enc_plan q) (go r) end) ps = enc_plans ps).
  { induction ps as [|q r IH]; [reflexivity|]. cbn [enc_plans]. rewrite <- IH. reflexivity. }
  rewrite E. reflexivity.
Qed.
Lemma enc_plan_group : forall num ps, enc_plan (PlGroup num ps) =
  match enc_plans ps with Some inner => Some (append_tag num 3 ++ inner ++ append_tag num 4) | None => None end.
Proof.
  intros num ps. cbn [enc_plan].
  assert (E : (fix go (ps0 : list plan) : option bytes :=
                 match ps0 with [] => Some [] | q :: r => opt_app (enc_plan q) (go r) end) ps = enc_plans ps).
  { induction ps as [|q r IH]; [reflexivity|]. cbn [enc_plans]. rewrite <- IH. reflexivity. }
  rewrite E. reflexivity.
Qed.

Lemma enc_plans_fields : forall fs,
  Forall (fun f => packed_varint_only f = true -> fixed32_small f = true -> enc_plan (plan_of f) = Some (encode_field f)) fs ->
  forallb packed_varint_only fs = true -> forallb fixed32_small fs = true ->
  enc_plans (map plan_of fs) = Some (flat_map encode_field fs).
Proof.
  induction 1 as [|f fs Hf Hfs IH]; intros Hp Hs; [reflexivity|].
  cbn [forallb] in Hp, Hs. apply andb_prop in Hp. apply andb_prop in Hs.
  destruct Hp as [Hp1 Hp2]. destruct Hs as [Hs1 Hs2].
  cbn [map enc_plans flat_map]. rewrite (Hf Hp1 Hs1), (IH Hp2 Hs2). reflexivity.
Qed.

Lemma serialize_is_canonical_field : forall f, packed_varint_only f = true -> fixed32_small f = true ->
  enc_plan (plan_of f) = Some (encode_field f).
Proof.
  induction f as [n v|n v|n v|n p|n fs IH|n et vs|n fs IH] using field_ind2; intros Hp Hs;
    cbn [plan_of encode_field]; try reflexivity.
  - cbn [fixed32_small] in Hs. cbn [enc_plan]. rewrite N.mod_small by lia. reflexivity.
  - cbn [packed_varint_only] in Hp. cbn [fixed32_small] in Hs. rewrite enc_plan_message.
    rewrite (enc_plans_fields fs IH Hp Hs). reflexivity.
  - cbn [packed_varint_only] in Hp. assert (et = 0) by lia. subst. cbn [enc_plan]. reflexivity.
  - cbn [packed_varint_only] in Hp. cbn [fixed32_small] in Hs. rewrite enc_plan_group.
    rewrite (enc_plans_fields fs IH Hp Hs). reflexivity.
Qed.

Lemma serialize_is_canonical_l : forall fs,
  forallb packed_varint_only fs = true -> forallb fixed32_small fs = true ->
  enc_plans (map plan_of fs) = Some (encode_fields fs).
Proof.
  intros fs Hp Hs. apply enc_plans_fields; try assumption.
  rewrite Forall_forall. intros f _. apply serialize_is_canonical_field.
Qed.

Lemma parse_serialize_l : forall o fs, wf_fields o fs = true -> forallb packed_varint_only fs = true ->
  exists d, enc_plans (map plan_of fs) = Some d /\ parse_fields o 0 d = Ok fs.
Proof.
  intros o fs Hw Hp. exists (encode_fields fs). split; [|apply parse_encode_l; exact Hw].
  apply serialize_is_canonical_l; [exact Hp|].
  (* wf_fields bounds every fixed32 value below 2^32 *)
  unfold wf_fields in Hw. apply andb_prop in Hw. destruct Hw as [_ Hw].
  assert (G : forall f lvl, wf_field o lvl f = true -> fixed32_small f = true).
  { induction f as [n v|n v|n v|n p|n gs IH|n et vs|n gs IH] using field_ind2; intros lvl H; try reflexivity.
    - cbn [wf_field] in H. apply andb_prop in H. apply H.
    - cbn [wf_field] in H. repeat (apply andb_prop in H; destruct H as [H ?]).
      cbn [fixed32_small]. rewrite forallb_forall. intros g Hg. rewrite Forall_forall in IH.
      match goal with Hf : forallb (wf_field o _) gs = true |- _ => rewrite forallb_forall in Hf; exact (IH g Hg _ (Hf g Hg)) end.
    - cbn [wf_field] in H. repeat (apply andb_prop in H; destruct H as [H ?]).
      cbn [fixed32_small]. rewrite forallb_forall. intros g Hg. rewrite Forall_forall in IH.
      match goal with Hf : forallb (wf_field o _) gs = true |- _ => rewrite forallb_forall in Hf; exact (IH g Hg _ (Hf g Hg)) end. }
  rewrite forallb_forall in *. intros f Hf. exact (G f 0 (Hw f Hf)).
Qed.
