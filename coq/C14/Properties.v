(* C14 — encoders are faithful and decoders total.  Only statements; every proof is `exact lemma`.
   Sections: (1) protobuf wire, (2) base64 / hex / URL byte codecs, (3) PHP serialize text format,
   (4) JSON value <-> tree layer. *)
From Coq Require Import List NArith ZArith Bool.
From V.C14 Require Import WireModel WireSpec WireLemmas WireProofs.
From V.C14 Require Import BytesModel BytesSpec BytesProofs.
From V.C14 Require Import SerModel SerSpec SerProofs SerGrammar.
From V.C14 Require Import JsonModel JsonSpec JsonProofs.
Import ListNotations.
Open Scope N_scope.

(* ====================================================================== (1) protobuf wire *)

(* encoder faithful / decoder inverts it: the primitive codecs *)
Theorem varint_roundtrip : forall v rest, v < 2 ^ 64 ->
  consume_varint (append_varint v ++ rest) = Val v rest.
Proof. exact varint_roundtrip_l. Qed.
Print Assumptions varint_roundtrip.

Theorem tag_roundtrip : forall num wt rest, 1 <= num <= 2147483647 -> wt < 8 ->
  consume_tag (append_tag num wt ++ rest) = Tag num wt rest.
Proof. exact tag_roundtrip_l. Qed.
Print Assumptions tag_roundtrip.

(* "the matching decoder inverts it exactly": for every encodable field tree (any nesting of
   messages, groups, packed fields, under any options that fit it) *)
Theorem parse_encode : forall o fs, wf_fields o fs = true ->
  parse_fields o 0 (encode_fields fs) = Ok fs.
Proof. exact parse_encode_l. Qed.
Print Assumptions parse_encode.

(* the code's own encoder (serialize_method.go: encodeFieldPlans over converted field plans) writes
   exactly the canonical encoding, so the parser inverts Protowire::serialize too.  (Value conversion
   from PHP values to plans — toUint64, zigzag, Float64bits — and annotation reading are not modelled.) *)
Theorem serialize_is_canonical : forall fs,
  forallb packed_varint_only fs = true -> forallb fixed32_small fs = true ->
  enc_plans (map plan_of fs) = Some (encode_fields fs).
Proof. exact serialize_is_canonical_l. Qed.
Print Assumptions serialize_is_canonical.

Theorem parse_serialize : forall o fs, wf_fields o fs = true -> forallb packed_varint_only fs = true ->
  exists d, enc_plans (map plan_of fs) = Some d /\ parse_fields o 0 d = Ok fs.
Proof. exact parse_serialize_l. Qed.
Print Assumptions parse_serialize.

(* "every decoder is total: on any byte string it terminates": the fuel 2*len+1 given by
   parse_fields always suffices, for every input, option set and depth *)
Theorem parse_total : forall o depth d, parse_fields o depth d <> OutOfFuel.
Proof. exact parse_total_l. Qed.
Print Assumptions parse_total.

(* "accept exactly the well-formed inputs and account for every input byte":
   [well_formed o d fs] (WireSpec) splits d, with nothing left over, into tags, values, length
   prefixes, payloads and end-group tags of the fields of fs *)
Theorem accepts_iff_wellformed : forall o d fs, parse_fields o 0 d = Ok fs <-> well_formed o d fs.
Proof. exact accepts_iff_wellformed_l. Qed.
Print Assumptions accepts_iff_wellformed.

Theorem consumes_all : forall o d fs, parse_fields o 0 d = Ok fs -> fields_repr o 0 fs d.
Proof. exact consumes_all_l. Qed.
Print Assumptions consumes_all.

(* "honours its nesting limit": an accepted input has at most MaxDepth levels, top level included *)
Theorem depth_honoured : forall o d fs, parse_fields o 0 d = Ok fs -> nest fs + 1 <= o_max o.
Proof. exact depth_honoured_l. Qed.
Print Assumptions depth_honoured.

(* ... and the limit is exact: the canonical encoding of a tree that would be encodable under a
   larger MaxDepth but has more than MaxDepth levels is refused with ErrMaxDepth, whatever else
   it contains *)
Theorem too_deep_rejected : forall o o' fs,
  same_but_max o o' -> wf_fields o' fs = true -> 0 < o_max o -> o_max o <= nest fs ->
  parse_fields o 0 (encode_fields fs) = Err EMaxDepth.
Proof. exact too_deep_rejected_l. Qed.
Print Assumptions too_deep_rejected.

(* ====================================================================== (2) base64 / hex / URL *)
(* "the matching decoder inverts it exactly", over all byte strings *)
Theorem base64_roundtrip : forall s, bytes_ok s -> base64_decode (base64_encode s) = Some s.
Proof. exact base64_roundtrip_l. Qed.
Print Assumptions base64_roundtrip.

Theorem urlencode_roundtrip : forall s, bytes_ok s -> urldecode (urlencode s) = s.
Proof. exact urlencode_roundtrip_l. Qed.
Print Assumptions urlencode_roundtrip.

Theorem rawurlencode_roundtrip : forall s, bytes_ok s -> rawurldecode (rawurlencode s) = s.
Proof. exact rawurlencode_roundtrip_l. Qed.
Print Assumptions rawurlencode_roundtrip.

(* bin2hex has no decoder in the standard library; the reference hex decoder reads it back *)
Theorem bin2hex_roundtrip : forall s, bytes_ok s -> hex_decode (bin2hex s) = Some s.
Proof. exact bin2hex_roundtrip_l. Qed.
Print Assumptions bin2hex_roundtrip.

(* "emits output that the format's reference implementation reads": the output is a text of the
   format — RFC 4648 base64 with padding, lower-case hex of twice the length, RFC 3986
   percent-encoding (only unreserved characters and %HH), form encoding (the same plus '+') *)
Theorem base64_text : forall s, bytes_ok s ->
  b64_text (base64_encode s) /\ length (base64_encode s) = (4 * ((length s + 2) / 3))%nat.
Proof. exact base64_text_len_l. Qed.
Print Assumptions base64_text.

Theorem bin2hex_alphabet : forall s, bytes_ok s ->
  Forall hex_lower_digit (bin2hex s) /\ length (bin2hex s) = (2 * length s)%nat.
Proof. exact bin2hex_alphabet_l. Qed.
Print Assumptions bin2hex_alphabet.

Theorem rawurlencode_rfc3986 : forall s, bytes_ok s -> pct_text false (rawurlencode s).
Proof. exact rawurlencode_rfc3986_l. Qed.
Print Assumptions rawurlencode_rfc3986.

Theorem urlencode_form_text : forall s, bytes_ok s -> pct_text true (urlencode s).
Proof. exact urlencode_form_text_l. Qed.
Print Assumptions urlencode_form_text.

(* decoders: base64_decode / urldecode / rawurldecode are total functions of the input (no fuel,
   no partial operation in the model); every percent-encoded text is decoded without falling
   back to "return the input unchanged" *)
Theorem pct_text_decodes : forall plus t, pct_text plus t -> exists s, unescape plus t = Some s.
Proof. exact pct_text_decodes_l. Qed.
Print Assumptions pct_text_decodes.

(* "accept exactly the well-formed inputs", for the byte decoders: base64_decode answers a string
   exactly when its input, CR/LF removed, is an RFC 4648 text (groups of four alphabet characters, the
   last one possibly padded); urldecode / rawurldecode take the "return the input unchanged" fallback
   exactly when some '%' is not followed by two hexadecimal digits *)
Theorem base64_accepts_iff : forall d,
  (exists s, base64_decode d = Some s) <-> b64_text (filter (fun c => negb (is_nl c)) d).
Proof. exact base64_accepts_iff_l. Qed.
Print Assumptions base64_accepts_iff.

Theorem unescape_accepts_iff : forall plus s, (exists t, unescape plus s = Some t) <-> pct_escaped s.
Proof. exact unescape_accepts_iff_l. Qed.
Print Assumptions unescape_accepts_iff.

(* ====================================================================== (3) serialize / unserialize *)
(* "the matching decoder inverts it exactly": for every value built from null, bool, 64-bit int, float,
   ArrayValue with keyed slots, byte string (any bytes: quotes, semicolons, NUL), list and string-keyed map, nested arbitrarily,
   unserialize(serialize(v)) is v — as a PHP value: an empty map comes back as the empty list *)
Theorem unserialize_serialize : forall v, serializable v = true ->
  exists t, serialize v = Some t /\ unserialize t = POk (canon v).
Proof. exact unserialize_serialize_l. Qed.
Print Assumptions unserialize_serialize.

(* "every decoder is total": the fuel unserialize gives its scanner (2*len+2) always suffices.
   That the Go code has no failing index / slice operation is NOT a theorem: the model has no Crash
   outcome because, on my reading of the code, every index is guarded by a length test; that reading is
   backed only by the tie (all 1- and 2-byte inputs, hostile lengths, mutants, panics reported as
   violations). *)
Theorem unserialize_total : forall s, unserialize s <> POutOfFuel.
Proof. exact unserialize_total_l. Qed.
Print Assumptions unserialize_total.

(* "account for every input byte": the strict parser accepts only when the scanner stopped exactly
   at the end of the input, and every value it reads consumes at least two bytes *)
Theorem parse_strict_consumes : forall s v, parse_strict s = POk v ->
  parse_value (fuel_for s) s = POk (v, []).
Proof. exact parse_strict_consumes_l. Qed.
Print Assumptions parse_strict_consumes.

Theorem scanner_moves_forward : forall f s v r, parse_value f s = POk (v, r) ->
  (length r + 2 <= length s)%nat.
Proof. exact scanner_moves_forward_l. Qed.
Print Assumptions scanner_moves_forward.

(* "accept exactly the well-formed inputs": the strict parser accepts a byte string with a value iff
   the string is a text of the grammar ser_text (SerSpec.v) denoting that value — soundness and
   completeness; and unserialize as a whole accepts exactly those texts *)
Theorem unserialize_strict_accepts_iff : forall s v, parse_strict s = POk v <-> ser_text s v.
Proof. exact strict_accepts_iff_l. Qed.
Print Assumptions unserialize_strict_accepts_iff.

Theorem unserialize_accepts_iff : forall s v, unserialize s = POk v <-> ser_text s v.
Proof. exact unserialize_accepts_iff_l. Qed.
Print Assumptions unserialize_accepts_iff.

(* A float is identified with its text (strconv's float <-> shortest text is assumed); the grammar
   admits array keys of any scalar kind (PHP: int or string only), see Examples.ex_lenient_key.
   Not modelled: class instances (serialize writes O:..., unserialize has no O: case: known finding
   ser:roundtrip:object), the legacy __origami_ wrappers (PUnmodelled outcome). *)

(* ====================================================================== (4) JSON value <-> tree *)
(* "emits output that the format's reference implementation reads back as the same value": the
   reference reader (JsonSpec.spec_of_json, either mode) reads json_encode's output back as the value,
   for every value the format can carry (64-bit ints, finite floats, UTF-8 strings and keys, distinct
   keys; lists, objects, keyed arrays, any nesting) ... *)
Theorem json_encode_denotes : forall ib assoc v, JsonSpec.spec_ok v = true ->
  exists t, json_encode ib v = Some t /\ spec_of_json assoc t = view assoc v.
Proof. exact json_encode_denotes_l. Qed.
Print Assumptions json_encode_denotes.

(* the UTF-8 test both use (the table of utf8.ValidString) accepts exactly the concatenations of
   RFC 3629 encodings of Unicode scalar values *)
Theorem utf8_valid_iff_text : forall s, utf8_valid s = true <-> utf8_text s.
Proof. exact utf8_valid_iff_text_l. Qed.
Print Assumptions utf8_valid_iff_text.

(* ... and json_encode answers false exactly on the values that have no JSON encoding *)
Theorem json_encode_refuses : forall ib v, json_encode ib v = None <-> encodable v = false.
Proof. exact json_encode_refuses_l. Qed.
Print Assumptions json_encode_refuses.

(* default-mode json_decode is the reference reading (key order, exact 64-bit ints, larger
   literals as floats, nesting limit) on every text whose top level is an object ... *)
Theorem json_decode_default_agrees : forall depth t, is_obj t = true ->
  json_decode false depth t = spec_decode false depth t.
Proof. exact json_decode_default_agrees_l. Qed.
Print Assumptions json_decode_default_agrees.

(* ... and assoc-mode json_decode is the reference reading on every text, any top level, in which
   no object has the empty string as a key. *)
Theorem json_decode_assoc_agrees : forall depth t, keys_ok t = true ->
  json_decode true depth t = spec_decode true depth t.
Proof. exact json_decode_assoc_agrees_l. Qed.
Print Assumptions json_decode_assoc_agrees.

(* "the matching decoder inverts it exactly" *)
Theorem json_roundtrip_default : forall ib depth l, let v := PMap l in
  JsonSpec.spec_ok v = true -> (nesting (view false v) <= depth)%Z ->
  exists t, json_encode ib v = Some t /\ json_decode false depth t = Some (view false v).
Proof. exact json_roundtrip_default_l. Qed.
Print Assumptions json_roundtrip_default.

Theorem json_roundtrip_assoc : forall ib depth v,
  JsonSpec.spec_ok v = true -> vkeys_ok v = true -> (nesting (view true v) <= depth)%Z ->
  exists t, json_encode ib v = Some t /\ json_decode true depth t = Some (view true v).
Proof. exact json_roundtrip_assoc_l. Qed.
Print Assumptions json_roundtrip_assoc.

(* REFUTED outside those classes (witnesses in Examples.v, known findings demonstrated on the
   implementation): in default mode a top-level array, scalar or null does not decode to itself
   (pinned by the repository's own tests/php/json_decode.php); in assoc mode the empty key is lost.
   Not modelled: the text layer (encoding/json: syntax, escapes, number spelling). *)
