(* C14 — encoders are faithful and decoders total.  Only statements; every proof is `exact lemma`.
   Sections: (1) protobuf wire, (2) base64 / hex / URL byte codecs, (3) PHP serialize text format,
   (4) JSON value <-> tree layer. *)
From Coq Require Import List NArith ZArith Bool.
From V.C14 Require Import WireModel WireSpec WireLemmas WireProofs.
Import ListNotations.
Open Scope N_scope.

(* ====================================================================== (1) protobuf wire *)

(* encoder faithful / decoder inverts it: the primitive codecs *)
Theorem varint_roundtrip : forall v rest, v < 2 ^ 64 ->
  consume_varint (append_varint v ++ rest) = Val v rest.
Proof. exact varint_roundtrip_l. Qed.
Print Assumptions varint_roundtrip.

Theorem tag_roundtrip : forall num wt rest, 1 <= num <= 2147483647 -> wt < 8 ->
  consume_tag (append_tag num wt ++ rest) = Tag num wt rest.
Proof. exact tag_roundtrip_l. Qed.
Print Assumptions tag_roundtrip.

(* "the matching decoder inverts it exactly": for every encodable field tree (any nesting of
   messages, groups, packed fields, under any options that fit it) *)
Theorem parse_encode : forall o fs, wf_fields o fs = true ->
  parse_fields o 0 (encode_fields fs) = Ok fs.
Proof. exact parse_encode_l. Qed.
Print Assumptions parse_encode.

(* "every decoder is total: on any byte string it terminates": the fuel 2*len+1 given by
   parse_fields always suffices, for every input, option set and depth *)
Theorem parse_total : forall o depth d, parse_fields o depth d <> OutOfFuel.
Proof. exact parse_total_l. Qed.
Print Assumptions parse_total.

(* "accept exactly the well-formed inputs and account for every input byte":
   [well_formed o d fs] (WireSpec) splits d, with nothing left over, into tags, values, length
   prefixes, payloads and end-group tags of the fields of fs *)
Theorem accepts_iff_wellformed : forall o d fs, parse_fields o 0 d = Ok fs <-> well_formed o d fs.
Proof. exact accepts_iff_wellformed_l. Qed.
Print Assumptions accepts_iff_wellformed.

Theorem consumes_all : forall o d fs, parse_fields o 0 d = Ok fs -> fields_repr o 0 fs d.
Proof. exact consumes_all_l. Qed.
Print Assumptions consumes_all.

(* "honours its nesting limit": an accepted input has at most MaxDepth levels, top level included *)
Theorem depth_honoured : forall o d fs, parse_fields o 0 d = Ok fs -> nest fs + 1 <= o_max o.
Proof. exact depth_honoured_l. Qed.
Print Assumptions depth_honoured.
