(* C14 (1) — lemmas about the wire primitives (varint, tag, fixed, bytes, packed). *)
From Coq Require Import List NArith ZArith Bool Lia.
From Coq Require Import ZifyN ZifyNat ZifyBool.
From V.C14 Require Import WireModel WireSpec.
Import ListNotations.
Open Scope N_scope.
Ltac Zify.zify_post_hook ::= Z.div_mod_to_equations.

(* ------------------------------------------------------------------ varint *)
Lemma dec_of_repr : forall k bs v, is_varint k bs v ->
  forall shift acc rest, dec k shift acc (bs ++ rest) = Val (acc + v * shift) rest.
Proof.
  induction 1; intros shift acc rest.
  - destruct k; cbn [app dec].
    + replace (b <? 2) with true by (specialize (H0 eq_refl); lia). reflexivity.
    + replace (b <? 128) with true by lia. reflexivity.
  - cbn [app dec]. replace (b <? 128) with false by lia.
    rewrite IHis_varint. f_equal. lia.
Qed.

Lemma dec_to_repr : forall k d shift acc x rest, dec k shift acc d = Val x rest ->
  exists bs v, d = bs ++ rest /\ is_varint k bs v /\ x = acc + v * shift.
Proof.
  induction k; intros d shift acc x rest H; destruct d as [|y r]; cbn [dec] in H; try discriminate.
  - destruct (y <? 2) eqn:E; inversion H; subst.
    exists [y], y. split; [reflexivity|]. split; [constructor; lia|lia].
  - destruct (y <? 128) eqn:E.
    + inversion H; subst. exists [y], y. split; [reflexivity|].
      split; [constructor; [lia|discriminate]|lia].
    + apply IHk in H. destruct H as (bs & v & -> & Hv & ->).
      exists (y :: bs), ((y - 128) + 128 * v). split; [reflexivity|].
      split; [constructor; [lia|assumption]|lia].
Qed.

Lemma is_varint_nonempty : forall k bs v, is_varint k bs v -> (1 <= length bs)%nat.
Proof. intros k bs v H; inversion H; simpl; lia. Qed.

Lemma is_varint_len : forall k bs v, is_varint k bs v -> (length bs <= S k)%nat.
Proof. induction 1; simpl; lia. Qed.

Lemma enc_repr : forall k v, v < 128 ^ N.of_nat k * 2 -> is_varint k (enc k v) v.
Proof.
  induction k; intros v H.
  - cbn [enc]. simpl in H. constructor; lia.
  - cbn [enc]. destruct (v <? 128) eqn:E.
    + constructor; [lia|discriminate].
    + assert (Hb : v / 128 < 128 ^ N.of_nat k * 2).
      { rewrite Nat2N.inj_succ, N.pow_succ_r' in H. lia. }
      pose proof (iv_more k (v mod 128 + 128) _ _ ltac:(lia) (IHk _ Hb)) as P.
      replace (v mod 128 + 128 - 128 + 128 * (v / 128)) with v in P by lia. exact P.
Qed.

Lemma append_varint_repr : forall v, v < 2 ^ 64 -> varint_repr (append_varint v) v.
Proof. intros v H. apply enc_repr. exact H. Qed.

Lemma consume_varint_repr : forall bs v rest, varint_repr bs v ->
  consume_varint (bs ++ rest) = Val v rest.
Proof.
  intros bs v rest H. unfold consume_varint. rewrite (dec_of_repr _ _ _ H). f_equal. lia.
Qed.

Lemma consume_varint_inv : forall d v rest, consume_varint d = Val v rest ->
  exists bs, d = bs ++ rest /\ varint_repr bs v.
Proof.
  intros d v rest H. apply dec_to_repr in H. destruct H as (bs & w & -> & Hv & ->).
  exists bs. split; [reflexivity|]. replace (0 + w * 1) with w by lia. exact Hv.
Qed.

(* ------------------------------------------------------------------ tag *)
Lemma consume_tag_repr : forall t num wt rest, tag_repr t num wt ->
  consume_tag (t ++ rest) = Tag num wt rest.
Proof.
  intros t num wt rest (Hn & Hw & Hv). unfold consume_tag. rewrite (consume_varint_repr _ _ _ Hv).
  destruct Hn as [H1 H2].
  replace ((num * 8 + wt) / 8) with num by lia.
  replace ((num * 8 + wt) mod 8) with wt by lia.
  replace (num <? 1) with false by lia. replace (2147483647 <? num) with false by lia.
  reflexivity.
Qed.

Lemma consume_tag_inv : forall d num wt rest, consume_tag d = Tag num wt rest ->
  exists t, d = t ++ rest /\ tag_repr t num wt.
Proof.
  intros d num wt rest H. unfold consume_tag in H.
  destruct (consume_varint d) as [v r| |] eqn:E; try discriminate.
  destruct ((v / 8 <? 1) || (2147483647 <? v / 8)) eqn:B; try discriminate.
  inversion H; subst. apply consume_varint_inv in E. destruct E as (bs & -> & Hv).
  exists bs. split; [reflexivity|]. unfold tag_repr, num_ok.
  split; [lia|]. split; [lia|]. replace (v / 8 * 8 + v mod 8) with v by lia. exact Hv.
Qed.

Lemma tag_repr_nonempty : forall t num wt, tag_repr t num wt -> (1 <= length t)%nat.
Proof. intros t num wt (_ & _ & H). eapply is_varint_nonempty; eauto. Qed.

Lemma append_tag_repr : forall num wt, num_okb num = true -> wt < 8 -> tag_repr (append_tag num wt) num wt.
Proof.
  intros num wt Hn Hw. unfold num_okb in Hn. unfold tag_repr, num_ok, append_tag.
  split; [lia|]. split; [lia|]. replace (wt mod 8) with wt by lia.
  apply append_varint_repr. change (2 ^ 64) with 18446744073709551616. lia.
Qed.

(* ------------------------------------------------------------------ fixed *)
Lemma firstn_app_exact : forall (a b : bytes), firstn (length a) (a ++ b) = a.
Proof. intros a b. rewrite firstn_app, Nat.sub_diag, firstn_all. simpl. apply app_nil_r. Qed.
Lemma skipn_app_exact : forall (a b : bytes), skipn (length a) (a ++ b) = b.
Proof. intros a b. rewrite skipn_app, Nat.sub_diag, skipn_all. reflexivity. Qed.

Lemma consume_fixed_repr : forall n a v rest, fixed_repr n a v ->
  consume_fixed n (a ++ rest) = Some (v, rest).
Proof.
  intros n a v rest (Hl & ->). unfold consume_fixed. subst n.
  replace (Nat.ltb (length (a ++ rest)) (length a)) with false
    by (symmetry; apply Nat.ltb_ge; rewrite app_length; lia).
  rewrite firstn_app_exact, skipn_app_exact. reflexivity.
Qed.

Lemma consume_fixed_inv : forall n d v rest, consume_fixed n d = Some (v, rest) ->
  exists a, d = a ++ rest /\ fixed_repr n a v.
Proof.
  intros n d v rest H. unfold consume_fixed in H.
  destruct (Nat.ltb (length d) n) eqn:E; try discriminate. apply Nat.ltb_ge in E.
  inversion H; subst. exists (firstn n d). split; [symmetry; apply firstn_skipn|].
  split; [apply firstn_length_le; exact E|reflexivity].
Qed.

Lemma le_bytes_length : forall n v, length (le_bytes n v) = n.
Proof. induction n; intros; simpl; auto. Qed.
Lemma le_val_bytes : forall n v, v < 256 ^ N.of_nat n -> le_val (le_bytes n v) = v.
Proof.
  induction n; intros v H.
  - simpl in *. lia.
  - cbn [le_bytes le_val]. rewrite IHn.
    + lia.
    + rewrite Nat2N.inj_succ, N.pow_succ_r' in H. lia.
Qed.
Lemma append_fixed32_repr : forall v, v < 2 ^ 32 -> fixed_repr 4 (append_fixed32 v) v.
Proof. intros v H. split; [apply le_bytes_length|]. symmetry. apply le_val_bytes. exact H. Qed.
Lemma append_fixed64_repr : forall v, v < 2 ^ 64 -> fixed_repr 8 (append_fixed64 v) v.
Proof. intros v H. split; [apply le_bytes_length|]. symmetry. apply le_val_bytes. exact H. Qed.

(* ------------------------------------------------------------------ length-delimited *)
Lemma consume_bytes_repr : forall l p rest, varint_repr l (N.of_nat (length p)) ->
  consume_bytes (l ++ p ++ rest) = Some (p, rest).
Proof.
  intros l p rest H. unfold consume_bytes. rewrite (consume_varint_repr _ _ _ H).
  replace (N.of_nat (length (p ++ rest)) <? N.of_nat (length p)) with false
    by (rewrite app_length; lia).
  rewrite Nat2N.id, firstn_app_exact, skipn_app_exact. reflexivity.
Qed.

Lemma consume_bytes_inv : forall d p rest, consume_bytes d = Some (p, rest) ->
  exists l, d = l ++ p ++ rest /\ varint_repr l (N.of_nat (length p)).
Proof.
  intros d p rest H. unfold consume_bytes in H.
  destruct (consume_varint d) as [m r| |] eqn:E; try discriminate.
  destruct (N.of_nat (length r) <? m) eqn:B; try discriminate.
  inversion H; subst. apply consume_varint_inv in E. destruct E as (l & -> & Hv).
  exists l. rewrite firstn_skipn. split; [reflexivity|].
  rewrite firstn_length_le by lia. rewrite N2Nat.id. exact Hv.
Qed.

Lemma append_bytes_split : forall p, len_okb p = true ->
  exists l, append_bytes p = l ++ p /\ varint_repr l (N.of_nat (length p)).
Proof.
  intros p H. unfold len_okb in H. exists (append_varint (N.of_nat (length p))).
  split; [reflexivity|]. apply append_varint_repr. lia.
Qed.

(* ------------------------------------------------------------------ packed payloads *)
Lemma unpack_varints_sound : forall fuel d vs, unpack_varints fuel d = Ok vs ->
  list_repr (fun v x => elem_repr 0 x v) vs d.
Proof.
  induction fuel; intros d vs H; destruct d as [|y r]; cbn [unpack_varints] in H;
    try discriminate; try (inversion H; subst; reflexivity).
  destruct (consume_varint (y :: r)) as [v r'| |] eqn:E; try discriminate.
  destruct (unpack_varints fuel r') as [l| |] eqn:U; try discriminate.
  inversion H; subst. apply consume_varint_inv in E. destruct E as (bs & E & Hv).
  simpl. exists bs, r'. split; [exact E|]. split; [exact Hv|]. apply IHfuel. exact U.
Qed.

Lemma unpack_varints_complete : forall vs d fuel, list_repr (fun v x => elem_repr 0 x v) vs d ->
  (length d <= fuel)%nat -> unpack_varints fuel d = Ok vs.
Proof.
  induction vs as [|v vs IH]; intros d fuel H Hf.
  - simpl in H. subst. destruct fuel; reflexivity.
  - simpl in H. destruct H as (a & b & -> & Hv & Hr).
    pose proof (is_varint_nonempty _ _ _ Hv) as Hn.
    destruct a as [|a0 a]; [simpl in Hn; lia|].
    destruct fuel; [simpl in Hf; lia|].
    change ((a0 :: a) ++ b) with (a0 :: (a ++ b)). cbn [unpack_varints].
    change (a0 :: a ++ b) with ((a0 :: a) ++ b). rewrite (consume_varint_repr _ _ _ Hv).
    rewrite (IH b fuel Hr); [reflexivity|]. simpl in Hf. rewrite app_length in Hf. lia.
Qed.

Lemma unpack_varints_fuel : forall fuel d, (length d <= fuel)%nat -> unpack_varints fuel d <> OutOfFuel.
Proof.
  induction fuel; intros d Hf; destruct d as [|y r]; cbn [unpack_varints]; try discriminate.
  - simpl in Hf. lia.
  - destruct (consume_varint (y :: r)) as [v r'| |] eqn:E; try discriminate.
    apply consume_varint_inv in E. destruct E as (bs & E & Hv).
    pose proof (is_varint_nonempty _ _ _ Hv) as Hn.
    assert (length r' <= fuel)%nat.
    { assert (length (y :: r) = length (bs ++ r')) by (rewrite E; reflexivity).
      rewrite app_length in H. simpl in H, Hf. lia. }
    specialize (IHfuel r' H). destruct (unpack_varints fuel r'); try discriminate. congruence.
Qed.

Lemma unpack_fixed_sound : forall n e et, (forall x v, fixed_repr n x v -> elem_repr et x v) ->
  forall fuel d vs, unpack_fixed n e fuel d = Ok vs -> list_repr (fun v x => elem_repr et x v) vs d.
Proof.
  intros n e et Hel. induction fuel; intros d vs H; destruct d as [|y r]; cbn [unpack_fixed] in H;
    try discriminate; try (inversion H; subst; reflexivity).
  destruct (consume_fixed n (y :: r)) as [[v r']|] eqn:E; try discriminate.
  destruct (unpack_fixed n e fuel r') as [l| |] eqn:U; try discriminate.
  inversion H; subst. apply consume_fixed_inv in E. destruct E as (bs & E & Hv).
  simpl. exists bs, r'. split; [exact E|]. split; [apply Hel; exact Hv|]. apply IHfuel. exact U.
Qed.

Lemma unpack_fixed_complete : forall n e et, (1 <= n)%nat ->
  (forall x v, elem_repr et x v -> fixed_repr n x v) ->
  forall vs d fuel, list_repr (fun v x => elem_repr et x v) vs d ->
  (length d <= fuel)%nat -> unpack_fixed n e fuel d = Ok vs.
Proof.
  intros n e et Hn1 Hel. induction vs as [|v vs IH]; intros d fuel H Hf.
  - simpl in H. subst. destruct fuel; reflexivity.
  - simpl in H. destruct H as (a & b & -> & Hv & Hr). apply Hel in Hv.
    assert (Hn : (1 <= length a)%nat) by (destruct Hv; lia).
    destruct a as [|a0 a]; [simpl in Hn; lia|].
    destruct fuel; [simpl in Hf; lia|].
    change ((a0 :: a) ++ b) with (a0 :: (a ++ b)). cbn [unpack_fixed].
    change (a0 :: a ++ b) with ((a0 :: a) ++ b). rewrite (consume_fixed_repr _ _ _ _ Hv).
    rewrite (IH b fuel Hr); [reflexivity|]. simpl in Hf. rewrite app_length in Hf. lia.
Qed.

Lemma unpack_fixed_fuel : forall n e, (1 <= n)%nat ->
  forall fuel d, (length d <= fuel)%nat -> unpack_fixed n e fuel d <> OutOfFuel.
Proof.
  intros n e Hn1. induction fuel; intros d Hf; destruct d as [|y r]; cbn [unpack_fixed]; try discriminate.
  - simpl in Hf. lia.
  - destruct (consume_fixed n (y :: r)) as [[v r']|] eqn:E; try discriminate.
    apply consume_fixed_inv in E. destruct E as (bs & E & Hv).
    assert (length r' <= fuel)%nat.
    { assert (length (y :: r) = length (bs ++ r')) by (rewrite E; reflexivity).
      rewrite app_length in H. destruct Hv. simpl in H, Hf. lia. }
    specialize (IHfuel r' H). destruct (unpack_fixed n e fuel r'); try discriminate. congruence.
Qed.

Lemma unpack_packed_sound : forall et d vs, unpack_packed et d = Ok vs ->
  et_ok et /\ list_repr (fun v x => elem_repr et x v) vs d.
Proof.
  intros et d vs H. unfold unpack_packed in H.
  destruct et as [|p]; [split; [left; reflexivity|eapply unpack_varints_sound; eauto]|].
  destruct p as [p|p|]; try discriminate.
  - destruct p as [p|p|]; try discriminate. destruct p; try discriminate.
    split; [right; left; reflexivity|]. eapply unpack_fixed_sound; [|exact H]. intros x v Hx. exact Hx.
  - split; [right; right; reflexivity|]. eapply unpack_fixed_sound; [|exact H]. intros x v Hx. exact Hx.
Qed.

Lemma unpack_packed_complete : forall et d vs, et_ok et ->
  list_repr (fun v x => elem_repr et x v) vs d -> unpack_packed et d = Ok vs.
Proof.
  intros et d vs [ -> | [ -> | -> ] ] H; unfold unpack_packed.
  - apply unpack_varints_complete; [exact H|lia].
  - eapply unpack_fixed_complete; [lia| |exact H|lia]. intros x v Hx. exact Hx.
  - eapply unpack_fixed_complete; [lia| |exact H|lia]. intros x v Hx. exact Hx.
Qed.

Lemma unpack_packed_fuel : forall et d, unpack_packed et d <> OutOfFuel.
Proof.
  intros et d. unfold unpack_packed.
  destruct et as [|p]; [apply unpack_varints_fuel; lia|].
  destruct p as [p|p|]; try discriminate.
  - destruct p as [p|p|]; try discriminate. destruct p; try discriminate.
    apply unpack_fixed_fuel; lia.
  - apply unpack_fixed_fuel; lia.
Qed.
