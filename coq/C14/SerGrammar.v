(* C14 (3) — the strict unserialize parser accepts exactly the texts of the grammar ser_text
   (SerSpec.v) and reads each to the value the grammar assigns: soundness and completeness. *)
From Coq Require Import List NArith ZArith Bool Lia.
From Coq Require Import ZifyN ZifyNat ZifyBool.
From V.C14 Require Import SerModel SerSpec SerProofs.
Import ListNotations.
Open Scope N_scope.

(* ------------------------------------------------------------------ what the scanning steps mean *)
Lemma expect_spec : forall c s r, expect c s = Some r -> s = c :: r.
Proof.
  intros c s r H. destruct s as [|x s']; [discriminate|]. cbn [expect] in H.
  destruct (x =? c) eqn:E; inversion H; subst. f_equal. lia.
Qed.

Lemma span_spec : forall s ds r, span_digits s = (ds, r) -> s = ds ++ r /\ Forall digitP ds.
Proof.
  induction s as [|c s IH]; intros ds r H; cbn [span_digits] in H.
  - inversion H; subst. split; [reflexivity|constructor].
  - destruct (is_digit c) eqn:E.
    + destruct (span_digits s) as [a b] eqn:E2. inversion H; subst.
      destruct (IH a r eq_refl) as [-> Hd]. split; [reflexivity|constructor; assumption].
    + inversion H; subst. split; [reflexivity|constructor].
Qed.

Lemma take_sign_spec : forall s neg r, take_sign s = (neg, r) -> exists sg, s = sg ++ r /\ sign_text sg neg.
Proof.
  intros s neg r H. destruct s as [|x t]; cbn [take_sign] in H.
  - inversion H; subst. exists []. split; [reflexivity|left; auto].
  - destruct (x =? 45) eqn:E1.
    + inversion H; subst. exists [45]. split; [simpl; f_equal; lia|right; left; auto].
    + destruct (x =? 43) eqn:E2; inversion H; subst.
      * exists [43]. split; [simpl; f_equal; lia|right; right; auto].
      * exists []. split; [reflexivity|left; auto].
Qed.

Lemma take_sign_of : forall sg neg ds rest, sign_text sg neg -> digits ds ->
  take_sign (sg ++ ds ++ rest) = (neg, ds ++ rest).
Proof.
  intros sg neg ds rest Hs [Hne Hd]. destruct Hs as [[-> ->]|[[-> ->]|[-> ->]]]; cbn [app].
  - destruct ds as [|d ds']; [congruence|]. inversion Hd; subst. cbn [app]. apply take_sign_digit. assumption.
  - reflexivity.
  - reflexivity.
Qed.

Lemma split_semi_spec : forall s a b, split_semi s = Some (a, b) -> s = a ++ 59 :: b /\ no_semi a = true.
Proof.
  induction s as [|c s IH]; intros a b H; cbn [split_semi] in H; [discriminate|].
  destruct (c =? 59) eqn:E.
  - inversion H; subst. split; [simpl; f_equal; lia|reflexivity].
  - destruct (split_semi s) as [[a' b']|] eqn:E2; [|discriminate]. inversion H; subst.
    destruct (IH a' b eq_refl) as [-> Hn]. split; [reflexivity|].
    cbn [no_semi forallb]. rewrite E. exact Hn.
Qed.

Lemma digits_cons : forall ds, digits ds -> exists d r, ds = d :: r.
Proof. intros ds [H _]. destruct ds as [|d r]; [congruence|eauto]. Qed.

(* ------------------------------------------------------------------ general headers *)
Lemma parse_int_gen : forall f sg neg ds z rest, sign_text sg neg -> digits ds ->
  int_of_text neg ds = Some z ->
  parse_value (S f) ([105; 58] ++ sg ++ ds ++ [59] ++ rest) = POk (VInt z, rest).
Proof.
  intros f sg neg ds z rest Hs Hd Hz. rewrite parse_value_S. cbn [app].
  change (105 =? 78) with false. change (105 =? 98) with false. change (105 =? 105) with true. cbv iota.
  rewrite expect_hit. rewrite (take_sign_of sg neg ds (59 :: rest) Hs Hd).
  rewrite span_digits_app; [|apply Hd|reflexivity].
  destruct (digits_cons ds Hd) as (d & r & E). subst ds. rewrite expect_hit. rewrite Hz. reflexivity.
Qed.

Lemma parse_str_gen : forall f ds s rest, digits ds -> val_digits ds = N.of_nat (length s) ->
  val_digits ds <= max_int ->
  parse_value (S f) ([115; 58] ++ ds ++ [58; 34] ++ s ++ [34; 59] ++ rest) = POk (VStr s, rest).
Proof.
  intros f ds s rest Hd Hv Hm. rewrite parse_value_S. cbn [app].
  change (115 =? 78) with false. change (115 =? 98) with false. change (115 =? 105) with false.
  change (115 =? 100) with false. change (115 =? 115) with true. cbv iota.
  rewrite expect_hit.
  rewrite span_digits_app; [|apply Hd|reflexivity].
  destruct (digits_cons ds Hd) as (d & r & E). subst ds.
  rewrite expect_hit, expect_hit. rewrite Hv.
  replace (max_int <? N.of_nat (length s)) with false by lia.
  replace (N.of_nat (length (s ++ 34 :: 59 :: rest)) <? N.of_nat (length s) + 2) with false
    by (rewrite app_length; simpl; lia).
  rewrite Nat2N.id. rewrite skipn_app_exact, firstn_app_exact.
  rewrite expect_hit, expect_hit. reflexivity.
Qed.

Lemma parse_arr_gen : forall f ds body rest kvs, digits ds -> val_digits ds <= max_int ->
  (4 * N.to_nat (val_digits ds) <= length body)%nat ->
  parse_pairs f (val_digits ds) (body ++ [125] ++ rest) = POk (kvs, [125] ++ rest) ->
  parse_value (S f) ([97; 58] ++ ds ++ [58; 123] ++ body ++ [125] ++ rest) =
    if sequential 0 kvs then POk (VList (map snd kvs), rest)
    else match build_map kvs [] with Some m => POk (VMap m, rest) | None => PUnmodelled end.
Proof.
  intros f ds body rest kvs Hd Hn Hb Hp. rewrite parse_value_S. cbn [app].
  change (97 =? 78) with false. change (97 =? 98) with false. change (97 =? 105) with false.
  change (97 =? 100) with false. change (97 =? 115) with false. change (97 =? 97) with true. cbv iota.
  rewrite expect_hit.
  rewrite span_digits_app; [|apply Hd|reflexivity].
  destruct (digits_cons ds Hd) as (d & r & E). subst ds.
  rewrite expect_hit, expect_hit. cbv zeta.
  replace (max_int <? val_digits (d :: r)) with false by lia.
  replace (N.of_nat (length (body ++ 125 :: rest)) / 4 <? val_digits (d :: r)) with false
    by (rewrite app_length; cbn [length]; lia).
  cbn [app] in Hp. rewrite Hp. rewrite expect_hit. reflexivity.
Qed.

(* ------------------------------------------------------------------ sizes of texts *)
Scheme ser_text_mut := Induction for ser_text Sort Prop
  with pairs_text_mut := Induction for pairs_text Sort Prop.
Combined Scheme ser_pairs_ind from ser_text_mut, pairs_text_mut.

Lemma text_sizes :
  (forall a v, ser_text a v -> (2 <= length a)%nat) /\
  (forall body kvs, pairs_text body kvs -> (4 * length kvs <= length body)%nat).
Proof.
  apply ser_pairs_ind; intros; repeat rewrite app_length; cbn [length]; try lia.
Qed.

(* ------------------------------------------------------------------ soundness *)
Definition G_pv (f : nat) := forall s v r, parse_value f s = POk (v, r) -> exists a, s = a ++ r /\ ser_text a v.
Definition G_pp (f : nat) := forall n s kvs r, parse_pairs f n s = POk (kvs, r) ->
  exists body, s = body ++ r /\ pairs_text body kvs /\ N.of_nat (length kvs) = n.

Lemma grammar_sound_all : forall f, G_pv f /\ G_pp f.
Proof.
  induction f as [|f [IHA IHB]]; [split; red; intros; discriminate|].
  split.
  - intros s v r H. rewrite parse_value_S in H. cbv zeta in H.
    destruct s as [|c s']; [discriminate|].
    destruct (c =? 78) eqn:C1.
    { destruct (expect 59 s') eqn:E1; [|discriminate]. inversion H; subst. apply expect_spec in E1. subst.
      exists [78; 59]. split; [simpl; f_equal; lia|constructor]. }
    destruct (c =? 98) eqn:C2.
    { destruct (expect 58 s') as [[|x r2]|] eqn:E1; try discriminate.
      destruct (expect 59 r2) eqn:E2; [|discriminate]. apply expect_spec in E1, E2. subst.
      destruct (x =? 48) eqn:X0.
      - inversion H; subst. exists [98; 58; 48; 59]. split; [simpl; repeat f_equal; lia|constructor].
      - destruct (x =? 49) eqn:X1; [|discriminate]. inversion H; subst.
        exists [98; 58; 49; 59]. split; [simpl; repeat f_equal; lia|constructor]. }
    destruct (c =? 105) eqn:C3.
    { destruct (expect 58 s') as [r1|] eqn:E1; [|discriminate].
      destruct (take_sign r1) as [neg r2] eqn:E2. destruct (span_digits r2) as [ds r3] eqn:E3.
      destruct ds as [|d ds]; [discriminate|]. destruct (expect 59 r3) eqn:E4; [|discriminate].
      destruct (int_of_text neg (d :: ds)) as [z|] eqn:EZ; [|discriminate]. inversion H; subst.
      apply expect_spec in E1, E4. apply take_sign_spec in E2. destruct E2 as (sg & -> & Hsg).
      apply span_spec in E3. destruct E3 as [-> Hd]. subst.
      exists ([105; 58] ++ sg ++ (d :: ds) ++ [59]).
      split; [repeat rewrite <- app_assoc; simpl; f_equal; lia|].
      eapply st_int; eauto. split; [discriminate|exact Hd]. }
    destruct (c =? 100) eqn:C3d.
    { destruct (expect 58 s') as [r1|] eqn:E1; [|discriminate].
      destruct (split_semi r1) as [[txt r2]|] eqn:E2; [|discriminate].
      destruct (float_text_ok txt) eqn:EF; [|discriminate]. inversion H; subst.
      apply expect_spec in E1. apply split_semi_spec in E2. destruct E2 as [-> Hn]. subst.
      exists ([100; 58] ++ txt ++ [59]).
      split; [repeat rewrite <- app_assoc; simpl; f_equal; lia|]. apply st_float; assumption. }
    destruct (c =? 115) eqn:C4.
    { destruct (expect 58 s') as [r1|] eqn:E1; [|discriminate].
      destruct (span_digits r1) as [ds r2] eqn:E3.
      destruct ds as [|d ds]; [discriminate|]. destruct (expect 58 r2) as [r2'|] eqn:E4; [|discriminate].
      destruct (expect 34 r2') as [r3|] eqn:E5; [|discriminate].
      destruct (max_int <? val_digits (d :: ds)) eqn:EM; [discriminate|].
      destruct (N.of_nat (length r3) <? val_digits (d :: ds) + 2) eqn:EL; [discriminate|].
      destruct (expect 34 (skipn (N.to_nat (val_digits (d :: ds))) r3)) as [r3'|] eqn:E6; [|discriminate].
      destruct (expect 59 r3') eqn:E7; [|discriminate]. inversion H; subst.
      apply expect_spec in E1, E4, E5, E6, E7. apply span_spec in E3. destruct E3 as [-> Hd]. subst.
      set (n := N.to_nat (val_digits (d :: ds))) in *.
      exists ([115; 58] ++ (d :: ds) ++ [58; 34] ++ firstn n r3 ++ [34; 59]).
      split.
      - repeat rewrite <- app_assoc. cbn [app]. f_equal; [lia|]. f_equal. f_equal. f_equal. f_equal.
        rewrite <- (firstn_skipn n r3) at 1. rewrite E6. reflexivity.
      - apply st_str; [split; [discriminate|exact Hd]| |lia].
        rewrite firstn_length_le by (unfold n; lia). unfold n. rewrite N2Nat.id. reflexivity. }
    destruct (c =? 97) eqn:C5; [|discriminate].
    destruct (expect 58 s') as [r1|] eqn:E1; [|discriminate].
    destruct (span_digits r1) as [ds r2] eqn:E3.
    destruct ds as [|d ds]; [discriminate|]. destruct (expect 58 r2) as [r2'|] eqn:E4; [|discriminate].
    destruct (expect 123 r2') as [r3|] eqn:E5; [|discriminate].
    destruct (max_int <? val_digits (d :: ds)) eqn:EM; [discriminate|].
    destruct (N.of_nat (length r3) / 4 <? val_digits (d :: ds)); [discriminate|].
    destruct (parse_pairs f (val_digits (d :: ds)) r3) as [[kvs r4]| | |] eqn:EP; try discriminate.
    destruct (expect 125 r4) as [r5|] eqn:E6; [|discriminate].
    apply IHB in EP. destruct EP as (body & -> & Hbody & Hlen).
    apply expect_spec in E1, E4, E5, E6. apply span_spec in E3. destruct E3 as [-> Hd]. subst.
    assert (HV : arr_value kvs = Some v /\ r = r5).
    { unfold arr_value. destruct (sequential 0 kvs); [inversion H; auto|].
      destruct (build_map kvs []); inversion H; auto. }
    destruct HV as [HV ->].
    exists ([97; 58] ++ (d :: ds) ++ [58; 123] ++ body ++ [125]).
    split; [repeat rewrite <- app_assoc; cbn [app]; f_equal; lia|].
    eapply st_arr; eauto; [split; [discriminate|exact Hd]|lia].
  - intros n s kvs r H. rewrite parse_pairs_S in H.
    destruct (n =? 0) eqn:E0.
    { inversion H; subst. exists []. split; [reflexivity|]. split; [constructor|simpl; lia]. }
    destruct (parse_value f s) as [[k s1]| | |] eqn:E1; try discriminate.
    destruct (parse_value f s1) as [[v s2]| | |] eqn:E2; try discriminate.
    destruct (parse_pairs f (n - 1) s2) as [[kvs' s3]| | |] eqn:E3; try discriminate.
    inversion H; subst.
    apply IHA in E1. destruct E1 as (a & -> & Ha).
    apply IHA in E2. destruct E2 as (b & -> & Hb).
    apply IHB in E3. destruct E3 as (c & -> & Hc & Hl).
    exists (a ++ b ++ c). split; [repeat rewrite <- app_assoc; reflexivity|].
    split; [constructor; assumption|cbn [length]; lia].
Qed.

(* ------------------------------------------------------------------ completeness *)
Definition H_pv (f : nat) := forall a v r, ser_text a v ->
  (2 * length (a ++ r) + 1 <= f)%nat -> parse_value f (a ++ r) = POk (v, r).
Definition H_pp (f : nat) := forall body kvs r, pairs_text body kvs ->
  (2 * length (body ++ r) + 2 <= f)%nat ->
  parse_pairs f (N.of_nat (length kvs)) (body ++ r) = POk (kvs, r).

Lemma grammar_complete_all : forall f, H_pv f /\ H_pp f.
Proof.
  destruct text_sizes as [SZ1 SZ2].
  induction f as [|f [IHA IHB]]; [split; red; intros; simpl in *; lia|].
  split.
  - intros a v r H Hf. inversion H; subst.
    + reflexivity.
    + reflexivity.
    + reflexivity.
    + repeat rewrite <- app_assoc. eapply parse_int_gen; eauto.
    + repeat rewrite <- app_assoc. apply parse_float; assumption.
    + repeat rewrite <- app_assoc. apply parse_str_gen; assumption.
    + repeat rewrite <- app_assoc.
      match goal with Hp : pairs_text body kvs |- _ => pose proof (SZ2 _ _ Hp) as Hsz end.
      match goal with Hd : digits ds |- _ => destruct (digits_cons ds Hd) as (d0 & r0 & Eds) end.
      repeat rewrite <- app_assoc in Hf. repeat rewrite app_length in Hf. cbn [length] in Hf.
      rewrite (parse_arr_gen f ds body r kvs); try assumption.
      * unfold arr_value in *.
        destruct (sequential 0 kvs); [match goal with Hv : Some _ = Some _ |- _ => inversion Hv; reflexivity end|].
        destruct (build_map kvs []); match goal with Hv : _ = Some _ |- _ => inversion Hv; reflexivity end.
      * match goal with Hv : val_digits ds = _ |- _ => rewrite Hv end. rewrite Nat2N.id. exact Hsz.
      * match goal with Hv : val_digits ds = _ |- _ => rewrite Hv end.
        apply IHB; [assumption|]. repeat rewrite app_length. cbn [length].
        rewrite Eds in Hf. cbn [length] in Hf. lia.
  - intros body kvs r H Hf. inversion H; subst.
    + destruct f; reflexivity.
    + rewrite parse_pairs_S.
      replace (N.of_nat (length ((k, v) :: r0)) =? 0) with false by (cbn [length]; lia).
      repeat rewrite <- app_assoc. repeat rewrite <- app_assoc in Hf. repeat rewrite app_length in Hf.
      match goal with Ha : ser_text a k |- _ => pose proof (SZ1 _ _ Ha) as La end.
      match goal with Hb : ser_text b v |- _ => pose proof (SZ1 _ _ Hb) as Lb end.
      rewrite (IHA a k (b ++ c ++ r)) by (try assumption; repeat rewrite app_length; lia).
      rewrite (IHA b v (c ++ r)) by (try assumption; repeat rewrite app_length; lia).
      replace (N.of_nat (length ((k, v) :: r0)) - 1) with (N.of_nat (length r0)) by (cbn [length]; lia).
      rewrite (IHB c r0 r) by (try assumption; repeat rewrite app_length; lia). reflexivity.
Qed.

(* ------------------------------------------------------------------ top level *)
Lemma strict_accepts_iff_l : forall s v, parse_strict s = POk v <-> ser_text s v.
Proof.
  intros s v. split.
  - intros H. apply parse_strict_consumes_l in H.
    destruct (grammar_sound_all (fuel_for s)) as [G _]. apply G in H. destruct H as (a & -> & Ha).
    rewrite app_nil_r. exact Ha.
  - intros H. unfold parse_strict. destruct (grammar_complete_all (fuel_for s)) as [C _].
    specialize (C s v [] H). rewrite app_nil_r in C. rewrite C; [reflexivity|]. unfold fuel_for. lia.
Qed.

Lemma ser_text_prefix : forall t v, ser_text t v ->
  (has_prefix [78; 59] t || has_prefix [98; 58] t || has_prefix [105; 58] t || has_prefix [100; 58] t
   || has_prefix [115; 58] t || has_prefix [97; 58] t) = true /\ t <> [].
Proof.
  intros t v H. inversion H; subst; split; try discriminate; try reflexivity.
Qed.

(* the function as a whole accepts exactly the grammar's texts *)
Lemma unserialize_accepts_iff_l : forall s v, unserialize s = POk v <-> ser_text s v.
Proof.
  intros s v. unfold unserialize. split.
  - intros H. destruct s as [|c r] eqn:E; [discriminate|]. rewrite <- E in *.
    destruct (has_prefix [78; 59] s || has_prefix [98; 58] s || has_prefix [105; 58] s
              || has_prefix [100; 58] s || has_prefix [115; 58] s || has_prefix [97; 58] s).
    + destruct (parse_strict s) eqn:P; try discriminate.
      * inversion H; subst. apply strict_accepts_iff_l. exact P.
      * destruct (has_prefix [115; 58] s); [|discriminate].
        destruct (index_byte 34 s); [|discriminate].
        destruct (index_byte 34 (rev s)); [|discriminate].
        destruct (Nat.leb _ _); [discriminate|].
        destruct (has_prefix origami_a _ || has_prefix origami_o _); discriminate.
    + destruct (has_prefix [115; 58] s); [|discriminate].
      destruct (index_byte 34 s); [|discriminate].
      destruct (index_byte 34 (rev s)); [|discriminate].
      destruct (Nat.leb _ _); [discriminate|].
      destruct (has_prefix origami_a _ || has_prefix origami_o _); discriminate.
  - intros H. destruct (ser_text_prefix _ _ H) as [Hp Hne].
    destruct s as [|c r] eqn:E; [congruence|]. rewrite <- E in *.
    rewrite Hp. apply strict_accepts_iff_l in H. rewrite H. reflexivity.
Qed.
