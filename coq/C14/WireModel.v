(* C14 (1) — protobuf wire codec: executable model of /repo/std/protowire/parser.go
   (ParseRawFields, parseFields, consumeFieldValue, consumeGroup, unpackPacked) and of the
   google.golang.org/protobuf/encoding/protowire primitives it delegates to (ConsumeVarint,
   ConsumeTag, ConsumeFixed32/64, ConsumeBytes, AppendVarint/Tag/Fixed32/Fixed64/Bytes).
   No proofs in this file. *)
From Coq Require Import List NArith ZArith Bool.
Import ListNotations.
Open Scope N_scope.

Definition bytes := list N.          (* every element < 256 on the Go side *)

(* ------------------------------------------------------------------ library primitives *)

(* protowire.ConsumeVarint: up to 10 bytes, little-endian base 128, continuation bit 0x80;
   the 10th byte may only be 0 or 1 (errCodeOverflow otherwise); input exhausted = errCodeTruncated.
   [k] = number of bytes that may still follow the current one. *)
Inductive vres := Val (v : N) (rest : bytes) | VTrunc | VOverflow.

Fixpoint dec (k : nat) (shift acc : N) (b : bytes) : vres :=
  match b with
  | [] => VTrunc
  | y :: r =>
    match k with
    | O => if y <? 2 then Val (acc + y * shift) r else VOverflow
    | S k' => if y <? 128 then Val (acc + y * shift) r
              else dec k' (shift * 128) (acc + (y - 128) * shift) r
    end
  end.
Definition consume_varint (b : bytes) : vres := dec 9 1 0 b.

(* protowire.ConsumeTag = ConsumeVarint + DecodeTag: number = v>>3 (rejected when 0 or above
   MaxInt32), type = v&7 *)
Inductive tres := Tag (num wt : N) (rest : bytes) | TErr.
Definition consume_tag (b : bytes) : tres :=
  match consume_varint b with
  | Val v r => let num := v / 8 in
               if (num <? 1) || (2147483647 <? num) then TErr else Tag num (v mod 8) r
  | _ => TErr
  end.

Fixpoint le_val (b : bytes) : N :=       (* little-endian value of a byte list *)
  match b with [] => 0 | y :: r => y + 256 * le_val r end.

Definition consume_fixed (n : nat) (b : bytes) : option (N * bytes) :=
  if Nat.ltb (length b) n then None else Some (le_val (firstn n b), skipn n b).
Definition consume_fixed32 := consume_fixed 4.
Definition consume_fixed64 := consume_fixed 8.

(* protowire.ConsumeBytes: varint length m, then m bytes; m > len(rest) = truncated.
   m is compared as a number BEFORE it is used as a length (m can be 2^64-1). *)
Definition consume_bytes (b : bytes) : option (bytes * bytes) :=
  match consume_varint b with
  | Val m r => if N.of_nat (length r) <? m then None
               else Some (firstn (N.to_nat m) r, skipn (N.to_nat m) r)
  | _ => None
  end.

(* protowire.AppendVarint (v < 2^64): at most 10 bytes *)
Fixpoint enc (fuel : nat) (v : N) : bytes :=
  match fuel with
  | O => [v]
  | S f => if v <? 128 then [v] else (v mod 128 + 128) :: enc f (v / 128)
  end.
Definition append_varint (v : N) : bytes := enc 9 v.
Definition append_tag (num wt : N) : bytes := append_varint (num * 8 + wt mod 8).
Fixpoint le_bytes (n : nat) (v : N) : bytes :=
  match n with O => [] | S k => (v mod 256) :: le_bytes k (v / 256) end.
Definition append_fixed32 (v : N) : bytes := le_bytes 4 v.
Definition append_fixed64 (v : N) : bytes := le_bytes 8 v.
Definition append_bytes (p : bytes) : bytes := append_varint (N.of_nat (length p)) ++ p.

(* ------------------------------------------------------------------ parser.go *)

(* Field{Number, WireType, Value}: the dynamic Go type of Value together with WireType is the
   constructor (uint64/uint32/[]byte/[]Field/[]uint64/[]uint32). *)
Inductive field :=
| FVarint  (num v : N)
| FFixed64 (num v : N)
| FFixed32 (num v : N)
| FBytes   (num : N) (p : bytes)
| FMsg     (num : N) (fs : list field)
| FPacked  (num : N) (et : N) (vs : list N)      (* et = element wire type: 0, 5 or 1 *)
| FGroup   (num : N) (fs : list field).

(* ParseOptions after ParseRawFields defaulted MaxDepth *)
Record opts := { o_msg : list N;              (* MessageFields[n] = true *)
                 o_packed : list N;           (* PackedFields[n] = true *)
                 o_pelem : list (N * N);      (* PackedElementType *)
                 o_max : N }.

Definition memN (n : N) (l : list N) : bool := existsb (N.eqb n) l.
Fixpoint lookupN (n : N) (l : list (N * N)) : option N :=
  match l with [] => None | (k, v) :: r => if k =? n then Some v else lookupN n r end.

Inductive perr := EMaxDepth | EInvalidTag | EInvalidVarint | EInvalidFixed64 | EInvalidFixed32
                | EInvalidLength | EUnexpectedEnd | EUnexpectedEndGroup | EOther.
Inductive res (A : Type) := Ok (a : A) | Err (e : perr) | OutOfFuel.
Arguments Ok {A} a. Arguments Err {A} e. Arguments OutOfFuel {A}.

(* unpackPacked: one loop per element type; fuel = one unit per loop iteration *)
Fixpoint unpack_varints (fuel : nat) (d : bytes) : res (list N) :=
  match d with
  | [] => Ok []
  | _ => match fuel with O => OutOfFuel | S f =>
         match consume_varint d with
         | Val v r => match unpack_varints f r with Ok l => Ok (v :: l) | e => e end
         | _ => Err EInvalidVarint
         end end
  end.
Fixpoint unpack_fixed (n : nat) (e : perr) (fuel : nat) (d : bytes) : res (list N) :=
  match d with
  | [] => Ok []
  | _ => match fuel with O => OutOfFuel | S f =>
         match consume_fixed n d with
         | Some (v, r) => match unpack_fixed n e f r with Ok l => Ok (v :: l) | x => x end
         | None => Err e
         end end
  end.
Definition unpack_packed (et : N) (d : bytes) : res (list N) :=
  match et with
  | 0 => unpack_varints (length d) d
  | 5 => unpack_fixed 4 EInvalidFixed32 (length d) d
  | 1 => unpack_fixed 8 EInvalidFixed64 (length d) d
  | _ => Err EOther                       (* "unsupported packed element wire type" *)
  end.

(* The three mutually recursive functions; every call (loop iteration or nested call) costs one
   unit of fuel.  [pf_loop] is the loop of parseFields, [cg_loop] the loop of consumeGroup; the
   entry tests `depth >= opts.MaxDepth` of parseFields / consumeGroup are at their call sites. *)
Fixpoint pf_loop (fuel : nat) (o : opts) (depth : N) (d : bytes) {struct fuel} : res (list field) :=
  match fuel with O => OutOfFuel | S f =>
  match d with
  | [] => Ok []
  | _ =>
    match consume_tag d with
    | TErr => Err EInvalidTag
    | Tag num wt r =>
      if wt =? 4 then Err EUnexpectedEndGroup
      else match consume_value f o depth num wt r with
           | Ok (fld, r') =>
             match pf_loop f o depth r' with Ok fs => Ok (fld :: fs) | e => e end
           | Err e => Err e
           | OutOfFuel => OutOfFuel
           end
    end
  end end
with consume_value (fuel : nat) (o : opts) (depth : N) (num wt : N) (d : bytes) {struct fuel}
  : res (field * bytes) :=
  match fuel with O => OutOfFuel | S f =>
  match wt with
  | 0 => match consume_varint d with
         | Val v r => Ok (FVarint num v, r)
         | _ => Err EInvalidVarint end
  | 1 => match consume_fixed64 d with
         | Some (v, r) => Ok (FFixed64 num v, r)
         | None => Err EInvalidFixed64 end
  | 2 => match consume_bytes d with
         | None => Err EInvalidLength
         | Some (payload, r) =>
           if memN num (o_packed o) then
             match lookupN num (o_pelem o) with
             | None => Err EOther                 (* PackedElementType not configured *)
             | Some et => match unpack_packed et payload with
                          | Ok vs => Ok (FPacked num et vs, r)
                          | Err e => Err e
                          | OutOfFuel => OutOfFuel end
             end
           else if memN num (o_msg o) then
             (* parseFields(payload, opts, depth+1) *)
             if o_max o <=? depth + 1 then Err EMaxDepth
             else match pf_loop f o (depth + 1) payload with
                  | Ok fs => Ok (FMsg num fs, r)
                  | Err e => Err e
                  | OutOfFuel => OutOfFuel end
           else Ok (FBytes num payload, r)
         end
  | 3 => (* consumeGroup(data, num, opts, depth+1) *)
         if o_max o <=? depth + 1 then Err EMaxDepth
         else match cg_loop f o (depth + 1) num d with
              | Ok (fs, r) => Ok (FGroup num fs, r)
              | Err e => Err e
              | OutOfFuel => OutOfFuel end
  | 4 => Err EUnexpectedEndGroup
  | 5 => match consume_fixed32 d with
         | Some (v, r) => Ok (FFixed32 num v, r)
         | None => Err EInvalidFixed32 end
  | _ => Err EOther                               (* unsupported wire type 6, 7 *)
  end end
with cg_loop (fuel : nat) (o : opts) (depth : N) (gnum : N) (d : bytes) {struct fuel}
  : res (list field * bytes) :=
  match fuel with O => OutOfFuel | S f =>
  match d with
  | [] => Err EUnexpectedEnd
  | _ =>
    match consume_tag d with
    | TErr => Err EInvalidTag
    | Tag num wt r =>
      if wt =? 4 then
        if num =? gnum then Ok ([], r) else Err EOther   (* mismatched end group tag number *)
      else match consume_value f o depth num wt r with
           | Ok (fld, r') =>
             match cg_loop f o depth gnum r' with
             | Ok (fs, r'') => Ok (fld :: fs, r'')
             | e => e end
           | Err e => Err e
           | OutOfFuel => OutOfFuel
           end
    end
  end end.

Definition fuel_for (d : bytes) : nat := 2 * length d + 1.

(* parseFields(data, opts, depth) *)
Definition parse_fields (o : opts) (depth : N) (d : bytes) : res (list field) :=
  if o_max o <=? depth then Err EMaxDepth else pf_loop (fuel_for d) o depth d.

(* ParseRawFields: MaxDepth <= 0 becomes 64 *)
Definition parse_raw (msg packed : list N) (pelem : list (N * N)) (maxdepth : Z) (d : bytes)
  : res (list field) :=
  let mx := if (maxdepth <=? 0)%Z then 64 else Z.to_N maxdepth in
  parse_fields {| o_msg := msg; o_packed := packed; o_pelem := pelem; o_max := mx |} 0 d.

(* ------------------------------------------------------------------ serialize_method.go: the encoder *)
(* encodeFieldPlans / encodeFieldValue / encodeLengthDelimited / encodePacked / encodeGroupContent over
   field plans whose PHP values are already converted (toUint64 incl. zigzag, Float64bits / Float32bits
   for the "double" / "float" hints, AsString): a plan is (number, wire type, converted value). *)
Inductive plan :=
| PlScalar  (num wt v : N)                 (* wire type 0, 1 or 5 with its uint64 *)
| PlString  (num : N) (s : bytes)          (* wire type 2, string / bytes *)
| PlMessage (num : N) (ps : list plan)     (* wire type 2, encoding "message", value is an object *)
| PlPacked  (num : N) (vs : list N)        (* wire type 2, encoding "packed": always varints *)
| PlGroup   (num : N) (ps : list plan)     (* wire type 3: content, then the end-group tag *)
| PlOther   (num wt : N).                  (* any other wire type: "unsupported wire type" *)

Definition opt_app (a : option bytes) (b : option bytes) : option bytes :=
  match a, b with Some x, Some y => Some (x ++ y) | _, _ => None end.

Fixpoint enc_plan (p : plan) : option bytes :=
  let enc_plans := fix go (ps : list plan) : option bytes :=
    match ps with [] => Some [] | q :: r => opt_app (enc_plan q) (go r) end in
  match p with
  | PlScalar num wt v =>
      match wt with
      | 0 => Some (append_tag num 0 ++ append_varint v)
      | 1 => Some (append_tag num 1 ++ append_fixed64 v)
      | 5 => Some (append_tag num 5 ++ append_fixed32 (v mod 2 ^ 32))      (* uint32(n) *)
      | _ => None
      end
  | PlString num s => Some (append_tag num 2 ++ append_bytes s)
  | PlMessage num ps => match enc_plans ps with
                        | Some inner => Some (append_tag num 2 ++ append_bytes inner) | None => None end
  | PlPacked num vs => Some (append_tag num 2 ++ append_bytes (flat_map append_varint vs))
  | PlGroup num ps => match enc_plans ps with
                      | Some inner => Some (append_tag num 3 ++ inner ++ append_tag num 4) | None => None end
  | PlOther _ _ => None
  end.
Fixpoint enc_plans (ps : list plan) : option bytes :=
  match ps with [] => Some [] | q :: r => opt_app (enc_plan q) (enc_plans r) end.
