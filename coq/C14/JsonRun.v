(* C14 (4) — correspondence for json_encode / json_decode at the tree level.  The JSON text the
   implementation produced / was given is parsed into a jtree by the driver (number tokens keep
   their spelling class, exact integer value and nearest double); objects are compared without
   regard to key order (the implementation iterates a Go map). *)
From Coq Require Import List NArith ZArith Bool.
From V.C14 Require Import JsonModel JsonSpec.
Import ListNotations.
Open Scope N_scope.

Fixpoint lookup {A} (k : bytes) (l : list (bytes * A)) : option A :=
  match l with [] => None | (k', v) :: r => if bytes_eqb k k' then Some v else lookup k r end.

Definition list_eqb {A} (e : A -> A -> bool) : list A -> list A -> bool :=
  fix go (a b : list A) : bool :=
    match a, b with
    | [], [] => true
    | x :: a', y :: b' => e x y && go a' b'
    | _, _ => false
    end.

(* equality of values up to the order of object / keyed-array entries *)
Fixpoint pval_eqb (a b : pval) {struct a} : bool :=
  match a, b with
  | PNull, PNull => true
  | PBool x, PBool y => Bool.eqb x y
  | PInt x, PInt y => (x =? y)%Z
  | PFloat x, PFloat y => x =? y
  | PStr x, PStr y => bytes_eqb x y
  | PList x, PList y => list_eqb pval_eqb x y
  | PArr [], PList [] | PList [], PArr [] => true     (* an empty keyed array is an empty ArrayValue *)
  | PMap x, PMap y | PArr x, PArr y =>
      Nat.eqb (length x) (length y) &&
      forallb (fun kv => match lookup (fst kv) y with Some v' => pval_eqb (snd kv) v' | None => false end) x
  | _, _ => false
  end.
Definition opval_eqb (a b : option pval) : bool :=
  match a, b with Some x, Some y => pval_eqb x y | None, None => true | _, _ => false end.

(* equality of trees; the float reading of an integer token is not compared (the encoder model
   does not produce it) *)
Fixpoint jtree_eqb (a b : jtree) {struct a} : bool :=
  match a, b with
  | JNull, JNull => true
  | JBool x, JBool y => Bool.eqb x y
  | JNum true z _, JNum true z' _ => (z =? z')%Z
  | JNum false _ x, JNum false _ y => x =? y
  | JStr x, JStr y => bytes_eqb x y
  | JArr x, JArr y => list_eqb jtree_eqb x y
  | JObj x, JObj y => list_eqb (fun p q => bytes_eqb (fst p) (fst q) && jtree_eqb (snd p) (snd q)) x y
  | _, _ => false
  end.
Definition ojtree_eqb (a b : option jtree) : bool :=
  match a, b with Some x, Some y => jtree_eqb x y | None, None => true | _, _ => false end.

(* encode case: the value, the tree of the text json_encode returned (None = it returned false),
   and what json_decode made of that text in both modes (None = NULL) *)
Record jecase := { je_v : pval; je_tree : option jtree; je_back : option pval; je_back_assoc : option pval }.
(* failing clauses:
   1 model json_encode <> implementation (tree of its output / false)
   2 model json_decode(default) of that tree <> implementation      3 same, assoc mode
   4 the reference reader does not read the implementation's output back as the value, or the
     implementation refuses (false) an encodable value / encodes a value that has no encoding
                                                                    [encoder faithful]
   5 default-mode decode of it <> the value                         [decoder inverts encoder]
   6 assoc-mode decode of it <> the value *)
Definition null_as_none (o : option pval) : option pval :=
  match o with Some PNull => None | x => x end.
Definition check_jenc (c : jecase) : list nat :=
  let ib := fun _ : Z => 0 in
  (if ojtree_eqb (json_encode ib (je_v c)) (je_tree c) then [] else [1%nat]) ++
  (match je_tree c with
   | None => if encodable (je_v c) then [4%nat] else []
   | Some t => if encodable (je_v c) && pval_eqb (spec_of_json false t) (view false (je_v c))
                  && pval_eqb (spec_of_json true t) (view true (je_v c)) then [] else [4%nat]
   end) ++
  match je_tree c with
  | None => []
  | Some t =>
    (if opval_eqb (null_as_none (json_decode false 512 t)) (null_as_none (je_back c)) then [] else [2%nat]) ++
    (if opval_eqb (null_as_none (json_decode true 512 t)) (null_as_none (je_back_assoc c)) then [] else [3%nat]) ++
    (if opval_eqb (null_as_none (je_back c)) (null_as_none (Some (view false (je_v c)))) then [] else [5%nat]) ++
    (if opval_eqb (null_as_none (je_back_assoc c)) (null_as_none (Some (view true (je_v c)))) then [] else [6%nat])
  end.

(* decode case: the tree of a well-formed input text, the mode, the depth argument, the result *)
Record jdcase := { jd_tree : jtree; jd_assoc : bool; jd_depth : Z; jd_obs : option pval }.
(* 1 model <> implementation      2 reference reading <> implementation *)
Definition check_jdec (c : jdcase) : list nat :=
  (if opval_eqb (null_as_none (json_decode (jd_assoc c) (jd_depth c) (jd_tree c))) (null_as_none (jd_obs c)) then [] else [1%nat]) ++
  (if opval_eqb (null_as_none (spec_decode (jd_assoc c) (jd_depth c) (jd_tree c))) (null_as_none (jd_obs c)) then [] else [2%nat]).
