(* C14 — exhaustive short-input correspondence with compact transport.  The inputs (every 1-byte
   and 2-byte string whose first byte lies in [lo, hi)) are enumerated inside Coq; what the
   implementation returned on them arrives as one byte stream of length-prefixed observation
   codes, in enumeration order.  [exh_check f lo hi stream] = indexes (in enumeration order) of
   the inputs on which the model's observation code [f input] differs.  Not used by any theorem. *)
From Coq Require Import List NArith Bool.
Import ListNotations.
Open Scope N_scope.

Definition bytes_eqb : list N -> list N -> bool :=
  fix go (a b : list N) : bool :=
    match a, b with
    | [], [] => true
    | x :: a', y :: b' => (x =? y) && go a' b'
    | _, _ => false
    end.

Fixpoint range_from (n : nat) (a : N) : list N :=
  match n with O => [] | S k => a :: range_from k (a + 1) end.
Definition all_bytes : list N := range_from 256 0.

(* enumeration order: for a = lo .. hi-1: [a], then [a;0] .. [a;255] *)
Definition exh_inputs (lo hi : N) : list (list N) :=
  flat_map (fun a => [a] :: map (fun b => [a; b]) all_bytes) (range_from (N.to_nat (hi - lo)) lo).

(* codes are prefixed by a 2-byte little-endian length *)
Fixpoint split_at (n : nat) (l : list N) : option (list N * list N) :=
  match n with
  | O => Some ([], l)
  | S k => match l with
           | [] => None
           | x :: r => match split_at k r with Some (a, b) => Some (x :: a, b) | None => None end
           end
  end.
Definition take_code (s : list N) : option (list N * list N) :=
  match s with
  | l0 :: l1 :: r => split_at (N.to_nat (l0 + 256 * l1)) r
  | _ => None
  end.

Fixpoint exh_go (f : list N -> list N) (inputs : list (list N)) (idx : nat) (s : list N)
                (acc : list nat) : list nat :=
  match inputs with
  | [] => rev acc
  | i :: r => match take_code s with
              | None => rev (idx :: acc)
              | Some (c, s') => exh_go f r (S idx) s' (if bytes_eqb (f i) c then acc else idx :: acc)
              end
  end.
Definition exh_check (f : list N -> list N) (lo hi : N) (stream : list N) : list nat :=
  exh_go f (exh_inputs lo hi) 0 stream [].
