(* C14 (1) — correspondence for the wire codec: one case = options, input bytes, what
   ParseRawFields returned, what the google-protowire reference walker said, and (for inputs
   built from a tree by the generator's own encoder) that tree. *)
From Coq Require Import List NArith ZArith Bool.
From V.C14 Require Import Exh WireModel WireSpec.
Import ListNotations.
Open Scope N_scope.

Definition list_eqb {A} (e : A -> A -> bool) : list A -> list A -> bool :=
  fix go (a b : list A) : bool :=
    match a, b with
    | [], [] => true
    | x :: a', y :: b' => e x y && go a' b'
    | _, _ => false
    end.

Fixpoint field_eqb (a b : field) {struct a} : bool :=
  match a, b with
  | FVarint n v, FVarint n' v' => (n =? n') && (v =? v')
  | FFixed64 n v, FFixed64 n' v' => (n =? n') && (v =? v')
  | FFixed32 n v, FFixed32 n' v' => (n =? n') && (v =? v')
  | FBytes n p, FBytes n' p' => (n =? n') && list_eqb N.eqb p p'
  | FMsg n fs, FMsg n' fs' => (n =? n') && list_eqb field_eqb fs fs'
  | FPacked n et vs, FPacked n' et' vs' => (n =? n') && (et =? et') && list_eqb N.eqb vs vs'
  | FGroup n fs, FGroup n' fs' => (n =? n') && list_eqb field_eqb fs fs'
  | _, _ => false
  end.

(* implementation outcome: fields, or error class (errors.Is on the exported sentinels):
   1 maxdepth 2 tag 3 varint 4 fixed64 5 fixed32 6 length 7 unexpected end 8 end group 9 other *)
Inductive wobs := WOk (fs : list field) | WErr (cls : N).
Definition err_code (e : perr) : N :=
  match e with EMaxDepth => 1 | EInvalidTag => 2 | EInvalidVarint => 3 | EInvalidFixed64 => 4
             | EInvalidFixed32 => 5 | EInvalidLength => 6 | EUnexpectedEnd => 7
             | EUnexpectedEndGroup => 8 | EOther => 9 end.
Definition res_obs_eqb (r : res (list field)) (o : wobs) : bool :=
  match r, o with
  | Ok fs, WOk fs' => list_eqb field_eqb fs fs'
  | Err e, WErr c => err_code e =? c
  | _, _ => false
  end.

Record wcase := { w_msg : list N; w_packed : list N; w_pelem : list (N * N); w_max : Z;
                  w_data : bytes; w_obs : wobs;
                  w_ref : N;                       (* reference walker: 0 ok, 1 maxdepth, 2 bad *)
                  w_tree : option (list field) }.  (* generator's tree, when data = its encoding *)

Definition eff_opts (c : wcase) : opts :=
  {| o_msg := w_msg c; o_packed := w_packed c; o_pelem := w_pelem c;
     o_max := if (w_max c <=? 0)%Z then 64 else Z.to_N (w_max c) |}.
Definition big_opts (c : wcase) : opts :=
  {| o_msg := w_msg c; o_packed := w_packed c; o_pelem := w_pelem c; o_max := 1000000 |}.

(* failing clauses:
   1 model <> implementation (by accepts_iff_wellformed this is also: implementation <> grammar)
   2 implementation accepts <> reference walker accepts
   3 the input is the canonical encoding of an encodable tree within the depth limit, and the
     implementation did not return that tree (decoder does not invert the encoder)
   4 generator's bytes <> Spec encoder's bytes for the tree (harness/spec consistency)
   5 accepted tree nests deeper than MaxDepth
   6 the tree is encodable but deeper than MaxDepth and the implementation did not answer maxdepth *)
Definition check_wire (c : wcase) : list nat :=
  let o := eff_opts c in
  let r := parse_raw (w_msg c) (w_packed c) (w_pelem c) (w_max c) (w_data c) in
  (if res_obs_eqb r (w_obs c) then [] else [1%nat]) ++
  (match w_obs c with
   | WOk _ => if w_ref c =? 0 then [] else [2%nat]
   | WErr _ => if w_ref c =? 0 then [2%nat] else [] end) ++
  (match w_tree c with
   | None => []
   | Some t =>
     (if list_eqb N.eqb (encode_fields t) (w_data c) then [] else [4%nat]) ++
     (if wf_fields o t then
        match w_obs c with WOk fs => if list_eqb field_eqb fs t then [] else [3%nat] | _ => [3%nat] end
      else if wf_fields (big_opts c) t then
        match w_obs c with WErr 1 => [] | _ => [6%nat] end
      else [])
   end) ++
  (match w_obs c with
   | WOk fs => if nest fs + 1 <=? o_max o then [] else [5%nat]
   | _ => [] end).

(* primitive encoders: op 0 varint, 1 tag (v = number, w = type), 2 fixed32, 3 fixed64, 4 bytes *)
Record pcase := { p_op : N; p_v : N; p_w : N; p_payload : bytes;
                  p_out : option bytes;            (* Protowire::encodeXxx result *)
                  p_ref : bytes }.                 (* google protowire Append* *)
Definition model_prim (c : pcase) : bytes :=
  match p_op c with
  | 0 => append_varint (p_v c)
  | 1 => append_tag (p_v c) (p_w c)
  | 2 => append_fixed32 (p_v c mod 2 ^ 32)
  | 3 => append_fixed64 (p_v c)
  | _ => append_bytes (p_payload c)
  end.
(* the decoder reads the encoder's output back (spec: decoder inverts encoder) *)
Definition prim_reads_back (c : pcase) (out : bytes) : bool :=
  match p_op c with
  | 0 => match consume_varint out with Val v [] => v =? p_v c | _ => false end
  | 1 => match consume_tag out with
         | Tag n w [] => (n =? p_v c) && (w =? p_w c mod 8)
         | _ => negb ((1 <=? p_v c) && (p_v c <=? 2147483647)) end
  | 2 => match consume_fixed32 out with Some (v, []) => v =? p_v c mod 2 ^ 32 | _ => false end
  | 3 => match consume_fixed64 out with Some (v, []) => v =? p_v c | _ => false end
  | _ => match consume_bytes out with Some (p, []) => bytes_eqb p (p_payload c) | _ => false end
  end.
Definition check_prim (c : pcase) : list nat :=
  match p_out c with
  | None => [1%nat]
  | Some out =>
    (if bytes_eqb (model_prim c) out then [] else [1%nat]) ++
    (if bytes_eqb (p_ref c) out then [] else [2%nat]) ++
    (if prim_reads_back c out then [] else [3%nat])
  end.

(* ------------------------------------------------------------------ observation codes (Exh.v) *)
Definition le2 (n : nat) : bytes := le_bytes 2 (N.of_nat n).
Fixpoint code_field (f : field) : bytes :=
  match f with
  | FVarint n v => [1] ++ le_bytes 4 n ++ le_bytes 8 v
  | FFixed64 n v => [2] ++ le_bytes 4 n ++ le_bytes 8 v
  | FFixed32 n v => [3] ++ le_bytes 4 n ++ le_bytes 8 v
  | FBytes n p => [4] ++ le_bytes 4 n ++ le2 (length p) ++ p
  | FMsg n fs => [5] ++ le_bytes 4 n ++ le2 (length fs) ++ flat_map code_field fs
  | FPacked n et vs => [6] ++ le_bytes 4 n ++ [et] ++ le2 (length vs) ++ flat_map (le_bytes 8) vs
  | FGroup n fs => [7] ++ le_bytes 4 n ++ le2 (length fs) ++ flat_map code_field fs
  end.
Definition wire_code (r : res (list field)) : bytes :=
  match r with
  | Ok fs => [0] ++ le2 (length fs) ++ flat_map code_field fs
  | Err e => [err_code e]
  | OutOfFuel => [255]
  end.
Definition wire_exh (msg packed : list N) (pelem : list (N * N)) (maxdepth : Z) (lo hi : N)
                    (stream : bytes) : list nat :=
  exh_check (fun d => wire_code (parse_raw msg packed pelem maxdepth d)) lo hi stream.

(* Protowire::serialize of an annotated object: the plans the object gives and what came out *)
Record plcase := { pl_plans : list plan; pl_out : option bytes }.
Definition check_plans (c : plcase) : list nat :=
  match enc_plans (pl_plans c), pl_out c with
  | Some a, Some b => if bytes_eqb a b then [] else [1%nat]
  | None, None => []
  | _, _ => [1%nat]
  end.
